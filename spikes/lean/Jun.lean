namespace Jun
def ENCODING : List (List Nat) := [[1,4,32],[1,16,32],[1,8,32],[1,64],[1,32],[1,4,16,128],[1,32,64]]

/-- `_gap_encode` gap list: for mod in reversed(enc): gaps.insert(0, ord // mod); ord %= mod -/
def gapsOf (v : Nat) (enc : List Nat) : List Nat :=
  (enc.reverse.foldl (fun (acc : List Nat × Nat) m => ((acc.2 / m) :: acc.1, acc.2 % m)) ([], v)).1

def recompose (gaps enc : List Nat) : Nat := ((gaps.zip enc).map (fun p => p.1 * p.2)).sum

/-- encode one gap relative to previous index, and decode it back (`_gap`) -/
def stepIdx (prev gap : Nat) : Nat := (gap + prev + 1) % 65
def gapBack (c1 c2 : Nat) : Int := ((c2 : Int) - c1 + 65) % 65 - 1

def rowOK (enc : List Nat) : Bool :=
  (List.range 256).all fun v =>
    let g := gapsOf v enc
    g.length == enc.length && g.all (· ≤ 63) && recompose g enc % 256 == v

theorem rows_ok : ENCODING.all rowOK = true := by decide +kernel

theorem gap_roundtrip (prev gap : Nat) (hp : prev < 65) (hg : gap ≤ 63) :
    gapBack prev (stepIdx prev gap) = gap := by
  unfold gapBack stepIdx; omega
#print axioms rows_ok
#print axioms gap_roundtrip
end Jun
