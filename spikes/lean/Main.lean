import Nc.Md5
def main : IO Unit := do
  IO.println (Md5.md5hex "")
  IO.println (Md5.md5hex "The quick brown fox jumps over the lazy dog")
  let mut acc := 0
  for i in [0:200000] do
    let d := Md5.digest (s!"saltForTest{i}").toUTF8
    acc := acc + (d.get! 15).toNat
  IO.println acc
