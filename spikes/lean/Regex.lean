/-! Spike: Python-`re`-style backtracking matcher over a zipper. -/
namespace Rx

inductive Cls where
  | lit (c : Char) | range (lo hi : Char) | digit | notDigit | space | notSpace | word
  deriving Repr, Inhabited

inductive Re where
  | chr (pos : Bool) (items : List Cls)     -- pos=false ⇒ negated set; `lit c` = chr true [lit c]
  | any                                      -- `.` : anything but '\n'
  | bol | eol
  | seq (rs : List Re)
  | alt (rs : List Re)
  | rep (min : Nat) (max : Option Nat) (greedy : Bool) (r : Re)
  | grp (idx : Nat) (r : Re)
  | look (ahead : Bool) (neg : Bool) (width : Nat) (r : Re)
  deriving Repr, Inhabited

structure Z where
  left : List Char    -- consumed, reversed
  right : List Char
  deriving Repr

abbrev Caps := List (Nat × (List Char))  -- group idx ↦ matched text (latest first)

def isDigit (c : Char) : Bool := c.isDigit   -- placeholder: real model uses generated Unicode tables
def isSpace (c : Char) : Bool := c.isWhitespace
def isWord (c : Char) : Bool := c.isAlphanum || c == '_'

def Cls.test (ci : Bool) (c : Char) : Cls → Bool
  | .lit d => if ci then c.toLower == d.toLower else c == d
  | .range lo hi => (lo ≤ c && c ≤ hi) || (ci && ((lo ≤ c.toLower && c.toLower ≤ hi) || (lo ≤ c.toUpper && c.toUpper ≤ hi)))
  | .digit => isDigit c | .notDigit => !isDigit c
  | .space => isSpace c | .notSpace => !isSpace c
  | .word => isWord c

abbrev K := Z → Caps → Option (Z × Caps)

mutual
def m (ci : Bool) (fuel : Nat) : Re → K → K
  | .chr pos items, k, z, cs =>
    match z.right with
    | [] => none
    | c :: rest => if (items.any (Cls.test ci c)) == pos then k ⟨c :: z.left, rest⟩ cs else none
  | .any, k, z, cs =>
    match z.right with
    | [] => none
    | c :: rest => if c != '\n' then k ⟨c :: z.left, rest⟩ cs else none
  | .bol, k, z, cs => if z.left.isEmpty then k z cs else none
  | .eol, k, z, cs => if z.right.isEmpty || z.right == ['\n'] then k z cs else none
  | .seq rs, k, z, cs => mSeq ci fuel rs k z cs
  | .alt rs, k, z, cs => mAlt ci fuel rs k z cs
  | .grp idx r, k, z, cs =>
    m ci fuel r (fun z' cs' => k z' ((idx, (z'.left.take (z'.left.length - z.left.length)).reverse) :: cs')) z cs
  | .look ahead neg width r, k, z, cs =>
    let z0 : Option Z :=
      if ahead then some z
      else if z.left.length < width then none
      else some ⟨z.left.drop width, (z.left.take width).reverse ++ z.right⟩
    match z0 with
    | none => if neg then k z cs else none
    | some z0 =>
      let res := m ci fuel r (fun z' cs' => if ahead || z'.left.length == z.left.length then some (z', cs') else none) z0 cs
      match res, neg with
      | some (_, cs'), false => k z cs'
      | none, true => k z cs
      | _, _ => none
  | .rep mn mx greedy r, k, z, cs =>
    match fuel with
    | 0 => none
    | fuel' + 1 =>
      let stop : Unit → Option (Z × Caps) := fun _ => if mn == 0 then k z cs else none
      let canMore := match mx with | some 0 => false | _ => true
      let more : Unit → Option (Z × Caps) := fun _ =>
        if !canMore then none else
        m ci fuel' r (fun z' cs' =>
          -- python: an empty iteration once the minimum is reached ends the loop
          if mn == 0 && z'.right.length == z.right.length then none
          else m ci fuel' (.rep (mn - 1) (mx.map (· - 1)) greedy r) k z' cs') z cs
      if greedy then (more ()).orElse stop else (stop ()).orElse more
def mSeq (ci : Bool) (fuel : Nat) : List Re → K → K
  | [], k, z, cs => k z cs
  | r :: rs, k, z, cs => m ci fuel r (mSeq ci fuel rs k) z cs
def mAlt (ci : Bool) (fuel : Nat) : List Re → K → K
  | [], _, _, _ => none
  | r :: rs, k, z, cs => (m ci fuel r k z cs).orElse (fun _ => mAlt ci fuel rs k z cs)
end

/-- try to match `r` at zipper position; returns matched text, rest and captures -/
def matchAt (ci : Bool) (r : Re) (z : Z) : Option (List Char × Z × Caps) :=
  match m ci (z.right.length + 2) r (fun z' cs => some (z', cs)) z [] with
  | none => none
  | some (z', cs) => some ((z'.left.take (z'.left.length - z.left.length)).reverse, z', cs)

/-- `re.sub` with a function replacement; python semantics incl. empty matches -/
def subAux (ci : Bool) (r : Re) (f : List Char → Caps → List Char) : Nat → Z → Bool → List Char → List Char
  | 0, z, _, acc => acc.reverse ++ z.right
  | fuel + 1, z, prevEmptyOk, acc =>
    match matchAt ci r z with
    | some (mt, z', cs) =>
      if mt.isEmpty then
        -- empty match: emit replacement (python ≥3.7 allows empty match adjacent to previous), then advance one char
        match z.right with
        | [] => (acc.reverse ++ f mt cs)
        | c :: rest => subAux ci r f fuel ⟨c :: z.left, rest⟩ true (c :: (f mt cs).reverse ++ acc)
      else subAux ci r f fuel z' true ((f mt cs).reverse ++ acc)
    | none =>
      match z.right with
      | [] => acc.reverse
      | c :: rest => subAux ci r f fuel ⟨c :: z.left, rest⟩ true (c :: acc)

def sub (ci : Bool) (r : Re) (f : List Char → Caps → List Char) (s : String) : String :=
  String.ofList (subAux ci r f (s.length + 1) ⟨[], s.toList⟩ true [])

end Rx
