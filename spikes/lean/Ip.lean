/-! Spike: prefix-preserving map on bit lists -/
namespace Ip

abbrev Bits := List Bool

/-- flip function: `g pre` is the bit XORed into the bit following prefix `pre`. -/
def anonFrom (g : Bits → Bool) (pre : Bits) : Bits → Bits
  | [] => []
  | x :: xs => (x ^^ g pre) :: anonFrom g (pre ++ [x]) xs

def anon (g : Bits → Bool) (bs : Bits) : Bits := anonFrom g [] bs

def deanonFrom (g : Bits → Bool) (pre : Bits) : Bits → Bits
  | [] => []
  | y :: ys => let x := (y ^^ g pre); x :: deanonFrom g (pre ++ [x]) ys

/-- common prefix length -/
def cpl : Bits → Bits → Nat
  | x :: xs, y :: ys => if x = y then cpl xs ys + 1 else 0
  | _, _ => 0

theorem anonFrom_length (g) (pre bs) : (anonFrom g pre bs).length = bs.length := by
  induction bs generalizing pre with
  | nil => rfl
  | cons x xs ih => simp [anonFrom, ih]

theorem cpl_anonFrom (g) (pre a b : Bits) :
    cpl (anonFrom g pre a) (anonFrom g pre b) = cpl a b := by
  induction a generalizing pre b with
  | nil => cases b <;> simp [anonFrom, cpl]
  | cons x xs ih =>
    cases b with
    | nil => simp [anonFrom, cpl]
    | cons y ys =>
      simp only [anonFrom, cpl]
      by_cases h : x = y
      · subst h; simp [ih]
      · have : (x ^^ g pre) ≠ (y ^^ g pre) := by
          cases x <;> cases y <;> cases g pre <;> simp_all
        simp [h, this]

theorem deanon_anon (g) (pre a : Bits) : deanonFrom g pre (anonFrom g pre a) = a := by
  induction a generalizing pre with
  | nil => rfl
  | cons x xs ih => simp [anonFrom, deanonFrom, ih]

theorem anon_deanon (g) (pre a : Bits) : anonFrom g pre (deanonFrom g pre a) = a := by
  induction a generalizing pre with
  | nil => rfl
  | cons x xs ih => simp [anonFrom, deanonFrom, ih]

end Ip
