namespace Rx3
inductive Re where
  | chr (lo hi : Nat)        -- code point range, enough for the test
  | eps | fail | bol | eol
  | seq (a b : Re) | alt (a b : Re)
  | rep (min : Nat) (max : Option Nat) (greedy : Bool) (r : Re)
  | grp (idx : Nat) (r : Re)
structure Z where (left right : List Nat)
inductive Res where | some (z : Z) | none | oof
abbrev K := Z → Res
def Res.orElse : Res → (Unit → Res) → Res
  | .none, f => f () | r, _ => r
/-- structural on fuel: every call decrements -/
def m : Nat → Re → K → K
  | 0, _, _, _ => .oof
  | f+1, .chr lo hi, k, z => match z.right with
      | [] => .none | c :: rest => if lo ≤ c && c ≤ hi then k ⟨c :: z.left, rest⟩ else .none
  | _+1, .eps, k, z => k z
  | _+1, .fail, _, _ => .none
  | _+1, .bol, k, z => if z.left.isEmpty then k z else .none
  | _+1, .eol, k, z => if z.right.isEmpty then k z else .none
  | f+1, .seq a b, k, z => m f a (m f b k) z
  | f+1, .alt a b, k, z => (m f a k z).orElse fun _ => m f b k z
  | f+1, .grp _ r, k, z => m f r k z
  | f+1, .rep mn mx g r, k, z =>
      let stop := fun (_ : Unit) => if mn == 0 then k z else .none
      let more := fun (_ : Unit) => if mx == some 0 then Res.none else
        m f r (fun z' => if mn == 0 && z'.right.length == z.right.length then .none
                         else m f (.rep (mn-1) (mx.map (·-1)) g r) k z') z
      if g then (more ()).orElse stop else (stop ()).orElse more
def digit := Re.chr 48 57
def dot := Re.chr 46 46
def oct := Re.rep 1 (some 3) true digit
def ip := Re.seq oct (Re.seq dot (Re.seq oct (Re.seq dot (Re.seq oct (Re.seq dot oct)))))
def matchLen (r : Re) (s : List Nat) : Option Nat :=
  match m (s.length + 40) r (fun z => .some z) ⟨[], s⟩ with
  | .some z => some z.left.length | _ => none
example : matchLen ip [49,46,50,46,51,46,52,53,32,120] = some 8 := by decide +kernel
example : matchLen ip [49,46,50,46,51,120] = none := by decide +kernel
end Rx3
