import Nc.Pats
open Rx
def demo (s : String) : List Char := subAux false ipv4 (fun m _ => ['<'] ++ m ++ ['>']) (s.length + 1) ⟨[], s.toList⟩ true []
example : demo "ip 1.2.3.4/24 x" = "ip <1.2.3.4>/24 x".toList := by decide +kernel
example : demo "ip 1.2.3.256 x" = "ip 1.2.3.256 x".toList := by decide +kernel
