import Std.Tactic.BVDecide
def isMask (x : BitVec 32) : Bool :=
  let diff := (x ^^^ (x >>> 1)) &&& 0x7FFFFFFF#32
  (diff &&& ((0xFFFFFFFF#32 ^^^ diff) + 1)) == diff

/-- spec: x is ones-then-zeros or zeros-then-ones  -/
def onesThenZeros (k : Nat) : BitVec 32 := (BitVec.allOnes 32) <<< (32 - k)
def isMaskSpec (x : BitVec 32) : Bool :=
  (List.range 33).any (fun k => x == onesThenZeros k || x == ~~~ (onesThenZeros k))

theorem isMask_iff (x : BitVec 32) : isMask x = isMaskSpec x := by
  unfold isMask isMaskSpec onesThenZeros
  simp only [List.range, List.range.loop, List.any]
  bv_decide
#print axioms isMask_iff
