namespace Rx2

inductive Re where
  | chr (p : Char → Bool)
  | eps | fail
  | bol | eol
  | seq (a b : Re)
  | alt (a b : Re)
  | rep (min : Nat) (max : Option Nat) (greedy : Bool) (r : Re)
  | grp (idx : Nat) (r : Re)
  | look (ahead : Bool) (neg : Bool) (width : Nat) (r : Re)

structure Z where
  left : List Char
  right : List Char

abbrev Caps := List (Nat × (List Char))
abbrev Res := Option (Z × Caps)
abbrev K := Z → Caps → Res

def stepBack (z : Z) (w : Nat) : Option Z :=
  if z.left.length < w then none else some ⟨z.left.drop w, (z.left.take w).reverse ++ z.right⟩

def m : Nat → Re → K → K
  | _, .chr p, k, z, cs =>
    match z.right with
    | [] => none
    | c :: rest => if p c then k ⟨c :: z.left, rest⟩ cs else none
  | _, .eps, k, z, cs => k z cs
  | _, .fail, _, _, _ => none
  | _, .bol, k, z, cs => if z.left.isEmpty then k z cs else none
  | _, .eol, k, z, cs => if z.right.isEmpty || z.right == ['\n'] then k z cs else none
  | fuel, .seq a b, k, z, cs => m fuel a (m fuel b k) z cs
  | fuel, .alt a b, k, z, cs => (m fuel a k z cs).orElse (fun _ => m fuel b k z cs)
  | fuel, .grp idx r, k, z, cs =>
    m fuel r (fun z' cs' => k z' ((idx, (z'.left.take (z'.left.length - z.left.length)).reverse) :: cs')) z cs
  | fuel, .look ahead neg width r, k, z, cs =>
    let z0 : Option Z := if ahead then some z else stepBack z width
    match z0 with
    | none => if neg then k z cs else none
    | some z0 =>
      let res := m fuel r (fun z' cs' => if ahead || z'.left.length == z.left.length then some (z', cs') else none) z0 cs
      match res, neg with
      | some (_, cs'), false => k z cs'
      | none, true => k z cs
      | _, _ => none
  | 0, .rep .., _, _, _ => none
  | fuel' + 1, .rep mn mx greedy r, k, z, cs =>
      let stop : Unit → Res := fun _ => if mn == 0 then k z cs else none
      let canMore := match mx with | some 0 => false | _ => true
      let more : Unit → Res := fun _ =>
        if !canMore then none else
        m fuel' r (fun z' cs' =>
          if mn == 0 && z'.right.length == z.right.length then none
          else m fuel' (.rep (mn - 1) (mx.map (· - 1)) greedy r) k z' cs') z cs
      if greedy then (more ()).orElse stop else (stop ()).orElse more
termination_by fuel r => (fuel, r)

/-- `z'` is `z` advanced over `w`. -/
def Adv (z z' : Z) : Prop := ∃ w : List Char, z'.left = w.reverse ++ z.left ∧ z.right = w ++ z'.right

theorem Adv.refl (z : Z) : Adv z z := ⟨[], by simp, by simp⟩
theorem Adv.trans {a b c : Z} : Adv a b → Adv b c → Adv a c := by
  rintro ⟨w1, h1, h2⟩ ⟨w2, h3, h4⟩
  exact ⟨w1 ++ w2, by simp [h3, h1], by simp [h2, h4]⟩

/-- every success of `m` is a success of the continuation at an advanced position -/
theorem m_adv (fuel : Nat) (r : Re) (k : K) (z : Z) (cs : Caps) (res : Z × Caps) :
    m fuel r k z cs = some res → ∃ z' cs', Adv z z' ∧ k z' cs' = some res := by
  fun_induction m fuel r k z cs generalizing res with
  | case1 fuel p k z cs h => intro hm; simp at hm
  | case2 fuel p k z cs c rest h hp =>
    intro hm
    exact ⟨_, cs, ⟨[c], by simp, by simp [h]⟩, hm⟩
  | case3 fuel p k z cs c rest h hp => intro hm; simp at hm
  | case4 fuel k z cs => intro hm; exact ⟨z, cs, Adv.refl z, hm⟩
  | case5 => intro hm; simp at hm
  | case6 fuel k z cs h => intro hm; exact ⟨z, cs, Adv.refl z, hm⟩
  | case7 fuel k z cs h => intro hm; simp at hm
  | case8 fuel k z cs h => intro hm; exact ⟨z, cs, Adv.refl z, hm⟩
  | case9 fuel k z cs h => intro hm; simp at hm
  | case10 fuel a b k z cs ihb iha =>
    intro hm
    obtain ⟨z1, cs1, h1, hk1⟩ := iha _ hm
    obtain ⟨z2, cs2, h2, hk2⟩ := ihb z1 cs1 _ hk1
    exact ⟨z2, cs2, h1.trans h2, hk2⟩
  | case11 fuel a b k z cs iha ihb =>
    intro hm
    cases h : m fuel a k z cs with
    | some v => rw [h] at hm; simp [Option.orElse] at hm; subst hm; exact iha _ h
    | none => rw [h] at hm; simp [Option.orElse] at hm; exact ihb _ hm
  | case12 fuel idx r k z cs ih =>
    intro hm
    obtain ⟨z1, cs1, h1, hk1⟩ := ih _ hm
    exact ⟨z1, _, h1, hk1⟩
  | case13 => intro hm; exact ⟨_, _, Adv.refl _, hm⟩
  | case14 => intro hm; simp at hm
  | case15 => intro hm; exact ⟨_, _, Adv.refl _, hm⟩
  | case16 => intro hm; exact ⟨_, _, Adv.refl _, hm⟩
  | case17 => intro hm; simp at hm
  | case18 => intro hm; simp at hm
  | case19 fuel' mn mx r k z cs stop canMore more ih2 ih1 =>
    intro hm
    cases hmore : more () with
    | some v =>
      rw [hmore] at hm; simp [Option.orElse] at hm; subst hm
      simp only [more] at hmore
      split at hmore
      · simp at hmore
      · obtain ⟨z1, cs1, h1, hk1⟩ := ih1 _ hmore
        simp only [] at hk1
        split at hk1
        · simp at hk1
        · obtain ⟨z2, cs2, h2, hk2⟩ := ih2 z1 cs1 _ hk1
          exact ⟨z2, cs2, h1.trans h2, hk2⟩
    | none =>
      rw [hmore] at hm; simp [Option.orElse] at hm
      simp only [stop] at hm
      split at hm
      · exact ⟨_, _, Adv.refl _, hm⟩
      · simp at hm
  | case20 fuel' mn mx greedy r k z cs stop canMore more hg ih2 ih1 =>
    intro hm
    cases hstop : stop () with
    | some v =>
      rw [hstop] at hm; simp [Option.orElse] at hm; subst hm
      simp only [stop] at hstop
      split at hstop
      · exact ⟨_, _, Adv.refl _, hstop⟩
      · simp at hstop
    | none =>
      rw [hstop] at hm; simp [Option.orElse] at hm
      simp only [more] at hm
      split at hm
      · simp at hm
      · obtain ⟨z1, cs1, h1, hk1⟩ := ih1 _ hm
        simp only [] at hk1
        split at hk1
        · simp at hk1
        · obtain ⟨z2, cs2, h2, hk2⟩ := ih2 z1 cs1 _ hk1
          exact ⟨z2, cs2, h1.trans h2, hk2⟩
#print axioms m_adv
end Rx2
