import Nc.Jun
/-! Spike: `$9$` body round trip at index level (alphabet index < 65, plaintext code < 256). -/
namespace Jun

def A : Nat := 65

def row (pos : Nat) : List Nat := ENCODING.getD (pos % 7) []

/-- the loop of `_gap_encode` that turns gaps into alphabet indices -/
def emit (prev : Nat) : List Nat → List Nat
  | [] => []
  | g :: gs => let c := (g + prev + 1) % A; c :: emit c gs

def lastOr (d : Nat) : List Nat → Nat
  | [] => d
  | [x] => x
  | _ :: xs => lastOr d xs

def encBody (prev pos : Nat) : List Nat → List Nat
  | [] => []
  | p :: ps =>
    let cs := emit prev (gapsOf p (row pos))
    cs ++ encBody (lastOr prev cs) (pos + 1) ps

/-- `_gap` for each char of the nibble, threading prev -/
def gapsBack (prev : Nat) : List Nat → List Int
  | [] => []
  | c :: cs => gapBack prev c :: gapsBack c cs

def decodeNum (gaps : List Int) (enc : List Nat) : Int :=
  ((gaps.zip enc).map (fun p => p.1 * (p.2 : Int))).sum

inductive DErr | size deriving DecidableEq, Repr

def decBody (fuel prev pos : Nat) (chars : List Nat) : Except DErr (List Nat) :=
  match fuel with
  | 0 => .ok []        -- unreachable when fuel ≥ chars.length + 1
  | fuel + 1 =>
    match chars with
    | [] => .ok []
    | _ :: _ =>
      let enc := row pos
      let nib := chars.take enc.length
      if nib.length ≠ enc.length then .error .size
      else
        let v := (decodeNum (gapsBack prev nib) enc % 256).toNat
        match decBody fuel (lastOr prev nib) (pos + 1) (chars.drop enc.length) with
        | .error e => .error e
        | .ok rest => .ok (v :: rest)

theorem emit_length (prev : Nat) (gs : List Nat) : (emit prev gs).length = gs.length := by
  induction gs generalizing prev with
  | nil => rfl
  | cons g gs ih => simp [emit, ih]

theorem gapsBack_emit (prev : Nat) (gs : List Nat) (hp : prev < 65) (hg : ∀ g ∈ gs, g ≤ 63) :
    gapsBack prev (emit prev gs) = gs.map Int.ofNat := by
  induction gs generalizing prev with
  | nil => rfl
  | cons g gs ih =>
    have hg0 : g ≤ 63 := hg g (by simp)
    have hlt : (g + prev + 1) % A < 65 := Nat.mod_lt _ (by decide)
    simp only [emit, gapsBack, List.map_cons]
    rw [ih _ hlt (fun x hx => hg x (by simp [hx]))]
    congr 1
    have := gap_roundtrip prev g hp hg0
    simpa [stepIdx, A] using this

theorem decodeNum_ofNat (gs enc : List Nat) :
    decodeNum (gs.map Int.ofNat) enc = (recompose gs enc : Nat) := by
  induction gs generalizing enc with
  | nil => simp [decodeNum, recompose]
  | cons g gs ih =>
    cases enc with
    | nil => simp [decodeNum, recompose]
    | cons e es =>
      have := ih es
      simp only [decodeNum, recompose, List.map_cons, List.zip_cons_cons, List.sum_cons] at *
      rw [this]; simp

/-- what `rows_ok` gives for one row and one value -/
theorem row_fact (r v : Nat) (hr : r < 7) (hv : v < 256) :
    let g := gapsOf v (row r)
    g.length = (row r).length ∧ (∀ x ∈ g, x ≤ 63) ∧ recompose g (row r) % 256 = v := by
  have h := rows_ok
  simp only [List.all_eq_true] at h
  have hrow : row r ∈ ENCODING := by
    unfold row; rw [Nat.mod_eq_of_lt hr]
    have : r < ENCODING.length := by simpa [ENCODING] using hr
    simp [List.getD_eq_getElem?_getD, List.getElem?_eq_getElem this]
  have h1 := h _ hrow
  unfold rowOK at h1
  simp only [List.all_eq_true, List.mem_range] at h1
  have h2 := h1 v hv
  simp only [Bool.and_eq_true, beq_iff_eq, List.all_eq_true, decide_eq_true_eq] at h2
  exact ⟨h2.1.1, h2.1.2, h2.2⟩

theorem char_roundtrip (r v prev : Nat) (hr : r < 7) (hv : v < 256) (hp : prev < 65) :
    let cs := emit prev (gapsOf v (row r))
    cs.length = (row r).length ∧
    (decodeNum (gapsBack prev cs) (row r) % 256).toNat = v := by
  obtain ⟨hl, hg, hrec⟩ := row_fact r v hr hv
  refine ⟨by simp [emit_length, hl], ?_⟩
  show (decodeNum (gapsBack prev (emit prev (gapsOf v (row r)))) (row r) % 256).toNat = v
  rw [gapsBack_emit prev _ hp hg, decodeNum_ofNat]
  omega
#print axioms char_roundtrip

theorem rows_nonempty : ENCODING.all (fun r => r.length != 0) = true := by decide

theorem row_pos (r : Nat) (hr : r < 7) : 0 < (row r).length := by
  have h := rows_nonempty
  simp only [List.all_eq_true] at h
  have hrow : row r ∈ ENCODING := by
    unfold row; rw [Nat.mod_eq_of_lt hr]
    have : r < ENCODING.length := by simpa [ENCODING] using hr
    simp [List.getD_eq_getElem?_getD, List.getElem?_eq_getElem this]
  have := h _ hrow
  simp only [bne_iff_ne, ne_eq] at this
  exact Nat.pos_of_ne_zero this

theorem row_mod (pos : Nat) : row pos = row (pos % 7) := by simp [row]

theorem lastOr_cons_default (d d' x : Nat) (xs : List Nat) : lastOr d (x :: xs) = lastOr d' (x :: xs) := by
  induction xs generalizing x with
  | nil => rfl
  | cons y ys ih => simpa [lastOr] using ih y

theorem lastOr_emit_lt (prev : Nat) (gs : List Nat) (hp : prev < 65) : lastOr prev (emit prev gs) < 65 := by
  induction gs generalizing prev with
  | nil => simpa [emit, lastOr]
  | cons g gs ih =>
    have hlt : (g + prev + 1) % A < 65 := Nat.mod_lt _ (by decide)
    cases gs with
    | nil => simpa [emit, lastOr] using hlt
    | cons g2 gs2 =>
      have := ih ((g + prev + 1) % A) hlt
      simp only [emit, lastOr] at this ⊢
      rw [lastOr_cons_default prev ((g + prev + 1) % A)]
      exact this

theorem body_roundtrip (plain : List Nat) (hv : ∀ v ∈ plain, v < 256) :
    ∀ (prev pos fuel : Nat), prev < 65 → (encBody prev pos plain).length < fuel →
      decBody fuel prev pos (encBody prev pos plain) = .ok plain := by
  induction plain with
  | nil => intro prev pos fuel _ hf; cases fuel <;> simp [encBody, decBody]
  | cons p ps ih =>
    intro prev pos fuel hp hf
    have hr : pos % 7 < 7 := Nat.mod_lt _ (by decide)
    have hpv : p < 256 := hv p (by simp)
    obtain ⟨hlen, hdec⟩ := char_roundtrip (pos % 7) p prev hr hpv hp
    rw [← row_mod] at hlen hdec
    have hpos := row_pos (pos % 7) hr
    rw [← row_mod] at hpos
    cases fuel with
    | zero => simp at hf
    | succ fuel =>
      simp only [encBody] at hf ⊢
      generalize hcs : emit prev (gapsOf p (row pos)) = cs at *
      have hne : cs ≠ [] := by intro h; simp [h] at hlen; omega
      cases hcs' : cs ++ encBody (lastOr prev cs) (pos + 1) ps with
      | nil => simp [hne] at hcs'
      | cons c rest =>
        simp only [decBody]
        rw [← hcs']
        have htake : (cs ++ encBody (lastOr prev cs) (pos + 1) ps).take (row pos).length = cs := by
          rw [← hlen]; simp
        have hdrop : (cs ++ encBody (lastOr prev cs) (pos + 1) ps).drop (row pos).length
            = encBody (lastOr prev cs) (pos + 1) ps := by
          rw [← hlen]; simp
        rw [htake, hdrop]
        have hlast : lastOr prev cs < 65 := by rw [← hcs]; exact lastOr_emit_lt prev _ hp
        have hf' : (encBody (lastOr prev cs) (pos + 1) ps).length < fuel := by
          simp at hf; omega
        rw [ih (fun v hv' => hv v (by simp [hv'])) _ _ _ hlast hf']
        simp [hlen, hdec]
#print axioms body_roundtrip
end Jun
