import Nc.Pats
open Rx
partial def loop (h : IO.FS.Stream) : IO Unit := do
  let line ← h.getLine
  if line.isEmpty then return ()
  let l := (line.dropRightWhile (· == '\n'))
  -- input: "<pat> <hexcodepoints space separated>"
  match l.splitOn "\t" with
  | [p, cps] =>
    let s := String.ofList ((cps.splitOn " ").filterMap (fun x => x.toNat?.map Char.ofNat))
    let (r, ci) := if p == "4" then (ipv4, false) else if p == "6" then (ipv6, true) else (asn, false)
    let out := sub ci r (fun m _ => ['<'] ++ m ++ ['>']) s
    IO.println (" ".intercalate (out.toList.map (fun c => toString c.toNat)))
  | _ => IO.println "bad"
  loop h
def main : IO Unit := do loop (← IO.getStdin)
