import Nc.Ip
/-! Spike: the memo state machine of `_BaseIpAnonymizer` refines the pure map (B = 0). -/
namespace IpM
open Ip

abbrev Cache := List (Bits × Bits)

inductive Err | dup | emptyBits
  deriving DecidableEq, Repr

def get (c : Cache) (k : Bits) : Option Bits := (c.find? (fun e => e.1 == k)).map (·.2)
def getInv (c : Cache) (v : Bits) : Option Bits := (c.find? (fun e => e.2 == v)).map (·.1)

/-- bidict `b[k] = v` with the default duplication policy (key: drop old, value: raise). -/
def put (c : Cache) (k v : Bits) : Except Err Cache :=
  match getInv c v with
  | some k' => if k' == k then .ok c else .error .dup
  | none => .ok ((k, v) :: c.filter (fun e => !(e.1 == k)))

/-- `_anonymize_bits`, on the reversed bit list so that "strip the last bit" is structural. -/
def anonRevM (h : Bits → Bool) : List Bool → Cache → Except Err (Bits × Cache)
  | [], c =>
    match get c [] with
    | some r => .ok (r, c)
    | none => .error .emptyBits
  | last :: rh, c =>
    match get c (rh.reverse ++ [last]) with
    | some r => .ok (r, c)
    | none =>
      match anonRevM h rh c with
      | .error e => .error e
      | .ok (r, c1) =>
        let ret := r ++ [h rh.reverse ^^ last]
        match put c1 (rh.reverse ++ [last]) ret with
        | .error e => .error e
        | .ok c2 => .ok (ret, c2)

def anonBitsM (h : Bits → Bool) (bits : Bits) (c : Cache) := anonRevM h bits.reverse c

variable (h : Bits → Bool) (pinned : Bits → Bool)

def flip (pre : Bits) : Bool := if pinned (pre ++ [false]) then false else h pre
def F (b : Bits) : Bits := anon (flip h pinned) b

structure PinOK : Prop where
  nil : pinned [] = true
  sib : ∀ b x, pinned (b ++ [x]) = true → pinned (b ++ [!x]) = true
  par : ∀ b x, pinned (b ++ [x]) = true → pinned b = true

theorem anonFrom_snoc (g : Bits → Bool) (pre b : Bits) (x : Bool) :
    anonFrom g pre (b ++ [x]) = anonFrom g pre b ++ [x ^^ g (pre ++ b)] := by
  induction b generalizing pre with
  | nil => simp [anonFrom]
  | cons y ys ih => simp [anonFrom, ih]

theorem F_snoc (b : Bits) (x : Bool) : F h pinned (b ++ [x]) = F h pinned b ++ [x ^^ flip h pinned b] := by
  simp [F, anon, anonFrom_snoc]

theorem F_length (b : Bits) : (F h pinned b).length = b.length := by simp [F, anon, anonFrom_length]

theorem F_inj {a b : Bits} (hab : F h pinned a = F h pinned b) : a = b := by
  have := congrArg (deanonFrom (flip h pinned) []) hab
  simpa [F, anon, deanon_anon] using this

theorem snocInd {motive : Bits → Prop} (nil : motive [])
    (snoc : ∀ b x, motive b → motive (b ++ [x])) (b : Bits) : motive b := by
  have : ∀ n (b : Bits), b.length = n → motive b := by
    intro n
    induction n with
    | zero => intro b hb; simp at hb; subst hb; exact nil
    | succ n ih =>
      intro b hb
      have hne : b ≠ [] := by intro h; simp [h] at hb
      have := List.dropLast_concat_getLast hne
      rw [← this]
      apply snoc
      apply ih
      simp [List.length_dropLast, hb]
  exact this _ b rfl

theorem F_pinned (hp : PinOK pinned) (b : Bits) (hb : pinned b = true) : F h pinned b = b := by
  induction b using snocInd with
  | nil => simp [F, anon, anonFrom]
  | snoc b x ih =>
    have hpar := hp.par b x hb
    have : pinned (b ++ [false]) = true := by
      cases x with
      | false => exact hb
      | true => simpa using hp.sib b true hb
    simp [F_snoc, ih hpar, flip, this]

/-- invariant of every reachable memo -/
structure Inv (c : Cache) : Prop where
  graph : ∀ e ∈ c, e.2 = F h pinned e.1
  pins : ∀ k, pinned k = true → get c k = some k

theorem get_some_mem {c : Cache} {k v : Bits} (hg : get c k = some v) : (k, v) ∈ c := by
  unfold get at hg
  cases hf : c.find? (fun e => e.1 == k) with
  | none => simp [hf] at hg
  | some e =>
    simp [hf] at hg
    have h1 := List.find?_some hf
    have h2 := List.mem_of_find?_eq_some hf
    simp at h1
    cases e; simp_all

theorem getInv_some_mem {c : Cache} {k v : Bits} (hg : getInv c v = some k) : (k, v) ∈ c := by
  unfold getInv at hg
  cases hf : c.find? (fun e => e.2 == v) with
  | none => simp [hf] at hg
  | some e =>
    simp [hf] at hg
    have h1 := List.find?_some hf
    have h2 := List.mem_of_find?_eq_some hf
    simp at h1
    cases e; simp_all

theorem get_cons_filter (c : Cache) (k v k2 : Bits) :
    get ((k, v) :: c.filter (fun e => !(e.1 == k))) k2 = if k = k2 then some v else get c k2 := by
  unfold get
  by_cases hk : k = k2
  · subst hk; simp
  · simp only [List.find?_cons, hk, if_false]
    have : (k == k2) = false := by simpa using hk
    simp only [this]
    rw [List.find?_filter]
    congr 2
    funext e
    by_cases he : e.1 = k2
    · subst he
      have : (e.1 == k) = false := by simpa using fun h => hk h.symm
      simp [this]
    · have : (e.1 == k2) = false := by simpa using he
      simp [this]

theorem put_spec (hp : PinOK pinned) {c : Cache} (hI : Inv h pinned c) (k : Bits) :
    ∃ c', put c k (F h pinned k) = .ok c' ∧ Inv h pinned c' ∧ get c' k = some (F h pinned k) := by
  unfold put
  cases hgi : getInv c (F h pinned k) with
  | some k' =>
    have hm := getInv_some_mem hgi
    have := hI.graph _ hm
    simp at this
    have hk : k' = k := (F_inj h pinned this).symm
    subst hk
    refine ⟨c, by simp, hI, ?_⟩
    unfold get
    cases hf : c.find? (fun e => e.1 == k') with
    | none =>
      have := List.find?_eq_none.mp hf _ hm
      simp at this
    | some e =>
      have h1 := List.find?_some hf
      have h2 := List.mem_of_find?_eq_some hf
      have h3 := hI.graph e h2
      simp at h1
      simp [h3, h1]
  | none =>
    refine ⟨_, rfl, ⟨?_, ?_⟩, ?_⟩
    · intro e he
      simp at he
      rcases he with rfl | ⟨he, _⟩
      · rfl
      · exact hI.graph e he
    · intro k2 hk2
      rw [get_cons_filter]
      by_cases hkk : k = k2
      · subst hkk; simp [F_pinned h pinned hp k hk2]
      · simp [hkk, hI.pins k2 hk2]
    · rw [get_cons_filter]; simp

end IpM

namespace IpM
open Ip
variable (h : Bits → Bool) (pinned : Bits → Bool)

theorem anonRevM_spec (hp : PinOK pinned) (rb : List Bool) :
    ∀ c, Inv h pinned c →
      ∃ c', anonRevM h rb c = .ok (F h pinned rb.reverse, c') ∧ Inv h pinned c' := by
  induction rb with
  | nil =>
    intro c hI
    have hg := hI.pins [] hp.nil
    simp only [anonRevM, hg]
    exact ⟨c, by simp [F, anon, anonFrom], hI⟩
  | cons x rh ih =>
    intro c hI
    simp only [anonRevM, List.reverse_cons]
    cases hg : get c (rh.reverse ++ [x]) with
    | some r =>
      have := hI.graph _ (get_some_mem hg)
      simp at this
      simp [this]; exact hI
    | none =>
      have hnp : pinned (rh.reverse ++ [x]) = false := by
        cases hpb : pinned (rh.reverse ++ [x]) with
        | false => rfl
        | true => have := hI.pins _ hpb; simp [hg] at this
      have hflip : flip h pinned rh.reverse = h rh.reverse := by
        unfold flip
        cases x with
        | false => simp [hnp]
        | true =>
          cases hpf : pinned (rh.reverse ++ [false]) with
          | false => simp
          | true => have := hp.sib rh.reverse false hpf; simp [hnp] at this
      obtain ⟨c1, h1, hI1⟩ := ih c hI
      obtain ⟨c2, h2, hI2, _⟩ := put_spec h pinned hp hI1 (rh.reverse ++ [x])
      rw [F_snoc, hflip, Bool.xor_comm x (h rh.reverse)] at h2
      simp only [h1, h2]
      refine ⟨c2, ?_, hI2⟩
      simp [F_snoc, hflip, Bool.xor_comm]
#print axioms anonRevM_spec
end IpM
