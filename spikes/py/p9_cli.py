import sys, os, logging
from unittest import mock
from netconan import netconan as N
def run(argv):
    with mock.patch.object(N,'anonymize_files') as af:
        try:
            N.main(argv); r='ok'
        except SystemExit as e: r='SystemExit(%s)'%e.code
        except Exception as e: r='%s: %s'%(type(e).__name__,e)
    print(argv,'=>',r, af.call_args if af.called else 'NOT-CALLED')
run(['-i','in.txt','-o','o','-a','--preserve-host-bits','33'])
run(['-i','in.txt','-o','o','-a','--preserve-host-bits','-1'])
run(['-i','in.txt','-o','o','-u'])
run(['-i','in.txt','-o','o','-u','-a','-s','x'])
run(['-i','in.txt','-o','o','-d','m','-p'])
run(['-i','in.txt','-o','o'])
run(['-i','in.txt','-o','o','-c','cfg.ini'])
run(['-i','in.txt','-o','o','-c','cfg.ini','-s','CLI','--preserve-host-bits','9'])
run(['-i','in.txt','-o','o','-a','--preserve-private-addresses','--preserve-addresses','1.0.0.0/8'])
run(['-i','in.txt','-o','','-a'])
run(['-i','','-o','o','-a'])
run(['-o','o','-a'])
run(['-i','in.txt','-o','o','-n',''])
