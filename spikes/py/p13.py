import io, logging, random, itertools, collections, importlib.util
logging.disable(logging.CRITICAL)
spec=importlib.util.spec_from_file_location("t","/repo/tests/unit/test_sensitive_item_removal.py"); t=importlib.util.module_from_spec(spec); spec.loader.exec_module(t)
from netconan.anonymize_files import FileAnonymizer
rng=random.Random(11)
templates=[]
for item in t.sensitive_lines:
    if hasattr(item,'values'): item=item.values
    templates.append(item[0].replace("{0}","{}"))
secrets=["RemoveMe","12345","deadBEEF","122A00190102180D3C2E","$1$wtHI$0rN7R8PKwC30AsCGA77vy.","$9$Qnet7-VwgaJD","zulu9","Other1"]
fill=["ip address 1.2.3.4 255.255.255.0","neighbor 2001:db8::1 remote-as 65000"," ip route 10.1.2.3/24  via\t11.22.33.44","router bgp 65000","description zulu core  link 12","!","","   ","\t#\t x","as-path 65000 12 65000x 120","zulu 65000 fe80::1 1.1.1.1 password zulu"]
def mk(**kw):
    return FileAnonymizer(kw.get('p',False),kw.get('a',False),salt="S",sensitive_words=["zulu","intentionet"] if kw.get('w') else None,as_numbers=["65000","12"] if kw.get('n') else None,preserve_suffix_v4=kw.get('b4'),preserve_suffix_v6=kw.get('b6'),undo_ip_anon=kw.get('u',False))
def run(fa,text):
    o=io.StringIO(); fa.anonymize_io(io.StringIO(text),o); return o.getvalue()
bad=collections.Counter(); ex={}
for it in range(1500):
    lines=[]
    for _ in range(rng.randint(1,6)):
        if rng.random()<.5:
            tpl=rng.choice(templates); l=tpl.format(*[rng.choice(secrets) for _ in range(tpl.count("{}"))])
        else: l=rng.choice(fill)
        l=rng.choice([""," ","\t","  "])+l+rng.choice([""," ","\t "])
        lines.append(l+rng.choice(["\n","\n","\r\n"]))
    if rng.random()<.2: lines[-1]=lines[-1].rstrip("\r\n")
    text="".join(lines)
    p,a,w,n=[rng.random()<.5 for _ in range(4)]; u=(not a) and rng.random()<.3
    b4=rng.choice([None,0,8,17]); b6=rng.choice([None,0,8,64])
    try:
        multi=run(mk(p=p,a=a,w=w,n=n,b4=b4,b6=b6,u=u),text)
        chained=text
        if p: chained=run(mk(p=True),chained)
        if a or u: chained=run(mk(a=a,u=u,b4=b4,b6=b6),chained)
        if w: chained=run(mk(w=True),chained)
        if n: chained=run(mk(n=True),chained)
    except Exception as e:
        bad[('exc',type(e).__name__)]+=1; continue
    if multi!=chained: bad['C15']+=1; ex.setdefault('C15',(text,multi,chained,(p,a,w,n,u,b4,b6)))
    # C12 structure
    il=text.split("\n"); ol=multi.split("\n")
    if len(il)!=len(ol): bad['C12-linecount']+=1; ex.setdefault('C12-linecount',(text,multi))
    else:
        for x,y in zip(il,ol):
            if x[:len(x)-len(x.lstrip())]!=y[:len(y)-len(y.lstrip())] or x[len(x.rstrip()):]!=y[len(y.rstrip()):]:
                bad['C12-ws']+=1; ex.setdefault('C12-ws',(x,y))
print(dict(bad))
for k,v in ex.items(): print(k,v)
