import re, re._parser as P, re._constants as C
def ch(c): return "(Char.ofNat %d)" % c
def cls(o,a):
    if o is C.LITERAL: return ".lit "+ch(a)
    if o is C.RANGE: return ".range %s %s"%(ch(a[0]),ch(a[1]))
    if o is C.CATEGORY:
        return {C.CATEGORY_DIGIT:".digit",C.CATEGORY_NOT_DIGIT:".notDigit",C.CATEGORY_SPACE:".space",C.CATEGORY_NOT_SPACE:".notSpace",C.CATEGORY_WORD:".word"}[a]
    raise ValueError((o,a))
def seq(sp):
    items=[one(op,av) for op,av in sp]
    if len(items)==1: return items[0]
    return "(.seq [%s])"%", ".join(items)
def one(op,av):
    if op is C.LITERAL: return "(.chr true [.lit %s])"%ch(av)
    if op is C.NOT_LITERAL: return "(.chr false [.lit %s])"%ch(av)
    if op is C.ANY: return ".any"
    if op is C.IN:
        neg = av and av[0][0] is C.NEGATE
        items=[cls(o,a) for o,a in av if o is not C.NEGATE]
        return "(.chr %s [%s])"%("false" if neg else "true", ", ".join(items))
    if op is C.BRANCH: return "(.alt [%s])"%", ".join(seq(b) for b in av[1])
    if op in (C.MAX_REPEAT,C.MIN_REPEAT):
        lo,hi,p=av
        return "(.rep %d %s %s %s)"%(lo, "none" if hi==C.MAXREPEAT else "(some %d)"%hi, "true" if op is C.MAX_REPEAT else "false", seq(p))
    if op is C.SUBPATTERN:
        g,af,df,p=av
        assert not af and not df
        return seq(p) if g is None else "(.grp %d %s)"%(g,seq(p))
    if op in (C.ASSERT,C.ASSERT_NOT):
        d,p=av
        lo,hi=p.getwidth()
        if d<0: assert lo==hi
        return "(.look %s %s %d %s)"%("true" if d>0 else "false","true" if op is C.ASSERT_NOT else "false", lo if d<0 else 0, seq(p))
    if op is C.AT:
        return {C.AT_BEGINNING:".bol",C.AT_END:".eol"}[av]
    raise ValueError((op,av))
def tr(pat,flags=0):
    return seq(P.parse(pat,flags))
if __name__=="__main__":
    from netconan.ip_anonymization import IPv4_PATTERN, IPv6_PATTERN
    print("import Nc.Regex\nopen Rx\ndef ipv4 : Re := "+tr(IPv4_PATTERN.pattern))
    print("def ipv6 : Re := "+tr(IPv6_PATTERN.pattern,IPv6_PATTERN.flags))
    print("def asn : Re := "+tr(r"(?:(?<=\D)|(?<=^))(12|123|65000)(?=\D|$)"))
