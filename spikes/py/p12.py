import re, itertools, random, ipaddress, collections
from netconan.ip_anonymization import IpAnonymizer, IpV6Anonymizer, anonymize_ip_addr
a4=IpAnonymizer("S",preserve_suffix=0); a6=IpV6Anonymizer("S",preserve_suffix=0)
MARK4=lambda m:"<"+m+">"
def impl(fam,line):
    pat=(a4 if fam==4 else a6).get_addr_pattern()
    return pat.sub(lambda m:"<"+m.group(0)+">",line)
def isalnum_ascii(c): return c.isascii() and c.isalnum()
def spec(fam,line):
    tokchars=(lambda c: isalnum_ascii(c) or c=='.') if fam==4 else (lambda c: isalnum_ascii(c) or c==':')
    out=[];i=0;n=len(line)
    while i<n:
        if tokchars(line[i]):
            j=i
            while j<n and tokchars(line[j]): j+=1
            tok=line[i:j]
            ok=False
            if fam==4:
                parts=tok.split(".")
                ok=len(parts)==4 and all(p and all(ch in "0123456789" for ch in p) and int(p)<=255 for p in parts)
            else:
                try:
                    ipaddress.IPv6Address(tok); ok=":" in tok
                except ValueError: ok=False
            out.append("<"+tok+">" if ok else tok); i=j
        else: out.append(line[i]); i+=1
    return "".join(out)
diff=collections.Counter(); ex={}
def check(fam,s):
    a,b=impl(fam,s),spec(fam,s)
    if a!=b:
        # classify
        k="other"
        if fam==6 and "." in s: k="v6-with-dot"
        elif fam==6 and "%" in s: k="v6-with-percent"
        elif "\n" in s: k="newline"
        diff[(fam,k)]+=1; ex.setdefault((fam,k),[]).append((s,a,b))
for n in range(0,7):
    for t in itertools.product("025.a /",repeat=n): check(4,"".join(t))
for n in range(0,7):
    for t in itertools.product("1f:g /",repeat=n): check(6,"".join(t))
rng=random.Random(5)
for _ in range(200000):
    n=rng.randint(1,10); g=[rng.choice(["","0","1","ffff","FE80","12345","g","00"]) for _ in range(n)]
    s=":".join(g); s=rng.choice(["","x "," ","/",":","-"])+s+rng.choice([""," ","/64",",",":","-","_"])
    check(6,s)
for _ in range(100000):
    s=".".join(rng.choice(["0","00","1","255","256","25","099","1234","249","01","a",""]) for _ in range(rng.choice([3,4,4,4,5])))
    s=rng.choice(["","x "," ","/",":","-",".","_"])+s+rng.choice([""," ","/24",",",":","-","_","."])
    check(4,s)
for k,v in diff.items():
    print(k,v)
    for e in v and ex[k][:8]: print("    ",e)
print("--- with . and % in the v6 alphabet")
diff.clear(); ex.clear()
for n in range(0,7):
    for t in itertools.product("1f:.% ",repeat=n): check(6,"".join(t))
for _ in range(100000):
    n=rng.randint(1,8); g=[rng.choice(["","0","1","ffff","fe80","1.2.3.4","%e","e%1"]) for _ in range(n)]
    s=":".join(g); s=rng.choice(["","x "," ","/"])+s+rng.choice([""," ","/64",",",".","%eth0"])
    check(6,s)
for k,v in diff.items():
    print(k,v)
    for e in ex[k][:6]: print("    ",e)
