import io, sys, logging
from netconan.anonymize_files import FileAnonymizer
def run(lines, **kw):
    kw.setdefault('anon_pwd',False); kw.setdefault('anon_ip',False); kw.setdefault('salt',"S")
    fa=FileAnonymizer(**kw)
    i=io.StringIO("".join(lines)); o=io.StringIO()
    try: fa.anonymize_io(i,o)
    except Exception as e: print("EXC",type(e).__name__,e)
    return o.getvalue()
logging.disable(logging.CRITICAL)
print(repr(run(["x Foo foo zoo\n"], sensitive_words=["oo"], reserved_words=["Foo"])))
print(repr(run(["x Foo foo zoo\n"], sensitive_words=["oo"])))   # leak: reserved persists
print(repr(run(["password Foo\n","password zoo\n"], anon_pwd=True)))
pp=["12.0.0.0/8"]
FileAnonymizer(False,True,salt="S",preserve_prefixes=pp,preserve_networks=["13.0.0.0/8"]); print(pp)
# line terminators
print(repr(run(["a 1.2.3.4\r\n","b 1.2.3.4","\n"], anon_ip=True)))
print(repr(run(["password foo\r\n","  password   foo  \t\n", "\tpassword\tfoo\n", "x\x0cpassword foo\x0c\n", "password foo\x1c\n","password foo bar\n", "password foo"], anon_pwd=True)))
print(repr(run(["a\x0b1.2.3.4\x0c\n", "line1\rline2 password foo\n"], anon_pwd=True, anon_ip=True)))
