import io, logging, sys
from netconan.anonymize_files import FileAnonymizer
from netconan.sensitive_item_removal import *
from netconan.sensitive_item_removal import _anonymize_value, _check_sensitive_item_format, _extract_enclosing_text
S="saltForTest"
def run(lines, **kw):
    kw.setdefault('anon_pwd',True); kw.setdefault('anon_ip',False); kw.setdefault('salt',S)
    fa=FileAnonymizer(**kw)
    i=io.StringIO("".join(l+"\n" for l in lines)); o=io.StringIO()
    try:
        fa.anonymize_io(i,o)
    except Exception as e:
        print("EXC",type(e).__name__,e)
    for a,b in zip(lines,o.getvalue().split("\n")): print(repr(a),'->',repr(b))
run(["password 12345 foo","password 12345","password 0 secretpw","password secretpw other",
 "enable secret level 15 5 $1$abcd$0rN7R8PKwC30AsCGA77vy.", "enable secret 5 $1$abcd$0rN7R8PKwC30AsCGA77vy.",
 "username foo password 7 122A001901", "snmp-server user foo\\bar grp auth md5 abcdefgh priv aes 128 ijklmnop",
 ])
run(["snmp-server user foo\\g auth md5 abcdefgh"])
run(["snmp-server user foo\\1 x auth md5 abcdefgh"])
run(["enable secret 5 $1$abcdefghi$0rN7R8PKwC30AsCGA77vy."])
run(["enable secret 5 $6$abcdefghi$0rN7R8PKwC30AsCGA77vy."]); run(["enable secret 5 $6$abcdefghi$0rN7R8PKwC30AsCGA77vy."])
run(["set system root-authentication encrypted-password \"$9$abc\"", "key \"$9$\"", "secret $9$ab", "secret $9$!!!!!", "password \"\"\"\"\"\"\"\"\"\"\"\"\"\"\"\"" ])
