import random, re, subprocess, itertools, sys, time
from netconan.ip_anonymization import IPv4_PATTERN, IPv6_PATTERN
asn=re.compile(r"(?:(?<=\D)|(?<=^))(12|123|65000)(?=\D|$)")
pats={"4":IPv4_PATTERN,"6":IPv6_PATTERN,"a":asn}
rng=random.Random(1)
alph4="0125.6 /a:\n_٣"
alph6="01af:.%g F\n"
alpha="1235 60x.\n٣"
cases=[]
for n in range(0,6):
    for t in itertools.product("025.a ",repeat=n): cases.append(("4","".join(t)))
for n in range(0,6):
    for t in itertools.product("1f:.% ",repeat=n): cases.append(("6","".join(t)))
for _ in range(30000):
    k=rng.choice("46a"); al={"4":alph4,"6":alph6,"a":alpha}[k]
    cases.append((k,"".join(rng.choice(al) for _ in range(rng.randint(0,40)))))
# structured
for _ in range(20000):
    parts=[]
    for _ in range(rng.randint(1,4)):
        parts.append(".".join(rng.choice(["0","00","1","255","256","25","099","1234","249","01"]) for _ in range(rng.choice([3,4,4,4,5]))))
        parts.append(rng.choice([" ","/","/24 ",",","a","-",":",".","\n",""]))
    cases.append(("4","".join(parts)))
    parts=[]
    for _ in range(rng.randint(1,3)):
        n=rng.randint(1,9); g=[rng.choice(["","0","1","ffff","FE80","fe80","12345","g","1.2.3.4","%e"]) for _ in range(n)]
        parts.append(":".join(g)); parts.append(rng.choice([" ","/","/64 ",",","%eth0",".","\n",""]))
    cases.append(("6","".join(parts)))
inp="".join("%s\t%s\n"%(k," ".join(str(ord(c)) for c in s)) for k,s in cases)
t=time.time()
out=subprocess.run(["/tmp/spike/lk/nc/.lake/build/bin/t"],input=inp,capture_output=True,text=True).stdout.split("\n")
print("lean time",time.time()-t, len(cases))
bad=0
for (k,s),o in zip(cases,out):
    got="".join(chr(int(x)) for x in o.split()) if o!="bad" else None
    exp=pats[k].sub(lambda m:"<"+m.group(0)+">",s)
    if got!=exp:
        bad+=1
        if bad<15: print(k,repr(s),repr(exp),repr(got))
print("bad",bad)
