import sys
sys.path.insert(0,'/tmp/spike')
from tr import tr
from netconan.sensitive_item_removal import generate_default_sensitive_item_regexes
from netconan.ip_anonymization import IPv4_PATTERN, IPv6_PATTERN
out=["import Nc.Regex","open Rx","namespace Gen"]
out.append("def ipv4 : Re := "+tr(IPv4_PATTERN.pattern))
out.append("def ipv6 : Re := "+tr(IPv6_PATTERN.pattern,IPv6_PATTERN.flags))
names=[]
for gi,g in enumerate(generate_default_sensitive_item_regexes()):
    for ri,(r,n) in enumerate(g):
        nm="p%d_%d"%(gi,ri); names.append((gi,nm,n))
        out.append("def %s : Re := %s"%(nm,tr(r.pattern,r.flags)))
out.append("def groups : List (Nat × Re × Option Nat) := ["+", ".join("(%d, %s, %s)"%(gi,nm,"none" if n is None else "some %d"%n) for gi,nm,n in names)+"]")
out.append("end Gen")
open('/tmp/spike/lk/nc/Nc/GenAll.lean','w').write("\n".join(out)+"\n")
