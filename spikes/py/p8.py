import io, logging
logging.disable(logging.CRITICAL)
from netconan.anonymize_files import FileAnonymizer
from passlib.hash import cisco_type7
for n in (400, 900, 1500, 3000):
    fa=FileAnonymizer(True,False,salt="S"); o=io.StringIO()
    try:
        fa.anonymize_io(io.StringIO("password "+'"'*n+"x"+'"'*n+"\n"),o); print(n,"ok",len(o.getvalue()))
    except RecursionError as e: print(n,"RecursionError")
for k in (0,1,7,12345678901234567890):
    print(cisco_type7.using(salt=9).hash("netconanRemoved%d"%k))
