import io, logging
logging.disable(logging.CRITICAL)
from netconan.anonymize_files import FileAnonymizer
from netconan.utils import juniper_secrets as js
def run(lines, **kw):
    kw.setdefault('anon_pwd',True); kw.setdefault('anon_ip',False); kw.setdefault('salt',"S")
    fa=FileAnonymizer(**kw); i=io.StringIO("".join(l+"\n" for l in lines)); o=io.StringIO()
    try: fa.anonymize_io(i,o)
    except Exception as e: print("EXC",type(e).__name__,e)
    for a,b in zip(lines,o.getvalue().split("\n")): print(repr(a),'->',repr(b))
e=js.juniper_nonrandom_encrypt("12345","Q")
run(['key "%s"'%e, "password 12345"])
run(['key "$9$Qnet"', 'key "$9$znet"', 'key "$9$Qnet"'])
print(repr(js.juniper_decrypt("$9$Qnet")))
try: print(js.juniper_decrypt(js.juniper_nonrandom_encrypt("","i")))
except Exception as ex: print(type(ex).__name__, ex)
run(["password foo password bar"])
run(["username a password foo", "username b secret 5 foo", "enable password foo;", 'key "foo"', "snmp-server community foo RO"])
