import random, ipaddress, itertools
from netconan.ip_anonymization import IpAnonymizer, IpV6Anonymizer, _BaseIpAnonymizer
rng=random.Random(7)
def cpl(a,b,L):
    x=a^b
    return L if x==0 else L-x.bit_length()
fails=0
for trial in range(3000):
    salt="".join(rng.choice("abc!$ é") for _ in range(rng.randint(0,4)))
    B=rng.choice([0,0,1,8,8,17,24,31,32])
    npref=rng.randint(0,4)
    prefs=[]
    for _ in range(npref):
        l=rng.randint(0,32); a=rng.getrandbits(32); a=(a>>(32-l))<<(32-l) if l else 0
        prefs.append("%s/%d"%(ipaddress.IPv4Address(a),l))
    paddr=None
    if rng.random()<.4:
        paddr=[]
        for _ in range(rng.randint(1,2)):
            l=rng.randint(8,32); a=rng.getrandbits(32); a=(a>>(32-l))<<(32-l)
            paddr.append("%s/%d"%(ipaddress.IPv4Address(a),l))
    use_default = rng.random()<.3
    def mk(): return IpAnonymizer(salt, None if use_default else list(prefs), None if paddr is None else list(paddr), preserve_suffix=B)
    try:
        a=mk(); ref=mk()
    except Exception as e:
        print("ctor",type(e).__name__,e,prefs,paddr); fails+=1; continue
    # addresses near prefixes
    pool=[]
    allp=(list(IpAnonymizer.DEFAULT_PRESERVED_PREFIXES) if use_default else prefs)+(paddr or [])
    for p in allp:
        n=ipaddress.ip_network(p); base=int(n.network_address)
        for _ in range(3):
            pool.append(base | rng.getrandbits(32-n.prefixlen) if n.prefixlen<32 else base)
            pool.append((base ^ (1<<rng.randrange(32))) )
    for _ in range(6): pool.append(rng.getrandbits(32))
    pool+= [x^(1<<rng.randrange(32)) for x in pool[:6]]
    # reference: fresh anonymizer per address
    fresh={}
    for x in set(pool):
        fresh[x]=mk().anonymize(x)
    # history on a
    try:
        for step in range(60):
            x=rng.choice(pool)
            if rng.random()<.5:
                y=a.anonymize(x); assert y==fresh[x],("hist",x,y,fresh[x])
            else:
                y=fresh[x]; x2=a.deanonymize(y); assert x2==x,("undo",x,y,x2)
        # cold undo
        for x in pool[:5]:
            assert mk().deanonymize(fresh[x])==x,("coldundo",x)
        for x,y in itertools.combinations(list(set(pool))[:12],2):
            assert cpl(x,y,32)==cpl(fresh[x],fresh[y],32),("cpl",x,y)
        for p in allp:
            n=ipaddress.ip_network(p)
            for x in set(pool):
                assert (ipaddress.IPv4Address(x) in n)==(ipaddress.IPv4Address(fresh[x]) in n),("pref",p,x)
        for x in set(pool):
            if B: assert (x^fresh[x]) & ((1<<B)-1)==0
    except Exception as e:
        fails+=1; print(type(e).__name__,e, salt,B,prefs,paddr,use_default)
        if fails>10: break
print("fails",fails)
