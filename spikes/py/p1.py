import io, logging
from netconan.ip_anonymization import *
from netconan.anonymize_files import FileAnonymizer
from netconan.sensitive_item_removal import *
from netconan.sensitive_item_removal import _anonymize_value, _check_sensitive_item_format, _extract_enclosing_text
S="saltForTest"
a6=IpV6Anonymizer(S); a4=IpAnonymizer(S)
def t(f,*a):
    try: print(repr(a[-1] if isinstance(a[-1],str) else a), '->', repr(f(*a)))
    except Exception as e: print(repr(a), 'EXC', type(e).__name__, e)
for l in ["::ffff:1.2.3.4","::1.2.3.4","1:2::1.2.3.4","ip 2001:db8::10.1.2.3/64 x","fe80:%x","fe80::1%eth0","FE80::1","x fe80:%eth0 y", "1::2.","1.2.3.4.", "a:1::2", "1::2:"]:
    t(anonymize_ip_addr,a6,l)
for l in ["1.2.3.4","01.2.3.4","1.2.3.4/24","1.2.3.4/","1.2.3.4_","_1.2.3.4","1.2.3.4:80","1.2.3.256","é1.2.3.4","1.2.3.4é", "١.2.3.4","1.2.3.٤","1.2.3.4\n","1.2.3.4\r\n"]:
    t(anonymize_ip_addr,a4,l)
