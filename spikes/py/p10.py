import io, logging, sys, re, collections
logging.disable(logging.CRITICAL)
sys.path.insert(0,'/repo')
import importlib.util
spec=importlib.util.spec_from_file_location("t","/repo/tests/unit/test_sensitive_item_removal.py"); t=importlib.util.module_from_spec(spec); spec.loader.exec_module(t)
from netconan.anonymize_files import FileAnonymizer
from netconan.utils import juniper_secrets as js
def run(line):
    fa=FileAnonymizer(True,False,salt="S"); o=io.StringIO()
    try: fa.anonymize_io(io.StringIO(line+"\n"),o)
    except Exception as e: return "EXC:"+type(e).__name__
    return o.getvalue()[:-1]
classes={
 'text':["RemoveMe","xYz_12-q"], 'numeric':["12345","907"], 'onedigit':["7","3"], 'hex':["deadBEEF","1234a"],
 'type7':["122A00190102180D3C2E","0822455D0A16"], 'md5':["$1$wtHI$0rN7R8PKwC30AsCGA77vy.","$1$abcd$EhfXcDfB7iiakW6mwMy1i."],
 'sha512':["$6$RMxgK5ALGIf.nWEC$tHuKCyfNtJMCY561P52dTzHUmYMmLxb/Mxik.j3vMUs8lMCPocM00/NAS.SN6GCWx7d/vQIgxnClyQLAb7n3x0","$6$aaaagK5ALGIf.nWEC$zzuKCyfNtJMCY561P52dTzHUmYMmLxb/Mxik.j3vMUs8lMCPocM00/NAS.SN6GCWx7d/vQIgxnClyQLAb7n3x0"],
 'j9':[js.juniper_nonrandom_encrypt("hello","Q"),js.juniper_nonrandom_encrypt("world!","z")],
}
templates=[]
for item in t.sensitive_lines:
    if hasattr(item,'values'): item=item.values
    templates.append(item[0])
templates=sorted(set(x for x in templates if "{" in x))
bad=collections.Counter(); ex={}
for tpl in templates:
    for cls,(a,b) in classes.items():
        if tpl.count("{")>1 and "{0}" not in tpl: continue
        la,lb=tpl.format(a),tpl.format(b)
        oa,ob=run(la),run(lb)
        if cls=='sha512':  # random salt -> compare shape only
            oa=re.sub(r"\$6\$\S+","$6$X",oa); ob=re.sub(r"\$6\$\S+","$6$X",ob)
        kinds=[]
        if a in oa or b in ob: kinds.append("survives")
        if oa!=ob: kinds.append("differs")
        for k in kinds:
            bad[(cls,k)]+=1; ex.setdefault((cls,k),[]).append((la,oa,ob))
print(len(templates),"templates")
for k,v in sorted(bad.items()): print(k,v)
for k,v in ex.items():
    print("==",k)
    for la,oa,ob in v[:6]: print("   ",repr(la),"->",repr(oa), "" if oa==ob else "| other: "+repr(ob))
