import io, sys
from netconan.anonymize_files import FileAnonymizer
from netconan.sensitive_item_removal import SensitiveWordAnonymizer, AsNumberAnonymizer, anonymize_as_numbers
from netconan.utils import juniper_secrets as js
w=SensitiveWordAnonymizer(["sea","seattle"],"s")
print(w.sens_regex.pattern, repr(w.anonymize("route-map seattle-to-sea x")))
w=SensitiveWordAnonymizer(["intentionet"],"s")
print(repr(w.anonymize("  a   b\tintentionet  c \n")), repr(w.anonymize("  a   b\tc \n")))
print(repr(w.anonymize("INTENTIONET IntentioNet intentionetintentionet")))
w=SensitiveWordAnonymizer(["add"],"s")
print(repr(w.anonymize("address addr add ADD Address")))
try: print(js.juniper_decrypt("$9$abcd\n"))
except Exception as e: print(type(e).__name__, e)
for s in ["$9$", "$9$abc","$9$abcd","$9$abcde","$9$Qabcdefg"]:
    try: print(s, repr(js.juniper_decrypt(s)))
    except Exception as e: print(s, type(e).__name__, e)
for salt in ["","!x","Q","é"]:
    try: print(repr(salt), js.juniper_nonrandom_encrypt("hi",salt))
    except Exception as e: print(repr(salt), type(e).__name__, e)
try: print(js.juniper_nonrandom_encrypt("hĀi","Q"), repr(js.juniper_decrypt(js.juniper_nonrandom_encrypt("hĀi","Q"))))
except Exception as e: print(type(e).__name__, e)
a=AsNumberAnonymizer(["12","123","65000"],"s")
print(a.as_num_regex.pattern, repr(anonymize_as_numbers(a,"as 12 123 1234 x12 12x 12.123 65000:12 ١12 12١")))
