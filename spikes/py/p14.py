import random, re, logging, collections
logging.disable(logging.CRITICAL)
from netconan.sensitive_item_removal import _anonymize_value
from netconan.utils import juniper_secrets as js
from passlib.hash import cisco_type7, md5_crypt, sha512_crypt
rng=random.Random(2)
ALPH="".join(js.NUM_ALPHA)
def gen(cls):
    if cls=='text': return "".join(rng.choice("ghijkLMNopq_-!@#") for _ in range(rng.randint(1,10)))+rng.choice("xyz")
    if cls=='numeric': return "".join(rng.choice("0123456789") for _ in range(rng.randint(1,12)))
    if cls=='hex':
        while True:
            s="".join(rng.choice("0123456789abcdefABCDEF") for _ in range(rng.randint(1,12)))
            if not s.isdigit() and not re.match(r"^[01][0-9]([0-9a-fA-F]{2})+$",s): return s
    if cls=='type7':
        while True:
            s=cisco_type7.using(salt=rng.randint(0,15)).hash("".join(rng.choice("abcXYZ019") for _ in range(rng.randint(1,8))))
            if not s.isdigit(): return s
    if cls=='md5': return md5_crypt.using(salt="".join(rng.choice("abcXYZ./09") for _ in range(rng.randint(1,8)))).hash("pw%d"%rng.randint(0,99))
    if cls=='sha512': return sha512_crypt.using(rounds=5000).hash("pw%d"%rng.randint(0,99))
    if cls=='j9': return js.juniper_nonrandom_encrypt("".join(rng.choice("abcXYZ019 !") for _ in range(rng.randint(1,8))), rng.choice(ALPH))
def classify(s):
    if re.fullmatch(r"[0-9]+",s): return 'numeric'
    if re.fullmatch(r"[01][0-9]([0-9a-fA-F]{2})+",s): return 'type7'
    if re.fullmatch(r"[0-9a-fA-F]+",s): return 'hex'
    if s.startswith("$1$"): return 'md5'
    if s.startswith("$6$"): return 'sha512'
    if s.startswith("$9$"): return 'j9'
    return 'text'
def strip(s):
    m=re.match(r'''^([\\'" \[{]*)(.*?)([\\'" \]};,]*)$''',s); return m.group(2)
bad=collections.Counter(); ex={}
for trial in range(400):
    lookup={}; seen={}  # key -> core replacement
    pool=[gen(rng.choice(['text','numeric','hex','type7','md5','sha512','j9'])) for _ in range(6)]
    for step in range(25):
        v=rng.choice(pool); head=rng.choice(["",'"',"'","[",'\\"','{ ']); tail=rng.choice(["",'"',"'","]",";",'",','\\"',' }'])
        raw=head+v+tail
        out=_anonymize_value(raw,lookup,set(),"S")
        if not (out.startswith(head) and out.endswith(tail)): bad['context']+=1; ex.setdefault('context',(raw,out)); continue
        core=out[len(head):len(out)-len(tail)]
        cls=classify(v); key=v
        if cls=='j9':
            key="J:"+js.juniper_decrypt(v)
            try: rep="J:"+js.juniper_decrypt(core)
            except Exception as e: bad['j9-undecodable']+=1; ex.setdefault('j9-undecodable',(raw,out)); continue
        else: rep=core
        if classify(core)!=cls: bad[('format',cls,classify(core))]+=1; ex.setdefault(('format',cls),(raw,out))
        if cls=='type7':
            try: cisco_type7.decode(core)
            except Exception: bad['type7-undecodable']+=1
        if cls=='md5' and len(core.split("$")[2])!=len(v.split("$")[2]): bad['md5-saltlen']+=1
        if key in seen and seen[key]!=rep: bad['inconsistent']+=1; ex.setdefault('inconsistent',(raw,out,seen[key]))
        seen.setdefault(key,rep)
    inv=collections.defaultdict(set)
    for k,r in seen.items(): inv[r].add(k)
    for r,ks in inv.items():
        if len(ks)>1: bad['collision']+=1; ex.setdefault('collision',(r,ks))
print(dict(bad)); 
for k,v in ex.items(): print(k,v)
