import io, logging, sys, random, collections, traceback
logging.disable(logging.CRITICAL)
sys.setrecursionlimit(1000)
import importlib.util
spec=importlib.util.spec_from_file_location("t","/repo/tests/unit/test_sensitive_item_removal.py"); t=importlib.util.module_from_spec(spec); spec.loader.exec_module(t)
from netconan.anonymize_files import FileAnonymizer
rng=random.Random(3)
templates=[]
for item in t.sensitive_lines:
    if hasattr(item,'values'): item=item.values
    templates.append(item[0].replace("{0}","{}"))
secrets=["RemoveMe","12345","deadBEEF","122A00190102180D3C2E","$1$wtHI$0rN7R8PKwC30AsCGA77vy.","$1$$x","$1$a$","$1$aaaaaaaaa$b","$6$ab$cd","$9$abcd","$9$Qnet","$9$","$9$!!!!","$1$","\\1","\\g<0>","a\\","(", "[", "*", "++","%s","{}","::1","fe80:%1","fe80::%1","1.2.3.4","255.255.255.0","65000","intentionet","é","١٢","\x1c","\x85"," ","'\"'\"","\"\"\"","[[[[","}}}};",""]
fill=["ip address 1.2.3.4 255.255.255.0","neighbor 2001:db8::1 remote-as 65000","fe80:%eth0","::ffff:1.2.3.4","router bgp 65000","description intentionet core \\n","!","","   ","\t#\t", "a\\b password c", "x\\1 key y", "snmp-server user a\\gb grp auth md5 zz"]
salts=["S","","!x","éé","Q","_","\\"]
errs=collections.Counter(); ex={}
N=0
for it in range(6000):
    salt=rng.choice(salts)
    fa=FileAnonymizer(rng.random()<.8,rng.random()<.7,salt=salt,sensitive_words=rng.choice([None,["intentionet","core"],["a.b"]]),as_numbers=rng.choice([None,["65000","12"]]),undo_ip_anon=False,preserve_suffix_v4=rng.choice([None,8]),preserve_suffix_v6=rng.choice([None,8]))
    lines=[]
    for _ in range(rng.randint(1,3)):
        if rng.random()<.7:
            tpl=rng.choice(templates); n=tpl.count("{}")
            l=tpl.format(*[rng.choice(secrets) for _ in range(n)])
        else: l=rng.choice(fill)
        if rng.random()<.3:
            p=rng.randrange(len(l)+1); l=l[:p]+rng.choice(secrets+["\\","\\g","$","%"])+l[p:]
        lines.append(l)
    for l in lines:
        N+=1
        try: fa.anonymize_io(io.StringIO(l+"\n"),io.StringIO())
        except Exception as e:
            tb=traceback.extract_tb(e.__traceback__)
            loc=[f for f in tb if 'netconan' in f.filename][-1]
            key=(type(e).__name__, loc.name, loc.lineno, str(e)[:40] if not isinstance(e,KeyError) else 'key')
            errs[key]+=1; ex.setdefault(key,(salt,l))
print(N,"lines")
for k,v in sorted(errs.items(),key=lambda x:-x[1]): print(v,k,repr(ex[k]))
