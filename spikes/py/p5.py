import re, collections
import re._parser as P, re._constants as C
from netconan.sensitive_item_removal import generate_default_sensitive_item_regexes, _ALLOWED_REGEX_PREFIX
from netconan.ip_anonymization import IPv4_PATTERN, IPv6_PATTERN, IpAnonymizer
ops=collections.Counter()
def walk(sp):
    for op,av in sp:
        ops[str(op)]+=1
        if op is C.IN:
            for o,a in av: ops['IN.'+str(o)+('.'+str(a) if o is C.CATEGORY else '')]+=1
        elif op is C.BRANCH:
            for b in av[1]: walk(b)
        elif op in (C.MAX_REPEAT,C.MIN_REPEAT,C.POSSESSIVE_REPEAT):
            walk(av[2])
        elif op is C.SUBPATTERN:
            if av[1] or av[2]: ops['SUBPATTERN.flags']+=1
            walk(av[3])
        elif op in (C.ASSERT,C.ASSERT_NOT):
            ops[str(op)+'.dir%d'%av[0]]+=1
            walk(av[1])
        elif op is C.AT: ops['AT.'+str(av)]+=1
        elif op is C.CATEGORY: ops['CAT.'+str(av)]+=1
        elif op is C.GROUPREF: ops['GROUPREF']+=1
pats=[IPv4_PATTERN,IPv6_PATTERN,IpAnonymizer._DROP_ZEROS_PATTERN]+[r for g in generate_default_sensitive_item_regexes() for r,_ in g]
for p in pats: walk(P.parse(p.pattern,p.flags))
for k,v in sorted(ops.items()): print(k,v)
print(len(pats))
print(P.parse(r"(?:(?<=\D)|(?<=^))(12|123)(?=\D|$)"))
