#!/venv/bin/python
"""Single entry point of the netconan verification: check.py <Cxx> quick|thorough
                                                     check.py <Cxx> --replay <file>
                                                     check.py --setup
Exit 0: property held on everything explored (known findings are printed, not raised).
Exit 1: a line `VIOLATION property=<id> replay=<path>` was printed.
Exit 2: infrastructure trouble."""
import json
import os
import random
import sys
import time
import traceback

sys.dont_write_bytecode = True
HERE = os.path.dirname(os.path.abspath(__file__))
sys.path.insert(0, HERE)

from harness import common  # noqa: E402
from harness.common import Infra, Result  # noqa: E402
from harness import registry  # noqa: E402


def finish(res, spec):
    """Evidence, verdict lines, exit code."""
    findings = common.load_findings()
    unlisted = []
    for v in res.violations:
        fid = registry.match_finding(res.pid, v, findings)
        if fid:
            res.known.append((fid, v))
        else:
            unlisted.append(v)
    printed = set()
    for fid, v in res.known:
        if fid not in printed:
            printed.add(fid)
            text = next((f["what"] for f in findings["findings"] if f["id"] == fid), fid)
            print("KNOWN-FINDING: property=%s %s [%s]" % (res.pid, text, fid))
    exit_code = 0
    lines = []
    if unlisted:
        path = common.write_replay(res.pid, {"property": res.pid, "kind": "failing input on the implementation",
                                              "case": unlisted[0], "more_cases": unlisted[1:6],
                                              "broken_obligations": res.broken[:10], "seed": res.seed, "tier": res.tier,
                                              "replay_cmd": "/venv/bin/python check.py %s --replay <this file>" % res.pid})
        lines.append("VIOLATION property=%s replay=%s" % (res.pid, path))
        exit_code = 1
    elif res.broken:
        path = common.write_replay(res.pid, {"property": res.pid,
                                              "kind": "proof obligation or correspondence no longer checks; search found no failing input",
                                              "broken_obligations": res.broken[:20], "seed": res.seed, "tier": res.tier,
                                              "replay_cmd": "/venv/bin/python check.py %s --replay <this file>" % res.pid})
        lines.append("VIOLATION property=%s replay=%s no-failing-input-found" % (res.pid, path))
        exit_code = 1
    if not res.samples:
        from harness import ip_checks
        res.samples = list(ip_checks.SAMPLE_BUF[:6])
    if not res.samples and res.violations:
        res.samples = [res.violations[0]]
    wall = time.time() - res.t0
    ev = {
        "property_id": res.pid, "tier": res.tier, "seed": res.seed, "level": "proof",
        "coverage": {
            "obligations": len(res.obligations), "discharged": len(res.discharged),
            "obligation_names": res.obligations,
            "undischarged": [o for o in res.obligations if o not in res.discharged],
            "checker_cmd": spec.get("checker_cmd", ""),
            "trusted_base": registry.TRUSTED_BASE + spec.get("trusted_extra", []),
            "evaluations": res.evaluations, "distinct_nontrivial": len(res.nontrivial),
            "rule": spec.get("rule", ""), "samples": res.samples or [{"note": "no samples drawn"}],
            "traces_validated_against_impl": res.traces,
            "input_distribution": res.dist, "exhaustive": res.exhaustive,
            "validation": res.validation, "notes": res.notes,
            "known_findings_reconfirmed": sorted(printed),
            "broken": res.broken[:20],
        },
        "assumptions": spec.get("assumptions", []),
        "wall_s": round(wall, 2), "violations": len(unlisted) + (1 if (res.broken and not unlisted) else 0),
    }
    os.makedirs(os.path.join(HERE, "evidence"), exist_ok=True)
    with open(os.path.join(HERE, "evidence", res.pid + ".json"), "w") as f:
        json.dump(ev, f, indent=1, default=str)
        f.write("\n")
    for ln in lines:
        print(ln)
    print("%s %s: obligations %d/%d, evaluations %d, distinct %d, known findings %d, %.1fs -> exit %d" % (
        res.pid, res.tier, len(res.discharged), len(res.obligations), res.evaluations, len(res.nontrivial),
        len(printed), wall, exit_code))
    return exit_code


def run_check(pid, tier, seed, replay=None):
    spec = registry.PROPS[pid]
    res = Result(pid, tier, seed)
    rng = random.Random("%s/%s/%d" % (pid, tier, seed))
    # 1. regenerate data from /repo's working tree
    gen_problems = registry.generate(res)
    # 2. build the theorems of this property and the model driver
    mods = spec["modules"]
    ok, log = common.lake_build(mods + ["ncdriver"])
    theorems = []
    for m in mods:
        theorems += common.prop_theorems(m)
    res.obligations = list(theorems)
    if not ok:
        # find out which modules fail, one by one, so that the others still count
        for m in mods:
            okm, logm = common.lake_build([m])
            if not okm:
                res.broken.append(("proof", m, registry.first_error(logm)))
        okd, logd = common.lake_build(["ncdriver"])
        if not okd:
            raise Infra("model driver does not build:\n" + logd[-2000:])
    # 3. axiom audit
    built = [m for m in mods if not any(b[1] == m for b in res.broken)]
    if built:
        ths = []
        for m in built:
            ths += common.prop_theorems(m)
        audit, text = common.axiom_audit(built, ths)
        for t, ax in audit.items():
            if ax is None:
                res.broken.append(("proof", t, "theorem not found by #print axioms"))
            elif set(ax) - common.ALLOWED_AXIOMS:
                res.broken.append(("audit", t, "axioms: " + ",".join(ax)))
            else:
                res.discharged.append(t)
    hits = common.forbidden_scan()
    if hits:
        res.broken.append(("audit", "forbidden-scan", "; ".join(hits[:5])))
        res.discharged = []
    for g in gen_problems:
        res.broken.append(g)
    if tier == "thorough":
        registry.thorough_lean(res, mods)
    # 4./5. correspondence + oracle on the implementation
    if replay:
        # every random choice derives from (property, tier, seed): the recorded run is repeated on the current tree and only
        # what the replay file recorded counts - the same kind of failing input, or the same obligations
        registry.replay(res, spec, replay)
        data = json.load(open(replay))
        for scope in spec["scopes"]:
            dis, fails = scope(res, pid, rng, tier)
            for d in dis:
                res.broken.append(("correspondence", scope.__name__, d))
            res.violations.extend(fails)
        want = (data.get("case") or {}).get("kind")
        if want is not None:
            res.violations = [v for v in res.violations if v.get("kind") == want]
            res.broken = []
            print("replay: the recorded kind of failing input %s on the current tree" % ("RECURS" if res.violations else "does not recur"))
        else:
            names = set(str(b[1]) for b in data.get("broken_obligations", []))
            res.violations = []
            res.broken = [b for b in res.broken if str(b[1]) in names]
            print("replay: %d of the recorded obligations / correspondences still fail" % len(res.broken))
    else:
        registry.corpus(res, spec)
        for scope in spec["scopes"]:
            dis, fails = scope(res, pid, rng, tier)
            for d in dis:
                res.broken.append(("correspondence", scope.__name__, d))
            res.violations.extend(fails)
        if res.broken and not res.violations:
            # 4.3: an obligation or the correspondence broke - search harder for a failing input
            registry.search(res, spec, rng)
    # 6. known findings are re-confirmed on the real code
    registry.reconfirm(res, spec)
    return finish(res, spec)


def main(argv):
    if len(argv) >= 1 and argv[0] == "--setup":
        return registry.setup()
    if len(argv) < 2:
        print(__doc__)
        return 2
    pid = argv[0]
    seed = int(os.environ.get("VERIF_SEED", "0") or 0)
    try:
        if argv[1] == "--replay":
            data = json.load(open(argv[2]))
            return run_check(pid, data.get("tier", "quick"), int(data.get("seed", seed)), replay=argv[2])
        tier = argv[1]
        return run_check(pid, tier, seed)
    except Infra as e:
        print("INFRASTRUCTURE: %s" % e)
        return 2
    except Exception:
        traceback.print_exc()
        print("INFRASTRUCTURE: unexpected exception in the check machinery")
        return 2


if __name__ == "__main__":
    sys.exit(main(sys.argv[1:]))
