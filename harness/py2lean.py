"""Source translator: selected functions of netconan, read from /repo's working tree as *text* (Python `ast`), are
translated statement by statement into Lean definitions (`lean/Netconan/Generated/Src.lean`, rewritten on every run).
`lean/Netconan/Proofs/SrcTie.lean` proves that each translated function is the hand-written model's function, so the
theorems about the model are theorems about what the source says now.  A change of one of these functions changes the
generated definition; if the tie theorem no longer checks, that is a broken proof obligation of every property whose
theorem modules import it (and the usual search for a failing input follows).

What is translated generically: assignments (also tuple assignments without cross-dependencies), augmented assignments,
`if`/`elif`/`else` (branches that return, branches that fall through and are merged on the variables that are live
afterwards, `x is None` / `x is not None` as a `match`), `return`, `raise`, `for` over a list and `while True` (through the
combinators `Py.forLoop` / `Py.whileLoop`: `return` inside the body leaves the loop, the rest of the function is the
continuation), integer / bit / comparison / boolean operators, and recursion (with a fuel argument).  Operations that
have no Lean counterpart (string slicing of bit strings, `bidict` access, `int(x, 2)`, `re.match`, the md5 call) are
mapped by the per-function rules below to primitives of `Model/Py.lean` or of the model; each rule is one line:
`python pattern with metavariables A, B, ...  ->  lean template`.  Anything not covered makes the translation fail,
which is reported as a generator problem (a broken obligation), never silently skipped.
"""
import ast
import os
import re

from .common import LEAN, REPO


class Unsupported(Exception):
    pass


META = {"A", "B", "C", "D"}


def _match(pat, node, b):
    """structural match of a pattern AST against a node; Name nodes A..D are metavariables"""
    if isinstance(pat, ast.Name) and pat.id in META:
        if pat.id in b:
            return ast.dump(b[pat.id]) == ast.dump(node)
        b[pat.id] = node
        return True
    if type(pat) is not type(node):
        return False
    for f, pv in ast.iter_fields(pat):
        if f in ("ctx", "lineno", "col_offset", "end_lineno", "end_col_offset", "kind", "type_comment"):
            continue
        nv = getattr(node, f, None)
        if isinstance(pv, list):
            if not isinstance(nv, list) or len(pv) != len(nv):
                return False
            for x, y in zip(pv, nv):
                if isinstance(x, ast.AST):
                    if not _match(x, y, b):
                        return False
                elif x != y:
                    return False
        elif isinstance(pv, ast.AST):
            if not isinstance(nv, ast.AST) or not _match(pv, nv, b):
                return False
        elif pv != nv:
            return False
    return True


def _pat_expr(src):
    return ast.parse(src, mode="eval").body


def _pat_stmt(src):
    return ast.parse(src).body[0]


BINOPS = {ast.Add: "+", ast.Sub: "-", ast.Mult: "*", ast.FloorDiv: "/", ast.Mod: "%", ast.BitXor: "^^^",
          ast.BitAnd: "&&&", ast.BitOr: "|||", ast.RShift: ">>>", ast.LShift: "<<<"}
CMPOPS = {ast.Eq: "==", ast.NotEq: "!=", ast.Lt: "<", ast.Gt: ">", ast.LtE: "≤", ast.GtE: "≥"}


def lean_name(n):
    n = n.lstrip("_") or "u"
    return n + "_" if n in ("end", "from", "at", "do", "then", "else", "fun", "let", "in", "match", "with", "open", "prefix") else n


class Fn:
    def __init__(self, cfg, node, tr):
        self.cfg = cfg
        self.node = node
        self.tr = tr
        self.erules = [(_pat_expr(p), t) for p, t in cfg.get("expr_rules", [])]
        self.srules = [(_pat_stmt(p), t) for p, t in cfg.get("stmt_rules", [])]
        self.skip = [_pat_stmt(p) for p in cfg.get("skip_stmts", [])]
        self.add = cfg.get("add", "+")
        self.ret = cfg.get("ret", "{}")
        self.depth = 0
        self.defd = {a.arg for a in node.args.args}
        self.raise_ = cfg.get("raise", "Py.raise Err.{}")
        self.fall = cfg.get("fallthrough")            # code when the function body ends without return
        self.errs = {"ValueError": "valueError", "KeyError": "keyError", "IndexError": "indexError"}

    # ---------- expressions
    def E(self, e):
        for pat, tmpl in self.erules:
            b = {}
            if _match(pat, e, b):
                if callable(tmpl):
                    return tmpl(self, b)
                return tmpl.format(**{k: self.E(v) for k, v in b.items()})
        if isinstance(e, ast.Constant):
            if isinstance(e.value, bool):
                return "true" if e.value else "false"
            if isinstance(e.value, int):
                return str(e.value)
            raise Unsupported("constant %r" % (e.value,))
        if isinstance(e, ast.Name):
            return lean_name(e.id)
        if isinstance(e, ast.BinOp):
            op = self.add if isinstance(e.op, ast.Add) else BINOPS.get(type(e.op))
            if op is None:
                raise Unsupported("operator " + type(e.op).__name__)
            return "(%s %s %s)" % (self.E(e.left), op, self.E(e.right))
        if isinstance(e, ast.Compare) and len(e.ops) == 1 and type(e.ops[0]) in CMPOPS:
            op = CMPOPS[type(e.ops[0])]
            a, c = self.E(e.left), self.E(e.comparators[0])
            return "(%s %s %s)" % (a, op, c) if op in ("==", "!=") else "decide (%s %s %s)" % (a, op, c)
        if isinstance(e, ast.BoolOp):
            op = " && " if isinstance(e.op, ast.And) else " || "
            return "(" + op.join(self.E(v) for v in e.values) + ")"
        if isinstance(e, ast.UnaryOp) and isinstance(e.op, ast.Not):
            return "(!%s)" % self.E(e.operand)
        if isinstance(e, ast.Tuple):
            return "(" + ", ".join(self.E(v) for v in e.elts) + ")"
        raise Unsupported("expression `%s`" % ast.unparse(e))

    # ---------- statements
    @staticmethod
    def always_leaves(stmts):
        if not stmts:
            return False
        s = stmts[-1]
        if isinstance(s, (ast.Return, ast.Raise)):
            return True
        if isinstance(s, ast.If):
            return Fn.always_leaves(s.body) and Fn.always_leaves(s.orelse)
        return False

    @staticmethod
    def has_leave(stmts):
        return any(isinstance(n, (ast.Return, ast.Raise)) for s in stmts for n in ast.walk(s))

    @staticmethod
    def assigned(stmts):
        out = []
        for s in stmts:
            for n in ast.walk(s):
                if isinstance(n, ast.Name) and isinstance(n.ctx, ast.Store) and n.id not in out:
                    out.append(n.id)
        return out

    @staticmethod
    def loaded(stmts):
        return {n.id for s in stmts for n in ast.walk(s) if isinstance(n, ast.Name) and isinstance(n.ctx, ast.Load)}

    def is_skipped(self, s):
        if isinstance(s, ast.Expr) and isinstance(s.value, ast.Constant) and isinstance(s.value.value, str):
            return True                                    # docstring
        return any(_match(p, s, {}) for p in self.skip)

    def S(self, stmts, ind, end, live_after=frozenset()):
        """lines for a statement list; `end` = lines (function of indent) emitted when the list falls off its end"""
        saved = set(self.defd)
        try:
            return self.S_(stmts, ind, end, live_after)
        finally:
            self.defd = saved

    def S_(self, stmts, ind, end, live_after):
        pad = "  " * ind
        if not stmts:
            return end(ind)
        s, rest = stmts[0], stmts[1:]
        if isinstance(s, (ast.Assign, ast.AugAssign)):
            for n in ast.walk(s):
                if isinstance(n, ast.Name) and isinstance(n.ctx, ast.Store):
                    self.defd.add(n.id)
        if self.is_skipped(s):
            return self.S_(rest, ind, end, live_after)
        for pat, tmpl in self.srules:
            b = {}
            if _match(pat, s, b):
                return [pad + tmpl.format(**{k: self.E(v) for k, v in b.items()})] + self.S_(rest, ind, end, live_after)
        if isinstance(s, ast.Assign) and len(s.targets) == 1:
            t = s.targets[0]
            if isinstance(t, ast.Name):
                return [pad + "let %s := %s" % (lean_name(t.id), self.E(s.value))] + self.S_(rest, ind, end, live_after)
            if isinstance(t, ast.Tuple) and isinstance(s.value, ast.Tuple) and len(t.elts) == len(s.value.elts) \
                    and all(isinstance(x, ast.Name) for x in t.elts):
                names = [x.id for x in t.elts]
                if self.loaded([ast.Expr(v) for v in s.value.elts]) & set(names):
                    raise Unsupported("tuple assignment with cross-dependency")
                ls = [pad + "let %s := %s" % (lean_name(n), self.E(v)) for n, v in zip(names, s.value.elts)]
                return ls + self.S_(rest, ind, end, live_after)
            if isinstance(t, ast.Tuple) and all(isinstance(x, ast.Name) for x in t.elts):
                return [pad + "let (%s) := %s" % (", ".join(lean_name(x.id) for x in t.elts), self.E(s.value))] + \
                    self.S_(rest, ind, end, live_after)
        if isinstance(s, ast.AugAssign) and isinstance(s.target, ast.Name):
            e = ast.BinOp(left=ast.Name(id=s.target.id, ctx=ast.Load()), op=s.op, right=s.value)
            return [pad + "let %s := %s" % (lean_name(s.target.id), self.E(e))] + self.S_(rest, ind, end, live_after)
        if isinstance(s, ast.Return):
            if s.value is None:
                raise Unsupported("bare return")
            v = self.ret.format(self.E(s.value))
            for _ in range(self.depth):
                v = "Sum.inl (%s)" % v
            return [pad + "pure (%s)" % v]
        if isinstance(s, ast.Raise):
            exc = s.exc.func.id if isinstance(s.exc, ast.Call) else getattr(s.exc, "id", None)
            if exc not in self.errs:
                raise Unsupported("raise " + ast.unparse(s))
            return [pad + self.raise_.format(self.errs[exc])]
        if isinstance(s, ast.If):
            return self.If(s, rest, ind, end, live_after)
        if isinstance(s, ast.For) and not s.orelse and isinstance(s.target, ast.Name):
            return self.Loop(s, rest, ind, end, live_after, "for")
        if isinstance(s, ast.While) and not s.orelse and isinstance(s.test, ast.Constant) and s.test.value is True:
            return self.Loop(s, rest, ind, end, live_after, "while")
        raise Unsupported("statement `%s`" % ast.unparse(s).splitlines()[0])

    def If(self, s, rest, ind, end, live_after):
        pad = "  " * ind
        t = s.test
        # `x is None` / `x is not None`
        if isinstance(t, ast.Compare) and len(t.ops) == 1 and isinstance(t.ops[0], (ast.Is, ast.IsNot)) \
                and isinstance(t.left, ast.Name) and isinstance(t.comparators[0], ast.Constant) and t.comparators[0].value is None:
            some_body, none_body = (s.orelse, s.body) if isinstance(t.ops[0], ast.Is) else (s.body, s.orelse)
            x = lean_name(t.left.id)
            if not (self.always_leaves(s.body) or self.always_leaves(s.orelse) or not rest):
                raise Unsupported("`is None` test whose branches both fall through into more statements")
            ls = [pad + "match %s with" % x, pad + "| some %s =>" % x]
            ls += self.S(some_body + ([] if self.always_leaves(some_body) else rest), ind + 1, end, live_after)
            ls += [pad + "| none =>"]
            ls += self.S(none_body + ([] if self.always_leaves(none_body) else rest), ind + 1, end, live_after)
            return ls
        c = self.E(t)
        if self.always_leaves(s.body):
            ls = [pad + "if %s then do" % c] + self.S(s.body, ind + 1, end, live_after)
            return ls + [pad + "else do"] + self.S(s.orelse + rest, ind + 1, end, live_after)
        if s.orelse and self.always_leaves(s.orelse):
            ls = [pad + "if %s then do" % c] + self.S(s.body + rest, ind + 1, end, live_after)
            return ls + [pad + "else do"] + self.S(s.orelse, ind + 1, end, live_after)
        if not self.has_leave(s.body) and not self.has_leave(s.orelse):
            live = self.loaded(rest) | set(live_after)
            vs = [v for v in self.assigned(s.body + s.orelse) if v in live]
            tup = ", ".join(lean_name(v) for v in vs)
            tup = "(%s)" % tup if len(vs) != 1 else tup
            fin = lambda i: ["  " * i + "pure %s" % (tup if vs else "()")]           # noqa: E731
            ls = [pad + "let %s ← (if %s then do" % (tup if vs else "_", c)]
            ls += self.S(s.body, ind + 2, fin, set(vs))
            ls += [pad + "  else do"] + self.S(s.orelse, ind + 2, fin, set(vs))
            ls[-1] += ")"
            return ls + self.S_(rest, ind, end, live_after)
        ls = [pad + "if %s then do" % c] + self.S(s.body + rest, ind + 1, end, live_after)
        return ls + [pad + "else do"] + self.S(s.orelse + rest, ind + 1, end, live_after)

    def Loop(self, s, rest, ind, end, live_after, kind):
        pad = "  " * ind
        live = self.loaded(rest) | set(live_after) | self.loaded(s.body)
        later = self.loaded(rest) | set(live_after)
        fresh = [v for v in self.assigned(s.body) if v not in self.defd and v in later]
        if fresh:
            raise Unsupported("variable %s first assigned inside a loop and used after it" % fresh[0])
        vs = [v for v in self.assigned(s.body) if v in live and v in self.defd and not (kind == "for" and v == s.target.id)]
        tup = ", ".join(lean_name(v) for v in vs)
        tup = "(%s)" % tup if len(vs) != 1 else tup
        if not vs:
            tup = "()"
        # inside the body: `return v` leaves the loop with the function's result (`Sum.inl`), the end of the body carries
        # the state on (`Sum.inr`); the rest of the function is the continuation
        body_end = lambda i: ["  " * i + "pure (Sum.inr %s)" % tup]                  # noqa: E731
        self.depth += 1
        try:
            body = self.S(s.body, ind + 2, body_end, set(vs))
        finally:
            self.depth -= 1
        if kind == "for":
            head = pad + "Py.forLoop (%s) %s (fun %s %s => do" % (self.E(s.iter), tup, lean_name(s.target.id), "_" if not vs else tup)
        else:
            head = pad + "Py.whileLoop %s %s (fun %s => do" % (self.cfg["while_fuel"], tup, "_" if not vs else tup)
        ls = [head] + body
        ls[-1] += ")"
        ls += [pad + "  (fun %s => do" % ("_" if not vs else tup)] + self.S(rest, ind + 2, end, live_after)
        ls[-1] += ")"
        return ls

    def render(self):
        cfg = self.cfg
        args = self.node.args.args
        body = self.node.body
        if cfg.get("select") == "last_for":          # only the last top-level `for` statement of the function
            body = [n for n in body if isinstance(n, ast.For)][-1:]
            if not body:
                raise Unsupported("no for loop left in %s" % cfg["qual"])

        def fn_end(i):
            if self.fall is None:
                raise Unsupported("function %s can fall off its end" % cfg["name"])
            return ["  " * i + self.fall]
        doc = "/-- `%s` of %s (translated from the source text) -/" % (cfg["qual"], cfg["module"])
        if cfg.get("fuel"):
            ps = [lean_name(a.arg) for a in args if a.arg != "self"]
            ls = [doc, "def %s %s" % (cfg["name"], cfg["sig"]),
                  "  | 0, %s => %s" % (", ".join("_" for _ in ps), self.raise_.format("outOfFuel")),
                  "  | fuel + 1, %s => do" % ", ".join(ps)]
            return "\n".join(ls + self.S(body, 2, fn_end))
        ls = [doc, "def %s %s := %s" % (cfg["name"], cfg["sig"], cfg.get("run", "") + "do")]
        return "\n".join(ls + self.S(body, 1, fn_end))


def find_function(tree, qual):
    parts = qual.split(".")
    body = tree.body
    node = None
    for p in parts:
        node = next((n for n in body if isinstance(n, (ast.FunctionDef, ast.ClassDef)) and n.name == p), None)
        if node is None:
            raise Unsupported("function %s not found in the source" % qual)
        body = node.body
    return node


# ------------------------------------------------------------------------------------------------------------------
# the translated functions
# ------------------------------------------------------------------------------------------------------------------
BITS_E = [
    ("self.cache.get(A)", "IpCore.get (← Py.cache) {A}"),
    ("self.cache.inv.get(A)", "IpCore.getInv (← Py.cache) {A}"),
    ("A[:-1]", "List.dropLast {A}"),
    ("int(A[-1])", "(← Py.lastBit {A})"),
    ("self.salter(self.salt, A)", "h {A}"),
    ("str(A ^ B)", "[Bool.xor {A} {B}]"),
    ("self._anonymize_bits(A)", "(← anonymize_bits h fuel {A})"),
    ("self._deanonymize_bits(A)", "(← deanonymize_bits h fuel {A})"),
]
BITS_S = [
    ("self.cache[A] = B", "Py.cachePut {A} {B}"),
    ("self.cache.inv[A] = B", "Py.cachePutInv {A} {B}"),
]
ADDR_E = [
    ("self.fmt.format(A)", "IpCore.fmt L {A}"),
    ("self.preserve_suffix == 0", "(B == 0)"),
    ("A[:-self.preserve_suffix]", "Py.sliceToNeg {A} B"),
    ("A[-self.preserve_suffix:]", "Py.sliceFromNeg {A} B"),
    ("int(A, 2)", "IpCore.ofBits {A}"),
    ("self._anonymize_bits(A)", "(← anonymize_bits h (List.length {A} + 1) {A})"),
    ("self._deanonymize_bits(A)", "(← deanonymize_bits h (List.length {A} + 1) {A})"),
]

_fmt_literals = []


def _re_match_rule(fn, b):
    lit = b["A"]
    if not (isinstance(lit, ast.Constant) and isinstance(lit.value, str)):
        raise Unsupported("re.match with a pattern that is not a string literal")
    _fmt_literals.append(lit.value)
    return "Secrets.reMatch (fs.getD %d Regex.Re.fail) %s" % (len(_fmt_literals) - 1, fn.E(b["B"]))


FMT_NAMES = {"cisco_type7": "type7", "numeric": "numeric", "hexadecimal": "hex", "md5": "md5", "text": "text",
             "sha512": "sha512", "juniper_type9": "jun9"}


def _fmt_rule(fn, b):
    raise Unsupported("unreachable")


FUNCS = [
    dict(module="netconan/ip_anonymization.py", qual="IpAnonymizer._is_mask", name="is_mask",
         sig="(possible_mask_int : Nat) : Bool", run="Id.run "),
    dict(module="netconan/ip_anonymization.py", qual="_BaseIpAnonymizer._anonymize_bits", name="anonymize_bits",
         sig="(h : Bits → Bool) : Nat → Bits → Py.M Bits", fuel=True, add="++", expr_rules=BITS_E, stmt_rules=BITS_S),
    dict(module="netconan/ip_anonymization.py", qual="_BaseIpAnonymizer._deanonymize_bits", name="deanonymize_bits",
         sig="(h : Bits → Bool) : Nat → Bits → Py.M Bits", fuel=True, add="++", expr_rules=BITS_E, stmt_rules=BITS_S),
    dict(module="netconan/ip_anonymization.py", qual="_BaseIpAnonymizer.anonymize", name="anonymize",
         sig="(h : Bits → Bool) (L B : Nat) (ip_int : Nat) : Py.M Nat", add="++", expr_rules=ADDR_E, stmt_rules=BITS_S),
    dict(module="netconan/ip_anonymization.py", qual="_BaseIpAnonymizer.deanonymize", name="deanonymize",
         sig="(h : Bits → Bool) (L B : Nat) (ip_int : Nat) : Py.M Nat", add="++", expr_rules=ADDR_E, stmt_rules=BITS_S),
    dict(module="netconan/ip_anonymization.py", qual="IpAnonymizer.__init__", name="seed_loop", select="last_for",
         sig="(preserve_prefixes : List Bits) : Py.M Unit", add="++", fallthrough="pure ()", stmt_rules=BITS_S,
         expr_rules=[("ipaddress.ip_network(A)", "{A}"),
                     ("self.fmt.format(int(A.network_address))[:A.prefixlen]", "{A}"),
                     ("range(len(A))", "List.range (List.length {A})"),
                     ("A[:B]", "List.take {B} {A}"),
                     ("A + '0'", "({A} ++ [false])"), ("A + '1'", "({A} ++ [true])")]),
    dict(module="netconan/sensitive_item_removal.py", qual="_check_sensitive_item_format", name="check_sensitive_item_format",
         sig="(fs : List Regex.Re) (val : List Char) : Secrets.Fmt", run="Id.run ",
         expr_rules=[("re.match(A, B)", _re_match_rule)] +
                    [("_sensitive_item_formats.%s" % k, "Secrets.Fmt.%s" % v) for k, v in FMT_NAMES.items()]),
    dict(module="netconan/sensitive_item_removal.py", qual="AsNumberAnonymizer._generate_as_number_replacement",
         name="generate_as_number_replacement",
         sig="(salt : List Char) (as_number : List Char) : Except Err (Option (List Char))",
         raise_="throw Err.{}", ret="some ({})", fallthrough="pure none",
         expr_rules=[("int(md5((self.salt + A).encode()).hexdigest(), 16)", "Md5.digestNat (String.ofList (salt ++ {A})).toUTF8"),
                     ("int(A)", "(← Py.intOfDigits {A})"),
                     ("self._AS_NUM_BOUNDARIES", "Generated.asBoundaries"),
                     ("str(A)", "Py.strNat {A}")]),
]


def format_literals(repo=REPO):
    """the pattern literals of `_check_sensitive_item_format`, in source order (read from the source text)"""
    tree = ast.parse(open(os.path.join(repo, "netconan/sensitive_item_removal.py")).read())
    fn = find_function(tree, "_check_sensitive_item_format")
    out = []
    for n in ast.walk(fn):
        if isinstance(n, ast.Call) and ast.unparse(n.func) == "re.match" and n.args and isinstance(n.args[0], ast.Constant):
            out.append((n.lineno, n.col_offset, n.args[0].value))
    return [v for _, _, v in sorted(out)]


GROUPS = {
    "SrcIp": dict(imports=["Netconan.Model.Py", "Netconan.Model.Mask"], serves=["C01", "C02", "C03", "C04", "C05", "C17"],
                  funcs=["is_mask", "anonymize_bits", "deanonymize_bits", "anonymize", "deanonymize", "seed_loop"]),
    "SrcSecrets": dict(imports=["Netconan.Model.Py", "Netconan.Model.Secrets"], serves=["C07", "C08", "C09"],
                       funcs=["check_sensitive_item_format"]),
    "SrcAs": dict(imports=["Netconan.Model.Py", "Netconan.Model.Words"], serves=["C11"],
                  funcs=["generate_as_number_replacement"]),
}


def render(group, repo=REPO):
    global _fmt_literals
    _fmt_literals = []
    trees = {}
    g = GROUPS[group]
    parts = ["import %s" % m for m in g["imports"]] + [
             "/-! GENERATED by harness/py2lean.py from the source text of /repo's working tree - do not edit. -/",
             "namespace Netconan.Generated.Src", "open Netconan", ""]
    problems = []
    for cfg in FUNCS:
        if cfg["name"] not in g["funcs"]:
            continue
        cfg = dict(cfg)
        if "raise_" in cfg:
            cfg["raise"] = cfg.pop("raise_")
        try:
            if cfg["module"] not in trees:
                trees[cfg["module"]] = ast.parse(open(os.path.join(repo, cfg["module"])).read())
            node = find_function(trees[cfg["module"]], cfg["qual"])
            parts.append(Fn(cfg, node, None).render())
            parts.append("")
        except Unsupported as e:
            problems.append(("generator", "py2lean:" + cfg["qual"], "source no longer in the translated subset: %s" % e))
        except (OSError, SyntaxError) as e:
            problems.append(("generator", "py2lean:" + cfg["qual"], "cannot read the source: %r" % e))
    parts.append("end Netconan.Generated.Src")
    return "\n".join(parts) + "\n", problems


def run(res):
    """writes Generated/Src*.lean; returns the problems of the groups that serve the property being checked"""
    from .gen import write_if_changed
    problems = []
    pid = getattr(res, "pid", None)
    for group, g in GROUPS.items():
        text, probs = render(group)
        changed = write_if_changed(os.path.join(LEAN, "Netconan", "Generated", group + ".lean"), text)
        mine = pid is None or pid in g["serves"]
        if hasattr(res, "notes") and changed and mine:
            res.notes.append("Generated/%s.lean changed" % group)
        pinned = os.path.join(LEAN, "Netconan", "Pinned", group + ".lean.txt")
        if mine and os.path.exists(pinned) and hasattr(res, "validation"):
            res.validation["translated_source_equals_pinned_snapshot:" + group] = (open(pinned).read() == text)
        if mine:
            problems += probs
    return problems


if __name__ == "__main__":
    for grp in GROUPS:
        t, p = render(grp)
        print(t)
        print(p)
