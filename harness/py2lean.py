"""Source translator: selected functions of netconan, read from /repo's working tree as *text* (Python `ast`), are
translated statement by statement into Lean definitions (`lean/Netconan/Generated/Src.lean`, rewritten on every run).
`lean/Netconan/Proofs/SrcTie.lean` proves that each translated function is the hand-written model's function, so the
theorems about the model are theorems about what the source says now.  A change of one of these functions changes the
generated definition; if the tie theorem no longer checks, that is a broken proof obligation of every property whose
theorem modules import it (and the usual search for a failing input follows).

What is translated generically: assignments (also tuple assignments without cross-dependencies), augmented assignments,
`if`/`elif`/`else` (branches that return, branches that fall through and are merged on the variables that are live
afterwards, `x is None` / `x is not None` as a `match`), `return`, `raise`, `for` over a list and `while True` (through the
combinators `Py.forLoop` / `Py.whileLoop`: `return` inside the body leaves the loop, the rest of the function is the
continuation), integer / bit / comparison / boolean operators, and recursion (with a fuel argument).  Operations that
have no Lean counterpart (string slicing of bit strings, `bidict` access, `int(x, 2)`, `re.match`, the md5 call) are
mapped by the per-function rules below to primitives of `Model/Py.lean` or of the model; each rule is one line:
`python pattern with metavariables A, B, ...  ->  lean template`.  Anything not covered makes the translation fail,
which is reported as a generator problem (a broken obligation), never silently skipped.
"""
import ast
import os
import re

from .common import LEAN, REPO


class Unsupported(Exception):
    pass


META = set("ABCDEFGHIJKLMNOP")


def _match(pat, node, b):
    """structural match of a pattern AST against a node; Name nodes A..D are metavariables"""
    if isinstance(pat, ast.Name) and pat.id in META:
        if pat.id in b:
            return ast.dump(b[pat.id]) == ast.dump(node)
        b[pat.id] = node
        return True
    if type(pat) is not type(node):
        return False
    for f, pv in ast.iter_fields(pat):
        if f in ("ctx", "lineno", "col_offset", "end_lineno", "end_col_offset", "kind", "type_comment"):
            continue
        nv = getattr(node, f, None)
        if isinstance(pv, list):
            if not isinstance(nv, list) or len(pv) != len(nv):
                return False
            for x, y in zip(pv, nv):
                if isinstance(x, ast.AST):
                    if not _match(x, y, b):
                        return False
                elif x != y:
                    return False
        elif isinstance(pv, ast.AST):
            if not isinstance(nv, ast.AST) or not _match(pv, nv, b):
                return False
        elif pv != nv:
            return False
    return True


def _pat_expr(src):
    return ast.parse(src, mode="eval").body


def _pat_stmt(src):
    return ast.parse(src).body[0]


BINOPS = {ast.Add: "+", ast.Sub: "-", ast.Mult: "*", ast.FloorDiv: "/", ast.Mod: "%", ast.BitXor: "^^^",
          ast.BitAnd: "&&&", ast.BitOr: "|||", ast.RShift: ">>>", ast.LShift: "<<<"}
CMPOPS = {ast.Eq: "==", ast.NotEq: "!=", ast.Lt: "<", ast.Gt: ">", ast.LtE: "≤", ast.GtE: "≥"}


def lean_name(n):
    n = n.lstrip("_") or "u"
    return n + "_" if n in ("end", "from", "at", "do", "then", "else", "fun", "let", "in", "match", "with", "open", "prefix") else n


class Fn:
    def __init__(self, cfg, node, tr):
        self.cfg = cfg
        self.node = node
        self.tr = tr
        self.erules = [(_pat_expr(p), t) for p, t in cfg.get("expr_rules", [])]
        self.srules = [(_pat_stmt(r_[0]), r_[1]) for r_ in cfg.get("stmt_rules", [])]
        self.srule_assigns = [(_pat_stmt(r_[0]), r_[2]) for r_ in cfg.get("stmt_rules", []) if len(r_) > 2]
        self.skip = [_pat_stmt(p) for p in cfg.get("skip_stmts", [])]
        self.add = cfg.get("add", "+")
        self.ret = cfg.get("ret", "{}")
        self.loops = []
        self.defd = {a.arg for a in node.args.args}
        self.raise_ = cfg.get("raise", "Py.raise Err.{}")
        self.fall = cfg.get("fallthrough")            # code when the function body ends without return
        self.errs = {"ValueError": "valueError", "KeyError": "keyError", "IndexError": "indexError"}

    def fill(self, tmpl, b):
        """a rule template with its metavariables translated (only those the template mentions)"""
        import string
        used = {f for _, f, _, _ in string.Formatter().parse(tmpl) if f}
        return tmpl.format(**{k: self.E(v) for k, v in b.items() if k in used})

    # ---------- expressions
    def E(self, e):
        for pat, tmpl in self.erules:
            b = {}
            if _match(pat, e, b):
                if callable(tmpl):
                    return tmpl(self, b)
                return self.fill(tmpl, b)
        if isinstance(e, ast.Constant) and e.value is None:
            return "none"
        if isinstance(e, ast.Attribute) and ast.unparse(e) in self.cfg.get("attr_map", {}):
            return self.cfg["attr_map"][ast.unparse(e)]
        if isinstance(e, ast.Attribute) and isinstance(e.value, ast.Name) and e.value.id in self.cfg.get("records", ()):
            return "%s.%s" % (e.value.id, e.attr)
        if isinstance(e, ast.IfExp) and self.is_none_test(e.test):
            x, is_none = self.is_none_test(e.test)
            a, b = (e.body, e.orelse) if is_none else (e.orelse, e.body)
            return "(match %s with | none => %s | some %s => %s)" % (x, self.E(a), x, self.E(b))
        if isinstance(e, ast.IfExp):
            return "(if %s then %s else %s)" % (self.T(e.test), self.E(e.body), self.E(e.orelse))
        if isinstance(e, (ast.GeneratorExp, ast.ListComp)) and len(e.generators) == 1 and len(e.generators[0].ifs) == 1 \
                and isinstance(e.generators[0].target, ast.Tuple) and all(isinstance(x, ast.Name) for x in e.generators[0].target.elts):
            g = e.generators[0]
            pat = "(%s)" % ", ".join(lean_name(x.id) for x in g.target.elts)
            return "((%s).filter (fun %s => %s)).map (fun %s => %s)" % (self.E(g.iter), pat, self.T(g.ifs[0]), pat, self.E(e.elt))
        if isinstance(e, ast.ListComp) and len(e.generators) == 1 and not e.generators[0].ifs and isinstance(e.generators[0].target, ast.Name) \
                and "list_map" in self.cfg:
            g = e.generators[0]
            return self.cfg["list_map"].format(fn="fun %s => %s" % (lean_name(g.target.id), self.E(e.elt)), it=self.E(g.iter))
        if isinstance(e, ast.Constant) and isinstance(e.value, str) and self.cfg.get("strings"):
            return "[" + ", ".join("Char.ofNat %d" % ord(c) for c in e.value) + "]"
        if isinstance(e, ast.List) and not e.elts:
            return "[]"
        if isinstance(e, ast.Constant):
            if isinstance(e.value, bool):
                return "true" if e.value else "false"
            if isinstance(e.value, int):
                return str(e.value)
            raise Unsupported("constant %r" % (e.value,))
        if isinstance(e, ast.Name):
            return lean_name(e.id)
        if isinstance(e, ast.BinOp):
            op = self.add if isinstance(e.op, ast.Add) else BINOPS.get(type(e.op))
            if op is None:
                raise Unsupported("operator " + type(e.op).__name__)
            return "(%s %s %s)" % (self.E(e.left), op, self.E(e.right))
        if isinstance(e, ast.Compare) and len(e.ops) == 1 and type(e.ops[0]) in CMPOPS:
            op = CMPOPS[type(e.ops[0])]
            a, c = self.E(e.left), self.E(e.comparators[0])
            return "(%s %s %s)" % (a, op, c) if op in ("==", "!=") else "decide (%s %s %s)" % (a, op, c)
        if isinstance(e, ast.BoolOp):
            op = " && " if isinstance(e.op, ast.And) else " || "
            return "(" + op.join(self.T(v) for v in e.values) + ")"
        if isinstance(e, ast.UnaryOp) and isinstance(e.op, ast.Not):
            return "(!%s)" % self.T(e.operand)
        if isinstance(e, ast.Tuple):
            return "(" + ", ".join(self.E(v) for v in e.elts) + ")"
        raise Unsupported("expression `%s`" % ast.unparse(e))

    def T(self, e):
        """an expression in a truth-value context (`if`, `not`, `and`/`or` operands)"""
        if isinstance(e, (ast.Compare, ast.BoolOp)) or (isinstance(e, ast.UnaryOp) and isinstance(e.op, ast.Not)):
            return self.E(e)
        return "Py.truthy %s" % self.atom(self.E(e)) if self.cfg.get("truthiness") else self.E(e)

    @staticmethod
    def atom(x):
        return x if re.fullmatch(r"[\w.]+|\(.*\)", x) else "(%s)" % x

    @staticmethod
    def is_none_test(t):
        """(`x`, True) for `x is None`, (`x`, False) for `x is not None`, x a plain name; else None"""
        if isinstance(t, ast.Compare) and len(t.ops) == 1 and isinstance(t.ops[0], (ast.Is, ast.IsNot)) \
                and isinstance(t.left, ast.Name) and isinstance(t.comparators[0], ast.Constant) and t.comparators[0].value is None:
            return lean_name(t.left.id), isinstance(t.ops[0], ast.Is)
        return None

    # ---------- statements
    def is_terminal(self, s):
        return any(t.startswith("!") and _match(p, s, {}) for p, t in self.srules)

    def always_leaves(self, stmts):
        stmts = [x for x in stmts if not self.is_skipped(x)]
        if not stmts:
            return False
        s = stmts[-1]
        if isinstance(s, (ast.Return, ast.Raise, ast.Break, ast.Continue)) or self.is_terminal(s):
            return True
        if isinstance(s, ast.If):
            return self.always_leaves(s.body) and self.always_leaves(s.orelse)
        return False

    def has_leave(self, stmts):
        return any(isinstance(n, (ast.Return, ast.Raise, ast.Break, ast.Continue)) or (isinstance(n, ast.stmt) and self.is_terminal(n))
                   for s in stmts for n in ast.walk(s))

    def only_raises(self, stmts):
        """every way out of these statements other than falling through is a `raise`"""
        return not any(isinstance(n, (ast.Return, ast.Break, ast.Continue)) or (isinstance(n, ast.stmt) and self.is_terminal(n))
                       for s in stmts for n in ast.walk(s))

    def assigned(self, stmts):
        out = []
        for s in stmts:
            for n in ast.walk(s):
                if isinstance(n, ast.Name) and isinstance(n.ctx, ast.Store) and n.id not in out:
                    out.append(n.id)
                if isinstance(n, ast.stmt):
                    for pat, names in self.srule_assigns:       # names that a statement rule assigns (e.g. the log list)
                        if _match(pat, n, {}):
                            out += [x for x in names if x not in out]
        return out

    @staticmethod
    def loaded(stmts):
        return {n.id for s in stmts for n in ast.walk(s) if isinstance(n, ast.Name) and isinstance(n.ctx, ast.Load)}

    def is_skipped(self, s):
        if isinstance(s, ast.Expr) and isinstance(s.value, ast.Constant) and isinstance(s.value.value, str):
            return True                                    # docstring
        return any(_match(p, s, {}) for p in self.skip)

    def S(self, stmts, ind, end, live_after=frozenset()):
        """lines for a statement list; `end` = lines (function of indent) emitted when the list falls off its end"""
        saved = set(self.defd)
        try:
            return self.S_(stmts, ind, end, live_after)
        finally:
            self.defd = saved

    def S_(self, stmts, ind, end, live_after):
        pad = "  " * ind
        if not stmts:
            return end(ind)
        s, rest = stmts[0], stmts[1:]
        if isinstance(s, (ast.Assign, ast.AugAssign)):
            for n in ast.walk(s):
                if isinstance(n, ast.Name) and isinstance(n.ctx, ast.Store):
                    self.defd.add(n.id)
        if self.is_skipped(s):
            return self.S_(rest, ind, end, live_after)
        for pat, tmpl in self.srules:
            b = {}
            if _match(pat, s, b):
                line = pad + self.fill(tmpl.lstrip("!"), b)
                if tmpl.startswith("!"):                   # a rule that ends the function (its value is the result)
                    if any(not self.is_skipped(r) for r in rest):
                        raise Unsupported("statements after `%s`" % ast.unparse(s).splitlines()[0])
                    return [line]
                return [line] + self.S_(rest, ind, end, live_after)
        if isinstance(s, ast.Assign) and len(s.targets) == 1:
            t = s.targets[0]
            if isinstance(t, ast.Name):
                v = self.E(s.value)
                if t.id in self.cfg.get("optional_vars", ()) and not (isinstance(s.value, ast.Constant) and s.value.value is None):
                    v = "some %s" % self.atom(v)
                return [pad + "let %s := %s" % (lean_name(t.id), v)] + self.S_(rest, ind, end, live_after)
            if isinstance(t, ast.Tuple) and isinstance(s.value, ast.Tuple) and len(t.elts) == len(s.value.elts) \
                    and all(isinstance(x, ast.Name) for x in t.elts):
                names = [x.id for x in t.elts]
                if self.loaded([ast.Expr(v) for v in s.value.elts]) & set(names):
                    raise Unsupported("tuple assignment with cross-dependency")
                ls = [pad + "let %s := %s" % (lean_name(n), self.E(v)) for n, v in zip(names, s.value.elts)]
                return ls + self.S_(rest, ind, end, live_after)
            if isinstance(t, ast.Tuple) and all(isinstance(x, ast.Name) for x in t.elts):
                return [pad + "let (%s) := %s" % (", ".join(lean_name(x.id) for x in t.elts), self.E(s.value))] + \
                    self.S_(rest, ind, end, live_after)
        if isinstance(s, ast.AugAssign) and isinstance(s.target, ast.Name):
            e = ast.BinOp(left=ast.Name(id=s.target.id, ctx=ast.Load()), op=s.op, right=s.value)
            return [pad + "let %s := %s" % (lean_name(s.target.id), self.E(e))] + self.S_(rest, ind, end, live_after)
        if isinstance(s, ast.Return):
            if s.value is None:
                raise Unsupported("bare return")
            v = self.ret.format(self.E(s.value))
            for lp in reversed(self.loops):
                v = "%s (%s)" % (lp["ret"], v)
            return [pad + "pure (%s)" % v]
        if isinstance(s, ast.Raise):
            exc = s.exc.func.id if isinstance(s.exc, ast.Call) else getattr(s.exc, "id", None)
            if "raise_by_message" in self.cfg:
                msg = s.exc.args[0].value if isinstance(s.exc, ast.Call) and s.exc.args and isinstance(s.exc.args[0], ast.Constant) else None
                for key, val in self.cfg["raise_by_message"]:
                    if exc == "ValueError" and isinstance(msg, str) and msg.startswith(key):
                        return [pad + self.raise_.format(val)]
                raise Unsupported("raise " + ast.unparse(s))
            if exc not in self.errs:
                raise Unsupported("raise " + ast.unparse(s))
            return [pad + self.raise_.format(self.errs[exc])]
        if isinstance(s, ast.If):
            return self.If(s, rest, ind, end, live_after)
        if isinstance(s, ast.Try) and len(s.body) == 1 and isinstance(s.body[0], ast.Assign) and len(s.handlers) == 1 \
                and not s.orelse and not s.finalbody and isinstance(s.body[0].targets[0], ast.Name) \
                and isinstance(s.handlers[0].type, ast.Name) and s.handlers[0].type.id in self.errs and s.handlers[0].name is None:
            # `try: x = f(..) except ValueError: <handler>`: f is translated to a function into `Except Err`;
            # the handler takes every error of f (f raises nothing but that exception: stated by the rule for f)
            x = s.body[0].targets[0].id
            hb = [h_ for h_ in s.handlers[0].body if not self.is_skipped(h_)]
            if len(hb) == 1 and isinstance(hb[0], ast.Pass) and s.handlers[0].type.id == "ValueError" and x in self.defd \
                    and x in self.cfg.get("optional_vars", ()) and "try_value" in self.cfg:
                # `try: x = f(..) except ValueError: pass`: x keeps its value on ValueError, any other exception goes on
                line = pad + "let %s ← %s" % (lean_name(x), self.cfg["try_value"].format(self.E(s.body[0].value), lean_name(x)))
                return [line] + self.S_(rest, ind, end, live_after)
            ls = [pad + "match %s with" % self.E(s.body[0].value), pad + "| Except.error _ =>"]
            if not self.always_leaves(s.handlers[0].body):
                raise Unsupported("exception handler that falls through")
            ls += self.S(s.handlers[0].body, ind + 1, end, live_after)
            ls += [pad + "| Except.ok %s =>" % lean_name(x)]
            self.defd.add(x)
            return ls + self.S_(rest, ind + 1, end, live_after)
        if isinstance(s, ast.For) and not s.orelse and (isinstance(s.target, ast.Name) or (
                isinstance(s.target, ast.Tuple) and all(isinstance(e_, ast.Name) for e_ in s.target.elts))):
            return self.Loop(s, rest, ind, end, live_after, "for")
        if isinstance(s, (ast.Break, ast.Continue)):
            if not self.loops or not self.loops[-1]["brk"]:
                raise Unsupported("break / continue outside a for loop")
            return [pad + "pure (%s %s)" % ("Py.Step.brk" if isinstance(s, ast.Break) else "Py.Step.next", self.loops[-1]["tup"])]
        if isinstance(s, ast.While) and not s.orelse and isinstance(s.test, ast.Constant) and s.test.value is True:
            return self.Loop(s, rest, ind, end, live_after, "while")
        raise Unsupported("statement `%s`" % ast.unparse(s).splitlines()[0])

    def If(self, s, rest, ind, end, live_after):
        pad = "  " * ind
        t = s.test
        s = ast.If(test=t, body=[x for x in s.body if not self.is_skipped(x)], orelse=[x for x in s.orelse if not self.is_skipped(x)])
        # `x is None` / `x is not None` (x a name, or an attribute of a record such as `args.salt`): a `match`; inside the
        # `some` branch the name stands for the value
        nt = self.is_none_test(t)
        if nt is None and isinstance(t, ast.Compare) and len(t.ops) == 1 and isinstance(t.ops[0], (ast.Is, ast.IsNot)) \
                and isinstance(t.left, ast.Attribute) and isinstance(t.left.value, ast.Name) \
                and (t.left.value.id in self.cfg.get("records", ()) or ast.unparse(t.left) in self.cfg.get("attr_map", {})) \
                and isinstance(t.comparators[0], ast.Constant) and t.comparators[0].value is None:
            fresh = "%s_%s" % (t.left.value.id, t.left.attr)
            key = ast.dump(t.left)

            class Sub(ast.NodeTransformer):
                def visit_Attribute(self, n):
                    if ast.dump(n) == key:
                        return ast.copy_location(ast.Name(id=fresh, ctx=ast.Load()), n)
                    return self.generic_visit(n)
            import copy
            sb = [Sub().visit(copy.deepcopy(x)) for x in (s.orelse if isinstance(t.ops[0], ast.Is) else s.body)]
            nb = s.body if isinstance(t.ops[0], ast.Is) else s.orelse
            return self.IsNone(self.E(t.left), fresh, sb, nb, rest, ind, end, live_after)
        if nt is not None:
            x, is_none = nt
            some_body, none_body = (s.orelse, s.body) if is_none else (s.body, s.orelse)
            return self.IsNone(x, x, some_body, none_body, rest, ind, end, live_after)
        c = self.T(t)
        if self.cfg.get("guards") and rest and self.only_raises(s.body + s.orelse) and self.has_leave(s.body + s.orelse) \
                and not [v for v in self.assigned(s.body + s.orelse) if v in (self.loaded(rest) | set(live_after))]:
            unit = lambda i: ["  " * i + "pure ()"]                                   # noqa: E731
            ls = [pad + "(if %s then do" % c] + self.S(s.body, ind + 2, unit, ())
            ls += [pad + "  else do"] + self.S(s.orelse, ind + 2, unit, ())
            ls[-1] += ")"
            return ls + self.S_(rest, ind, end, live_after)
        if self.always_leaves(s.body):
            ls = [pad + "if %s then do" % c] + self.S(s.body, ind + 1, end, live_after)
            return ls + [pad + "else do"] + self.S(s.orelse + rest, ind + 1, end, live_after)
        if s.orelse and self.always_leaves(s.orelse):
            ls = [pad + "if %s then do" % c] + self.S(s.body + rest, ind + 1, end, live_after)
            return ls + [pad + "else do"] + self.S(s.orelse, ind + 1, end, live_after)
        if not self.has_leave(s.body) and not self.has_leave(s.orelse):
            live = self.loaded(rest) | set(live_after)
            vs = [v for v in self.assigned(s.body + s.orelse) if v in live]
            tup = ", ".join(lean_name(v) for v in vs)
            tup = "(%s)" % tup if len(vs) != 1 else tup
            fin = lambda i: ["  " * i + "pure %s" % (tup if vs else "()")]           # noqa: E731
            ls = [pad + "let %s ← (if %s then do" % (tup if vs else "_", c)]
            ls += self.S(s.body, ind + 2, fin, set(vs))
            ls += [pad + "  else do"] + self.S(s.orelse, ind + 2, fin, set(vs))
            ls[-1] += ")"
            return ls + self.S_(rest, ind, end, live_after)
        live = self.loaded(rest) | set(live_after)
        if self.only_raises(s.body + s.orelse) and not [v for v in self.assigned(s.body + s.orelse) if v in live]:
            # a guard: nothing assigned that is used later, the only way out is `raise`; then the rest follows once
            unit = lambda i: ["  " * i + "pure ()"]                                   # noqa: E731
            ls = [pad + "(if %s then do" % c] + self.S(s.body, ind + 2, unit, ())
            ls += [pad + "  else do"] + self.S(s.orelse, ind + 2, unit, ())
            ls[-1] += ")"
            return ls + self.S_(rest, ind, end, live_after)
        ls = [pad + "if %s then do" % c] + self.S(s.body + rest, ind + 1, end, live_after)
        return ls + [pad + "else do"] + self.S(s.orelse + rest, ind + 1, end, live_after)

    def IsNone(self, scrut, x, some_body, none_body, rest, ind, end, live_after):
        pad = "  " * ind
        if self.always_leaves(some_body) or self.always_leaves(none_body) or not rest:
            ls = [pad + "match %s with" % scrut, pad + "| some %s =>" % x]
            ls += self.S(some_body + ([] if self.always_leaves(some_body) else rest), ind + 1, end, live_after)
            ls += [pad + "| none =>"]
            ls += self.S(none_body + ([] if self.always_leaves(none_body) else rest), ind + 1, end, live_after)
            return ls
        live = self.loaded(rest) | set(live_after)
        if (self.has_leave(some_body) or self.has_leave(none_body)) and self.only_raises(some_body + none_body) \
                and not [v for v in self.assigned(some_body + none_body) if v in live]:
            unit = lambda i: ["  " * i + "pure ()"]                                   # noqa: E731
            ls = [pad + "(match %s with" % scrut, pad + "  | some %s => do" % x] + self.S(some_body, ind + 2, unit, ())
            ls += [pad + "  | none => do"] + self.S(none_body, ind + 2, unit, ())
            ls[-1] += ")"
            return ls + self.S_(rest, ind, end, live_after)
        if self.has_leave(some_body) or self.has_leave(none_body):           # a conditional leave: the rest follows in both branches
            ls = [pad + "match %s with" % scrut, pad + "| some %s =>" % x]
            ls += self.S(some_body + rest, ind + 1, end, live_after)
            ls += [pad + "| none =>"]
            ls += self.S(none_body + rest, ind + 1, end, live_after)
            return ls
        live = self.loaded(rest) | set(live_after)
        vs = [v for v in self.assigned(some_body + none_body) if v in live]
        tup = ", ".join(lean_name(v) for v in vs)
        tup = "(%s)" % tup if len(vs) != 1 else tup
        fin = lambda i: ["  " * i + "pure %s" % (tup if vs else "()")]           # noqa: E731
        if self.cfg.get("opt_case"):
            # the same through the combinator `Py.optCase` (a `match` with a name, so that lemmas about optional stages apply)
            ls = [pad + "let %s ← Py.optCase %s (fun %s => do" % (tup if vs else "_", self.atom(scrut), x)]
            ls += self.S(some_body, ind + 2, fin, set(vs))
            ls[-1] += ")"
            ls += [pad + "  (do"] + self.S(none_body, ind + 2, fin, set(vs))
            ls[-1] += ")"
            self.defd |= set(vs)
            return ls + self.S_(rest, ind, end, live_after)
        ls = [pad + "let %s ← (match %s with" % (tup if vs else "_", scrut), pad + "  | some %s => do" % x]
        ls += self.S(some_body, ind + 2, fin, set(vs))
        ls += [pad + "  | none => do"] + self.S(none_body, ind + 2, fin, set(vs))
        ls[-1] += ")"
        self.defd |= set(vs)
        return ls + self.S_(rest, ind, end, live_after)

    @staticmethod
    def has_break(stmts):
        """a `break` / `continue` that belongs to this loop level (not to a nested loop)"""
        def walk(n):
            if isinstance(n, (ast.Break, ast.Continue)):
                return True
            if isinstance(n, (ast.For, ast.While)):
                return False
            return any(walk(c) for c in ast.iter_child_nodes(n))
        return any(walk(x) for x in stmts)

    def Loop(self, s, rest, ind, end, live_after, kind):
        pad = "  " * ind
        if kind == "for":
            tnames = [s.target.id] if isinstance(s.target, ast.Name) else [e.id for e in s.target.elts]
            tpat = self.cfg.get("loop_targets", {}).get(ast.unparse(s.target), None)
            if tpat is None:
                tpat = lean_name(tnames[0]) if len(tnames) == 1 else "(%s)" % ", ".join(lean_name(t) for t in tnames)
        else:
            tnames, tpat = [], None
        live = self.loaded(rest) | set(live_after) | self.loaded(s.body) | set(self.cfg.get("always_live", ()))
        later = self.loaded(rest) | set(live_after) | set(self.cfg.get("always_live", ()))
        fresh = [v for v in self.assigned(s.body) if v not in self.defd and v in later]
        if fresh:
            raise Unsupported("variable %s first assigned inside a loop and used after it" % fresh[0])
        vs = [v for v in self.assigned(s.body) if v in live and v in self.defd and v not in tnames]
        tup = ", ".join(lean_name(v) for v in vs)
        tup = "(%s)" % tup if len(vs) != 1 else tup
        if not vs:
            tup = "()"
        brk = kind == "for" and self.has_break(s.body)
        # inside the body: `return v` leaves the loop with the function's result, the end of the body carries the state on;
        # with `break` / `continue` in the body the three-way `Py.Step` is used, otherwise `Sum`
        nxt, ret = ("Py.Step.next", "Py.Step.ret") if brk else ("Sum.inr", "Sum.inl")
        body_end = lambda i: ["  " * i + "pure (%s %s)" % (nxt, tup)]                  # noqa: E731
        self.loops.append({"tup": tup, "brk": brk, "ret": ret})
        self.defd |= set(tnames)
        try:
            body = self.S(s.body, ind + 2, body_end, set(vs))
        finally:
            self.loops.pop()
        if kind == "for":
            head = pad + "%s (%s) %s (fun %s %s => do" % ("Py.forLoopB" if brk else "Py.forLoop", self.E(s.iter), tup, tpat, "_" if not vs else tup)
        else:
            head = pad + "Py.whileLoop %s %s (fun %s => do" % (self.cfg["while_fuel"], tup, "_" if not vs else tup)
        ls = [head] + body
        ls[-1] += ")"
        if kind == "while":
            if any(not self.is_skipped(r_) for r_ in rest):
                raise Unsupported("statements after `while True`")
            return ls + [pad + "  (fun %s => %s)" % ("_" if not vs else tup, self.cfg["while_default"])]
        ls += [pad + "  (fun %s => do" % ("_" if not vs else tup)] + self.S(rest, ind + 2, end, live_after)
        ls[-1] += ")"
        return ls

    def render(self):
        cfg = self.cfg
        args = self.node.args.args
        body = self.node.body
        if cfg.get("select") == "for_body":          # the body of the (only) top-level `for` statement of the function
            loops = [n for n in body if isinstance(n, ast.For)]
            if len(loops) != 1:
                raise Unsupported("%s no longer has exactly one top-level for loop" % cfg["qual"])
            body = loops[0].body
        if cfg.get("select") == "last_for":          # only the last top-level `for` statement of the function
            body = [n for n in body if isinstance(n, ast.For)][-1:]
            if not body:
                raise Unsupported("no for loop left in %s" % cfg["qual"])

        def fn_end(i):
            if self.fall is None:
                raise Unsupported("function %s can fall off its end" % cfg["name"])
            return ["  " * i + self.fall]
        doc = "/-- `%s` of %s (translated from the source text) -/" % (cfg["qual"], cfg["module"])
        if cfg.get("fuel"):
            ps = [lean_name(a.arg) for a in args if a.arg != "self"]
            ls = [doc, "def %s %s" % (cfg["name"], cfg["sig"]),
                  "  | 0, %s => %s" % (", ".join("_" for _ in ps), self.raise_.format("outOfFuel")),
                  "  | fuel + 1, %s => do" % ", ".join(ps)]
            return "\n".join(ls + self.S(body, 2, fn_end))
        ls = [doc, "def %s %s := %s" % (cfg["name"], cfg["sig"], cfg.get("run", "") + "do")]
        for pl in cfg.get("prelude", []):
            ls.append("  " + pl[1])
            self.defd.add(pl[0])
        return "\n".join(ls + self.S(body, 1, fn_end))


def find_function(tree, qual):
    parts = qual.split(".")
    body = tree.body
    node = None
    for p in parts:
        node = next((n for n in body if isinstance(n, (ast.FunctionDef, ast.ClassDef)) and n.name == p), None)
        if node is None:
            raise Unsupported("function %s not found in the source" % qual)
        body = node.body
    return node


# ------------------------------------------------------------------------------------------------------------------
# the translated functions
# ------------------------------------------------------------------------------------------------------------------
BITS_E = [
    ("self.cache.get(A)", "IpCore.get (← Py.cache) {A}"),
    ("self.cache.inv.get(A)", "IpCore.getInv (← Py.cache) {A}"),
    ("A[:-1]", "List.dropLast {A}"),
    ("int(A[-1])", "(← Py.lastBit {A})"),
    ("self.salter(self.salt, A)", "h {A}"),
    ("str(A ^ B)", "[Bool.xor {A} {B}]"),
    ("self._anonymize_bits(A)", "(← anonymize_bits h fuel {A})"),
    ("self._deanonymize_bits(A)", "(← deanonymize_bits h fuel {A})"),
]
BITS_S = [
    ("self.cache[A] = B", "Py.cachePut {A} {B}"),
    ("self.cache.inv[A] = B", "Py.cachePutInv {A} {B}"),
]
ADDR_E = [
    ("self.fmt.format(A)", "IpCore.fmt L {A}"),
    ("self.preserve_suffix == 0", "(B == 0)"),
    ("A[:-self.preserve_suffix]", "Py.sliceToNeg {A} B"),
    ("A[-self.preserve_suffix:]", "Py.sliceFromNeg {A} B"),
    ("int(A, 2)", "IpCore.ofBits {A}"),
    ("self._anonymize_bits(A)", "(← anonymize_bits h (List.length {A} + 1) {A})"),
    ("self._deanonymize_bits(A)", "(← deanonymize_bits h (List.length {A} + 1) {A})"),
]

_fmt_literals = []


def _re_match_rule(fn, b):
    lit = b["A"]
    if not (isinstance(lit, ast.Constant) and isinstance(lit.value, str)):
        raise Unsupported("re.match with a pattern that is not a string literal")
    _fmt_literals.append(lit.value)
    return "Secrets.reMatch (fs.getD %d Regex.Re.fail) %s" % (len(_fmt_literals) - 1, fn.E(b["B"]))


FMT_NAMES = {"cisco_type7": "type7", "numeric": "numeric", "hexadecimal": "hex", "md5": "md5", "text": "text",
             "sha512": "sha512", "juniper_type9": "jun9"}


def _fmt_rule(fn, b):
    raise Unsupported("unreachable")


FUNCS = [
    dict(module="netconan/ip_anonymization.py", qual="IpAnonymizer._is_mask", name="is_mask",
         sig="(possible_mask_int : Nat) : Bool", run="Id.run "),
    dict(module="netconan/ip_anonymization.py", qual="_BaseIpAnonymizer._anonymize_bits", name="anonymize_bits",
         sig="(h : Bits → Bool) : Nat → Bits → Py.M Bits", fuel=True, add="++", expr_rules=BITS_E, stmt_rules=BITS_S),
    dict(module="netconan/ip_anonymization.py", qual="_BaseIpAnonymizer._deanonymize_bits", name="deanonymize_bits",
         sig="(h : Bits → Bool) : Nat → Bits → Py.M Bits", fuel=True, add="++", expr_rules=BITS_E, stmt_rules=BITS_S),
    dict(module="netconan/ip_anonymization.py", qual="_BaseIpAnonymizer.anonymize", name="anonymize",
         sig="(h : Bits → Bool) (L B : Nat) (ip_int : Nat) : Py.M Nat", add="++", expr_rules=ADDR_E, stmt_rules=BITS_S),
    dict(module="netconan/ip_anonymization.py", qual="_BaseIpAnonymizer.deanonymize", name="deanonymize",
         sig="(h : Bits → Bool) (L B : Nat) (ip_int : Nat) : Py.M Nat", add="++", expr_rules=ADDR_E, stmt_rules=BITS_S),
    dict(module="netconan/ip_anonymization.py", qual="IpAnonymizer.__init__", name="seed_loop", select="last_for",
         sig="(preserve_prefixes : List Bits) : Py.M Unit", add="++", fallthrough="pure ()", stmt_rules=BITS_S,
         expr_rules=[("ipaddress.ip_network(A)", "{A}"),
                     ("self.fmt.format(int(A.network_address))[:A.prefixlen]", "{A}"),
                     ("range(len(A))", "List.range (List.length {A})"),
                     ("A[:B]", "List.take {B} {A}"),
                     ("A + '0'", "({A} ++ [false])"), ("A + '1'", "({A} ++ [true])")]),
    dict(module="netconan/ip_anonymization.py", qual="_BaseIpAnonymizer.dump_to_file", name="dump_to_file",
         sig="(L : Nat) (c : IpCore.Cache) : List (Nat × Nat)", run="Id.run ", fallthrough="pure file_out", always_live=("file_out",),
         prelude=[("file_out", "let file_out : List (Nat × Nat) := []")],
         expr_rules=[("self.cache.items()", "c"), ("len(A) == self.length", "(List.length {A} == L)"), ("self._ip_to_str(A)", "IpCore.ofBits {A}")],
         stmt_rules=[("file_out.write('{}\\t{}\\n'.format(ip, anon))", "let file_out := file_out ++ [(ip, anon)]", ["file_out"])]),
    dict(module="netconan/ip_anonymization.py", qual="IpAnonymizer.should_anonymize", name="should_anonymize",
         sig="(nets : List Mask.Net) (ip_int : Nat) : Bool", run="Id.run ",
         expr_rules=[("ipaddress.ip_address(A)", "{A}"), ("self._is_mask(A)", "is_mask {A}"),
                     ("any([ip in n for n in self._preserve_addresses])", "nets.any (fun n => n.contains ip)")]),
    dict(module="netconan/ip_anonymization.py", qual="IpV6Anonymizer.should_anonymize", name="should_anonymize6",
         sig="(ip_int : Nat) : Bool", run="Id.run "),
    dict(module="netconan/ip_anonymization.py", qual="_anonymize_match", name="anonymize_match",
         sig="(h : Bits → Bool) (fam6 : Bool) (nets : List Mask.Net) (L B : Nat) (match_ : List Char) (undo_ip_anon : Bool) : Py.M (List Char)",
         skip_stmts=["logging.debug(A, B)", "logging.debug(A, B, C)"],
         expr_rules=[("anonymizer.make_addr(A)", "(if fam6 then IpText.parseV6 {A} else IpText.parseV4 {A})"),
                     ("int(ip)", "ip"),
                     ("anonymizer.should_anonymize(A)", "(if fam6 then should_anonymize6 {A} else should_anonymize nets {A})"),
                     ("anonymizer.deanonymize(A)", "(← deanonymize h L B {A})"),
                     ("anonymizer.anonymize(A)", "(← anonymize h L B {A})"),
                     ("anonymizer.make_addr_from_int(A)", "{A}"),
                     ("str(new_ip)", "(if fam6 then IpText.showV6 new_ip else IpText.showV4 new_ip)")]),
    dict(module="netconan/ip_anonymization.py", qual="anonymize_ip_addr", name="anonymize_ip_addr",
         sig="(h : Bits → Bool) (fam6 : Bool) (nets : List Mask.Net) (L B : Nat) (pat : Regex.Re) (line : List Char) (undo_ip_anon : Bool) : "
             "Py.M (Regex.Res (List Char))",
         expr_rules=[("anonymizer.get_addr_pattern()", "pat"),
                     ("pattern.sub(lambda match: _anonymize_match(anonymizer, match.group(0), undo_ip_anon), line)",
                      "(← Py.subM pattern (fun match_ => anonymize_match h fam6 nets L B match_.text undo_ip_anon) line)")]),
    dict(module="netconan/sensitive_item_removal.py", qual="_check_sensitive_item_format", name="check_sensitive_item_format",
         sig="(fs : List Regex.Re) (val : List Char) : Secrets.Fmt", run="Id.run ",
         expr_rules=[("re.match(A, B)", _re_match_rule)] +
                    [("_sensitive_item_formats.%s" % k, "Secrets.Fmt.%s" % v) for k, v in FMT_NAMES.items()]),
    dict(module="netconan/sensitive_item_removal.py", qual="AsNumberAnonymizer._generate_as_number_replacement",
         name="generate_as_number_replacement",
         sig="(salt : List Char) (as_number : List Char) : Except Err (Option (List Char))",
         raise_="throw Err.{}", ret="some ({})", fallthrough="pure none",
         expr_rules=[("int(md5((self.salt + A).encode()).hexdigest(), 16)", "Md5.digestNat (String.ofList (salt ++ {A})).toUTF8"),
                     ("int(A)", "(← Py.intOfDigits {A})"),
                     ("self._AS_NUM_BOUNDARIES", "Generated.asBoundaries"),
                     ("str(A)", "Py.strNat {A}")]),
]


def format_literals(repo=REPO):
    """the pattern literals of `_check_sensitive_item_format`, in source order (read from the source text)"""
    tree = ast.parse(open(os.path.join(repo, "netconan/sensitive_item_removal.py")).read())
    fn = find_function(tree, "_check_sensitive_item_format")
    out = []
    for n in ast.walk(fn):
        if isinstance(n, ast.Call) and ast.unparse(n.func) == "re.match" and n.args and isinstance(n.args[0], ast.Constant):
            out.append((n.lineno, n.col_offset, n.args[0].value))
    return [v for _, _, v in sorted(out)]


CLI_FIELDS = ["input", "output", "anonymize_passwords", "anonymize_ips", "salt", "dump_ip_map", "sensitive_words", "undo",
              "as_numbers", "reserved_words", "preserve_prefixes", "preserve_addresses"]
FUNCS.append(
    dict(module="netconan/netconan.py", qual="main", name="main", sig="(args : Cli.Parsed) : Except Cli.Reject Cli.Outcome",
         records=("args",), truthiness=True, guards=True, add="++", raise_="throw Cli.Reject.{}", fallthrough="pure Cli.Outcome.noop",
         optional_vars=("as_numbers", "reserved_words", "sensitive_words", "preserve_prefixes", "preserve_addresses"),
         raise_by_message=[("Input must be specified", "inputMissing"), ("Output must be specified", "outputMissing"),
                           ("Cannot anonymize and undo", "undoWithAnonymize"), ("Salt used for anonymization must be specified", "undoWithoutSalt"),
                           ("Can only dump IP address map", "dumpWithoutIps")],
         skip_stmts=["args = _parse_args(argv)", "log_level = logging.getLevelName(args.log_level)",
                     "logging.basicConfig(format='%(levelname)s %(message)s', level=log_level)", "logging.warning(A)"],
         expr_rules=[("A.split(',')", "Cli.splitComma {A}"), ("list(IpAnonymizer.RFC_1918_NETWORKS)", "Cli.rfc1918"),
                     ("any([A, B, C, D, E])", "(Py.truthy {A} || Py.truthy {B} || Py.truthy {C} || Py.truthy {D} || Py.truthy {E})")],
         stmt_rules=[("anonymize_files(A, B, C, D, E, F, G, H, I, J, K, L, preserve_suffix_v4=M, preserve_suffix_v6=N)",
                      "!pure (Cli.Outcome.call {{ input := {A}, output := {B}, anonPwd := {C}, anonIp := {D}, salt := {E}, dump := {F}, "
                      "words := {G}, undo := {H}, asNumbers := {I}, reserved := {J}, preservePrefixes := {K}, preserveNetworks := {L}, "
                      "suffixV4 := {M}, suffixV6 := {N} }})")]))

# the arithmetic of the `$9$` codec, on alphabet *indices*: `ALPHA_NUM[c]` / `NUM_ALPHA[i]` are the identity here (a character of the
# alphabet is represented by its index, as in Model/Juniper.lean; the tables themselves are regenerated data)
FUNCS.append(
    dict(module="netconan/utils/juniper_secrets.py", qual="_gap_encode", name="gap_encode", strings=True,
         sig="(pc : Nat) (prev : Nat) (enc : List Nat) : List Nat", run="Id.run ", add="+",
         expr_rules=[("ord(A)", "{A}"), ("reversed(A)", "List.reverse {A}"), ("ALPHA_NUM[A]", "{A}"), ("NUM_ALPHA[A]", "{A}"),
                     ("len(NUM_ALPHA)", "Juniper.A")],
         stmt_rules=[("gaps.insert(0, A)", "let gaps := {A} :: gaps", ["gaps"]), ("crypt += prev", "let crypt := crypt ++ [prev]", ["crypt"])]))
FUNCS.append(
    dict(module="netconan/utils/juniper_secrets.py", qual="_gap", name="gap", sig="(c1 c2 : Nat) : Int", run="Id.run ",
         expr_rules=[("ALPHA_NUM[A]", "({A} : Int)"), ("len(NUM_ALPHA)", "(Juniper.A : Int)")]))
FUNCS.append(
    dict(module="netconan/utils/juniper_secrets.py", qual="_fixedc", name="fixedc", sig="(count : Nat) : List Char", run="Id.run ", strings=True))
FUNCS.append(
    dict(module="netconan/sensitive_item_removal.py", qual="_extract_enclosing_text", name="extract_enclosing_text",
         sig="(fuel : Nat) (in_val head tail : List Char) : List Char × List Char × List Char", run="Id.run ", add="++",
         while_fuel="fuel", while_default="pure (head, in_val, tail)",
         expr_rules=[("_PASSWORD_ENCLOSING_HEAD_TEXT", "Generated.headText"), ("_PASSWORD_ENCLOSING_TAIL_TEXT", "Generated.tailText"),
                     ("A.startswith(B)", "Secrets.startsWith {A} {B}"), ("A.endswith(B)", "Secrets.endsWith {A} {B}"),
                     ("A[len(B):]", "List.drop (List.length {B}) {A}"), ("A[:-len(B)]", "List.take (List.length {A} - List.length {B}) {A}")]))
FUNCS.append(
    dict(module="netconan/sensitive_item_removal.py", qual="_anonymize_value", name="anonymize_value",
         sig="(x : Secrets.Ext) (fs : List Regex.Re) (raw_val : List Char) (salt : List Char) : Py.L (List Char)",
         add="++", truthiness=True, raise_="Py.lraise Err.{}", optional_vars=("decrypted",), try_value="Py.tryValue ({0}) {1}",
         skip_stmts=["logging.debug(A)", "logging.debug(A, B)", "logging.debug(A, B, C)"],
         expr_rules=[("_extract_enclosing_text(A)", "extract_enclosing_text (List.length {A} + 1) {A} [] []"),
                     ("val in reserved_words", "x.isReserved val"),
                     ("A.startswith(juniper_secrets.MAGIC)", "Secrets.startsWith {A} Generated.junMagic"),
                     ("juniper_secrets.juniper_decrypt(A)", "Juniper.decrypt {A}"),
                     ("val in lookup", "((← Py.lookup).get val).isSome"),
                     ("decrypted in lookup", "Py.optIn decrypted (← Py.lookup)"),
                     ("lookup[val]", "(← Py.lkGet val)"),
                     ("lookup[decrypted]", "(← Py.lkGetOpt decrypted)"),
                     ("juniper_secrets.juniper_nonrandom_encrypt(A, salt)", "(← Py.lift (Juniper.encrypt {A} (some salt)))"),
                     ("'netconanRemoved{}'.format(len(lookup))", "Secrets.pseudonym (← Py.lookup).length"),
                     ("_check_sensitive_item_format(A)", "check_sensitive_item_format fs {A}"),
                     ("cisco_type7.using(salt=9).hash(A)", "Secrets.type7 9 {A}"),
                     ("str(int(b2a_hex(A.encode()), 16))", "Secrets.numericOf {A}"),
                     ("b2a_hex(A.encode()).decode()", "Secrets.hexOf {A}"),
                     ("min(len(val.split('$')[2]), 8)", "Secrets.md5SaltLen val"),
                     ("md5_crypt.using(salt='0' * old_salt_size).hash(A)", "x.md5crypt old_salt_size {A}"),
                     ("sha512_crypt.using(rounds=5000, salt='0' * 16).hash(A)", "x.sha512crypt {A}")] +
                    [("_sensitive_item_formats.%s" % k, "Secrets.Fmt.%s" % v) for k, v in FMT_NAMES.items()],
         stmt_rules=[("lookup[decrypted] = juniper_secrets.juniper_decrypt(anon_val)", "Py.lkSetOpt decrypted (← Py.lift (Juniper.decrypt anon_val))"),
                     ("lookup[val] = anon_val", "Py.lkSet val anon_val")]))
FUNCS.append(
    dict(module="netconan/sensitive_item_removal.py", qual="replace_matching_item", name="replace_matching_item",
         sig="(x : Secrets.Ext) (fs : List Regex.Re) (compiled_regexes : List (List ((Regex.Re × Option Nat × Option Nat) × String))) "
             "(input_line : List Char) (salt : List Char) : Py.L (List Char × List Secrets.LogRec)",
         add="++", raise_="Py.lraise Err.{}", ret="({}, logs)", always_live=("logs",),
         prelude=[("logs", "let logs : List Secrets.LogRec := []")],
         loop_targets={"(compiled_re, sensitive_item_num)": "((compiled_re, sensitive_item_num, compiled_re_prefix), compiled_re_pattern)"},
         skip_stmts=["logging.debug(A, B)"],
         stmt_rules=[("logging.warning(A, compiled_re.pattern)", "let logs := logs ++ [Secrets.scrubWarning compiled_re_pattern]", ["logs"])],
         expr_rules=[("_split_line(A)", "Secrets.splitLine x.isSpace {A}"),
                     ("_extract_enclosing_text(' '.join(words), A, B)",
                      "extract_enclosing_text (List.length (Secrets.joinSp words) + 1) (Secrets.joinSp words) {A} {B}"),
                     ("compiled_re.search(A)", "(← Py.searchL compiled_re {A})"),
                     ("compiled_re.sub(_LINE_SCRUBBED_MESSAGE, A)", "(← Py.subL compiled_re (fun _ => Generated.scrubbedMessage) {A})"),
                     ("match.group('prefix') if 'prefix' in match.groupdict() else ''",
                      "(match compiled_re_prefix with | some p => (match_.group p).getD [] | none => [])"),
                     ("_anonymize_value(match.group(sensitive_item_num), pwd_lookup, reserved_words, salt)",
                      "(← anonymize_value x fs ((match_.group sensitive_item_num).getD []) salt)"),
                     ("compiled_re.sub(lambda _: anon_val, A)", "(← Py.subL compiled_re (fun _ => anon_val) {A})")]))
FUNCS.append(
    dict(module="netconan/anonymize_files.py", qual="FileAnonymizer.anonymize_io", name="line_step", select="for_body",
         sig="(p : Lines.Pipeline) (lk : Secrets.Lookup) (line : List Char) : Except Err (List Char × Secrets.Lookup × List Secrets.LogRec)",
         raise_="throw Err.{}",
         attr_map={"self.anonymizer6": "p.ip6", "self.anonymizer4": "p.ip4", "self.anonymizer_sensitive_word": "p.words",
                   "self.anonymizer_as_num": "p.asn"},
         skip_stmts=["logging.debug(A, B)"],
         stmt_rules=[("if self.compiled_regexes is not None and self.pwd_lookup is not None:\n"
                      "    output_line = replace_matching_item(self.compiled_regexes, output_line, self.pwd_lookup, self.salt, self.reserved_words)",
                      "let (output_line, lk, logs) ← Lines.secretStage p lk output_line"),
                     ("out_io.write(output_line)", "!pure (output_line, lk, logs)")],
         expr_rules=[("anonymize_ip_addr(A, B, self.undo_ip_anon)", "(← Lines.liftRes (IpText.anonIpLine {A} p.undo {B}))"),
                     ("A.anonymize(B)", "(← Lines.liftRes (Words.anonymize p.wenv {A} {B}))"),
                     ("anonymize_as_numbers(A, B)", "(← Lines.liftRes (AsNum.anonymize {A} {B}))")]))

FUNCS.append(
    dict(module="netconan/anonymize_files.py", qual="FileAnonymizer.anonymize_io", name="line_step_full", select="for_body", opt_case=True,
         sig="(p : Lines.Pipeline) (line : List Char) : Py.S (List Char × List Secrets.LogRec)",
         attr_map={"self.anonymizer6": "p.ip6", "self.anonymizer4": "p.ip4", "self.anonymizer_sensitive_word": "p.words",
                   "self.anonymizer_as_num": "p.asn"},
         skip_stmts=["logging.debug(A, B)"],
         stmt_rules=[("if self.compiled_regexes is not None and self.pwd_lookup is not None:\n"
                      "    output_line = replace_matching_item(self.compiled_regexes, output_line, self.pwd_lookup, self.salt, self.reserved_words)",
                      "let (output_line, logs) ← Py.secretStageS p output_line"),
                     ("out_io.write(output_line)", "!pure (output_line, logs)")],
         expr_rules=[("anonymize_ip_addr(self_anonymizer6, A, self.undo_ip_anon)", "(← Py.ipStage6S self_anonymizer6 p.undo {A})"),
                     ("anonymize_ip_addr(self_anonymizer4, A, self.undo_ip_anon)", "(← Py.ipStage4S self_anonymizer4 p.undo {A})"),
                     ("A.anonymize(B)", "(← Py.resS (words_anonymize p.wenv {A} {B}))"),
                     ("anonymize_as_numbers(A, B)", "(← Py.resS (AsNum.anonymize {A} {B}))")]))

FUNCS.append(
    dict(module="netconan/sensitive_item_removal.py", qual="SensitiveWordAnonymizer.anonymize", name="words_anonymize",
         sig="(e : WEnv) (t : Words.T) (line : List Char) : Regex.Res (List Char)", add="++",
         list_map="(← Py.listMapR ({fn}) {it})",
         expr_rules=[("self.sens_regex.search(line) is not None", "(← Regex.search t.re line).isSome"),
                     ("_split_line(A)", "Secrets.splitLine e.isSpace {A}"),
                     ("w.lower() in self.conflicting_words", "t.conflicting.contains (lowerStr e w)"),
                     ("w if A else B", "(if {A} then Regex.Res.ok w else {B})"),
                     ("self.sens_regex.sub(self._lookup_anon_word, A)", "Regex.sub t.re (fun mt => Words.replacement t.salt mt.text) {A}"),
                     ("' '.join(A)", "Secrets.joinSp {A}")]))

GROUPS = {
    "SrcIp": dict(imports=["Netconan.Model.Py", "Netconan.Model.Mask", "Netconan.Model.IpText", "Netconan.Model.PyRegex"],
                  serves=["C01", "C02", "C03", "C04", "C05", "C06", "C17", "C12", "C13", "C14", "C15"],
                  funcs=["is_mask", "anonymize_bits", "deanonymize_bits", "anonymize", "deanonymize", "seed_loop", "dump_to_file", "should_anonymize", "should_anonymize6", "anonymize_match", "anonymize_ip_addr"]),
    "SrcSecrets": dict(imports=["Netconan.Model.PySecrets"], serves=["C07", "C08", "C09", "C12", "C13", "C14", "C15"],
                       funcs=["check_sensitive_item_format", "extract_enclosing_text", "anonymize_value", "replace_matching_item"]),
    "SrcAs": dict(imports=["Netconan.Model.Py", "Netconan.Model.Words"], serves=["C11"],
                  funcs=["generate_as_number_replacement"]),
    "SrcLines": dict(imports=["Netconan.Model.Py", "Netconan.Model.Lines"], serves=["C12", "C13", "C14", "C15"], funcs=["line_step"]),
    "SrcJun": dict(imports=["Netconan.Model.Py", "Netconan.Model.Juniper"], serves=["C18"], funcs=["gap_encode", "gap", "fixedc"]),
    "SrcFull": dict(imports=["Netconan.Model.PyFull", "Netconan.Generated.SrcWords"], serves=["C12", "C13", "C14", "C15"], funcs=["line_step_full"]),
    "SrcWords": dict(imports=["Netconan.Model.PyWords"], serves=["C10", "C12", "C13", "C14", "C15"], funcs=["words_anonymize"]),
    "SrcCli": dict(imports=["Netconan.Model.Py", "Netconan.Model.Cli"], serves=["C19"], funcs=["main"]),
}


def render(group, repo=REPO):
    global _fmt_literals
    _fmt_literals = []
    trees = {}
    g = GROUPS[group]
    parts = ["import %s" % m for m in g["imports"]] + [
             "/-! GENERATED by harness/py2lean.py from the source text of /repo's working tree - do not edit. -/",
             "namespace Netconan.Generated.Src", "open Netconan", ""]
    problems = []
    for cfg in FUNCS:
        if cfg["name"] not in g["funcs"]:
            continue
        cfg = dict(cfg)
        if "raise_" in cfg:
            cfg["raise"] = cfg.pop("raise_")
        try:
            if cfg["module"] not in trees:
                trees[cfg["module"]] = ast.parse(open(os.path.join(repo, cfg["module"])).read())
            node = find_function(trees[cfg["module"]], cfg["qual"])
            parts.append(Fn(cfg, node, None).render())
            parts.append("")
        except Unsupported as e:
            problems.append(("generator", "py2lean:" + cfg["qual"], "source no longer in the translated subset: %s" % e))
        except (OSError, SyntaxError) as e:
            problems.append(("generator", "py2lean:" + cfg["qual"], "cannot read the source: %r" % e))
    parts.append("end Netconan.Generated.Src")
    return "\n".join(parts) + "\n", problems


def run(res):
    """writes Generated/Src*.lean; returns the problems of the groups that serve the property being checked"""
    from .gen import write_if_changed
    problems = []
    pid = getattr(res, "pid", None)
    for group, g in GROUPS.items():
        text, probs = render(group)
        changed = write_if_changed(os.path.join(LEAN, "Netconan", "Generated", group + ".lean"), text)
        mine = pid is None or pid in g["serves"]
        if hasattr(res, "notes") and changed and mine:
            res.notes.append("Generated/%s.lean changed" % group)
        pinned = os.path.join(LEAN, "Netconan", "Pinned", group + ".lean.txt")
        if mine and os.path.exists(pinned) and hasattr(res, "validation"):
            res.validation["translated_source_equals_pinned_snapshot:" + group] = (open(pinned).read() == text)
        if mine:
            problems += probs
    return problems


if __name__ == "__main__":
    for grp in GROUPS:
        t, p = render(grp)
        print(t)
        print(p)
