"""Correspondence and property oracle for the Juniper $9$ codec (C18)."""
import random

from .common import cps, uncps
from .ip_checks import Sess, exc_name

FAMILY = ["QzF3n6/9CAtpu0O", "B1IREhcSyrleKvMW8LXx", "7N-dVbwsY2g4oaJZGUDj", "iHkq.mPf5T"]   # the published Crypt::Juniper tables
ALPHA = "".join(FAMILY)
ENC = [[1, 4, 32], [1, 16, 32], [1, 8, 32], [1, 64], [1, 32], [1, 4, 16, 128], [1, 32, 64]]


def ref_decrypt(crypt):
    """Independent re-implementation of the $9$ decoder (after Crypt::Juniper), used as oracle."""
    if not crypt.startswith("$9$") or len(crypt) < 7 or any(c not in ALPHA for c in crypt[3:]):
        raise ValueError("invalid")
    chars = crypt[3:]
    first, chars = chars[0], chars[1:]
    extra = 3 - next(i for i, f in enumerate(FAMILY) if first in f)
    chars = chars[extra:]
    prev, out = first, ""
    while chars:
        dec = ENC[len(out) % 7]
        nib, chars = chars[:len(dec)], chars[len(dec):]
        if len(nib) != len(dec):
            raise ValueError("truncated")
        tot = 0
        for c, w in zip(nib, dec):
            tot += (((ALPHA.index(c) - ALPHA.index(prev)) % 65) - 1) * w
            prev = c
        out += chr(tot % 256)
    return out


def ref_encrypt(plain, salt_char, fillers=None):
    """Independent $9$ encoder (after Crypt::Juniper); fillers default to alphabet characters chosen by position."""
    extra = 3 - next(i for i, f in enumerate(FAMILY) if salt_char in f)
    fill = fillers if fillers is not None else "".join(ALPHA[(7 * k + 3) % 65] for k in range(extra))
    out = "$9$" + salt_char + fill
    prev = salt_char
    for pos, ch in enumerate(plain):
        enc = ENC[pos % 7]
        v = ord(ch)
        gaps = []
        for w in reversed(enc):
            gaps.insert(0, v // w)
            v %= w
        for g in gaps:
            prev = ALPHA[(ALPHA.index(prev) + g + 1) % 65]
            out += prev
    return out


def lenient_decrypt(crypt):
    """what a decoder that silently drops the length check of the last group would return (used to build secrets that
    such a decoder confuses)"""
    chars = crypt[3:]
    first, chars = chars[0], chars[1:]
    extra = 3 - next(i for i, f in enumerate(FAMILY) if first in f)
    chars = chars[extra:]
    prev, out = first, ""
    while chars:
        dec = ENC[len(out) % 7]
        nib, chars = chars[:len(dec)], chars[len(dec):]
        tot = 0
        for c, w in zip(nib, dec):
            tot += (((ALPHA.index(c) - ALPHA.index(prev)) % 65) - 1) * w
            prev = c
        out += chr(tot % 256)
    return out


def well_formed(s):
    return s.startswith("$9$") and len(s) >= 7 and all(c in ALPHA for c in s[3:])


def enc_op(sess, plain, salt):
    from netconan.utils import juniper_secrets as J
    line = "junenc %s %s" % (cps(plain), "none" if salt is None else "some " + cps(salt))

    def th():
        return "ok " + cps(J.juniper_nonrandom_encrypt(plain, salt))
    return sess.op(line, th, {"plain": plain, "salt": salt})


def dec_op(sess, crypt):
    from netconan.utils import juniper_secrets as J

    def th():
        return "ok " + cps(J.juniper_decrypt(crypt))
    return sess.op("jundec " + cps(crypt), th, {"crypt": crypt})


def res_str(r):
    return uncps(r[3:]) if r.startswith("ok ") else None


def check_roundtrip(res, fails, plain, salt, r):
    c = res_str(r)
    usable = bool(salt) and salt[0] in ALPHA
    eff = salt[0] if usable else "n"
    extra = 3 - next(i for i, f in enumerate(FAMILY) if eff in f)
    case = {"plaintext": plain, "salt": salt}
    if plain == "" and extra < 3:
        case["signature"] = "empty-plaintext-short-salt"
    if c is None:
        fails.append(dict(case, kind="encrypt raised", result=r))
        return None
    if not well_formed(c):
        fails.append(dict(case, kind="encrypt produced a string that is not well-formed", crypt=c))
        return c
    try:
        back = ref_decrypt(c)
    except ValueError as e:
        fails.append(dict(case, kind="independent decoder refuses the encrypted string", crypt=c, exc=str(e)))
        return c
    if back != plain:
        fails.append(dict(case, kind="independent decoder returns another plaintext", crypt=c, decoded=back))
    return c


def scope(res, pid, rng, tier):
    from netconan.utils import juniper_secrets as J
    sess, fails = Sess(), []
    cases = []
    # exhaustive: every code point 0..255 at each of the 7 positions, under family representatives; all 65
    # salts for a boundary set of code points
    reps = ["Q", "B", "7", "i"]
    for pos in range(7):
        pad = "".join(chr(rng.randint(0, 255)) for _ in range(pos))
        for v in range(256):
            for s in (reps if tier == "thorough" else [reps[(v + pos) % 4]]):
                cases.append((pad + chr(v), s))
    for s in ALPHA:
        for v in (0, 1, 31, 32, 63, 64, 127, 128, 200, 255):
            cases.append((chr(v) * rng.randint(1, 3), s))
        cases.append(("", s))
    # every alphabet character as the character in front of a group (it is the last one of the previous group, so it is steered
    # through the salt and a random prefix) x the code points with the largest gaps of each weight row, at each table position
    for pos in range(7):
        for s in ALPHA:
            for _ in range(8 if tier == "thorough" else 4):
                pad = "".join(chr(rng.randint(0, 255)) for _ in range(pos))
                for v in (63, 127, 191, 255, 31, 3, 15, 7):
                    cases.append((pad + chr(v), s))
    # random longer plaintexts, arbitrary salt strings (multi-character, outside the alphabet, empty, None)
    odd_salts = [None, "", "!", "_x", " ", "éa", "\n", "$9$", "nQ", "TESTSALT", "\U0001F600"]
    for _ in range(1500 if tier == "thorough" else 300):
        n = rng.choice([0, 1, 2, 3, 7, 8, 15, 40, 40, 255, 256, 259, 260, 261, 300, 520, 1000])
        plain = "".join(chr(rng.randint(0, 255)) for _ in range(n))
        salt = rng.choice(odd_salts) if rng.random() < 0.4 else rng.choice(ALPHA) + "".join(rng.choice(ALPHA + "!_ ") for _ in range(rng.randint(0, 3)))
        cases.append((plain, salt))
    crypts = []
    for plain, salt in cases:
        r = enc_op(sess, plain, salt)
        res.nt(("enc", len(plain) % 7, ord(plain[-1]) if plain else -1, (salt or "?")[0] if salt else str(salt)))
        c = check_roundtrip(res, fails, plain, salt, r)
        if c is not None:
            crypts.append((plain, c))
            r2 = dec_op(sess, c)
            if res_str(r2) != plain and not (plain == "" and not well_formed(c)):
                fails.append({"kind": "decrypt(encrypt(p)) != p", "plaintext": plain, "salt": salt, "crypt": c, "decrypted": r2})
    res.count("roundtrip_cases", len(cases))
    # through the secret stage: a `$9$` value on a line that only the catch-all pattern recognises, over the whole alphabet
    # (`-`, `.`, `/` included): what is written is a well-formed `$9$` string that decrypts to the place holder
    import io
    import re
    from netconan.anonymize_files import FileAnonymizer
    for k in range(40 if tier == "thorough" else 16):
        plain = "".join(rng.choice("abcxyz019-./_%") for _ in range(rng.randint(3, 14)))
        c9 = ref_encrypt(plain, rng.choice(ALPHA))
        if k % 2 == 0 and "-" not in c9:
            continue
        for tmpl in ("# previous value was %s before the change", "description old key %s rotated", "remark %s"):
            line = tmpl % c9
            o = io.StringIO()
            res.evaluations += 1
            try:
                FileAnonymizer(anon_pwd=True, anon_ip=False, salt="TESTSALT").anonymize_io(io.StringIO(line + "\n"), o)
            except Exception as e:  # noqa
                fails.append({"kind": "secret stage raised on a line with a `$9$` value", "line": line, "exc": repr(e)})
                continue
            toks = re.findall(r"\$9\$\S+", o.getvalue())
            good = False
            if len(toks) == 1:
                try:
                    good = ref_decrypt(toks[0]).startswith("netconanRemoved")
                except ValueError:
                    good = False
            if not good:
                fails.append({"kind": "the `$9$` string written for a `$9$` secret is not a well-formed string that decrypts to the place holder",
                              "line": line, "output": o.getvalue()})
    # malformed stream: wrong alphabet, truncated groups, trailing newline, short, wrong magic, Unicode
    bad = []
    for plain, c in rng.sample(crypts, min(len(crypts), 400 if tier == "thorough" else 120)):
        k = rng.random()
        if k < 0.35 and len(c) > 8:
            bad.append(c[: rng.randint(4, len(c) - 1)])                       # truncation (maybe mid-group)
        elif k < 0.6:
            i = rng.randint(3, len(c) - 1)
            bad.append(c[:i] + rng.choice("_,!$ \n\tÀé٣") + c[i + 1:])       # a character outside the alphabet
        elif k < 0.7:
            bad.append(c + rng.choice(["\n", " ", "\r\n", "_"]))
        elif k < 0.8:
            bad.append(rng.choice(["$8$", "$9", "9$", ""]) + c[3:])
        else:
            i = rng.randint(3, len(c))
            bad.append(c[:i] + rng.choice(ALPHA) + c[i:])                     # an extra alphabet character
    bad += ["", "$9$", "$9$abc", "$9$Qnet", "abcd", "$9$abcd\n", "$9$QnetF", "$9$a,bcdef", "$9$_net9pBcSe8"]
    # a valid string inside quotes, brackets or blanks is not a valid string
    for plain, c in crypts[:4]:
        bad += ['"' + c, c + '"', '"' + c + '"', "'" + c + "'", " " + c, c + " ", "[" + c + "]", c + ";", "\t" + c]
    # characters that are letters / digits for Unicode-aware or case-insensitive matching but not in the alphabet, at every kind of position
    # (salt character, filler, inside a group)
    for plain, c in crypts[:3] + rng.sample(crypts, min(len(crypts), 6)):
        if len(c) > 9:
            for ch in "\u0130\u0131\u017f\u212a\u0660\u0966\uff21\uff41\u00b2\u2460":
                for i in (3, 4, 5, len(c) - 1, len(c) // 2 + 1):
                    bad.append(c[:i] + ch + c[i + 1:])
    for c in bad:
        r = dec_op(sess, c)
        res.nt(("dec-bad", len(c) % 11, c[-1:] in ALPHA))
        try:
            ref = ref_decrypt(c)
        except ValueError:
            ref = None
        if r.startswith("err ") and r != "err valueError":
            fails.append({"kind": "malformed string fails in another way than a value error", "crypt": c, "result": r})
        elif r.startswith("ok ") and ref is None:
            fails.append({"kind": "malformed string accepted (garbage returned)", "crypt": c, "returned": res_str(r)})
        elif r.startswith("ok ") and ref is not None and res_str(r) != ref:
            fails.append({"kind": "decoder disagrees with the independent decoder", "crypt": c, "returned": res_str(r), "reference": ref})
    res.count("malformed_cases", len(bad))
    dis = sess.finish()
    res.evaluations += len(sess.lines)
    res.traces += 1
    for i in (0, 700, len(sess.lines) - 3):
        if 0 <= i < len(sess.lines):
            res.sample({"op": sess.lines[i], "impl": sess.impl[i], "model": sess.model[i]})
    # sequences of encrypt calls whose salt + clear text spell the same string: every result decrypts (reference decoder) to its own clear text
    for seq in ((("123", "n"), ("23", "n1"), ("3", "n12")), (("ab", "Qa"), ("aab", "Q"), ("b", "Qaa")), (("x", "zx"), ("xx", "z"), ("", "zxx"), ("zxx", None) if False else ("xzx", "z"))):
        for pl_, sa_ in seq:
            try:
                e_ = J.juniper_nonrandom_encrypt(pl_, sa_)
                d_ = ref_decrypt(e_) if len(e_) >= 7 else pl_
            except Exception as ex:  # noqa
                fails.append({"kind": "encrypt raised or produced a string the reference decoder rejects", "plain": pl_, "salt": sa_, "exc": repr(ex)[:200], "earlier_calls": list(seq)})
                continue
            res.evaluations += 1
            if d_ != pl_:
                fails.append({"kind": "decrypt(encrypt(p)) != p", "plain": pl_, "salt": sa_, "encrypted": e_, "reference_decrypt": d_, "earlier_calls_in_this_process": list(seq)})
    return dis, fails
