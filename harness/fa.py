"""Twin objects: a real netconan FileAnonymizer and its model pipeline in the Lean driver."""
import io
import ipaddress
import logging
import re

from . import gen_regex, ipgen
from .common import cps, hexs, uncps
from .ip_checks import exc_name

PH = re.compile("(m(\\d+)|s):([^]*)")


def subst_placeholders(text):
    """the model leaves passlib's two hashes symbolic; the real values are put in here"""
    from passlib.hash import md5_crypt, sha512_crypt

    def f(m):
        if m.group(1) == "s":
            return sha512_crypt.using(rounds=5000, salt="0" * 16).hash(m.group(3))
        return md5_crypt.using(salt="0" * int(m.group(2))).hash(m.group(3))
    return PH.sub(f, text)


class LogCap(logging.Handler):
    """records at INFO and above emitted while active"""

    def __init__(self):
        super().__init__(level=logging.INFO)
        self.records = []

    def emit(self, record):
        try:
            self.records.append((record.levelname, record.getMessage()))
        except Exception:  # noqa
            self.records.append((record.levelname, "<unformattable>"))

    def __enter__(self):
        self.root = logging.getLogger()
        self.old = self.root.level
        self.root.addHandler(self)
        if self.root.level > logging.INFO or self.root.level == 0:
            self.root.setLevel(logging.INFO)
        return self

    def __exit__(self, *a):
        self.root.removeHandler(self)
        self.root.setLevel(self.old)


def logs_str(recs):
    """levels of the INFO+ records only: the wording of a message is not part of any property, so a harmless
    rewording must not break the correspondence (content-independence of the messages is checked by paired runs)"""
    return ";".join(lv for lv, msg in recs) if recs else "-"


class FaCfg:
    def __init__(self, salt="s", pwd=False, ip=False, undo=False, b4=None, b6=None, prefixes=None, nets=None,
                 words=None, reserved=None, asn=None):
        self.__dict__.update(locals())
        del self.__dict__["self"]

    def describe(self):
        return {k: v for k, v in self.__dict__.items()}

    def build(self):
        from netconan.anonymize_files import FileAnonymizer
        return FileAnonymizer(anon_pwd=self.pwd, anon_ip=self.ip, salt=self.salt, sensitive_words=None if self.words is None else list(self.words),
                              undo_ip_anon=self.undo, as_numbers=None if self.asn is None else list(self.asn),
                              reserved_words=None if self.reserved is None else list(self.reserved),
                              preserve_prefixes=None if self.prefixes is None else list(self.prefixes),
                              preserve_networks=None if self.nets is None else list(self.nets),
                              preserve_suffix_v4=self.b4, preserve_suffix_v6=self.b6)

    def driver_new(self, oid, pinned=True):
        c4 = ipgen.Cfg(4, self.salt, self.b4, self.prefixes, self.nets, "md5")
        ws = ["fanew", oid, "salt=" + hexs(self.salt), "pwd=%d" % self.pwd, "ip=%d" % self.ip, "undo=%d" % self.undo,
              "b4=%d" % (self.b4 or 0), "b6=%d" % (self.b6 or 0), "pinned=%d" % pinned]
        pins = c4.pins()
        ws.append("pins=" + (",".join(p if p else "-" for p in pins) if pins else "-"))
        if self.nets:
            ns = [ipaddress.ip_network(n) for n in self.nets]
            ws.append("nets=" + ",".join("%d/%d" % (int(n.network_address), n.prefixlen) for n in ns))
        if self.words is not None:
            ws.append("words=" + (";".join(cps(w) for w in self.words) if self.words else "-"))
            chars = sorted(set(c for w in self.words for c in w.lower()))
            ic = []
            for c in chars:
                rs = gen_regex.ranges_of(gen_regex.esc(ord(c)), re.IGNORECASE)
                ic.append("%d:%s" % (ord(c), ",".join("%d-%d" % r for r in rs)))
            ws.append("ic=" + (";".join(ic) if ic else "-"))
        if self.reserved:
            ws.append("reserved=" + ";".join(cps(w) for w in self.reserved))
        if self.asn is not None:
            ws.append("asn=" + (";".join(cps(a) for a in self.asn) if self.asn else "-"))
        return " ".join(ws)


class FaTwin:
    n = 0

    def __init__(self, sess, cfg, pinned=True):
        FaTwin.n += 1
        self.id = "f%d" % FaTwin.n
        self.sess, self.cfg = sess, cfg
        self.obj = None
        self.ctor_logs = []

        def mk():
            with LogCap() as lc:
                self.obj = cfg.build()
            self.ctor_logs = lc.records
            return "ok"
        sess.op(cfg.driver_new(self.id, pinned), mk, {"cfg": cfg.describe()})

    def line(self, text):
        """one line (with its terminator, if any) through anonymize_io"""
        def th():
            out = io.StringIO()
            with LogCap() as lc:
                self.obj.anonymize_io(io.StringIO(text), out)
            return "ok %s %s" % (cps(out.getvalue()), logs_str(lc.records))
        return self.sess.op("faline %s %s" % (self.id, cps(text)), th, {"cfg": self.cfg.describe(), "line": text})

    def text(self, text, mode="lf"):
        def th():
            out = io.StringIO()
            with LogCap() as lc:
                self.obj.anonymize_io(io.StringIO(text, newline="" if mode == "lf" else None) if mode == "lf" else io.StringIO(text, newline=""), out)
            return "ok %s %s" % (cps(out.getvalue()), logs_str(lc.records))
        return self.sess.op("fatext %s %s %s" % (self.id, mode, cps(text)), th, {"cfg": self.cfg.describe(), "text": text})


def model_out(reply):
    """model reply -> comparable string (placeholders replaced by the real passlib values)"""
    if not reply.startswith("ok "):
        return reply
    parts = reply.split(" ")
    out = subst_placeholders(uncps(parts[1]))
    logs = parts[2] if len(parts) > 2 else "-"
    if logs != "-":
        logs = ";".join(x.split(":")[0] for x in logs.split(";"))
    return "ok %s %s" % (cps(out), logs)


def out_text(reply):
    if not reply.startswith("ok "):
        return None
    return uncps(reply.split(" ")[1])


def subst_placeholders_reply(reply):
    """a reply whose payload is a lookup table or another cps-encoded list"""
    if not reply.startswith("ok "):
        return reply
    body = reply[3:]
    if body == "-":
        return reply
    def conv(tok):
        return cps(subst_placeholders(uncps(tok)))
    return "ok " + ";".join(">".join(conv(x) for x in e.split(">")) for e in body.split(";"))


def model_out_text(reply):
    """model reply of `fatext` reduced to the output text"""
    if not reply.startswith("ok "):
        return reply
    parts = reply.split(" ")
    if len(parts) < 2:
        return reply
    return "ok " + cps(subst_placeholders(uncps(parts[1])))
