"""C10-C15: sensitive words, AS numbers, line structure, determinism, totality, composition.
Correspondence of the whole `FileAnonymizer.anonymize_io` pipeline with the Lean model, plus property oracles."""
import hashlib
import io
import itertools
import json
import os
import re
import subprocess
import sys

from . import fa, ipgen, lineforms as L
from .common import REPO, cps, uncps
from .ip_checks import Sess, exc_name
from .secret_checks import SALTS, gen_history, render, run_lines

WORDLISTS = [["intentionet", "sea", "lax", "atl"], ["sea", "seattle", "SeaTac"], ["zork", "Zorkmid", "xyzzy"], ["lon", "london", "LONDON-x"],
             ["mycorp"], ["x.y", "a(b", "p+q"], ["zur", "ZuRich", "uri"], ["göteborg", "Straße"], ["kelvin", "site"], ["großnetz", "ﬁberlink", "ǰump"], ["rout", "kiwi"]]
# tokens with compatibility characters that are not sensitive: nothing may normalise them
COMPAT_TOKENS = ["№5", "½", "x³", "２", "ﬁle", "…", "µs", "Ⅷ", "ｆｕｌｌ", "a\u00a0b", "ª", "ﬃ"]
VOCAB = ["interface", "description", "router", "bgp", "neighbor", "remote-as", "hostname", "ip", "address", "permit", "deny", "any",
         "vlan", "mtu", "1500", "shutdown", "no", "search", "research", "seal", "relax", "atlas", "location", "version", "15.2",
         "GigabitEthernet0/0", "!", "#", "exit", "set", "system", "host-name", "ntp", "server", "logging", "snmp", "access-list"]
AS_LISTS = [["65000"], ["12", "123", "65001"], ["6500", "65001"], ["64511", "64512", "65535", "65536"], ["0", "4199999999", "4200000000", "4294967295"],
            ["1", "10", "100"], ["23456"], ["4294967295", "429496729"]]
BLOCKS = [(0, 64512), (64512, 65536), (65536, 4200000000), (4200000000, 4294967296)]


def block_of(n):
    for lo, hi in BLOCKS:
        if lo <= n < hi:
            return (lo, hi)
    return None


def rand_case(rng, w):
    k = rng.random()
    if k < 0.3:
        return w
    if k < 0.5:
        return w.upper()
    if k < 0.7:
        return w.capitalize()
    return "".join(c.upper() if rng.random() < 0.5 else c.lower() for c in w)


def gen_word_line(rng, words, reserved):
    toks = []
    for _ in range(rng.randint(1, 8)):
        k = rng.random()
        if k < 0.35:
            w = rand_case(rng, rng.choice(words))
            j = rng.random()
            if j < 0.3:
                toks.append(w)
            elif j < 0.6:
                toks.append(rng.choice(["x", "site-", "core.", "(", "ab", "12"]) + w + rng.choice(["", "s", "-1", ".net", ")", "/24", "xy"]))
            else:
                toks.append(w + rng.choice(["-", ".", "_", ""]) + rand_case(rng, rng.choice(words)))
        elif k < 0.5 and reserved:
            c = rand_case(rng, rng.choice(reserved))
            j = rng.random()
            # a reserved word is kept only as a whole token: with something glued to it the listed word inside must go
            toks.append(c if j < 0.6 else c + rng.choice(["-backup01", ".lab", "x", "-KIWI7", "2"]) if j < 0.85 else rng.choice(["x", "pre-", "0"]) + c)
        elif k < 0.58:
            toks.append(rng.choice(COMPAT_TOKENS))
        else:
            toks.append(rng.choice(VOCAB))
    lead = rng.choice(["", " ", "  ", "\t", "    "])
    sep = lambda: rng.choice([" ", " ", " ", "  ", "\t", " ", "\x0c", "\x0b", "\x1c", "\x1f", "\x85", "\xa0", "\u2028", "\u3000", " \x1d "])  # noqa
    line = lead + toks[0]
    for t in toks[1:]:
        line += sep() + t
    return line + rng.choice(["", "", " ", "\t"]) + rng.choice(["\n", "\n", "\n", "\r\n", ""])


def ci_contains(hay, w):
    return w.lower() in hay.lower()


def pseudonym_for(salt, matched):
    return hashlib.md5((salt + matched).encode()).hexdigest()[:6]


def rewrite_possible(tok_in, tok_out, words, salt):
    """Is tok_out obtainable from tok_in by replacing occurrences of listed words (case-insensitively) by the
    pseudonym of the matched text and copying everything else?"""
    lw = sorted(set(w.lower() for w in words), key=lambda w: (-len(w), w))
    memo = {}

    def go(i, j):
        if (i, j) in memo:
            return memo[(i, j)]
        if i == len(tok_in):
            r = j == len(tok_out)
        else:
            r = False
            for w in lw:
                if tok_in[i:i + len(w)].lower() == w and w:
                    p = pseudonym_for(salt, tok_in[i:i + len(w)])
                    if tok_out[j:j + 6] == p and go(i + len(w), j + 6):
                        r = True
                        break
            if not r and j < len(tok_out) and tok_in[i] == tok_out[j]:
                r = go(i + 1, j + 1)
        memo[(i, j)] = r
        return r
    return go(0, 0)


# ------------------------------------------------------------------ C10

_SPACES = None


def word_hypotheses(w):
    """the hypotheses of the Lean no-survival theorem (`WordOK` + `spaceFree`), computed independently with `re`:
    non-empty; first and last character match no hex digit under IGNORECASE; no six consecutive characters that all
    match hex digits; no character matches white space"""
    global _SPACES
    if _SPACES is None:
        _SPACES = [chr(c) for c in range(0x110000) if re.match(r"\s", chr(c))]
    if not w:
        return False
    def m(x, targets):  # noqa
        p = re.compile(re.escape(x), re.IGNORECASE)
        return any(p.fullmatch(t) for t in targets)
    hexy = [m(x, "0123456789abcdef") for x in w]
    if hexy[0] or hexy[-1]:
        return False
    if any(all(hexy[i:i + 6]) for i in range(len(w) - 5)):
        return False
    return not any(m(x, _SPACES) for x in w)


def colliding_words(salt, stem="cust"):
    """two words whose six-digit pseudonyms coincide under the salt (birthday search), or None"""
    seen = {}
    for i in range(60000):
        w_ = "%s%d" % (stem, 1000 + i)
        h_ = hashlib.md5((salt + w_).encode()).hexdigest()[:6]
        if h_ in seen:
            return seen[h_], w_
        seen[h_] = w_
    return None


def words_scope(res, pid, rng, tier):
    sess, fails = Sess(), []
    rounds = 2 * len(WORDLISTS) if tier == "thorough" else len(WORDLISTS) + 3
    plans = []
    for r in range(rounds + 1):
        words = WORDLISTS[(r + res.seed) % len(WORDLISTS)]         # every list in every run; some lists meet two salts in this process
        salt = SALTS[(5 * r + res.seed) % len(SALTS)]
        if r == rounds:
            # two listed words with the same pseudonym: each is replaced by md5(salt + word)[:6] whatever else is listed
            cp = colliding_words(salt)
            if not cp:
                continue
            words = [cp[1], "zork", cp[0]]
        hyp = all(re.fullmatch(r"[g-zG-Z].*[g-zG-Z]|[g-zG-Z]", w) and not re.search(r"[0-9a-fA-F]{6}", w) and not re.search(r"\s", w) for w in words)
        user_res = None
        if r % 3 == 1:
            user_res = [words[0] + "mid", "Core" + words[-1].capitalize(), "unrelatedword"]
        cfg = fa.FaCfg(salt=salt, words=words, reserved=user_res, undo=(r % 4 == 2))     # listed words go in an --undo run as well
        t = fa.FaTwin(sess, cfg)
        if t.obj is None:
            continue
        from netconan.default_reserved_words import default_reserved_words
        conflicting = sorted(w for w in set(x.lower() for x in list(default_reserved_words) + (user_res or []))
                             if any(s.lower() in w for s in words))
        lines = [gen_word_line(rng, words, conflicting[:8]) for _ in range(60 if tier == "thorough" else 30)]
        lines += ["%s %s\n" % (rand_case(rng, c), words[0]) for c in conflicting[:6]]
        # a listed word inside a token that is shaped like an address (zone id of a link-local address, host name glued to a dotted quad)
        # (not in the --undo rounds: there the address stages rewrite these tokens)
        for w_ in ([] if cfg.undo else [w for w in words if re.fullmatch(r"[A-Za-z0-9]+", w)][:3]):
            lines += ["ipv6 route 2001:db8:77::/48 fe80::2%%%s0\n" % w_.lower(), " neighbor fe80::1%%%s remote-as 65001\n" % rand_case(rng, w_),
                      "ip host %s 10.1.2.3 fe80::a%%%s/64\n" % (w_, w_), "set interfaces xe-0/0/0 unit 0 family inet6 address fe80::%s:1%%%s\n" % ("beef", w_.upper())]
        # the theorem's hypotheses per listed word: the model's computable check against an independent one
        lw = sorted(set(w.lower() for w in words), key=lambda x: (-len(x), x))
        thy = {w: word_hypotheses(w) for w in lw}
        sess.op("fawordok " + t.id, lambda: "ok " + (";".join("%s:%d" % (cps(w), thy[w]) for w in lw) if lw else "-"), {"cfg": cfg.describe()})
        res.count("words_meeting_theorem_hypotheses", sum(thy.values()))
        res.count("words_outside_theorem_hypotheses", len(thy) - sum(thy.values()))
        for ln in lines:
            rr = t.line(ln)
            plans.append((cfg, words, set(conflicting), hyp, ln, rr, thy))
    dis = sess.finish(post=lambda x: x if re.match(r"ok (-|[\d.]+:[01](;[\d.]+:[01])*)$", x) else fa.model_out(x))
    res.evaluations += len(sess.lines)
    res.traces += rounds
    for cfg, words, confl, hyp, ln, rr, thy in plans:
        out = fa.out_text(rr)
        if out is None:
            fails.append({"kind": "sensitive-word anonymization raised", "cfg": cfg.describe(), "line": ln, "result": rr})
            continue
        res.nt(("words", ln[:14]))
        # tokens: same count unless the line was not touched at all
        tin, tout = ln.split(), out.split()
        if len(tin) != len(tout):
            fails.append({"kind": "token structure changed", "cfg": cfg.describe(), "line": ln, "output": out})
            continue
        for a, b in zip(tin, tout):
            if a.lower() in confl:
                if a != b:
                    fails.append({"kind": "a token that is a reserved word was changed", "cfg": cfg.describe(), "line": ln,
                                  "output": out, "token": a})
                continue
            for w, ok_ in thy.items():
                # the statement of `no_listed_word_survives_in_token`, on the implementation's own output
                if ok_ and re.search(re.escape(w), b, re.IGNORECASE):
                    fails.append({"kind": "a listed sensitive word (meeting the theorem's hypotheses) survives in a token", "cfg": cfg.describe(),
                                  "line": ln, "output": out, "word": w, "token_in": a, "token_out": b})
            if hyp:
                for w in words:
                    if ci_contains(b, w):
                        fails.append({"kind": "a listed sensitive word survives", "cfg": cfg.describe(), "line": ln, "output": out,
                                      "word": w, "token_in": a, "token_out": b})
            if not rewrite_possible(a, b, words, cfg.salt):
                fails.append({"kind": "a replacement is not the pseudonym determined by salt and matched text (or other text changed)",
                              "cfg": cfg.describe(), "line": ln, "output": out, "token_in": a, "token_out": b})
    # secrets and words together: a scrubbed line keeps the text in front of the match - listed words there must still go
    for words in (WORDLISTS[res.seed % len(WORDLISTS)], ["zulucorp", "hunter"]):
        if not all(re.fullmatch(r"[g-zG-Z].*[g-zG-Z]|[g-zG-Z]", w) and not re.search(r"[0-9a-fA-F]{6}|\s|[^A-Za-z0-9]", w) for w in words):
            continue
        cfgw = fa.FaCfg(salt="sw", pwd=True, words=words)
        lines_sw = ["interface %s-uplink %s\n" % (rand_case(rng, words[0]), f.format("hunter2xyz")) for f in L.SCRUB_FORMS[:6]]
        lines_sw += ["description %s peer %s\n" % (words[-1], render(h).strip()) for h in gen_history(rng, 4, classes=["text"])]
        outs_sw, _ = run_lines(cfgw, lines_sw)
        res.evaluations += len(lines_sw)
        from netconan.default_reserved_words import default_reserved_words as _drw
        confl_sw = set(x.lower() for x in _drw if any(w_.lower() in x.lower() for w_ in words))
        for ln, o in zip(lines_sw, outs_sw):
            for w in words:
                # (a token that is exactly a reserved word is kept as it is - e.g. the listed word `uri` itself)
                if any(ci_contains(tok_, w) for tok_ in o.split() if tok_.lower() not in confl_sw):
                    fails.append({"kind": "a listed sensitive word survives on a line that also holds a secret", "cfg": cfgw.describe(),
                                  "line": ln, "output": o, "word": w})
    # very long lines: a listed word straddling offsets 65536 / 131072 (a line is processed as a whole)
    wlong = "zurichgate"
    for off in (65533, 65536 - 5, 131072 - 4, 8192 - 3):
        pad_ = ("description " + "x-y " * 40000)[:off - 1] + " "
        ln_ = pad_ + wlong + " tail " + wlong.upper() + "\n"
        try:
            outl, _ = run_lines(fa.FaCfg(salt="lw", words=[wlong]), [ln_])
        except Exception as e:  # noqa
            fails.append({"kind": "sensitive-word anonymization raised", "line_length": len(ln_), "exc": repr(e)[:200]})
            continue
        res.evaluations += 1
        if ci_contains(outl[0], wlong):
            k_ = outl[0].lower().find(wlong)
            fails.append({"kind": "a listed sensitive word survives", "word": wlong, "line_length": len(ln_), "word_offset_in_input": off,
                          "output_around_the_word": outl[0][max(0, k_ - 20):k_ + 30]})
    # the command line in a working directory that holds files named like the option values: a value is a value
    import tempfile as _tf
    import shutil as _sh
    from netconan import netconan as _nc
    dcw = _tf.mkdtemp(prefix="ncverif_")
    cwd0 = os.getcwd()
    try:
        for nm, body in (("zurich", "zurich-core uplink ZURICH Zurich\nhostname seattle gw\n"), ("seattle", "unrelated\n"), ("sea", "other\n"),
                         ("utf8.cfg", "hostname zürich-core-01\n description köln uplink ZÜRICH\n")):
            open(os.path.join(dcw, nm), "w", encoding="utf-8").write(body)
        os.chdir(dcw)
        import contextlib as _cl
        with fa.LogCap(), _cl.redirect_stderr(io.StringIO()):
            _nc.main(["-i", "zurich", "-o", "anonymized.out", "-s", "demoSalt", "-w", "zurich,sea", "-r", "seattle"])
        oc = open(os.path.join(dcw, "anonymized.out")).read()
        res.evaluations += 1
        with fa.LogCap(), _cl.redirect_stderr(io.StringIO()):
            _nc.main(["-i", "utf8.cfg", "-o", "utf8.out", "-s", "demoSalt", "-w", "zürich,köln"])
        ou = open(os.path.join(dcw, "utf8.out"), encoding="utf-8", errors="replace").read()
        res.evaluations += 1
        if ci_contains(ou, "zürich") or ci_contains(ou, "köln") or "core-01" not in ou:
            fails.append({"kind": "a listed sensitive word survives", "entry_point": "command line on a UTF-8 file",
                          "argv": ["-i", "utf8.cfg", "-o", "utf8.out", "-s", "demoSalt", "-w", "zürich,köln"], "output": ou})
        if ci_contains(oc, "zurich") or "hostname seattle gw" not in oc:
            fails.append({"kind": "a listed sensitive word survives" if ci_contains(oc, "zurich") else "a token that is a reserved word was changed",
                          "argv": ["-i", "zurich", "-o", "anonymized.out", "-s", "demoSalt", "-w", "zurich,sea", "-r", "seattle"],
                          "working_directory_holds_files_named": ["zurich", "seattle", "sea"], "output": oc})
    except BaseException as e:  # noqa
        fails.append({"kind": "sensitive-word anonymization raised", "entry_point": "command line", "exc": repr(e)[:200]})
    finally:
        os.chdir(cwd0)
        _sh.rmtree(dcw, ignore_errors=True)
    # the command line passes user reserved words through unchanged (a reserved secret value in capitals stays)
    from .ip_checks import run_cli
    st, outs_cli, _ = run_cli(["-p", "-s", "x", "-r", "MyCorpRO,OtherWord"], {"a.cfg": "snmp-server community MyCorpRO ro\nsnmp-server community notReserved1 ro\n"})
    res.evaluations += 1
    if st != "ok" or not outs_cli.get("a.cfg", "").startswith("snmp-server community MyCorpRO ro\n"):
        fails.append({"kind": "a secret value that is a (user) reserved word was replaced (command line)", "argv": ["-p", "-r", "MyCorpRO,OtherWord"],
                      "status": st, "output": outs_cli.get("a.cfg")})
    # reserved secret values are left as is by secret anonymization
    cfgp = fa.FaCfg(salt="s", pwd=True, reserved=["MyReservedPw"])
    outs, _ = run_lines(cfgp, ["username bob password MyReservedPw\n", "snmp-server community MyReservedPw ro\n", "enable password level 12 trap\n"])
    res.evaluations += 3
    for i, (o, want) in enumerate(zip(outs, ["username bob password MyReservedPw\n", "snmp-server community MyReservedPw ro\n", "enable password level 12 trap\n"])):
        if o != want:
            fails.append({"kind": "a secret value that is a reserved word was replaced", "line": want, "output": o})
    # ... also after a $9$ string whose plaintext is that reserved word was seen earlier in the run
    from .jun_checks import ref_encrypt
    for w in ("ip", "trap", "MyReservedPw", rng.choice(["vlan", "mtu", "interface"])):
        hist = ['secret "%s"\n' % ref_encrypt(w, rng.choice("QB7i")), "username bob password %s\n" % w, "snmp-server community %s ro\n" % w]
        outs, _ = run_lines(cfgp, hist)
        res.evaluations += 3
        for ln, o in zip(hist[1:], outs[1:]):
            if o != ln:
                fails.append({"kind": "a secret value that is a reserved word was replaced (after a $9$ string with that plaintext)",
                              "history": hist, "line": ln, "output": o})
    # words of one and two characters are words
    for ws1_, ln1_ in ((["z", "seattle"], "hostname z-rtr1 site Z zz-top\n"), (["q"], "peer Q qzz q1\n"), (["xy", "k"], "link XY-1 to k9 via xyk\n")):
        try:
            o1_, _ = run_lines(fa.FaCfg(salt="one", words=list(ws1_)), [ln1_])
            res.evaluations += 1
            left_ = [t_ for t_ in o1_[0].split()[1:] if any(w_ in t_.lower() for w_ in ws1_) and not re.search(r"[0-9a-f]{6}", t_)]
            if o1_[0] == ln1_ or left_:
                fails.append({"kind": "a listed sensitive word survives in the output", "sensitive_words": ws1_, "salt": "one", "line": ln1_, "output": o1_[0]})
        except Exception as e:  # noqa
            fails.append({"kind": "anonymize raised", "sensitive_words": ws1_, "exc": repr(e)[:200]})
    return dis, fails


HASHSEED_SNIPPET = r"""
import io, json, sys
sys.path.insert(0, %r)
import logging
logging.lastResort = None
from netconan.anonymize_files import FileAnonymizer, anonymize_files
import os, tempfile, shutil
req = json.load(sys.stdin)
out = []
for r in req:
    for pre in r.get("before", []):
        pre = dict(pre); rt = pre.pop("run_text", None)
        f0 = FileAnonymizer(**pre)
        if rt:
            f0.anonymize_io(io.StringIO(rt), io.StringIO())
        del f0                      # dropped before the next one is constructed: its memory (and object identities) can be reused
    if "files" in r:
        d = tempfile.mkdtemp(prefix="ncverif_")
        try:
            ind, outd = os.path.join(d, "in"), os.path.join(d, "out")
            for name, body in r["files"].items():
                os.makedirs(os.path.dirname(os.path.join(ind, name)), exist_ok=True)
                open(os.path.join(ind, name), "w").write(body)
            kw = dict(r["kwargs"]); pwd = kw.pop("anon_pwd"); ip = kw.pop("anon_ip")
            if ip:
                kw["dumpfile"] = os.path.join(d, "map.txt")
            anonymize_files(ind, outd, pwd, ip, **kw)
            res = {}
            if ip and os.path.exists(os.path.join(d, "map.txt")):
                res["<the dumped IP map>"] = open(os.path.join(d, "map.txt")).read()
            for root, _, fs in os.walk(outd):
                for f in fs:
                    p = os.path.join(root, f)
                    res[os.path.relpath(p, outd)] = open(p, encoding="utf-8", errors="backslashreplace").read()
            out.append(json.dumps(res, sort_keys=True))
        finally:
            shutil.rmtree(d, ignore_errors=True)
        continue
    fa = FileAnonymizer(**r["kwargs"])
    o = io.StringIO()
    fa.anonymize_io(io.StringIO(r["text"]), o)
    out.append(o.getvalue())
    del fa
json.dump(out, sys.stdout)
"""


def run_in_process(reqs, hashseed):
    env = dict(os.environ, PYTHONHASHSEED=str(hashseed))
    p = subprocess.run([sys.executable, "-c", HASHSEED_SNIPPET % REPO], input=json.dumps(reqs), capture_output=True,
                       text=True, timeout=600, env=env)
    if p.returncode != 0:
        return None, p.stderr[-600:]
    return json.loads(p.stdout), None


def hashseed_scope(res, pid, rng, tier):
    """identical requests in separate interpreter processes with different hash seeds (and, for C13, after other
    anonymizers were constructed in the process) must give byte-identical output"""
    fails, dis = [], []
    reqs = []
    for r in range(6 if tier == "quick" else 16):
        words = WORDLISTS[(r + res.seed) % len(WORDLISTS)]
        text = "".join(gen_word_line(rng, words, []) for _ in range(12))
        kw = dict(anon_pwd=(pid == "C13"), anon_ip=(pid == "C13" and r % 3 == 0), salt=SALTS[r % len(SALTS)],
                  sensitive_words=words, reserved_words=(["Foo" + words[0]] if r % 2 else None))
        if pid == "C13":
            text += "".join(render(h) for h in gen_history(rng, 8))
            text += "ip address 10.1.2.3 255.255.255.0\n neighbor 2001:db8::1 remote-as 65001\n"
            kw["as_numbers"] = ["65001", "12"] if r % 2 else None
        before = []
        if pid == "C13":
            from .jun_checks import ref_encrypt
            text += 'secret "%s"\n' % ref_encrypt("plain%d" % r, "Q")
        if r % 2:
            before = [dict(anon_pwd=True, anon_ip=True, salt="other", reserved_words=["sea", words[0].upper(), "interface"],
                           sensitive_words=["router"] + list(words), as_numbers=["65001", "12"], preserve_networks=["10.1.0.0/16"],
                           run_text=text)]
        reqs.append({"kwargs": kw, "text": text, "before": before})
    # two listed words whose six-digit pseudonyms coincide under the salt (found by search: ~n^2 / 2^25 pairs among n candidates):
    # both are replaced by that pseudonym in every process, whatever order a set of words is iterated in
    csalt = SALTS[(res.seed + 2) % len(SALTS)] or "cs"
    seen_p = {}
    pair = None
    for i in range(40000):
        w_ = "site%d" % (1000 + i)
        h_ = hashlib.md5((csalt + w_).encode()).hexdigest()[:6]
        if h_ in seen_p:
            pair = (seen_p[h_], w_)
            break
        seen_p[h_] = w_
    if pair:
        text = "hostname %s-gw\n description uplink to %s via %s\n peer %s %s\n" % (pair[0], pair[1], pair[0], pair[1].upper(), pair[0])
        reqs.append({"kwargs": dict(anon_pwd=False, anon_ip=False, salt=csalt, sensitive_words=[pair[0], pair[1], "zork"]), "text": text, "before": []})
        reqs.append({"kwargs": dict(anon_pwd=False, anon_ip=False, salt=csalt, sensitive_words=[pair[1], "xyzzy", pair[0]]), "text": text, "before": []})
    # two listed AS numbers of the private block whose replacements coincide under the salt: both get that replacement, in every process
    seen_a = {}
    apair = None
    for n_ in range(64512, 65536):
        v_ = int(hashlib.md5((csalt + str(n_)).encode()).hexdigest(), 16) % 1024
        if v_ in seen_a:
            apair = (str(seen_a[v_]), str(n_))
            break
        seen_a[v_] = n_
    if apair and pid == "C13":
        ta = "router bgp %s\n neighbor 10.0.0.1 remote-as %s\n neighbor 10.0.0.2 remote-as %s\n" % (apair[0], apair[1], apair[0])
        reqs.append({"kwargs": dict(anon_pwd=False, anon_ip=False, salt=csalt, as_numbers=[apair[0], apair[1], "64999"]), "text": ta, "before": []})
        reqs.append({"kwargs": dict(anon_pwd=False, anon_ip=False, salt=csalt, as_numbers=["65001", apair[1], apair[0]]), "text": ta, "before": []})
    # a churn of anonymizers with reserved words of their own, created and dropped, before an anonymizer whose own reserved word
    # protects a token: nothing of the dead ones may reach it (object identities are recycled by the allocator)
    churn = [dict(anon_pwd=False, anon_ip=False, salt="x%d" % i, sensitive_words=["zzzq"], reserved_words=["edge-sw%d" % i]) for i in range(12)]
    tkw = dict(anon_pwd=False, anon_ip=False, salt="demoSalt", sensitive_words=["core"], reserved_words=["corerouter", "Core-sw1"])
    creqs = []
    for k_ in range(12):
        # (one unrelated anonymizer created and dropped, then the same request again: every step of the history is looked at;
        #  these run in a process of their own, see below)
        creqs.append({"kwargs": tkw, "text": "hostname corerouter\n description core-sw1 to corerouter and coreswitch\n", "before": [churn[k_]],
                     "fresh_ref": True})
    if pid == "C13":
        files = {}
        # (a dozen files with secrets of their own: the numbering of the pseudonyms follows the order of the files, in every run)
        for k, name in enumerate(["a.cfg", "b.cfg", "sub/c.cfg", "sub/d.cfg", "z/e.cfg", "f.cfg", "g.cfg", "h.cfg", "sub/i.cfg", "z/j.cfg", "k.cfg", "l.cfg",
                                  "m.cfg", "sub/n.cfg", "o.cfg", "p.cfg", "q.cfg"]):
            files[name] = ("hostname r%d\npassword pw%dxyz\nsnmp-server community comm%dqq ro\nip address 10.%d.2.3 255.255.255.0\n" % (k, k, k, k)
                           + "".join("ntp server %d.%d.7.9\n neighbor 2001:db8:%x::1 remote-as 1\n" % (20 + 3 * j, k + j, 16 * j + k) for j in range(8)))
        reqs.append({"kwargs": dict(anon_pwd=True, anon_ip=True, salt="dirsalt"), "files": files, "text": "", "before": []})
    if pid == "C13":
        from .jun_checks import ref_encrypt as _re13
        # an anonymizer with another salt saw the same `$9$` line earlier in the process (the two salts start with different characters of
        # one family of the `$9$` alphabet, so the replacements have the same layout); and an anonymizer with the same salt and options saw
        # the line earlier at another position of its input.  Reference: a process in which nothing else was ever constructed
        l9_ = 'secret "%s"\nusername u password 0 SiteSecret%d\n' % (_re13("plain13", "n"), res.seed)
        for s1_, s2_ in (("Quagga-salt", "zebra-salt"), ("Bsalt", "Rsalt"), ("7salt", "Nsalt"), ("isalt", "Hsalt")):
            reqs.append({"kwargs": dict(anon_pwd=True, anon_ip=False, salt=s2_), "text": l9_, "fresh_ref": True,
                         "before": [dict(anon_pwd=True, anon_ip=False, salt=s1_, run_text=l9_)]})
        t13_ = "ip address 11.22.33.44 255.255.255.0\nntp server 11.22.33.45\nset address 2001:db8::77\nntp server 20.1.2.3\n"
        reqs.append({"kwargs": dict(anon_pwd=False, anon_ip=True, salt="verdictSalt"), "text": t13_, "fresh_ref": True,
                     "before": [dict(anon_pwd=False, anon_ip=True, salt="verdictSalt", preserve_networks=["11.22.33.0/24", "20.0.0.0/8"], run_text=t13_)]})
        reqs.append({"kwargs": dict(anon_pwd=False, anon_ip=True, salt="verdictSalt", preserve_networks=["11.22.33.0/24"]), "text": t13_, "fresh_ref": True,
                     "before": [dict(anon_pwd=False, anon_ip=True, salt="verdictSalt", run_text=t13_)]})
        reqs.append({"kwargs": dict(anon_pwd=True, anon_ip=False, salt="memoSalt"), "text": "username y password 0 otherAkey%d\n" % res.seed, "fresh_ref": True,
                     "before": [dict(anon_pwd=True, anon_ip=False, salt="memoSalt", run_text=l9_ + "username y password 0 otherAkey%d\n" % res.seed)]})
    base = [dict(r, before=[]) for r in reqs]
    ref, err = run_in_process(base, 0)
    if ref is None:
        return [{"op": "subprocess", "impl": "failed: " + str(err), "model": "ok", "meta": None}], fails
    fresh = {}
    for i_, r_ in enumerate(reqs):
        if r_.get("fresh_ref"):
            # the reference of these requests is a process in which nothing else was ever constructed (in `ref` the earlier
            # requests of the list are a history too)
            key_ = json.dumps([r_["kwargs"], r_["text"]], sort_keys=True)
            if key_ not in fresh:
                one, err1 = run_in_process([dict(r_, before=[])], 0)
                fresh[key_] = one[0] if one is not None else None
            if fresh[key_] is not None:
                ref[i_] = fresh[key_]
    seeds = [1, 2, 3] if tier == "quick" else [1, 2, 3, 4, 5, 7, 11, 99]
    one, err1 = run_in_process([dict(creqs[0], before=[])], 0)
    for hs in ([0, 1] if tier == "quick" else [0, 1, 2, 3]):
        gotc, errc = run_in_process(creqs, hs)
        res.evaluations += len(creqs)
        if one is None or gotc is None:
            dis.append({"op": "subprocess (churn) PYTHONHASHSEED=%d" % hs, "impl": "failed: " + str(err1 or errc), "model": "ok", "meta": None})
            continue
        for k_, b_ in enumerate(gotc):
            if b_ != one[0]:
                fails.append({"kind": "output differs between interpreter processes (after %d other anonymizers were created and dropped in the process vs a fresh process)" % (k_ + 1),
                              "kwargs": tkw, "constructed_before": [c_["before"][0] for c_ in creqs[:k_ + 1]], "input": creqs[0]["text"],
                              "output_fresh_process": one[0], "output_after_history": b_})
                break
    for hs in seeds:
        got, err = run_in_process(reqs, hs)
        res.evaluations += len(reqs)
        if got is None:
            dis.append({"op": "subprocess PYTHONHASHSEED=%d" % hs, "impl": "failed: " + str(err), "model": "ok", "meta": None})
            continue
        for r, a, b in zip(reqs, ref, got):
            res.nt(("seed", hs, r["text"][:10]))
            if a != b:
                la, lb = a.split("\n"), b.split("\n")
                k = next((i for i, (x, y) in enumerate(zip(la, lb)) if x != y), 0)
                fails.append({"kind": "output differs between interpreter processes (hash seed %d vs 0%s)" % (hs, ", earlier anonymizers constructed" if r["before"] else ""),
                              "kwargs": r["kwargs"], "constructed_before": r["before"], "input_line": r["text"].split("\n")[k] if k < len(r["text"].split("\n")) else None,
                              "output_seed0": la[k] if k < len(la) else None, "output_other": lb[k] if k < len(lb) else None})
    return dis, fails


# ------------------------------------------------------------------ C11

def find_edge_salts(num, lo, hi, want):
    """salts for which md5(salt+num) % size hits `want` (0 or size-1): the end of the replacement range"""
    size = hi - lo
    out = []
    for i in range(200000):
        s = "e%d" % i
        if int(hashlib.md5((s + num).encode()).hexdigest(), 16) % size == want:
            out.append(s)
            if len(out) >= 1:
                break
    return out


def gen_as_line(rng, nums):
    toks = []
    for _ in range(rng.randint(1, 7)):
        k = rng.random()
        n = rng.choice(nums)
        if k < 0.3:
            toks.append(n)
        elif k < 0.55:
            toks.append(rng.choice(["(", "[", "as", "AS", "65000:", ":", "x", "-", "remote-as=", "٣", "²"]) + n + rng.choice([")", "]", ":100", ",", ".", "y", "-", "", "٣", "/", ".2", ".10", ".65002:100", ". 5", ".x"]))
        elif k < 0.75:
            toks.append(rng.choice(["1", "9", "00", ""]) + n + rng.choice(["0", "5", "", "99"]))     # embedded in a longer digit string
        else:
            toks.append(rng.choice(VOCAB))
    return rng.choice(["", " ", "  "]) + " ".join(toks) + rng.choice(["\n", "\n", ""])


def digit_runs(s):
    """maximal runs of characters that are digits in Python's sense (\\d), with positions"""
    out, i = [], 0
    while i < len(s):
        if re.match(r"\d", s[i]):
            j = i
            while j < len(s) and re.match(r"\d", s[j]):
                j += 1
            out.append((i, j))
            i = j
        else:
            i += 1
    return out


def as_scope(res, pid, rng, tier):
    sess, fails = Sess(), []
    plans = []
    rounds = 2 * len(AS_LISTS) if tier == "thorough" else len(AS_LISTS)
    edge = []
    for n, (lo, hi) in (("64512", (64512, 65536)), ("65535", (64512, 65536)), ("64511", (0, 64512))):
        for want in (0, hi - lo - 1):
            for s in find_edge_salts(n, lo, hi, want):
                edge.append((s, [n]))
    big = [str(n) for n in range(64512, 64512 + 110)]       # many numbers of one small block: replacements collide
    edge.append((SALTS[res.seed % len(SALTS)], big))
    edge.append(("s", list(reversed(big))))
    for r in range(rounds + len(edge)):
        if r < rounds:
            nums = AS_LISTS[(r + res.seed) % len(AS_LISTS)]            # every list in every run
            salt = SALTS[(5 * r + res.seed) % len(SALTS)]          # every list meets two different salts in this process
        else:
            salt, nums = edge[r - rounds]
        undo = r < rounds and r % 4 == 1        # AS numbers are replaced in an --undo run as well
        # (a listed number that is also a reserved word - built in like `1`, or the user's - is an AS number all the same)
        cfg = fa.FaCfg(salt=salt, asn=nums, undo=undo, reserved=([nums[0], "12"] if r % 3 == 2 else None))
        t = fa.FaTwin(sess, cfg)
        if t.obj is None:
            continue
        lines = [gen_as_line(rng, nums) for _ in range(40 if tier == "thorough" else 20)]
        lines += ["router bgp %s\n" % n for n in nums] + ([] if undo else [" neighbor 1.2.3.4 remote-as %s\n" % n for n in nums][:40])
        lines += ["uplink-%s.2 Tunnel%s.10 route-target %s.%s:100\n" % (nums[0], nums[-1], nums[0], nums[-1])]
        long_lines = []
        if r < 3 and len(nums) < 20:
            # very long lines: a listed number straddling offsets 8192 / 16384 (twinned with the model) and 65536 / 131072
            # (implementation and oracle only: the list-based model engine is quadratic on such lines)
            for off in (8192, 16384, 65536, 131072):
                n0 = nums[r % len(nums)]
                for shift in (0, 1, len(n0) - 1):
                    pad = "x" * (off - 7 - shift)
                    ln = "remark " + pad + " " + n0 + " tail " + n0 + "\n"
                    if off <= 8192 and shift == 0:
                        lines.append(ln)
                    else:
                        long_lines.append(ln)
        for ln in lines:
            plans.append((cfg, nums, ln, t.line(ln)))
        for ln in long_lines:
            o = io.StringIO()
            try:
                t.obj.anonymize_io(io.StringIO(ln), o)
                plans.append((cfg, nums, ln, "ok " + cps(o.getvalue()) + " -"))
            except Exception as e:  # noqa
                plans.append((cfg, nums, ln, "err " + exc_name(e)))
    # a line that the secret stage scrubs from a keyword onward: a listed number in front of the keyword is still replaced
    for nums_ in (["65001"], ["12", "123", "65001"]):
        salt_ = SALTS[(res.seed + 1) % len(SALTS)]
        for ln in ("router ospf %s area 0 interface Gi0/0/0/0 message-digest-key 1 md5 encrypted 13061E010803\n" % nums_[-1],
                   "as %s peer x key-string 7 0822455D0A16\n" % nums_[0], "description %s cable shared-secret 7 0822455D0A16\n" % nums_[-1]):
            try:
                o_ = anon_text(fa.FaCfg(salt=salt_, pwd=True, asn=nums_), ln)
            except Exception as e:  # noqa
                fails.append({"kind": "AS-number anonymization raised", "line": ln, "exc": repr(e)})
                continue
            res.evaluations += 1
            n_ = ln.split()[2] if ln.startswith("router") else ln.split()[1]
            lo_, hi_ = block_of(int(n_))
            want_ = str(int(hashlib.md5((salt_ + n_).encode()).hexdigest(), 16) % (hi_ - lo_) + lo_)
            if not o_.startswith(ln[:ln.index(n_)] + want_ + " "):
                fails.append({"kind": "a listed standalone number in front of a scrubbed secret is not replaced by the keyed value", "salt": salt_,
                              "as_numbers": nums_, "line": ln, "output": o_, "keyed_value": want_})
    # command line: AS number 0 (also written 00) is a listed number like any other
    from .ip_checks import run_cli
    for lst in ("0,65001", "0", "00,7"):
        body_ = "as-path 0 65001 00 7\nrouter bgp 0\n"
        st_, o_, _ = run_cli(["-s", "cs", "-n", lst], {"a.cfg": body_})
        res.evaluations += 1
        api_ = anon_text(fa.FaCfg(salt="cs", asn=lst.split(",")), body_)
        if st_ != "ok" or o_.get("a.cfg") != api_:
            fails.append({"kind": "command line: the listed AS numbers are not treated as by the library with the same list", "argv": ["-s", "cs", "-n", lst],
                          "status": st_, "output": o_.get("a.cfg"), "library": api_})
    dis = sess.finish(post=fa.model_out)
    res.evaluations += len(sess.lines)
    res.traces += rounds
    seen = {}
    for cfg, nums, ln, rr in plans:
        out = fa.out_text(rr)
        if out is None:
            fails.append({"kind": "AS-number anonymization raised", "cfg": cfg.describe(), "line": ln, "result": rr})
            continue
        res.nt(("as", ln[:14]))
        # independent scanner: rebuild the expected line from digit runs
        pos, exp_parts, ok = 0, [], True
        runs_in = digit_runs(ln)
        # walk input and output in parallel
        j = 0
        for (a, b) in runs_in:
            lit = ln[pos:a]
            if out[j:j + len(lit)] != lit:
                ok = False
                break
            j += len(lit)
            run = ln[a:b]
            m = re.match(r"\d+", out[j:])
            orun = m.group(0) if m else ""
            if run in nums:
                if not orun.isascii() or not orun:
                    ok = False
                    break
                v = int(orun)
                lo_, hi_ = block_of(int(run))
                want = int(hashlib.md5((cfg.salt + run).encode()).hexdigest(), 16) % (hi_ - lo_) + lo_
                if v != want:
                    fails.append({"kind": "replacement is not the keyed function of salt and number (listed standalone number left alone or mapped otherwise)",
                                  "cfg": cfg.describe(), "line": ln, "output": out, "number": run, "replacement": orun, "keyed_value": str(want)})
                if block_of(v) != block_of(int(run)):
                    fails.append({"kind": "replacement lies in another AS block", "cfg": cfg.describe(), "line": ln, "output": out,
                                  "number": run, "replacement": orun})
                key = (cfg.salt, run)
                if key in seen and seen[key] != orun:
                    fails.append({"kind": "replacement is not a function of salt and number", "cfg": cfg.describe(), "line": ln,
                                  "number": run, "replacement": orun, "earlier": seen[key]})
                seen[key] = orun
                j += len(orun)
            else:
                if out[j:j + len(run)] != run:
                    ok = False
                    break
                j += len(run)
            pos = b
        if ok and out[j:] != ln[pos:]:
            ok = False
        if not ok:
            fails.append({"kind": "text outside listed standalone numbers changed, or a listed standalone number was not replaced",
                          "cfg": cfg.describe(), "line": ln, "output": out})
    # the same words with other white space between them: only the listed numbers change, every blank and tab stays where it is
    nw = AS_LISTS[res.seed % len(AS_LISTS)][0]
    wl_ = ["router bgp %s\n" % nw, "router  bgp   %s\n" % nw, "router\tbgp\t%s\n" % nw, " neighbor 10.0.0.1 remote-as %s\n" % nw,
           " neighbor  10.0.0.1   remote-as\t%s\n" % nw, "router bgp %s\n" % nw]
    try:
        ow_, _ = run_lines(fa.FaCfg(salt="ws", asn=[nw]), wl_)
        res.evaluations += len(wl_)
        m0_ = re.fullmatch(r"router bgp (\d+)\n", ow_[0])
        r0_ = m0_.group(1) if m0_ else nw
        for a_, b_ in zip(wl_, ow_):
            # every maximal digit run equal to the listed number (an octet of the address too, when it is one) becomes its replacement
            if m0_ is None or re.sub(r"\d+", lambda m: r0_ if m.group() == nw else m.group(), a_) != b_:
                fails.append({"kind": "text other than a listed AS number changed (white space between the words)", "as_numbers": [nw], "lines": wl_,
                              "line": a_, "output": b_})
                break
    except Exception as e:  # noqa
        fails.append({"kind": "AS anonymization raised", "exc": repr(e)[:200]})
    # a directory run without a salt in which a file in the middle fails: one run, one key - a listed number gets the same replacement in
    # every file
    import tempfile as _tf4
    import shutil as _sh4
    from netconan.anonymize_files import anonymize_files as _af4
    d4 = _tf4.mkdtemp(prefix="ncverif_")
    try:
        for rel_, body_ in (("a.cfg", "router bgp %s\n" % nw), ("b-bad.bin", None), ("d1/d2/c.cfg", "router bgp %s\n" % nw), ("z.cfg", " remote-as %s\n" % nw)):
            os.makedirs(os.path.dirname(os.path.join(d4, "in", rel_)), exist_ok=True)
            if body_ is None:
                open(os.path.join(d4, "in", rel_), "wb").write(b"\xff\xfe\x00 not text \xc3\x28")
            else:
                open(os.path.join(d4, "in", rel_), "w").write(body_)
        with fa.LogCap():
            _af4(os.path.join(d4, "in"), os.path.join(d4, "out"), False, False, salt=None, as_numbers=[nw])
        reps_ = {}
        for rel_ in ("a.cfg", "d1/d2/c.cfg", "z.cfg"):
            reps_[rel_] = open(os.path.join(d4, "out", rel_)).read().split()[-1]
        res.evaluations += 3
        if len(set(reps_.values())) != 1:
            fails.append({"kind": "AS replacements of a run without --salt are not keyed by the salt the run generated and reported",
                          "detail": "one directory run, a failing file in the middle: the same listed number gets different replacements in different files",
                          "as_number": nw, "replacements_per_file": reps_})
    except Exception as e:  # noqa
        fails.append({"kind": "AS anonymization without a salt raised", "exc": repr(e)[:200]})
    finally:
        _sh4.rmtree(d4, ignore_errors=True)
    # a run without a salt: the salt that the anonymizer generated (and reports) is the key of its AS replacements too
    from netconan.anonymize_files import FileAnonymizer as _FA
    from netconan.sensitive_item_removal import AsNumberAnonymizer as _AN
    nums0 = AS_LISTS[res.seed % len(AS_LISTS)][:6]
    txt0 = "".join("router bgp %s\n neighbor 10.0.0.1 remote-as %s\n" % (n_, n_) for n_ in nums0)
    try:
        with fa.LogCap():
            a0 = _FA(anon_pwd=False, anon_ip=False, salt=None, as_numbers=list(nums0))
            o0 = io.StringIO()
            a0.anonymize_io(io.StringIO(txt0), o0)
            a1 = _FA(anon_pwd=False, anon_ip=False, salt=a0.salt, as_numbers=list(nums0))
            o1 = io.StringIO()
            a1.anonymize_io(io.StringIO(txt0), o1)
            ref0 = _AN(list(nums0), a0.salt)
        res.evaluations += 2 * len(nums0)
        exp0 = "".join("router bgp %s\n neighbor 10.0.0.1 remote-as %s\n" % (ref0.anonymize(n_), ref0.anonymize(n_)) for n_ in nums0)
        if o0.getvalue() != o1.getvalue() or (o0.getvalue() != exp0 and len(set(nums0)) == len(nums0) and not any(a_ in b_ and a_ != b_ for a_ in nums0 for b_ in nums0)):
            fails.append({"kind": "AS replacements of a run without --salt are not keyed by the salt the run generated and reported",
                          "as_numbers": nums0, "generated_salt": a0.salt, "output": o0.getvalue()[:300], "output_of_a_run_with_that_salt": o1.getvalue()[:300]})
    except Exception as e:  # noqa
        fails.append({"kind": "AS anonymization without a salt raised", "as_numbers": nums0, "exc": repr(e)[:200]})
    # the smallest number alone in the list
    for only_ in ("0", "1"):
        try:
            oz_, _ = run_lines(fa.FaCfg(salt="zero", asn=[only_]), ["router bgp %s\n" % only_, " neighbor 192.168.7.9 remote-as %s ! %s0 0%s\n" % (only_, only_, only_)])
            res.evaluations += 2
            mz_ = re.fullmatch(r"router bgp (\d+)\n", oz_[0])
            if not mz_ or mz_.group(1) == only_ or not 0 <= int(mz_.group(1)) < 64512 or oz_[1] != " neighbor 192.168.7.9 remote-as %s ! %s0 0%s\n" % (mz_.group(1), only_, only_):
                fails.append({"kind": "text outside listed standalone numbers changed, or a listed standalone number was not replaced", "as_numbers": [only_], "salt": "zero",
                              "lines": ["router bgp %s" % only_, " neighbor 192.168.7.9 remote-as %s ! %s0 0%s" % (only_, only_, only_)], "outputs": oz_})
        except Exception as e:  # noqa
            fails.append({"kind": "AS anonymization raised", "as_numbers": [only_], "exc": repr(e)[:200]})
    # library use: the caller goes on using (and changing) the list object it handed over; the anonymizer follows the values it was given
    from netconan.sensitive_item_removal import anonymize_as_numbers as _aan
    for edit in ("clear", "append", "replace"):
        mine = ["65000", "64999", "701"]
        try:
            an_ = _AN(mine, "lateSalt")
            ref_ = _AN(["65000", "64999", "701"], "lateSalt")
            if edit == "clear":
                del mine[:]
            elif edit == "append":
                mine.append("7018")
            else:
                mine[0] = "3356"
            tl_ = "router bgp 65000\n neighbor 10.9.8.7 remote-as 64999 ! 701 3356 7018 65000x\n"
            got_ = "".join(_aan(an_, l_) for l_ in tl_.splitlines(True))
            exp_ = "".join(_aan(ref_, l_) for l_ in tl_.splitlines(True))
            res.evaluations += 2
            if got_ != exp_ or exp_ == tl_:
                fails.append({"kind": "an AS anonymizer follows later changes of the list object it was constructed with instead of the numbers it was given",
                              "as_numbers": ["65000", "64999", "701"], "list_after_construction": list(mine), "salt": "lateSalt", "input": tl_, "output": got_,
                              "output_of_an_anonymizer_built_from_a_copy": exp_})
        except Exception as e:  # noqa
            fails.append({"kind": "AS anonymization raised", "detail": "the caller's list was changed (%s) after construction" % edit, "as_numbers": ["65000", "64999", "701"],
                          "exc": repr(e)[:200]})
    return dis, fails


# ------------------------------------------------------------------ pipeline correspondence (all features)

def rand_feature_cfg(rng, subset=None):
    pwd, ip, words, asn = subset if subset is not None else [rng.random() < 0.5 for _ in range(4)]
    c = _rand_feature_cfg(rng, pwd, ip, words, asn)
    if c.words and rng.random() < 0.6:
        # user reserved words in mixed case that contain a listed word, and one that is a listed AS number
        c.reserved = [c.words[0].capitalize() + "Net", "core-" + c.words[-1].upper(), "relax"] + ([c.asn[0]] if c.asn and rng.random() < 0.5 else [])
    elif c.asn and rng.random() < 0.4:
        c.reserved = [c.asn[-1], "Seattle"]
    return c


def _rand_feature_cfg(rng, pwd, ip, words, asn):
    return fa.FaCfg(salt=rng.choice(SALTS), pwd=pwd, ip=ip, b4=rng.choice([None, 0, 8, 8, 16, 32]), b6=rng.choice([None, 0, 8, 16, 32, 64, 128]),
                    words=rng.choice(WORDLISTS) if words else None, asn=rng.choice(AS_LISTS) if asn else None,
                    nets=rng.choice([None, None, ["10.1.0.0/16"]]) if ip else None,
                    reserved=rng.choice([None, None, ["Seattle", "relax"]]))


def mixed_text(rng, cfg, n):
    out = []
    words = cfg.words or ["sea"]
    nums = cfg.asn or ["65001"]
    for _ in range(n):
        k = rng.random()
        if k < 0.25:
            out.append(render(gen_history(rng, 1)[0]))
        elif k < 0.45:
            a = rng.getrandbits(32)
            out.append(rng.choice(["ip address {} 255.255.255.0\n", " neighbor {} remote-as 65001\n", "route {}/24 next-hop {}\n"]).replace("{}", str(__import__("ipaddress").IPv4Address(a))))
        elif k < 0.55:
            out.append(" ipv6 address %s/64\n" % __import__("ipaddress").IPv6Address(rng.getrandbits(128)))
        elif k < 0.75:
            # user reserved words (any letter case) that contain a listed word: kept as whole tokens, whatever other features are on
            out.append(gen_word_line(rng, words, [w_ for w_ in (cfg.reserved or []) if any(x.lower() in w_.lower() for x in words)]))
        elif k < 0.9:
            # (a listed number that is also a reserved word - `1`, `2`, a user reserved number - is still an AS number)
            out.append(gen_as_line(rng, nums))
        else:
            out.append(rng.choice(["\n", "   \n", "!\n", "\t\n", "end"]))
    return [l if l.endswith("\n") or i == len(out) - 1 else l + "\n" for i, l in enumerate(out)]


def pipeline_corr(res, pid, rng, tier):
    sess = Sess()
    rounds = 24 if tier == "thorough" else 8
    for r in range(rounds):
        cfg = rand_feature_cfg(rng)
        t = fa.FaTwin(sess, cfg)
        if t.obj is None:
            continue
        for ln in mixed_text(rng, cfg, 25):
            t.line(ln)
        res.count("features_%d%d%d%d" % (cfg.pwd, cfg.ip, cfg.words is not None, cfg.asn is not None))
    dis = sess.finish(post=fa.model_out)
    res.evaluations += len(sess.lines)
    res.traces += rounds
    for i in (2, len(sess.lines) // 2):
        res.sample({"op": sess.lines[i][:160], "impl": str(sess.impl[i])[:160], "model": sess.model[i][:160]})
    return dis, []


# ------------------------------------------------------------------ C12

def anon_text(cfg, text, newline=None):
    obj = cfg.build()
    o = io.StringIO()
    obj.anonymize_io(io.StringIO(text, newline="") if newline == "" else io.StringIO(text), o)
    return o.getvalue()


def ws_split(line):
    body = line.rstrip("\r\n")
    term = line[len(body):]
    core = body.strip()
    i = body.find(core) if core else len(body)
    return body[:i] if core else "", core, body[i + len(core):] if core else body, term


def fixed_lines_probe(res, fails):
    """lines that look like secrets but are not of a form netconan decodes (characters outside the `$9$` alphabet, single-quoted values
    behind a word that ends in `key`), and sensitive words with characters that are special in patterns: each line gives one line, the
    line after it is still written, and tokens that contain no listed word are unchanged"""
    from netconan.anonymize_files import FileAnonymizer
    odd = ['secret "$9$ab_cdefgh";', 'secret "$9$ab_cdefghijklmnop"', 'secret "$9$abécdefgh"', 'secret "$9$\u0663bcdefgh1"', 'secret "$9$abcdefgh\u00aa"',
           "authentication-key \"$9$__________\";", " wep-key 'abc def'", "set security tsig-key 'x y';", "key 'x'", " ike-key 'q'", "pre-shared-key 'a b c'",
           " wep-key \"abc def\"", "license-key ''", "api-key ' '", "set key '\"'"]
    words = ["acme.net", "a+b", "x(y", "co$t", "q[1]", "w|z", "back\\slash", "st*r", "h?t", "c^t"]
    tok_lines = ["peer acme-net acmeXnet acme_net acmenet aab ab xy cot q1 w z wz backslash str sr ht hot ct c.t end",
                 "description acme/net a.b x{y co-t q[2] st-r h.t"]
    odd += [" wpa-passphrase MySecretKey", " wpa-psk ascii 0 KEY12345", " wpa-psk hex 0123456789abcdef", "passphrase foo", " psk bar", "auth-key baz", "key-string qux",
            " wpa-passphrase", "tacacs-server key", "radius-server key 7", "enable secret", "snmp-server community", "set community \"\""]
    # a word list with blank entries (as `-w "acmecorp, ,zebra"` gives): a blank is not a word of any token
    try:
        objb = FileAnonymizer(anon_pwd=False, anon_ip=False, salt="fx", sensitive_words=["acmecorp", " ", "\t", "zebra", "  "])
        ob_ = io.StringIO()
        lb_ = "interface GigabitEthernet0/1\n description uplink to core switch\n"
        objb.anonymize_io(io.StringIO(lb_), ob_)
        res.evaluations += 2
        if ob_.getvalue() != lb_:
            fails.append({"kind": "a token that contains no listed sensitive word was changed (the list has blank entries)", "sensitive_words": ["acmecorp", " ", "\t", "zebra", "  "],
                          "input": lb_, "output": ob_.getvalue()[:300]})
    except Exception as e:  # noqa
        fails.append({"kind": "processing a line raised %s" % type(e).__name__, "sensitive_words": ["acmecorp", " ", "\t", "zebra", "  "], "exc": repr(e)[:200]})
    try:
        obj = FileAnonymizer(anon_pwd=True, anon_ip=True, salt="fx", sensitive_words=list(words))
    except Exception as e:  # noqa
        fails.append({"kind": "constructor raised on a valid option set", "sensitive_words": words, "exc": repr(e)[:200]})
        return
    for ln in odd + tok_lines:
        o = io.StringIO()
        res.evaluations += 1
        try:
            obj.anonymize_io(io.StringIO(ln + "\nend of the probe\n"), o)
        except Exception as e:  # noqa
            fails.append({"kind": "processing a line raised %s (the lines after it are lost)" % type(e).__name__, "features": "passwords, addresses, words",
                          "sensitive_words": words, "line": ln, "exc": repr(e)[:200], "output_so_far": o.getvalue()})
            continue
        out = o.getvalue().split("\n")
        if len(out) != 3 or out[1] != "end of the probe":
            fails.append({"kind": "one line in did not give one line out, or the following line changed", "line": ln, "output": o.getvalue()})
        elif ln in tok_lines and out[0] != ln:
            fails.append({"kind": "a token that contains no listed sensitive word was changed (the listed words contain characters that are special in patterns)",
                          "sensitive_words": words, "line": ln, "output": out[0]})


def structure_scope(res, pid, rng, tier):
    fails = []
    fixed_lines_probe(res, fails)
    rounds = 24 if tier == "thorough" else 10
    for r in range(rounds):
        subset = [bool((r >> k) & 1) for k in range(4)]
        cfg = rand_feature_cfg(rng, subset)
        lines = mixed_text(rng, cfg, 30)
        keep_tokens = []
        # ordinary configuration vocabulary: nothing sensitive on these lines
        plain = []
        for _ in range(12):
            toks = [rng.choice([v for v in VOCAB if not any(w.lower() in v.lower() for w in (cfg.words or []))]) for _ in range(rng.randint(1, 6))]
            toks = [t for t in toks if not any(t[a:b] in (cfg.asn or []) for a, b in digit_runs(t))]
            if toks:
                plain.append(rng.choice(["", " ", "   ", "\t"]) + rng.choice([" ", "  ", "\t"]).join(toks) + rng.choice(["", " ", "\t "]) + "\n")
        if cfg.pwd and not cfg.words and not cfg.asn:
            for f_ in ("set community {}", "rf-switch snmp-community {}", "key-hash sha256 {}", "snmp-server mib community-map {}:100 context public1"):
                s_ = re.sub(r"[^A-Za-z]", "x", L.gen_secret(rng, "text"))
                lines.insert(len(lines) - 1, "description %s-mgmt link %s\n" % (s_, f_.format(s_)))
                keep_tokens.append(("description %s-mgmt link " % s_))
        if cfg.pwd and not cfg.words and not cfg.asn:
            # text in front of the secret that contains a backslash (Windows-style names): carried over verbatim
            for nm in ("CORP\\netops", "CORP\\admin", "LAB\\1st-shift", "CORP\\guest", "A\\g<1>b", "x\\\\y"):
                for f_ in ("username %s secret 0 {}", "username %s password 0 {}", "snmp-server user %s grp v3 auth md5 {}"):
                    s_ = re.sub(r"[^A-Za-z]", "x", L.gen_secret(rng, "text")) + "Q1"
                    pre_ = (f_ % nm).format("")
                    lines.insert(len(lines) - 1, pre_ + s_ + "\n")
                    keep_tokens.append(pre_)
        if cfg.pwd and not cfg.words and not cfg.asn and not cfg.ip and not cfg.undo:
            from .jun_checks import ref_encrypt as _re9
            # a `$9$` secret whose plaintext is an ordinary keyword, then ordinary lines with that keyword after a password keyword
            lines.insert(len(lines) - 1, 'secret "%s"\n' % _re9("chain", "Q"))
            lines.insert(len(lines) - 1, 'secret "%s"\n' % _re9("encryption", "B"))
            for pl in ("key chain ISIS-KEYS\n", "password encryption aes\n", "ip ssh server algorithm hostkey ssh-rsa rsa-sha2-256\n",
                       "ip ssh server algorithm publickey ssh-rsa ecdsa-sha2-nistp256\n", "ssh-dsa is deprecated\n"):
                plain.append(pl)
        if cfg.ip:
            # an interface name after a zone index is ordinary text
            for zl in ("ipv6 route ::/0 fe80::1%eth0\n", " neighbor fe80::a:b%Vlan10 remote-as 64999\n"):
                lines.insert(len(lines) - 1, zl)
                keep_tokens.append(None)
            for m in ("255.255.252.000", "000.000.003.255", "0.0.0.255", "255.255.255.0", "255.000.000.000"):
                plain.append(" ip address-mask %s secondary\n" % m)
            if cfg.nets:
                plain.append(" neighbor 010.001.002.003 up\n")
        # a secret keyword behind a token of punctuation and a blank: the tokens around the secret stay separate tokens
        punct = {}
        if cfg.pwd and not cfg.words and not cfg.asn:
            for f_ in ("group core {{ password {} }}", "( secret {} )", "[ enable password {} ]", "a ; username bob password 0 {} ;", '"x" password {} "y"',
                       "peer = {{ pre-shared-key ascii-text {} }}", ", snmp-server community {} RO ,", '  key "{}" description "uplink to core"',
                       'set system login user a authentication secret "{}"; ## "quoted note" end'):
                s_ = "Zq" + re.sub(r"[^A-Za-z0-9]", "x", L.gen_secret(rng, "text")) + "7w"
                ln_ = f_.format(s_) + "\n"
                lines.insert(len(lines) - 1, ln_)
                punct[ln_.rstrip("\n")] = s_
        lines = lines[:-1] + plain + [lines[-1]]
        # lines made of enclosing characters only; a sensitive-word line repeated with other trailing white space / terminator
        odd = ['"\n', '""\n', "'\n", '" "\n', "  ''  \n", "}\n", "];\n", '\\"\n']
        wl = (cfg.words or ["sea"])[0]
        rep = ["hostname %s-core\n" % wl, "hostname %s-core  \n" % wl, "hostname %s-core\t\n" % wl, "hostname %s-core \r\n" % wl, "hostname %s-core\n" % wl]
        # a (user) reserved word that contains a listed word is not a sensitive item: carried over as written, in any letter case
        resv = []
        if cfg.words is not None and not cfg.pwd and not cfg.asn:
            for rw in (cfg.reserved or []):
                if any(x.lower() in rw.lower() for x in cfg.words) and len(rw.split()) == 1:
                    for form_ in (rw, rw.upper(), rw.lower()):
                        resv.append("hostname %s uplink\n" % form_)
        # a sensitive word on a line with tokens that contain compatibility characters: those tokens are not sensitive items
        compat = ["description %s link %s uplink\n" % (ct, wl) for ct in COMPAT_TOKENS if len(ct.split()) == 1]   # (NBSP is white space)
        lines = lines[:-1] + odd + rep + compat + resv + [lines[-1]]
        plain += odd
        text = "".join(lines)
        try:
            out = anon_text(cfg, text, newline="")
        except Exception as e:  # noqa
            fails.append({"kind": "anonymize_io raised", "cfg": cfg.describe(), "exc": repr(e)})
            continue
        outs = out.split("\n")
        ins = text.split("\n")
        res.evaluations += len(ins)
        res.sample({"features": cfg.describe(), "lines_in": ins[:3], "lines_out": outs[:3]}, limit=3)
        if len(outs) != len(ins):
            fails.append({"kind": "number of lines changed", "cfg": cfg.describe(), "lines_in": len(ins), "lines_out": len(outs)})
            continue
        if cfg.ip:
            for o_ in outs:
                if ("route ::/0" in o_ or "remote-as 64999" in o_) and not ("%eth0" in o_ or "%Vlan10" in o_):
                    fails.append({"kind": "a token that is not a sensitive item changed (interface name after a zone index)", "cfg": cfg.describe(), "output": o_})
        for kt in [k_ for k_ in keep_tokens if k_ is not None]:
            if not any(o.startswith(kt) for o in outs):
                fails.append({"kind": "a token that is not a sensitive item changed (text equal to the secret elsewhere on the line)",
                              "cfg": cfg.describe(), "expected_line_start": kt, "outputs": [o for o in outs if "link" in o][:4]})
        for i, (a, b) in enumerate(zip(ins, outs)):
            res.nt(("struct", a[:12]))
            la, ca, ta, _ = ws_split(a)
            lb, cb, tb, _ = ws_split(b)
            if (la, ta) != (lb, tb) and ca:
                fails.append({"kind": "leading or trailing white space of a line changed", "cfg": cfg.describe(), "line": a, "output": b})
            if not ca and a != b:
                fails.append({"kind": "a blank line changed", "cfg": cfg.describe(), "line": a, "output": b})
            if (a + "\n") in resv and a.split() != b.split():
                fails.append({"kind": "a token that is a (user) reserved word - not a sensitive item - changed", "cfg": cfg.describe(), "line": a, "output": b})
            if (a + "\n") in compat and not cfg.pwd and not cfg.asn:
                ta, tb = a.split(" "), b.split(" ")
                if len(ta) != len(tb) or ta[:3] + ta[4:] != tb[:3] + tb[4:]:
                    fails.append({"kind": "a token that is not a sensitive item changed (line that also holds a sensitive word)", "cfg": cfg.describe(),
                                  "line": a, "output": b})
            if a in punct:
                ta, tb = a.split(), b.split()
                k_ = next(i_ for i_, t_ in enumerate(ta) if punct[a] in t_)
                if len(ta) != len(tb) or ta[:k_] + ta[k_ + 1:] != tb[:k_] + tb[k_ + 1:]:
                    fails.append({"kind": "a token that is not a sensitive item changed (punctuation tokens around a secret keyword)", "cfg": cfg.describe(),
                                  "line": a, "output": b})
            if (a + "\n") in plain:
                # no sensitive item: tokens carried over verbatim; inner runs may collapse only with secrets/words on
                if a.split() != b.split():
                    fails.append({"kind": "a token that is not a sensitive item changed", "cfg": cfg.describe(), "line": a, "output": b})
                elif a != b and not (cfg.pwd or cfg.words is not None):
                    fails.append({"kind": "white space changed although secret and word anonymization are off", "cfg": cfg.describe(), "line": a, "output": b})
        # each output line depends only on its own input line (features without cross-line state)
        if not cfg.pwd:
            idx = rng.sample(range(len(lines)), min(10, len(lines)))
            for i in idx:
                alone = anon_text(cfg, lines[i])
                if alone != (outs[i] + ("\n" if lines[i].endswith("\n") else "")):
                    fails.append({"kind": "a line anonymized alone differs from the same line inside a text", "cfg": cfg.describe(),
                                  "line": lines[i], "alone": alone, "in_text": outs[i]})
        elif not (cfg.asn and set(cfg.asn) & {"1", "6", "9"}):     # (the AS stage would rewrite the `$1$` of a replacement hash)
            # permuting the line sequence permutes the output up to pseudonym numbering: compare shapes
            perm = list(range(len(lines)))
            rng.shuffle(perm)
            ptext = "".join(lines[i] if lines[i].endswith("\n") else lines[i] + "\n" for i in perm)
            pout = anon_text(cfg, ptext).split("\n")
            norm = lambda s: re.sub(r"netconanRemoved\d+|\$1\$\S+|\$6\$\S+|\$9\$[^\s\";]+|\b[0-9A-Fa-f]{10,}\b|\b\d{20,}\b", "<P>", s)  # noqa
            for k, i in enumerate(perm):
                if norm(pout[k]) != norm(outs[i]):
                    fails.append({"kind": "a line's output depends on other lines beyond pseudonym numbering", "cfg": cfg.describe(),
                                  "line": lines[i], "in_order": outs[i], "permuted": pout[k]})
    # terminators: \r\n and \r are kept by the stream API given untranslated text
    cfg = fa.FaCfg(salt="s", pwd=True, ip=True, words=["sea"])
    t = "hostname sea1\r\n ip address 1.2.3.4 255.0.0.0\r\n\r\npassword foo\r\nlast"
    o = anon_text(cfg, t, newline="")
    res.evaluations += 1
    if [x[len(x.rstrip("\r\n")):] for x in o.splitlines(True)] != [x[len(x.rstrip("\r\n")):] for x in t.splitlines(True)]:
        fails.append({"kind": "line terminators changed", "input": t, "output": o})
    # two listed words with the same pseudonym: a line's output is the same alone and inside a text (it does not depend on which of
    # the two words was met first)
    salt_c = SALTS[(res.seed + 4) % len(SALTS)] or "sc"
    cp = colliding_words(salt_c, stem="core")
    if cp:
        cfgc = fa.FaCfg(salt=salt_c, words=[cp[0], cp[1]])
        tl = ["hostname %s-a\n" % cp[0], "hostname %s-b uplink\n" % cp[1], "description %s to %s\n" % (cp[1], cp[0]), "hostname %s-c\n" % cp[1]]
        try:
            whole = anon_text(cfgc, "".join(tl)).split("\n")[:-1]
            for k_, ln_ in enumerate(tl):
                alone = anon_text(cfgc, ln_)
                res.evaluations += 1
                if alone != whole[k_] + "\n":
                    fails.append({"kind": "a line anonymized alone differs from the same line inside a text", "cfg": cfgc.describe(), "line": ln_,
                                  "alone": alone, "in_text": whole[k_], "text": tl})
                    break
        except Exception as e:  # noqa
            fails.append({"kind": "anonymize_io raised", "cfg": cfgc.describe(), "exc": repr(e)})
    return [], fails


def order_scope(res, pid, rng, tier):
    """every ordered pair of recognised line forms as a two-line text: each line's output must be what the line gives
    alone, up to the pseudonym number (C12: a line depends on its own input plus which secrets were seen before)"""
    fails = []
    cfg = fa.FaCfg(salt=SALTS[res.seed % len(SALTS)], pwd=True)
    lines = []
    for t, cs in L.FORMS:
        lines.append(t.format(L.gen_secret(rng, cs[0])) + "\n")
        if tier == "thorough" and len(cs) > 1:
            lines.append(t.format(L.gen_secret(rng, cs[-1])) + "\n")
    for t in L.SCRUB_FORMS + L.AWS_FORMS:
        lines.append(t.format("".join(rng.choice(L.B64) for _ in range(32))) + "\n")
    # forms with ordinary words after the secret, and a key-chain line (matched by a late group only)
    lines += ["  key-string 7 0822455D0A16\n", " standby 2 authentication md5 key-string s3cr3tX timeout 30\n",
              "set password ENC yjyqq\n", " neighbor 10.0.0.1 password 7 0822455D0A16 extra\n", "snmp-server community c0mmunityZ RO 10\n"]
    norm = lambda s: re.sub(r"netconanRemoved\d+|\$1\$\S+|\$6\$\S+|\$9\$[^\s\";]+|\b[0-9A-Fa-f]{10,}\b|\b\d{20,}\b", "<P>", s)  # noqa
    alone = []
    for ln in lines:
        try:
            alone.append(norm(anon_text(cfg, ln)))
        except Exception as e:  # noqa
            alone.append(None)
            fails.append({"kind": "anonymize_io raised", "line": ln, "exc": repr(e)})
    n = len(lines)
    for i in range(n):
        for j in range(n):
            if i == j or alone[i] is None or alone[j] is None:
                continue
            res.evaluations += 1
            try:
                out = anon_text(cfg, lines[i] + lines[j]).split("\n")
            except Exception as e:  # noqa
                fails.append({"kind": "anonymize_io raised", "text": lines[i] + lines[j], "exc": repr(e)})
                continue
            got = [norm(out[0] + "\n"), norm(out[1] + "\n")] if len(out) >= 3 else None
            if got != [alone[i], alone[j]] and len(fails) < 12:
                fails.append({"kind": "a line's output depends on the line before it beyond pseudonym numbering", "salt": cfg.salt,
                              "first_line": lines[i], "second_line": lines[j], "output": out,
                              "first_alone": alone[i], "second_alone": alone[j]})
    res.nt(("order_pairs", n))
    res.count("order_pairs", n * (n - 1))
    return [], fails


# ------------------------------------------------------------------ C14

HOSTILE = ["$6$rounds=0$abc$def", "$6$rounds=000000001$a$b", "$6$rounds=99999999999$a$b", "$6$rounds=x$a$b", "$6$", "$1$", "$1$a$", "ſea", "ſite", "ſeattle",
           "ıntentıonet", "İntentionet", "\u212aelvin", "KELVİN", "ZUR\u0131ch", "straſſe", "Straße", "STRASSE", "ǅ", "ﬁ", "ß", "\\", "\\g<1>", "\\1", "(", ")", "[", "]", "{", "}", "*", "+", "?", "|", "^", "$", ".", "$1$", "$9$", "$6$", "$1$abcdefghijkl$x",
           "$1$$a$b", "$1$$$", "$9$abc", "$9$_net9pBcSe8", "$9$QnetF", "fe80:%x", "fe80::%", "1:2:3:4:5:6:7::8", "::", ":::", "1.2.3.4.5", "999.1.1.1",
           "256.256.256.256", "0x1.2.3.4", "1.2.3.4/33", "\x00", "\x1f", "\x85", " ", "é", "\U0001F600", "٣", "Ⅷ", "\t", "  ", '"' * 50, "'" * 40, "[" * 60,
           "a" * 300, "1" * 200, ":" * 70, "." * 70, "%", "%%", "%s", "{}", "{0}", "\\\\", "password", "secret", "key", "community", "snmp-server", "encrypted-password"]


def hostile_line(rng):
    k = rng.random()
    if k < 0.35:
        base = render(gen_history(rng, 1)[0]).rstrip("\n")
        i = rng.randint(0, len(base))
        return base[:i] + rng.choice(HOSTILE) + base[i:]
    if k < 0.5:
        t, cs = rng.choice(L.FORMS)
        return t.format(rng.choice(HOSTILE) + rng.choice(HOSTILE))
    if k < 0.6:
        return rng.choice(L.SCRUB_FORMS + L.AWS_FORMS + L.RESERVED_CAPTURE_FORMS).format(rng.choice(HOSTILE))
    return " ".join(rng.choice(HOSTILE + VOCAB + ["1.2.3.4", "2001:db8::1", "65001", "sea"]) for _ in range(rng.randint(1, 6)))


def total_scope(res, pid, rng, tier):
    import tempfile
    import shutil
    from netconan.anonymize_files import anonymize_files
    fails = []
    n = 2500 if tier == "thorough" else 700
    fixed_lines_probe(res, fails)
    salts = SALTS + ["\\", "$", "a" * 100, "٣"]
    cfgs = []
    for r in range(16):
        subset = [bool((r >> k) & 1) for k in range(4)]
        if not any(subset):
            continue
        c = rand_feature_cfg(rng, subset)
        c.salt = salts[(r + res.seed) % len(salts)]
        if c.words is not None:
            c.words = list(c.words) + ["sea", "site", "kelvin", "intentionet", "Straße"]
        cfgs.append(c)
    objs = []
    for c in cfgs:
        try:
            objs.append((c, c.build()))
        except Exception as e:  # noqa
            fails.append({"kind": "constructor raised on a valid option set", "cfg": c.describe(), "exc": repr(e)})
    for i in range(n):
        ln = hostile_line(rng)
        c, obj = objs[i % len(objs)]
        res.evaluations += 1
        res.nt(("hostile", ln[:10]))
        if i % 200 == 0:
            res.sample({"features": c.describe(), "line": ln[:120]}, limit=4)
        o = io.StringIO()
        try:
            obj.anonymize_io(io.StringIO(ln + "\n"), o)
        except Exception as e:  # noqa
            fails.append({"kind": "processing a line raised %s" % type(e).__name__, "cfg": c.describe(), "line": ln, "exc": repr(e)[:300]})
            continue
        if o.getvalue().count("\n") != 1 and "\n" not in ln:
            fails.append({"kind": "one line in did not give one line out", "cfg": c.describe(), "line": ln, "output": o.getvalue()})
    # inputs without a single line, or with blank lines only
    for c_ in cfgs[:6]:
        for txt in ("", "\n", "\n\n\n", " ", "\r\n", "\x0c"):
            o = io.StringIO()
            res.evaluations += 1
            try:
                c_.build().anonymize_io(io.StringIO(txt), o)
            except Exception as e:  # noqa
                fails.append({"kind": "processing an input of %d characters without text raised %s" % (len(txt), type(e).__name__), "cfg": c_.describe(),
                              "input": txt, "exc": repr(e)[:200]})
                continue
            if o.getvalue().count("\n") != txt.count("\n"):
                fails.append({"kind": "number of lines changed on an input without text", "cfg": c_.describe(), "input": txt, "output": o.getvalue()})
    # every salt string is a salt: characters after the first one that are outside the `$9$` alphabet, white space, controls, long salts
    from .jun_checks import ref_encrypt
    for hs in ["s@lt", "Q 1", "7_x", "a*", "i\n", "-%", "n\x00", "K€", "e\\", "9$", "Z\t", ". ", "/" * 70, "_", "\x7f", "ß", "\u2028"]:
        lines9 = ['secret "%s"' % ref_encrypt("plain" + str(rng.randint(0, 99)), rng.choice("QB7iaeKZ-./n")), "pre-shared-key ascii-text \"%s\"; ## SECRET-DATA"
                  % ref_encrypt("k%d" % rng.randint(0, 9999), rng.choice("abcxyz019")), "password 7 %s" % L.gen_secret(rng, "type7"),
                  "enable secret 5 %s" % L.gen_secret(rng, "md5"), "ip address 10.1.2.3 255.255.255.0", "hostname sea-1 65001"]
        try:
            ob = fa.FaCfg(salt=hs, pwd=True, ip=True, words=["sea"], asn=["65001"]).build()
        except Exception as e:  # noqa
            fails.append({"kind": "constructor raised on a valid option set", "salt": hs, "exc": repr(e)})
            continue
        for ln in lines9:
            o = io.StringIO()
            res.evaluations += 1
            try:
                ob.anonymize_io(io.StringIO(ln + "\n"), o)
            except Exception as e:  # noqa
                fails.append({"kind": "processing a line raised %s" % type(e).__name__, "salt": hs, "line": ln, "exc": repr(e)[:300]})
                continue
            if o.getvalue().count("\n") != 1:
                fails.append({"kind": "one line in did not give one line out", "salt": hs, "line": ln, "output": o.getvalue()})
    # text in front of the secret with backslashes that are no template escapes; AS numbers listed with leading zeros
    ob_ = fa.FaCfg(salt="s", pwd=True).build()
    for nm in ("CORP\\jdoe", "a\\q", "LAB\\x41", "D\\", "\\\\srv\\share", "x\\g<prefix>", "k\\9"):
        for f_ in ("username %s secret 5 %s", "snmp-server host 10.0.0.1 vrf %s informs %s", "ppp %s password 0 %s", "tacacs-server host %s key 7 %s"):
            ln = f_ % (nm, L.gen_secret(rng, "md5") if "secret 5" in f_ else L.gen_secret(rng, "type7") if "key 7" in f_ else "Xy" + L.gen_secret(rng, "text"))
            o = io.StringIO()
            res.evaluations += 1
            try:
                ob_.anonymize_io(io.StringIO(ln + "\n"), o)
            except Exception as e:  # noqa
                fails.append({"kind": "processing a line raised %s" % type(e).__name__, "line": ln, "exc": repr(e)[:300]})
                continue
            if o.getvalue().count("\n") != 1:
                fails.append({"kind": "one line in did not give one line out", "line": ln, "output": o.getvalue()})
    for asl in (["065002", "007"], ["0", "00"], ["65000", "0065001"]):
        try:
            oba = fa.FaCfg(salt="s", asn=asl).build()
        except Exception as e:  # noqa
            fails.append({"kind": "constructor raised on a valid option set", "as_numbers": asl, "exc": repr(e)})
            continue
        for ln in ["router bgp %s" % asl[0], " neighbor 10.0.0.1 remote-as %s" % asl[-1], "as-path %s %s 0 7 65001" % (asl[0], asl[-1])]:
            o = io.StringIO()
            res.evaluations += 1
            try:
                oba.anonymize_io(io.StringIO(ln + "\n"), o)
            except Exception as e:  # noqa
                fails.append({"kind": "processing a line raised %s" % type(e).__name__, "as_numbers": asl, "line": ln, "exc": repr(e)[:300]})
    # volume: one object sees thousands of distinct addresses of both families (memo growth must not make a later line fail)
    obv = fa.FaCfg(salt="vol%d" % res.seed, ip=True).build()
    vol = ["ipv6 address %s/64" % ":".join("%x" % rng.getrandbits(16) for _ in range(8)) for i in range(3000)]
    vol += ["ip host h%d %d.%d.%d.%d" % (i, rng.randint(1, 223), rng.getrandbits(8), rng.getrandbits(8), rng.getrandbits(8)) for i in range(14000 if tier == "thorough" else 9000)]
    o = io.StringIO()
    res.evaluations += len(vol)
    try:
        obv.anonymize_io(io.StringIO("".join(v + "\n" for v in vol)), o)
        if o.getvalue().count("\n") != len(vol):
            fails.append({"kind": "one line in did not give one line out", "lines": len(vol), "output_lines": o.getvalue().count("\n")})
    except Exception as e:  # noqa
        done = o.getvalue().count("\n")
        fails.append({"kind": "processing a line raised %s" % type(e).__name__, "line": vol[min(done, len(vol) - 1)],
                      "after_lines_of_distinct_addresses": done, "exc": repr(e)[:300]})
    # the log level is no input: the same short lines (scrubbed ones among them) at every level of the root logger
    import logging as _lg
    root = _lg.getLogger()
    old_level = root.level
    short = ["  key-string 7 070C285F4D06", "cable shared-secret 0 abc123", "password 7 0822455D0A16", "a", "", "set community X1y2z3w4", "hostname sea-1 65001 10.1.2.3",
             " key 7 070C285F4D06", "ntp authentication-key 1 md5 0822455D0A16 7", "enable secret 5 " + L.gen_secret(rng, "md5")]
    try:
        for lvl in (_lg.DEBUG, _lg.INFO, _lg.WARNING, _lg.ERROR, _lg.CRITICAL):
            root.setLevel(lvl)
            obl = fa.FaCfg(salt="lvl", pwd=True, ip=True, words=["sea"], asn=["65001"]).build()
            for ln in short:
                o = io.StringIO()
                res.evaluations += 1
                try:
                    obl.anonymize_io(io.StringIO(ln + "\n"), o)
                except Exception as e:  # noqa
                    fails.append({"kind": "processing a line raised %s" % type(e).__name__, "root_log_level": _lg.getLevelName(lvl), "line": ln, "exc": repr(e)[:300]})
                    continue
                if o.getvalue().count("\n") != 1:
                    fails.append({"kind": "one line in did not give one line out", "root_log_level": _lg.getLevelName(lvl), "line": ln, "output": o.getvalue()})
    finally:
        root.setLevel(old_level)
    # very long runs of enclosing characters
    for k in (1200, 3000):
        for ln in ['password ' + '"' * k + 'x' + '"' * k, "secret " + "[" * k + "y" + "]" * k, "key " + "'" * k]:
            o = io.StringIO()
            try:
                fa.FaCfg(salt="s", pwd=True).build().anonymize_io(io.StringIO(ln + "\n"), o)
            except Exception as e:  # noqa
                fails.append({"kind": "processing a line raised %s" % type(e).__name__, "line": ln[:40] + "...(%d chars)" % len(ln), "exc": repr(e)[:200]})
    # file level: no content may leave an output file truncated or missing
    d = tempfile.mkdtemp(prefix="ncverif_")
    try:
        ind, outd = os.path.join(d, "in"), os.path.join(d, "out")
        os.makedirs(ind)
        body = "".join(hostile_line(rng) + "\n" for _ in range(60))
        for name in ("a.cfg", "b.cfg"):
            with open(os.path.join(ind, name), "w", newline="") as f:
                f.write(body if name == "a.cfg" else "hostname ok\npassword foo\n")
        with fa.LogCap() as lc:
            anonymize_files(ind, outd, True, True, salt=salts[res.seed % len(salts)], sensitive_words=["sea"], as_numbers=["65001"])
        for name, want in (("a.cfg", body.count("\n")), ("b.cfg", 2)):
            p = os.path.join(outd, name)
            got = open(p, newline="").read().count("\n") if os.path.exists(p) else -1
            res.evaluations += 1
            if got != want:
                errs = [m for lv, m in lc.records if lv == "ERROR"]
                fails.append({"kind": "an output file is truncated or missing", "file": name, "lines_expected": want, "lines_written": got,
                              "error_log": errs[:2]})
    finally:
        shutil.rmtree(d, ignore_errors=True)
    return [], fails


# ------------------------------------------------------------------ C15

def compose_scope(res, pid, rng, tier):
    """the multi-feature FileAnonymizer against the public single-feature building blocks applied over the whole
    text in the fixed order secrets, IPv6, IPv4, sensitive words, AS numbers"""
    from netconan.default_reserved_words import default_reserved_words
    from netconan.ip_anonymization import IpAnonymizer, IpV6Anonymizer, anonymize_ip_addr
    from netconan.sensitive_item_removal import (AsNumberAnonymizer, SensitiveWordAnonymizer, anonymize_as_numbers,
                                                   generate_default_sensitive_item_regexes, replace_matching_item)
    fails = []
    rounds = 3 if tier == "thorough" else 1
    for _ in range(rounds):
        for r in range(16):
            subset = [bool((r >> k) & 1) for k in range(4)]
            for undo in ([False, True] if subset[1] else [False]):
                base = rand_feature_cfg(rng, subset)
                base.undo = undo
                if undo:
                    base.ip = False
                if subset[1] and r % 5 < 4 and not undo:
                    # host-bit counts at and around the IPv4 width: the IPv6 stage has its own width
                    base.b4, base.b6 = [(32, 32), (32, 64), (31, 32), (8, 128)][r % 5]
                if base.words is not None and r % 2:
                    # words that also occur in what earlier stages write (place holders, hex digits)
                    base.words = list(base.words) + ["net", "move", "conan"]
                if base.words is not None:
                    # words that are pieces of address text (hextets): the address stages come first whether or not secrets are on
                    base.words = list(base.words) + ["cafe", "beef"]
                if base.asn is not None and base.words is not None and r % 4 == 3:
                    base.words = list(base.words) + [base.asn[0]]          # the same token as sensitive word and as AS number
                text = "".join(mixed_text(rng, base, 30))
                # a scrubbed line that keeps other sensitive items in front, addresses with dotted tails, and words/AS numbers produced by earlier stages
                text += "peer 20.1.2.3 2001:db8::1 as 65001 site sea-hq key-string 7 0822455D0A16\n"
                text += " neighbor ::ffff:1.2.3.4 remote-as 12\n description seattle 65001 11.22.33.44\n"
                text += " gw 2001:db8::9.8.7.6 via ::11.22.33.44 metric 100\n"
                text += "ipv6 address 2001:db8:cafe:12::1/64\n route fd00:beef::7 via 2001:db8:Cafe::beef\n"
                text += 'description "uplink to Net internet";\n set snmp description "core ethernet";\n'   # a reserved keyword next to enclosing text at the edge of the line
                for rw in (base.reserved or []):
                    text += "snmp-server community %s ro\nusername bob password %s\n" % (rw, rw)
                # secrets that are the words of netconan's own place holders
                text += "username scrub1 password 0 netconan\nsnmp-server community SCRUBBED ro\nusername scrub2 password 0 netconanRemoved\n"
                try:
                    multi = anon_text(base, text)
                except Exception as e:  # noqa
                    fails.append({"kind": "multi-feature run raised", "cfg": base.describe(), "exc": repr(e)})
                    continue
                # the option values given as other iterables (generator, tuple, set): same result
                try:
                    from netconan.anonymize_files import FileAnonymizer
                    alt = FileAnonymizer(anon_pwd=base.pwd, anon_ip=base.ip, salt=base.salt,
                                         sensitive_words=None if base.words is None else (w_ for w_ in list(base.words)),
                                         undo_ip_anon=base.undo, as_numbers=None if base.asn is None else tuple(base.asn),
                                         reserved_words=None if base.reserved is None else tuple(base.reserved),
                                         preserve_prefixes=None if base.prefixes is None else tuple(base.prefixes),
                                         preserve_networks=None if base.nets is None else tuple(base.nets),
                                         preserve_suffix_v4=base.b4, preserve_suffix_v6=base.b6)
                    multi_alt = _run(alt, text)
                except Exception as e:  # noqa
                    multi_alt = "<raised %r>" % (e,)
                if multi_alt != multi:
                    la, lb = multi.split("\n"), multi_alt.split("\n")
                    k = next((i for i, (x, y) in enumerate(zip(la, lb)) if x != y), 0)
                    fails.append({"kind": "option values given as generator / tuples instead of lists change the result", "cfg": base.describe(),
                                  "input_line": text.split("\n")[k] if k < text.count("\n") else None, "lists": la[k][:200], "other_iterables": lb[min(k, len(lb) - 1)][:200]})
                lines = io.StringIO(text).readlines()
                reserved = set(default_reserved_words) | set(base.reserved or [])
                try:
                    if base.pwd:
                        rx, lk = generate_default_sensitive_item_regexes(), {}
                        lines = [replace_matching_item(rx, l, lk, base.salt, reserved) for l in lines]
                    if base.ip or undo:
                        a4 = IpAnonymizer(base.salt, None if base.prefixes is None else list(base.prefixes),
                                          None if base.nets is None else list(base.nets), preserve_suffix=base.b4)
                        a6 = IpV6Anonymizer(base.salt, preserve_suffix=base.b6)
                        lines = [anonymize_ip_addr(a6, l, undo) for l in lines]
                        lines = [anonymize_ip_addr(a4, l, undo) for l in lines]
                    if base.words is not None:
                        w = SensitiveWordAnonymizer(list(base.words), base.salt, reserved)
                        lines = [w.anonymize(l) for l in lines]
                    if base.asn is not None:
                        an = AsNumberAnonymizer(list(base.asn), base.salt)
                        lines = [anonymize_as_numbers(an, l) for l in lines]
                except Exception as e:  # noqa
                    fails.append({"kind": "single-feature building block raised", "cfg": base.describe(), "exc": repr(e)})
                    continue
                cur = "".join(lines)
                res.evaluations += text.count("\n")
                for ln_ in text.split("\n"):
                    res.nt(("subset", r, undo, ln_[:16]))
                res.sample({"features": base.describe(), "first_lines": text.split("\n")[:3], "together": multi.split("\n")[:3]}, limit=3)
                if cur != multi:
                    la, lb = multi.split("\n"), cur.split("\n")
                    k = next((i for i, (x, y) in enumerate(zip(la, lb)) if x != y), 0)
                    fails.append({"kind": "several features together differ from the features applied one after another",
                                  "cfg": base.describe(), "input_line": text.split("\n")[k], "together": la[k], "one_after_another": lb[k]})
    # command line: several options together = the options one after another (-p then -a / -u, ...)
    from .ip_checks import run_cli
    text = ("hostname r1\npassword foo   bar\nsnmp-server community s3cretXY ro\nip address 11.22.33.44 255.255.255.0\n neighbor 2001:db8::1 remote-as 65001\n"
            "router bgp 65001\n neighbor AS65001-UPLINK acme peer-as 64999\n")
    for flags in (["-p", "-a"], ["-p", "-u"], ["-a", "-w", "sea"], ["-p", "-n", "65001"], ["-u", "-n", "65001", "-w", "hostname"],
                  ["-w", "acme,65001", "-n", "65001,64999"], ["-p", "-w", "net,move", "-n", "64999"]):
        st, o, _ = run_cli(["-s", "cs"] + flags, {"a.cfg": text})
        cur = text
        ok_ = st == "ok"
        steps = []
        for fl in (["-p"], ["-a"], ["-u"], ["-w"], ["-n"]):
            if fl[0] in flags:
                arg = fl + ([flags[flags.index(fl[0]) + 1]] if fl[0] in ("-w", "-n") else [])
                st2, o2, _ = run_cli(["-s", "cs"] + arg, {"a.cfg": cur})
                ok_ = ok_ and st2 == "ok"
                cur = o2.get("a.cfg", "")
                steps.append(arg)
        res.evaluations += 1
        res.nt(("cli-compose", tuple(flags)))
        if not ok_ or o.get("a.cfg") != cur:
            fails.append({"kind": "command line: several options together differ from the same options one after another",
                          "argv": flags, "together": o.get("a.cfg"), "one_after_another": cur, "steps": steps})
    # composition through the file entry point: all features at once = one feature after another, each run reading the files the previous
    # one wrote - also for a line longer than 65536 characters and for a file with a stray NUL a little past 1 KiB
    import tempfile as _tf5
    import shutil as _sh5
    from netconan.anonymize_files import anonymize_files as _af5
    d5 = _tf5.mkdtemp(prefix="ncverif_")
    try:
        table = "".join("! %-30s %-30s %s\n" % ("col%d" % i_, "value   %d" % i_, "x" * 12) for i_ in range(14))
        files5 = {"long.cfg": "password hunter2 " + "x" * 65503 + " 11.22.33.44 end\nrouter bgp 65001\n",
                  "nul.cfg": table + "! padding" + " " * (1030 - len(table) - 9) + "\x00\nusername bob password 0 hunter2abc\nrouter bgp 65001\n neighbor 11.22.33.44 remote-as 65001\n",
                  "plain.cfg": "hostname acme-gw\nusername bob password 0 hunter2abc\n neighbor 11.22.33.45 remote-as 65001\n",
                  # a file with many distinct addresses (the address tables grow past 2^16 entries), and a file in a sub directory (walked after
                  # the files of the top directory) with secrets: the numbering of the secret place holders runs on across the files
                  "many.cfg": "username m password 0 manySecretA1\n" + "".join(" ipv6 address 2001:db8:%x:%x::%x/64\n" % (7 * i_ + 1, 13 * i_ + 5, i_ + 1) for i_ in range(900)),
                  "z/late.cfg": "username l password 0 lateSecretB2\nusername m password 0 manySecretA1\nusername k password 0 hunter2abc\n"}
        os.makedirs(os.path.join(d5, "in"))
        for nm_, tx_ in files5.items():
            os.makedirs(os.path.dirname(os.path.join(d5, "in", nm_)), exist_ok=True)
            open(os.path.join(d5, "in", nm_), "w", newline="").write(tx_)
        kw_all = dict(salt="cmpf", sensitive_words=["acme"], as_numbers=["65001"])
        with fa.LogCap():
            _af5(os.path.join(d5, "in"), os.path.join(d5, "all"), True, True, **kw_all)
            _af5(os.path.join(d5, "in"), os.path.join(d5, "s1"), True, False, salt="cmpf")
            _af5(os.path.join(d5, "s1"), os.path.join(d5, "s2"), False, True, salt="cmpf")
            _af5(os.path.join(d5, "s2"), os.path.join(d5, "s3"), False, False, salt="cmpf", sensitive_words=["acme"])
            _af5(os.path.join(d5, "s3"), os.path.join(d5, "s4"), False, False, salt="cmpf", as_numbers=["65001"])
        for nm_ in files5:
            res.evaluations += 1
            a_ = open(os.path.join(d5, "all", nm_), newline="").read() if os.path.exists(os.path.join(d5, "all", nm_)) else None
            b_ = open(os.path.join(d5, "s4", nm_), newline="").read() if os.path.exists(os.path.join(d5, "s4", nm_)) else None
            if a_ != b_:
                k_ = next((i_ for i_, (x_, y_) in enumerate(zip(a_ or "", b_ or "")) if x_ != y_), 0)
                fails.append({"kind": "the multi-feature run differs from the single-feature steps applied one after another (directory runs, each reading what the previous wrote)",
                              "file": nm_, "file_length": len(files5[nm_]), "first_difference_at": k_, "combined": (a_ or "<none>")[max(0, k_ - 40):k_ + 40],
                              "chained": (b_ or "<none>")[max(0, k_ - 40):k_ + 40]})
    except Exception as e:  # noqa
        fails.append({"kind": "anonymize_io raised", "detail": "file-level composition", "exc": repr(e)[:200]})
    finally:
        _sh5.rmtree(d5, ignore_errors=True)
    # the same token as sensitive word and as AS number, every step in an interpreter process of its own (as separate command-line
    # runs are): nothing a step computed is visible to another step except through the text
    tk = rng.choice(["65000", "64999", "4200000001"])
    t_ = "router bgp %s\n description acme peer %s as%s-x\n neighbor 10.0.0.1 remote-as 64998\n" % (tk, tk, tk)
    kw_w = dict(anon_pwd=False, anon_ip=False, salt="cmp", sensitive_words=["acme", tk])
    kw_a = dict(anon_pwd=False, anon_ip=False, salt="cmp", as_numbers=[tk, "64998"])
    kw_b = dict(kw_w, as_numbers=[tk, "64998"])
    both, e0 = run_in_process([{"kwargs": kw_b, "text": t_, "before": []}], 0)
    st1, e1 = run_in_process([{"kwargs": kw_w, "text": t_, "before": []}], 0)
    st2, e2 = run_in_process([{"kwargs": kw_a, "text": st1[0], "before": []}], 0) if st1 else (None, e1)
    res.evaluations += 3
    if both is None or st2 is None:
        fails.append({"kind": "anonymize_io raised", "detail": "fresh-process composition run failed", "exc": str(e0 or e1 or e2)[:300]})
    elif both[0] != st2[0]:
        fails.append({"kind": "the multi-feature run differs from the single-feature steps applied one after another (each step in a process of its own)",
                      "sensitive_words": ["acme", tk], "as_numbers": [tk, "64998"], "salt": "cmp", "text": t_, "combined": both[0], "chained": st2[0]})
    # secrets and words, every step in a process of its own; the secrets are the words of netconan's own place holders
    t2_ = "username scrub1 password 0 netconan\nsnmp-server community SCRUBBED ro\nhostname acme-gw\nusername bob password 0 Removed\n"
    kw_p = dict(anon_pwd=True, anon_ip=False, salt="cmp")
    kw_pw = dict(anon_pwd=True, anon_ip=False, salt="cmp", sensitive_words=["acme"])
    kw_w2 = dict(anon_pwd=False, anon_ip=False, salt="cmp", sensitive_words=["acme"])
    both, e0 = run_in_process([{"kwargs": kw_pw, "text": t2_, "before": []}], 0)
    st1, e1 = run_in_process([{"kwargs": kw_p, "text": t2_, "before": []}], 0)
    st2, e2 = run_in_process([{"kwargs": kw_w2, "text": st1[0], "before": []}], 0) if st1 else (None, e1)
    res.evaluations += 3
    if both is None or st2 is None:
        fails.append({"kind": "anonymize_io raised", "detail": "fresh-process composition run failed", "exc": str(e0 or e1 or e2)[:300]})
    elif both[0] != st2[0]:
        fails.append({"kind": "the multi-feature run differs from the single-feature steps applied one after another (each step in a process of its own)",
                      "features": "passwords and sensitive words", "sensitive_words": ["acme"], "salt": "cmp", "text": t2_, "combined": both[0], "chained": st2[0]})
    return [], fails


def _run(fa_obj, text):
    o = io.StringIO()
    fa_obj.anonymize_io(io.StringIO(text), o)
    return o.getvalue()


# ------------------------------------------------------------------ C13

def determinism_scope(res, pid, rng, tier):
    """repeated runs in one process; identical anonymizers before/after unrelated ones; no-salt reproduction"""
    from netconan.anonymize_files import FileAnonymizer
    fails = []
    for r in range(12 if tier == "thorough" else 5):
        cfg = rand_feature_cfg(rng, [True, True, True, True])
        text = "".join(mixed_text(rng, cfg, 40)) + "username noc secret sha512 %s\n" % L.gen_secret(rng, "sha512")
        text += "username admin secret 5 $1$abcdefghijkl$0rN7R8PKwC30AsCGA77vy.\nenable secret 5 $1$%s$%s\n" % (
            "".join(rng.choice(L.B64) for _ in range(rng.randint(9, 16))), "".join(rng.choice(L.B64) for _ in range(22)))
        a = anon_text(cfg, text)
        # unrelated anonymizers in between
        fa.FaCfg(salt="zz", pwd=True, ip=True, words=["router", "ip"], reserved=[w.upper() for w in (cfg.words or [])] + ["sea", "password"],
                 nets=["20.0.0.0/8"], asn=["1"]).build()
        prefixes = ["10.0.0.0/8"]
        fa.FaCfg(salt="zz", ip=True, prefixes=prefixes, nets=["44.0.0.0/8"]).build()
        b = anon_text(cfg, text)
        res.evaluations += 2
        res.nt(("det", r))
        for ln_ in text.split("\n"):
            res.nt(("detline", ln_[:16]))
        res.sample({"features": cfg.describe(), "input_first_lines": text.split("\n")[:2], "output_first_lines": a.split("\n")[:2]}, limit=2)
        if prefixes != ["10.0.0.0/8"]:
            fails.append({"kind": "the caller's preserve_prefixes list was modified", "list_now": prefixes})
        if a != b:
            la, lb = a.split("\n"), b.split("\n")
            k = next((i for i, (x, y) in enumerate(zip(la, lb)) if x != y), 0)
            fails.append({"kind": "same salt, options and input gave different output in one process (other anonymizers constructed in between)",
                          "cfg": cfg.describe(), "input_line": text.split("\n")[k], "first": la[k], "second": lb[k]})
    # no salt: the generated salt is reported and reproduces the output
    from .jun_checks import ref_encrypt
    for _rep in range(3):          # (three generated salts: a defect that depends on the salt's first character is not missed by chance)
        with fa.LogCap() as lc:
            obj = FileAnonymizer(anon_pwd=True, anon_ip=True, sensitive_words=["sea"], as_numbers=["65001"])
        text = ("ip address 11.22.33.44 255.255.255.0\nhostname sea1\n" + "".join(render(h) for h in gen_history(rng, 12))
                + 'set system login user admin authentication encrypted-password "%s"\n secret "%s"\n' % (L.gen_secret(rng, "md5"), ref_encrypt("reproduceMe", "Q"))
                + "router bgp 65001\n neighbor 2001:db8::1 remote-as 65001\n")
        o1 = _run(obj, text)
        m = [re.search(r'"([^"]*)"', msg) for lv, msg in lc.records if lv == "WARNING" and "salt" in msg.lower()]
        res.evaluations += 1
        if not m or not m[0]:
            fails.append({"kind": "no salt supplied: the generated salt is not reported at WARNING level", "records": lc.records})
        else:
            o2 = _run(FileAnonymizer(anon_pwd=True, anon_ip=True, sensitive_words=["sea"], as_numbers=["65001"], salt=m[0].group(1)), text)
            if o1 != o2:
                la, lb = o1.split("\n"), o2.split("\n")
                k = next((i for i, (x, y) in enumerate(zip(la, lb)) if x != y), 0)
                fails.append({"kind": "re-running with the reported salt does not reproduce the output", "reported_salt": m[0].group(1),
                              "input_line": text.split("\n")[k], "first_run": la[k], "rerun": lb[k]})
    # the same option objects handed to several anonymizers (library use): later ones behave like a fresh process' would
    shared_p, shared_n, shared_w, shared_r = ["10.0.0.0/8", "128.0.0.0/2"], ["44.1.0.0/16"], ["sea", "lax"], ["Seattle"]
    ftext = "ip address 44.1.2.3\nip address 44.9.2.3\nip address 130.5.6.7\nip address 10.200.1.1\nhostname sea-lax Seattle\n"
    ref = _run(FileAnonymizer(anon_pwd=False, anon_ip=True, salt="shr", preserve_prefixes=list(shared_p), sensitive_words=list(shared_w),
                              reserved_words=list(shared_r)), ftext)
    FileAnonymizer(anon_pwd=False, anon_ip=True, salt="shr", preserve_prefixes=shared_p, preserve_networks=shared_n, sensitive_words=shared_w,
                   reserved_words=shared_r)
    got = _run(FileAnonymizer(anon_pwd=False, anon_ip=True, salt="shr", preserve_prefixes=shared_p, sensitive_words=shared_w, reserved_words=shared_r), ftext)
    res.evaluations += 2
    if got != ref:
        fails.append({"kind": "same salt, options and input gave different output after another anonymizer received the same option list objects",
                      "input": ftext, "fresh": ref, "after": got, "lists_now": [shared_p, shared_n, shared_w, shared_r]})
    # output path that already holds a longer file from an earlier run: the bytes are those of a run into a fresh location
    import tempfile
    import shutil
    from netconan.anonymize_files import anonymize_files
    d = tempfile.mkdtemp(prefix="ncverif_")
    try:
        os.makedirs(os.path.join(d, "in"))
        open(os.path.join(d, "in", "a.cfg"), "w").write(text)
        for sub in ("out1", "out2"):
            os.makedirs(os.path.join(d, sub))
        open(os.path.join(d, "out1", "a.cfg"), "w").write(text * 3 + "left over from an earlier, longer run\n")
        open(os.path.join(d, "map1.txt"), "w").write("1.1.1.1\t2.2.2.2\n" * 400)
        with fa.LogCap():
            anonymize_files(os.path.join(d, "in"), os.path.join(d, "out1"), True, True, salt="twice", dumpfile=os.path.join(d, "map1.txt"))
            anonymize_files(os.path.join(d, "in"), os.path.join(d, "out2"), True, True, salt="twice", dumpfile=os.path.join(d, "map2.txt"))
        res.evaluations += 2
        for a_, b_, what in ((os.path.join(d, "out1", "a.cfg"), os.path.join(d, "out2", "a.cfg"), "output file"),
                             (os.path.join(d, "map1.txt"), os.path.join(d, "map2.txt"), "map file")):
            x, y = open(a_, "rb").read(), open(b_, "rb").read()
            if x != y:
                fails.append({"kind": "an %s that existed before the run (longer) does not end up with the bytes of a run into a fresh location" % what,
                              "bytes_existing_path": len(x), "bytes_fresh_path": len(y), "tail_existing_path": x[-80:].decode("utf-8", "replace")})
    finally:
        shutil.rmtree(d, ignore_errors=True)
    # command line: an explicit salt is used whatever the feature subset (also with only -n and / or -p)
    from .ip_checks import run_cli
    from .jun_checks import ref_encrypt as _re9
    ctext = 'router bgp 65001\n neighbor 10.0.0.1 remote-as 64999\nsecret "%s"\nusername x password foo%d\n' % (_re9("cliPlain", "Q"), rng.randint(0, 999))
    for flags in (["-n", "65001,64999"], ["-p"], ["-p", "-n", "65001"]):
        runs = [run_cli(["-s", "Tsalt"] + flags, {"a.cfg": ctext}) for _ in range(2)]
        res.evaluations += 2
        api = _run(FileAnonymizer(anon_pwd="-p" in flags, anon_ip=False, salt="Tsalt", as_numbers=["65001", "64999"] if flags[-1] == "65001,64999"
                                  else (["65001"] if "-n" in flags else None)), ctext)
        outs_ = [r_[1].get("a.cfg") for r_ in runs]
        if outs_[0] != outs_[1] or outs_[0] != api:
            fails.append({"kind": "command line with an explicit salt: two runs differ, or differ from the library run with that salt",
                          "argv": ["-s", "Tsalt"] + flags, "run1": outs_[0], "run2": outs_[1], "library": api})
    # an explicit empty salt is a salt
    e1 = _run(FileAnonymizer(anon_pwd=False, anon_ip=True, salt=""), text)
    e2 = _run(FileAnonymizer(anon_pwd=False, anon_ip=True, salt=""), text)
    if e1 != e2:
        fails.append({"kind": "salt '' gave different output on two runs", "first": e1, "second": e2})
    # two directory runs in one process with the same salt and options: the second run's output is what a fresh anonymizer gives for its
    # input (same bytes as in a process that never saw the first run)
    import tempfile as _tf3
    import shutil as _sh3
    from netconan.anonymize_files import anonymize_files as _af3
    d3 = _tf3.mkdtemp(prefix="ncverif_")
    try:
        tA = "username x password 0 SiteAsecretQ7\nusername y password 0 otherAkey77\nip address 11.22.33.44 255.255.255.0\n"
        tB = "username z password 0 freshBsecret9\nusername x password 0 SiteAsecretQ7\nntp server 11.22.33.45\n"
        for site, body in (("A", tA), ("B", tB)):
            os.makedirs(os.path.join(d3, site, "in"))
            open(os.path.join(d3, site, "in", "r.cfg"), "w").write(body)
        with fa.LogCap():
            for site in ("A", "B"):
                _af3(os.path.join(d3, site, "in"), os.path.join(d3, site, "out"), True, True, salt="sameSalt", dumpfile=os.path.join(d3, site, "map.txt"))
        gotB = open(os.path.join(d3, "B", "out", "r.cfg")).read()
        mapB = sorted(open(os.path.join(d3, "B", "map.txt")).read().split("\n"))
        refB = anon_text(fa.FaCfg(salt="sameSalt", pwd=True, ip=True), tB)
        res.evaluations += 2
        if gotB != refB or any("11.22.33.44\t" in l_ for l_ in mapB):
            fails.append({"kind": "the output of a run depends on an earlier run in the same process (same salt and options)", "first_run_input": tA,
                          "second_run_input": tB, "second_run_output": gotB, "output_of_a_fresh_anonymizer": refB,
                          "second_run_map_lists_an_address_of_the_first_run": any("11.22.33.44\t" in l_ for l_ in mapB)})
    except Exception as e:  # noqa
        fails.append({"kind": "anonymize_io raised", "detail": "two directory runs in one process", "exc": repr(e)[:200]})
    finally:
        _sh3.rmtree(d3, ignore_errors=True)
    return [], fails
