"""Translator: CPython's own parse trees (re._parser.parse) of netconan's compiled patterns -> terms of the Lean
`Re` type, with every character set resolved to explicit code-point ranges by asking CPython which code points
the set matches under the pattern's flags.  Anything outside the supported operator set fails loudly."""
import json
import os
import re
import subprocess
import sys
import re._parser as P
import re._constants as C

from .common import LEAN, REPO

ALL = "".join(chr(i) for i in range(0x110000))
_cache = {}


def ranges_of(pattern_src, flags):
    """code-point ranges matched by a one-character pattern, computed by CPython itself"""
    key = (pattern_src, flags)
    if key in _cache:
        return _cache[key]
    pat = re.compile(pattern_src, flags | re.DOTALL if pattern_src != "." else flags)
    pts = [m.start() for m in pat.finditer(ALL)]
    out = []
    for p in pts:
        if out and out[-1][1] == p - 1:
            out[-1][1] = p
        else:
            out.append([p, p])
    _cache[key] = [tuple(r) for r in out]
    return _cache[key]


def esc(c):
    return "\\U%08x" % c


def set_src(av):
    s = "["
    for o, a in av:
        if o is C.NEGATE:
            s += "^"
        elif o is C.LITERAL:
            s += esc(a)
        elif o is C.RANGE:
            s += esc(a[0]) + "-" + esc(a[1])
        elif o is C.CATEGORY:
            s += {C.CATEGORY_DIGIT: r"\d", C.CATEGORY_NOT_DIGIT: r"\D", C.CATEGORY_SPACE: r"\s", C.CATEGORY_NOT_SPACE: r"\S",
                  C.CATEGORY_WORD: r"\w", C.CATEGORY_NOT_WORD: r"\W"}[a]
        else:
            raise ValueError("unsupported set item %r" % ((o, a),))
    return s + "]"


class Tr:
    def __init__(self):
        self.sets = {}      # ranges tuple -> name
        self.order = []

    def cs(self, rs):
        rs = tuple(rs)
        if rs not in self.sets:
            self.sets[rs] = "cs%d" % len(self.sets)
            self.order.append(rs)
        return self.sets[rs]

    def seq(self, sp, flags):
        items = [self.one(op, av, flags) for op, av in sp]
        if not items:
            return ".eps"
        t = items[-1]
        for it in reversed(items[:-1]):
            t = "(.seq %s %s)" % (it, t)
        return t

    def alt(self, branches, flags):
        items = [self.seq(b, flags) for b in branches]
        t = items[-1]
        for it in reversed(items[:-1]):
            t = "(.alt %s %s)" % (it, t)
        return t

    def one(self, op, av, flags):
        fl = flags & re.IGNORECASE
        if op is C.LITERAL:
            return "(.chr %s)" % self.cs(ranges_of(esc(av), fl))
        if op is C.NOT_LITERAL:
            return "(.chr %s)" % self.cs(ranges_of("[^" + esc(av) + "]", fl))
        if op is C.ANY:
            return "(.chr %s)" % self.cs(ranges_of(".", flags & re.DOTALL))
        if op is C.IN:
            return "(.chr %s)" % self.cs(ranges_of(set_src(av), fl))
        if op is C.BRANCH:
            return self.alt(av[1], flags)
        if op in (C.MAX_REPEAT, C.MIN_REPEAT):
            lo, hi, p = av
            return "(.rep %d %s %s %s)" % (lo, "none" if hi == C.MAXREPEAT else "(some %d)" % hi,
                                          "true" if op is C.MAX_REPEAT else "false", self.seq(p, flags))
        if op is C.SUBPATTERN:
            g, af, df, p = av
            # scoped inline flags `(?i:...)` / `(?-i:...)`: the character sets inside are resolved under the changed flags
            nf = (flags | af) & ~df
            return self.seq(p, nf) if g is None else "(.grp %d %s)" % (g, self.seq(p, nf))
        if op in (C.ASSERT, C.ASSERT_NOT):
            d, p = av
            lo, hi = p.getwidth()
            if d < 0 and lo != hi:
                raise ValueError("variable-width look-behind")
            return "(.look %s %s %d %s)" % ("true" if d > 0 else "false", "true" if op is C.ASSERT_NOT else "false",
                                           lo if d < 0 else 0, self.seq(p, flags))
        if op is C.AT:
            if av is C.AT_BEGINNING:
                return ".bol"
            if av is C.AT_END:
                return ".eol"
        raise ValueError("unsupported regex operator %r %r" % (op, av))

    def pattern(self, compiled):
        if compiled.flags & ~(re.IGNORECASE | re.UNICODE):
            raise ValueError("unsupported flags %r" % compiled.flags)
        return self.seq(P.parse(compiled.pattern, compiled.flags), compiled.flags)


def lean_str(s):
    def e(c):
        if c == "\\":
            return "\\\\"
        if c == '"':
            return '\\"'
        if 32 <= ord(c) < 127:
            return c
        return "\\u%04x" % ord(c) if ord(c) < 0x10000 else c
    return '"' + "".join(e(c) for c in s) + '"'


def render(namespace, live):
    """live: dict with compiled patterns taken from the imported netconan"""
    tr = Tr()
    body = []
    body.append("def ipv4 : Re := " + tr.pattern(live["ipv4"]))
    body.append("def ipv6 : Re := " + tr.pattern(live["ipv6"]))
    body.append("def dropZeros : Re := " + tr.pattern(live["drop_zeros"]))
    groups = []
    texts = []
    for grp in live["secret"]:
        items = []
        tx = []
        for cre, num in grp:
            pidx = cre.groupindex.get("prefix")
            items.append("(%s, %s, %s)" % (tr.pattern(cre), "none" if num is None else "some %d" % num,
                                           "none" if pidx is None else "some %d" % pidx))
            tx.append(lean_str(cre.pattern))
        groups.append("[" + ",\n    ".join(items) + "]")
        texts.append("[" + ", ".join(tx) + "]")
    body.append("/-- groups of (pattern, sensitive group index, index of the named group `prefix`) -/")
    body.append("def secretGroups : List (List (Re × Option Nat × Option Nat)) := [\n  " + ",\n  ".join(groups) + "]")
    body.append("def secretTexts : List (List String) := [\n  " + ",\n  ".join(texts) + "]")
    body.append("def formatRes : List Re := [" + ", ".join(tr.pattern(c) for c in live["formats"]) + "]")
    # building blocks of the two dynamic patterns
    body.append("def notDigit : List (Nat × Nat) := " + tr.cs(ranges_of(r"\D", 0)))
    body.append("def spaceSet : List (Nat × Nat) := " + tr.cs(ranges_of(r"\s", 0)))
    head = ["import Netconan.Model.Regex",
            "/-! GENERATED by harness/gen_regex.py from /repo's working tree through CPython's re._parser - do not edit. -/",
            "namespace %s" % namespace, "open Netconan.Regex\n"]
    sets = []
    for rs in tr.order:
        sets.append("def %s : List (Nat × Nat) := [%s]" % (tr.sets[rs], ", ".join("(%d, %d)" % r for r in rs)))
    return "\n".join(head + sets + [""] + body + ["", "end %s" % namespace]) + "\n"


def live_patterns():
    if REPO not in sys.path:
        sys.path.insert(0, REPO)
    for k in [k for k in sys.modules if k == "netconan" or k.startswith("netconan.")]:
        del sys.modules[k]
    from netconan import ip_anonymization as I
    from netconan import sensitive_item_removal as S
    # the six format tests of `_check_sensitive_item_format`: pattern literals read from the source text, in source order
    from . import py2lean
    fm = py2lean.format_literals()
    return {"ipv4": I.IPv4_PATTERN, "ipv6": I.IPv6_PATTERN, "drop_zeros": I.IpAnonymizer._DROP_ZEROS_PATTERN,
            "secret": S.generate_default_sensitive_item_regexes(), "formats": [re.compile(x) for x in fm]}


def run(res):
    probs = []
    try:
        text = render("Netconan.Generated.Patterns", live_patterns())
    except Exception as e:  # noqa
        return [("generator", "patterns", "translation of the live patterns failed: %r" % e)]
    from .gen import write_if_changed
    path = os.path.join(LEAN, "Netconan", "Generated", "Patterns.lean")
    changed = write_if_changed(path, text)
    pinned = os.path.join(LEAN, "Netconan", "Pinned", "Patterns.lean")
    if os.path.exists(pinned):
        ptxt = open(pinned).read().replace("Netconan.Pinned.Patterns", "Netconan.Generated.Patterns").replace(
            "PINNED snapshot (tools/pin.py) of what harness/gen_regex.py produced", "GENERATED by harness/gen_regex.py")
        if hasattr(res, "validation"):
            res.validation["patterns_equal_pinned_snapshot"] = (ptxt == text)
    if hasattr(res, "notes") and changed:
        res.notes.append("Generated/Patterns.lean changed")
    return probs


if __name__ == "__main__":
    class R:
        notes = []
        validation = {}
    print(run(R()), R.validation)
