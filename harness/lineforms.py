"""The recognised secret-bearing line forms (committed table, written once from netconan's pattern tables and
unit-test corpus at the pinned commit) and generators of secret values per format class.

Each form: (template, classes).  `{}` is the slot of the secret; `classes` lists the format classes the slot takes
on real devices *and* for which the form is unambiguous (see DESIGN.md C07: digit-only secrets followed by another
word, AWS 32-character slots, hash-only catch-alls, numeric communities are excluded here on purpose)."""
import random

ALL = ("text", "hex", "type7", "md5", "sha512", "jun9")
ALLN = ALL + ("numeric", "text32")
TXT = ("text",)
NONNUM = ALL
FORMS = [
    ("snmp-server community 0 {} RO 10", ("text",)),
    ("snmp-server vrf MGMT community 0 {} RW", ("text",)),
    ("# previous value was {} before the change", ("jun9", "md5")),
    ("description old key {} rotated", ("jun9", "md5")),
    # --- Cisco / Arista
    (" password 7 {}", ("type7",)),
    ("username Someone password 0 {}", TXT + ("hex",)),
    ("username Someone password {}", TXT),
    ("username Someone password 7 {}", ("type7",)),
    ("enable password level 12 {}", TXT),
    ("enable password 7 {}", ("type7",)),
    ("enable password level 3 5 {}", ("md5",)),
    ("enable secret 5 {}", ("md5",)),
    ("username Someone view Someview password 7 {}", ("type7",)),
    ("username Someone secret 5 {}", ("md5",)),
    ("username Someone secret {}", TXT),
    ("username noc secret sha512 {}", ("sha512",)),
    ("ip ftp password {}", TXT),
    ("ip ftp password 0 {}", TXT),
    ("ip ftp password 7 {}", ("type7",)),
    (" ip ospf authentication-key {}", TXT),
    (" ip ospf authentication-key 0 {}", TXT),
    (" ip ospf message-digest-key 1 md5 {}", TXT),
    (" ip ospf message-digest-key 1 md5 3 {}", TXT),
    ("ip ospf message-digest-key 124 md5 7 {}", ("type7",)),
    ("isis password {}", TXT),
    ("isis password {} level-2", TXT),
    ("domain-password {}", TXT),
    ("domain-password {} authenticate snp validate", TXT),
    ("area-password {} authenticate snp send-only", TXT),
    ("standby authentication {}", TXT),
    ("standby 10 authentication {}", TXT),
    ("standby authentication md5 key-string {} timeout 123", TXT),
    ("standby authentication md5 key-string 7 {}", ("type7", "text")),
    ("standby authentication text {}", TXT),
    ("   vrrp 2 authentication text {}", TXT),
    ("l2tp tunnel password 0 {}", TXT),
    ("l2tp tunnel password {}", TXT),
    ("digest secret {} hash MD5", TXT),
    ("digest secret 0 {}", TXT),
    ("ppp chap password {}", TXT),
    ("ppp chap password 0 {}", TXT),
    ("ppp chap hostname {}", TXT),
    ("pre-shared-key {}", TXT),
    ("pre-shared-key 0 {}", TXT),
    ("pre-shared-key local 0 {}", TXT),
    ("pre-shared-key remote hex {}", ("hex",)),
    ("pre-shared-key remote 6 {}", TXT),
    ("pre-shared-key address 10.0.0.1 key {}", TXT),
    ("pre-shared-key address ipv6 ::1/128 key 6 {}", TXT),
    ("pre-shared-key hostname example.com key 6 {}", TXT),
    ("ikev2 local-authentication pre-shared-key {}", TXT),
    ("tacacs-server host 1.1.1.1 key {}", TXT),
    ("radius-server host 1.1.1.1 key 0 {}", TXT),
    ("tacacs-server key 7 {}", ("type7",)),
    (" key 0 {}", TXT),
    ("key hexadecimal {}", ("hex",)),
    ("ntp authentication-key 4294967295 md5 {}", TXT),
    ("ntp authentication-key 123 md5 {} 1", TXT),
    ("syscon address 1.1.1.1 {}", TXT),
    ("syscon password {}", TXT),
    ("snmp-server user Someone Somegroup remote Crap v3 auth md5 {}", TXT),
    ("snmp-server user Someone Somegroup v3 encrypted auth sha {}", TXT + ("hex",)),
    ("crypto isakmp key {} address 1.1.1.1 255.255.255.0", TXT),
    ("crypto isakmp key 6 {} hostname Something", TXT),
    ("set session-key inbound ah 4294967295 {}", ("hex",)),
    ("set session-key outbound esp 256 authenticator {}", ("hex",)),
    ("key-hash sha256 {}", TXT + ("hex",)),
    ("  authentication text {}", TXT),
    ("snmp-server community {} ro 1", TXT),
    ("snmp-server community {} Something", TXT),
    ("snmp-server community {} RW 2", TXT),
    ("snmp-server host 1.1.1.1 vrf Something informs {} config", TXT),
    ("snmp-server host 1.1.1.1 informs version 1 {} ipsec", TXT),
    ("snmp-server host 1.1.1.1 traps version 2c {}", TXT),
    ("snmp-server host 1.1.1.1 informs version 3 auth {} ipsec", TXT),
    ("snmp-server host 1.1.1.1 {} vrrp", TXT),
    ("snmp-server mib community-map {}:100 context public1", TXT),
    ("rf-switch snmp-community {}", TXT),
    ("route-map RM permit 10 set community {}", TXT),
    # --- Fortinet
    ("set password ENC {}", TXT),
    ("set password {}", TXT),
    ("set pksecret ENC {}", TXT),
    ("set pksecret {}", TXT),
    # --- Juniper
    ('secret "{}"', ("jun9",)),
    ('set interfaces irb unit 5 family inet address 1.2.3.0/24 vrrp-group 5 authentication-key "{}"', ("jun9",)),
    ('set system tacplus-server 1.2.3.4 secret "{}"', ("jun9",)),
    ('set security ike policy test-ike-policy pre-shared-key ascii-text "{}"', ("jun9",)),
    ('set system login user someone authenitcation "{}"', ("md5", "jun9")),
    ('set system license keys key "{}"', TXT),
    ("set snmp community {} authorization read-only", TXT),
    ("set snmp trap-group {} otherstuff", TXT),
    ('authentication-key "{}";', ("jun9", "text")),
    ('    hello-authentication-key "{}";', ("jun9", "text")),
    # --- AWS VPN configuration (the slot takes exactly 32 characters)
    ("      <pre_shared_key>{}</pre_shared_key>", ("text32",)),
    ('                "PreSharedKey": "{}",', ("text32",)),
    # --- all-digit secrets, on forms where the slot ends the line and no optional number precedes it
    ("set password {}", ("numeric",)),
    ("isis password {}", ("numeric",)),
    ("ip ftp password {}", ("numeric",)),
    ("domain-password {}", ("numeric",)),
    ("ppp chap hostname {}", ("numeric",)),
    ("rf-switch snmp-community {}", ("numeric",)),
    ("set pksecret {}", ("numeric",)),
    # --- standalone hash-shaped tokens, whatever keywords surround them
    ("some unknown keyword {} trailing words", ("md5", "jun9")),
    ("{}", ("md5", "jun9")),
    ('weird "{}";', ("md5", "jun9")),
]

# whole-line scrub forms (pattern index None): the remainder of the line is removed
SCRUB_FORMS = [
    "cable shared-secret {}",
    "wpa-psk ascii {}",
    "ldap-login-password {}",
    "ikev1 pre-shared-key ascii-text {}",
    "failover key hexadecimal {}",
    "vpdn username bob password {}",
    " key-string 7 {}",
    "neighbor 1.2.3.4 password {}",
    "wlccp ap username bob password 7 {}",
    "routing-options md5 5 key {}",
    "protocols simple-password {}",
    'user ssh-rsa "{}"',
    'set system root-authentication encrypted-password "{}"',
    'set system login user admin authentication encrypted-password "{}"',
]

# forms the code means to handle but on which an earlier pattern captures a *reserved word* as if it were the secret, so that
# nothing is replaced (known finding C07-reserved-word-captured)
RESERVED_CAPTURE_FORMS = ["ip ospf message-digest-key 3 md5 encrypted {}", "enable secret level 15 5 {}"]

AWS_FORMS = ["      <pre_shared_key>{}</pre_shared_key>", '                "PreSharedKey": "{}",']

B64 = "./0123456789ABCDEFGHIJKLMNOPQRSTUVWXYZabcdefghijklmnopqrstuvwxyz"
TEXT_ALPHA = "ghijklmnopqrstuvwxyzGHIJKLMNOPQRSTUVWXYZ0123456789_-+=!@#%^&*./<>?~|"


def is_reserved(w):
    from netconan.default_reserved_words import default_reserved_words
    return w in default_reserved_words


def gen_secret(rng, cls, md5_salt_len=None, plain=None):
    if cls == "text":
        while True:
            n = rng.randint(4, 14)
            s = rng.choice("ghijklmnopqrstuvwxyzGHIJKLMNOPQRSTUVWXYZ") + "".join(rng.choice(TEXT_ALPHA) for _ in range(n - 1))
            if not is_reserved(s) and not s.lower().startswith("netconanremoved") and s[-1] not in ":.":
                return s
    if cls == "text32":
        return rng.choice("ghijklmnopqrstuvwxyz") + "".join(rng.choice(B64[2:]) for _ in range(31))
    if cls == "numeric":
        return str(rng.randint(10, 10 ** rng.randint(2, 12)))
    if cls == "hex":
        while True:
            s = "".join(rng.choice("0123456789abcdefABCDEF") for _ in range(rng.randint(5, 24)))
            import re
            if re.search("[a-fA-F]", s) and not re.match(r"^[01][0-9]([0-9a-fA-F]{2})+$", s):
                return s
    if cls == "type7":
        from passlib.hash import cisco_type7
        while True:
            p = plain or "".join(rng.choice(TEXT_ALPHA) for _ in range(rng.randint(1, 12)))
            s = cisco_type7.using(salt=rng.randint(0, 15)).hash(p)
            if not s.isdigit():
                return s
    if cls == "md5":
        n = md5_salt_len or rng.randint(1, 8)
        return "$1$" + "".join(rng.choice(B64) for _ in range(n)) + "$" + "".join(rng.choice(B64) for _ in range(22))
    if cls == "sha512":
        body = "".join(rng.choice(B64) for _ in range(16)) + "$" + "".join(rng.choice(B64) for _ in range(86))
        return "$6$" + ("rounds=656000$" if rng.random() < 0.2 else "") + body
    if cls == "jun9":
        from .jun_checks import ref_encrypt, ALPHA
        p = plain or "".join(rng.choice(TEXT_ALPHA + "abcdef") for _ in range(rng.randint(1, 14)))
        return ref_encrypt(p, rng.choice(ALPHA))
    raise ValueError(cls)
