"""Seeded generators of IP anonymizer configurations, addresses and request histories."""
import ipaddress
import random

# The documented defaults (property C04): class prefixes A-D(E) and the RFC 1918 blocks.
SPEC_DEFAULT_PREFIXES = ["0.0.0.0/1", "128.0.0.0/2", "192.0.0.0/3", "224.0.0.0/4",
                         "10.0.0.0/8", "172.16.0.0/12", "192.168.0.0/16"]
SPEC_RFC1918 = ["10.0.0.0/8", "172.16.0.0/12", "192.168.0.0/16"]

SALTS = ["foo", "", "saltForTest", "éè中\U0001F600", " lead", "$9$x", "0", "a" * 70, "Sİı", "\\d+"]


def net_bits(cidr):
    n = ipaddress.ip_network(cidr)
    L = n.max_prefixlen
    return format(int(n.network_address), "0%db" % L)[: n.prefixlen]


def fnbit(a, b, head):
    v = int("1" + head, 2)
    return (((v * a + b) % 1000003) >> 3) & 1


class Cfg:
    def __init__(self, fam, salt, B, prefixes, nets, hmode):
        self.fam, self.salt, self.B, self.prefixes, self.nets, self.hmode = fam, salt, B, prefixes, nets, hmode
        self.L = 32 if fam == 4 else 128

    def pins(self):
        """Bit strings of every preserved prefix (the networks of preserved addresses included)."""
        if self.fam == 6:
            return []
        pf = SPEC_DEFAULT_PREFIXES if self.prefixes is None else self.prefixes
        # `fmt.format(int(network_address))[:prefixlen]` with the 32-bit format, whatever the family of the entry: an IPv6
        # entry gives the leading bits of its unpadded binary spelling
        out = []
        for p in list(pf) + list(self.nets or []):
            n = ipaddress.ip_network(p, strict=False)
            out.append(format(int(n.network_address), "032b")[: n.prefixlen])
        return out

    def describe(self):
        return {"family": self.fam, "salt": self.salt, "host_bits": self.B, "preserve_prefixes": self.prefixes,
                "preserve_addresses": self.nets, "hash": self.hmode}

    def driver_new(self, oid):
        from .common import hexs
        hm = "md5 " + hexs(self.salt) if self.hmode == "md5" else "fn %d %d" % self.hmode[1:]
        pins = " ".join(p if p else "-" for p in self.pins())
        return ("ipnew %s %d %d %s %s" % (oid, self.L, self.B or 0, hm, pins)).rstrip()

    def build(self):
        from netconan.ip_anonymization import IpAnonymizer, IpV6Anonymizer
        kw = {}
        if self.hmode != "md5":
            a, b = self.hmode[1:]
            kw["salter"] = lambda salt, head, a=a, b=b: fnbit(a, b, head)
        if self.fam == 4:
            return IpAnonymizer(self.salt, None if self.prefixes is None else list(self.prefixes),
                                None if self.nets is None else list(self.nets), preserve_suffix=self.B, **kw)
        return IpV6Anonymizer(self.salt, preserve_suffix=self.B, **kw)


def rand_cidr(rng, maxlen=32):
    plen = rng.choice([0, 1, 2, 3, 4, 7, 8, 9, 12, 15, 16, 17, 20, 23, 24, 25, 28, 30, 31, 32])
    plen = min(plen, maxlen)
    v = rng.getrandbits(32)
    v = (v >> (32 - plen)) << (32 - plen) if plen else 0
    return "%s/%d" % (ipaddress.IPv4Address(v), plen)


def nested_cidrs(rng):
    """Nested / overlapping lists, including pairs that share a network address, in both orders."""
    base = rng.getrandbits(32)
    lens = sorted(rng.sample([4, 8, 12, 16, 20, 24, 28, 32], rng.randint(2, 4)))
    out = []
    for pl in lens:
        v = (base >> (32 - pl)) << (32 - pl)
        out.append("%s/%d" % (ipaddress.IPv4Address(v), pl))
    # same network address with a shorter prefix: zero the tail
    pl0 = lens[0]
    v0 = (base >> (32 - pl0)) << (32 - pl0)
    out.append("%s/%d" % (ipaddress.IPv4Address(v0), min(32, pl0 + rng.choice([4, 8]))))
    rng.shuffle(out)
    return out


def same_addr_subnets(rng, prefixes):
    """Networks that share the network address of a listed prefix but are longer (10.0.0.0/8 -> 10.0.0.0/16)."""
    pf = SPEC_DEFAULT_PREFIXES if prefixes is None else prefixes
    out = []
    for p in rng.sample(list(pf), min(len(pf), 2)) if pf else []:
        n = ipaddress.ip_network(p)
        if n.prefixlen < 30:
            out.append("%s/%d" % (n.network_address, rng.randint(n.prefixlen + 1, min(32, n.prefixlen + 12))))
    return out or ["10.0.0.0/16"]


def gen_cfg(rng, fam=None, force=None):
    fam = fam or rng.choice([4, 4, 4, 6])
    salt = rng.choice(SALTS) if rng.random() < 0.7 else "".join(rng.choice("abcXYZ019 _-") for _ in range(rng.randint(1, 12)))
    B = rng.choice([0, 0, 8, 8, 1, 4, 12, 16, 24, 31, 32, None])
    hmode = "md5" if rng.random() < 0.6 else ("fn", rng.randint(1, 10 ** 6), rng.randint(0, 10 ** 6))
    prefixes, nets = None, None
    if fam == 4:
        k = rng.random()
        if k < 0.3:
            prefixes = None
        elif k < 0.4:
            prefixes = []
        elif k < 0.7:
            prefixes = [rand_cidr(rng) for _ in range(rng.randint(1, 3))]
        else:
            prefixes = nested_cidrs(rng)
        k = rng.random()
        if k < 0.45:
            nets = None
        elif k < 0.6:
            nets = list(SPEC_RFC1918)
        elif k < 0.7:
            nets = [rand_cidr(rng) for _ in range(rng.randint(1, 2))]
        elif k < 0.85:
            nets = same_addr_subnets(rng, prefixes)
        else:
            nets = nested_cidrs(rng)[:3]
    c = Cfg(fam, salt, B, prefixes, nets, hmode)
    if force:
        for k_, v in force.items():
            setattr(c, k_, v)
    return c


def gen_addrs(rng, cfg, n):
    """Addresses near every configured boundary: inside each prefix, one bit off at every depth,
    last-bit siblings, plus neighbours of earlier draws and uniform ones."""
    L = cfg.L
    pins = [p for p in cfg.pins()]
    out = []
    while len(out) < n:
        k = rng.random()
        if pins and k < 0.45:
            p = rng.choice(pins)
            d = rng.randint(0, len(p))
            if d < len(p) and rng.random() < 0.7:
                head = p[:d] + ("1" if p[d] == "0" else "0")
            else:
                head = p
            rest = L - len(head)
            bits = head + (format(rng.getrandbits(rest), "0%db" % rest) if rest else "")
            out.append(int(bits[:L], 2))
        elif out and k < 0.75:
            a = rng.choice(out)
            d = rng.randint(0, L - 1)
            keep = L - d
            b = ((a >> keep) << keep) | rng.getrandbits(keep) if keep else a
            if rng.random() < 0.5:
                b = a ^ (1 << rng.randint(0, L - 1))
            out.append(b)
        elif k < 0.8:
            out.append(rng.choice([0, (1 << L) - 1, 1, 1 << (L - 1)]))
        else:
            out.append(rng.getrandbits(L))
    return out


SPECIAL_V4 = ["224.0.0.5", "239.1.1.1", "127.0.0.1", "169.254.1.1", "10.0.0.1", "192.168.1.1", "172.16.0.1", "100.64.0.1", "8.8.8.8",
              "255.255.255.0", "255.255.128.0", "0.0.63.255", "255.0.0.0", "0.0.0.255", "128.0.0.0", "255.255.255.254", "0.0.0.1"]
SPECIAL_V6 = ["ff02::1", "ff02::2", "ff05::1:3", "fe80::1", "::1", "::", "2001:db8::1", "64:ff9b::1", "fc00::1", "2002::1"]


def special_preimages(cfg):
    """addresses whose *image* under this configuration is a special-looking value (mask-shaped, multicast, link-local, ...):
    the inverse images are taken from the cache-free spec (Gfull) evaluated by the Lean driver"""
    import ipaddress
    from .ip_checks import spec_images
    vals = [int(ipaddress.ip_address(x)) for x in (SPECIAL_V4 if cfg.fam == 4 else SPECIAL_V6)]
    pre = spec_images(cfg, vals, inv=True) or []
    return [p for p in pre if p is not None]
