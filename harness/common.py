"""Shared machinery for the netconan property checks.

Layout of one check run (see DESIGN.md section 5):
  gen -> lake build (theorems + driver) -> axiom audit -> correspondence model/impl
  -> property oracle on the implementation -> known findings -> evidence.
"""
import fcntl
import hashlib
import json
import os
import random
import re
import subprocess
import sys
import time

VERIF = os.path.dirname(os.path.dirname(os.path.abspath(__file__)))
LEAN = os.path.join(VERIF, "lean")
REPO = os.environ.get("NETCONAN_REPO", "/repo")
DRIVER = os.path.join(LEAN, ".lake", "build", "bin", "ncdriver")
ALLOWED_AXIOMS = {"propext", "Classical.choice", "Quot.sound"}
FORBIDDEN = re.compile(r"\bsorry\b|\badmit\b|^axiom |native_decide|bv_decide|implemented_by|\bunsafe |maxHeartbeats 0", re.M)

if REPO not in sys.path:
    sys.path.insert(0, REPO)

import logging  # noqa: E402
logging.lastResort = None                       # netconan logs through the root logger; keep the checks' output clean
logging.getLogger().addHandler(logging.NullHandler())


class Infra(Exception):
    """Infrastructure trouble (exit code 2), never a violation."""


def sh(cmd, cwd=None, timeout=3600, env=None, input=None):
    p = subprocess.run(cmd, cwd=cwd, shell=isinstance(cmd, str), capture_output=True, text=True,
                       timeout=timeout, env=env, input=input)
    return p.returncode, p.stdout, p.stderr


class LakeLock:
    def __enter__(self):
        os.makedirs(os.path.join(LEAN, ".lake"), exist_ok=True)
        self.f = open(os.path.join(LEAN, ".lake", "verif.lock"), "w")
        fcntl.flock(self.f, fcntl.LOCK_EX)
        return self

    def __exit__(self, *a):
        fcntl.flock(self.f, fcntl.LOCK_UN)
        self.f.close()


def strip_comments(src):
    """Remove Lean block and line comments (good enough for the forbidden-word scan)."""
    out, i, depth = [], 0, 0
    while i < len(src):
        if src.startswith("/-", i):
            depth += 1
            i += 2
        elif depth and src.startswith("-/", i):
            depth -= 1
            i += 2
        elif depth:
            i += 1
        elif src.startswith("--", i):
            j = src.find("\n", i)
            i = len(src) if j < 0 else j
        else:
            out.append(src[i])
            i += 1
    return "".join(out)


def forbidden_scan():
    hits = []
    for sub in ("Spec", "Model", "Proofs", "Props", "Generated", "Pinned"):
        d = os.path.join(LEAN, "Netconan", sub)
        if not os.path.isdir(d):
            continue
        for fn in sorted(os.listdir(d)):
            if fn.endswith(".lean"):
                src = strip_comments(open(os.path.join(d, fn)).read())
                for m in FORBIDDEN.finditer(src):
                    hits.append("%s/%s: %s" % (sub, fn, m.group(0).strip()))
    return hits


def prop_theorems(module):
    """(namespace-qualified) theorem names declared in a Props module."""
    path = os.path.join(LEAN, *module.split(".")) + ".lean"
    src = strip_comments(open(path).read())
    ns = re.search(r"^namespace\s+(\S+)", src, re.M)
    prefix = (ns.group(1) + ".") if ns else ""
    return [prefix + m for m in re.findall(r"^theorem\s+(\S+)", src, re.M)]


def lake_build(targets, timeout=3000):
    with LakeLock():
        rc, out, err = sh(["lake", "build"] + targets, cwd=LEAN, timeout=timeout)
    return rc == 0, (out + err)


def axiom_audit(modules, theorems):
    """Run `#print axioms` for every theorem; returns {theorem: [axioms]} or raises Infra."""
    tmp = os.path.join(LEAN, ".lake", "audit_%d.lean" % os.getpid())
    with open(tmp, "w") as f:
        for m in modules:
            f.write("import %s\n" % m)
        for t in theorems:
            f.write("#print axioms %s\n" % t)
    try:
        rc, out, err = sh(["lake", "env", "lean", tmp], cwd=LEAN, timeout=900)
    finally:
        try:
            os.remove(tmp)
        except OSError:
            pass
    res = {}
    text = out + err
    for t in theorems:
        m = re.search(r"'%s' depends on axioms: \[([^\]]*)\]" % re.escape(t), text)
        if m:
            res[t] = [a.strip() for a in m.group(1).replace("\n", " ").split(",") if a.strip()]
        elif re.search(r"'%s' does not depend on any axioms" % re.escape(t), text):
            res[t] = []
        else:
            res[t] = None  # not found -> the theorem does not exist / does not check
    return res, text


class Driver:
    """Batch interface to the compiled Lean model driver."""

    def __init__(self):
        if not os.path.exists(DRIVER):
            raise Infra("model driver not built: " + DRIVER)

    def run(self, lines, timeout=3000):
        rw = os.path.join(LEAN, "Netconan", "Generated", "reserved_words.txt")
        pre = ["loadreserved " + rw] if os.path.exists(rw) and any(l.startswith("fanew") for l in lines) else []
        if any(l.startswith("fanew") and " pwd=1" in l for l in lines):
            pre += passlib_table()
        if pre:
            out = self.run_raw(pre + list(lines), timeout)
            return out[len(pre):]
        return self.run_raw(lines, timeout)

    def run_raw(self, lines, timeout=3000):
        data = "\n".join(lines) + "\n"
        p = subprocess.run([DRIVER], input=data, capture_output=True, text=True, timeout=timeout)
        if p.returncode != 0:
            raise Infra("driver exited %d: %s" % (p.returncode, p.stderr[:300]))
        out = p.stdout.split("\n")
        if out and out[-1] == "":
            out.pop()
        if len(out) != len(lines):
            raise Infra("driver answered %d lines for %d ops" % (len(out), len(lines)))
        return out


_PL = None


def passlib_table(n=130):
    """`pl` lines handing passlib's values for the pseudonyms to the model (external functions are parameters);
    cached on disk because they depend on passlib only"""
    global _PL
    if _PL is not None:
        return _PL
    cache = os.path.join(LEAN, ".lake", "passlib_cache.json")
    try:
        d = json.load(open(cache))
    except Exception:  # noqa
        d = {}
    if d.get("n") != n:
        from passlib.hash import md5_crypt, sha512_crypt
        d = {"n": n, "rows": []}
        for k in range(n):
            p = "netconanRemoved%d" % k
            for sl in range(0, 9):
                d["rows"].append(["m%d:%s" % (sl, p), md5_crypt.using(salt="0" * sl).hash(p)])
            d["rows"].append(["s:" + p, sha512_crypt.using(rounds=5000, salt="0" * 16).hash(p)])
        os.makedirs(os.path.dirname(cache), exist_ok=True)
        json.dump(d, open(cache, "w"))
    _PL = ["pl %s %s" % (cps(k), cps(v)) for k, v in d["rows"]]
    return _PL


def hexs(s):
    b = s.encode("utf-8", "surrogatepass")
    return b.hex() if b else "-"


def cps(s):
    return ".".join(str(ord(c)) for c in s) if s else "-"


def uncps(t):
    return "" if t == "-" else "".join(chr(int(x)) for x in t.split("."))


def load_findings():
    p = os.path.join(VERIF, "known_findings.json")
    if not os.path.exists(p):
        return {"findings": [], "fixed": []}
    return json.load(open(p))


class Result:
    """Collects what a check run did; turned into evidence and the exit code."""

    def __init__(self, pid, tier, seed):
        self.pid, self.tier, self.seed = pid, tier, seed
        self.t0 = time.time()
        self.obligations = []      # names
        self.discharged = []       # names
        self.broken = []           # (kind, name, detail): proof / audit / correspondence
        self.violations = []       # dicts: concrete failing inputs on the implementation (unlisted)
        self.known = []            # (finding id, text)
        self.evaluations = 0
        self.nontrivial = set()
        self.traces = 0
        self.samples = []
        self.dist = {}
        self.notes = []
        self.validation = {}
        self.exhaustive = False

    def count(self, key, n=1):
        self.dist[key] = self.dist.get(key, 0) + n

    def sample(self, s, limit=6):
        if len(self.samples) < limit:
            self.samples.append(s)

    def nt(self, key):
        self.nontrivial.add(key if isinstance(key, (str, int, tuple)) else repr(key))


def write_replay(pid, payload):
    os.makedirs(os.path.join(VERIF, "replays"), exist_ok=True)
    body = json.dumps(payload, indent=1, sort_keys=True, default=str)
    h = hashlib.sha1(body.encode()).hexdigest()[:10]
    path = os.path.join(VERIF, "replays", "%s_%s.json" % (pid, h))
    with open(path, "w") as f:
        f.write(body + "\n")
    return path


def cpl(a, b):
    n = 0
    for x, y in zip(a, b):
        if x != y:
            break
        n += 1
    return n
