"""C16: files map one-to-one; inputs untouched; failures isolated; entry points agree."""
import hashlib
import io
import os
import shutil
import tempfile

from . import fa
from .common import cps
from .ip_checks import Sess, exc_name
from .secret_checks import gen_history, render
from .text_checks import SALTS, WORDLISTS, mixed_text

NAMES = ["r1_$SITE.cfg", "${SITE}.cfg", "core router.conf", "ü-edge.cfg", "dots.in.name.txt", "UPPER", "a", "site b", "x y z.cfg", "配置.cfg", "tab\tname", "-dash", "semi;colon", "name[0].cfg",
         "x.tmp", "x"]
DIRS = ["site a", "pop-1", "データ", "deep", ".git", "s", "with.dot", "Ünï", "site[1]", "rack [a-c]", "q?", "st*r"]


def gen_tree(rng, cfg, n_files):
    """relative path -> bytes ; plus the set of empty directories"""
    files, empty_dirs = {}, []
    dirs = [""]
    for _ in range(rng.randint(1, 5)):
        parent = rng.choice(dirs)
        d = os.path.join(parent, rng.choice(DIRS)) if parent else rng.choice(DIRS)
        if d not in dirs:
            dirs.append(d)
    for _ in range(n_files):
        d = rng.choice(dirs)
        name = rng.choice(NAMES)
        if rng.random() < 0.12:
            name = "." + name
        body = "".join(mixed_text(rng, cfg, rng.randint(0, 12)))
        k = rng.random()
        if k < 0.15:
            body = body.replace("\n", "\r\n")
        elif k < 0.3:
            body = body.replace("\n", "\r")         # classic Mac line ends: a bare carriage return ends a line
        elif k < 0.25 and body.endswith("\n"):
            body = body[:-1]
        if rng.random() < 0.2:
            body = "\ufeff" + body        # a byte order mark is a character of the first line like any other
        files[os.path.join(d, name) if d else name] = body.encode("utf-8")
    for d in dirs:
        if d and not any(p.startswith(d + os.sep) for p in files):
            empty_dirs.append(d)
    return files, empty_dirs


def write_tree(root, files, empty_dirs=()):
    for rel, data in files.items():
        p = os.path.join(root, rel)
        os.makedirs(os.path.dirname(p), exist_ok=True)
        with open(p, "wb") as f:
            f.write(data)
    for d in empty_dirs:
        os.makedirs(os.path.join(root, d), exist_ok=True)


def read_tree(root):
    out = {}
    for r, _, fs in os.walk(root):
        for f in fs:
            p = os.path.join(r, f)
            out[os.path.relpath(p, root)] = open(p, "rb").read()
    return out


def api_kwargs(cfg):
    return dict(salt=cfg.salt, sensitive_words=cfg.words, as_numbers=cfg.asn, reserved_words=cfg.reserved,
                preserve_prefixes=cfg.prefixes, preserve_networks=cfg.nets, preserve_suffix_v4=cfg.b4, preserve_suffix_v6=cfg.b6,
                undo_ip_anon=cfg.undo)


def run_dir_api(cfg, ind, outd):
    from netconan.anonymize_files import anonymize_files
    with fa.LogCap() as lc:
        anonymize_files(ind, outd, cfg.pwd, cfg.ip, **api_kwargs(cfg))
    return lc.records


def cli_argv(cfg, ind, outd):
    a = ["-i", ind, "-o", outd, "-s", cfg.salt]
    if cfg.pwd:
        a.append("-p")
    if cfg.ip:
        a.append("-a")
    if cfg.undo:
        a.append("-u")
    if cfg.words:
        a += ["-w", ",".join(cfg.words)]
    if cfg.asn:
        a += ["-n", ",".join(cfg.asn)]
    if cfg.reserved:
        a += ["-r", ",".join(cfg.reserved)]
    if cfg.nets:
        a += ["--preserve-addresses", ",".join(cfg.nets)]
    a += ["--preserve-host-bits", str(cfg.b4 or 0)]
    return a


def files_scope(res, pid, rng, tier):
    from netconan import netconan as nc
    from netconan.anonymize_files import FileAnonymizer, anonymize_files
    from .text_checks import rand_feature_cfg
    fails, dis = [], []
    sess = Sess()
    rounds = 10 if tier == "thorough" else 4
    os.environ["SITE"] = "lab7"          # names with `$SITE` / `${SITE}` are names: nothing in a path is expanded
    for r in range(rounds):
        cfg = rand_feature_cfg(rng, [r % 2 == 0 or rng.random() < 0.5, rng.random() < 0.6, rng.random() < 0.4, rng.random() < 0.3])
        if not (cfg.pwd or cfg.ip or cfg.words or cfg.asn):
            cfg.pwd = True
        cfg.b6 = cfg.b4 = cfg.b4 or 0
        cfg.words = [w for w in (cfg.words or []) if "," not in w] or None
        if not cfg.salt:
            cfg.salt = "nonempty"        # (the command line cannot carry an empty -s value through every shell; library runs cover "")
        files, empty_dirs = gen_tree(rng, cfg, 8 if tier == "thorough" else 6)
        d = tempfile.mkdtemp(prefix="ncverif_")
        try:
            ind = os.path.join(d, ["cfg_raw", "configs [2024]", "in[a]", "in dir"][r % 4])
            if r % 2 == 0 and not any(k.startswith("site[1]") for k in files):
                files[os.path.join("site[1]", "r1.cfg")] = "".join(mixed_text(rng, cfg, 3)).encode("utf-8")
            write_tree(ind, files, empty_dirs)
            before = read_tree(ind)
            want = sorted(p for p in files if not os.path.basename(p).startswith("."))
            # ---- directory API
            outd = os.path.join(d, "cfg" if r % 4 == 0 else "out")      # (round 0: the output name is a prefix of the input name)
            os.makedirs(os.path.join(outd, "pre-existing"))
            open(os.path.join(outd, "pre-existing", "keep.txt"), "w").write("untouched\n")
            run_dir_api(cfg, ind, outd)
            got = read_tree(outd)
            res.evaluations += len(files)
            res.nt(("tree", r, len(files)))
            for k_, v_ in files.items():
                res.nt(("file", k_, hashlib.sha1(v_).hexdigest()[:8]))
            res.sample({"features": cfg.describe(), "input_files": sorted(files), "output_files": sorted(got)}, limit=3)
            extra = sorted(set(got) - set(want) - {os.path.join("pre-existing", "keep.txt")})
            missing = sorted(set(want) - set(got))
            if extra or missing:
                fails.append({"kind": "output files are not exactly the non-hidden input files at the same relative paths",
                              "cfg": cfg.describe(), "unexpected": extra, "missing": missing, "inputs": sorted(files)})
            if got.get(os.path.join("pre-existing", "keep.txt")) != b"untouched\n":
                fails.append({"kind": "a pre-existing file in the output directory was modified", "cfg": cfg.describe()})
            if read_tree(ind) != before:
                fails.append({"kind": "an input file was modified", "cfg": cfg.describe()})
            # ---- model: the same files in os.walk order through one pipeline
            order = []
            for root_, _, fs in os.walk(ind):
                for f in fs:
                    if not f.startswith("."):
                        order.append(os.path.relpath(os.path.join(root_, f), ind))
            tw = fa.FaTwin(sess, cfg)
            for rel in order:
                text = files[rel].decode("utf-8")
                sess.op("fatext %s universal %s" % (tw.id, cps(text)),
                        lambda rel=rel: "ok %s" % cps(got.get(rel, b"<missing>").decode("utf-8", "replace")), {"file": rel, "cfg": cfg.describe()})
            # ---- trailing separator on the input directory, and the command line
            out2 = os.path.join(d, "out2")
            run_dir_api(cfg, ind + os.sep, out2)
            if read_tree(out2) != {k: v for k, v in got.items() if not k.startswith("pre-existing")}:
                a, b = read_tree(out2), got
                fails.append({"kind": "input directory written with a trailing separator gives different output files",
                              "cfg": cfg.describe(), "paths_with_separator": sorted(a), "paths_without": sorted(b)})
            out3 = os.path.join(d, "out3_$SITE")
            import contextlib
            try:
                with fa.LogCap(), contextlib.redirect_stderr(io.StringIO()):
                    nc.main(cli_argv(cfg, ind, out3))
                c = read_tree(out3)
            except BaseException as e:  # noqa
                c = {"<exception>": repr(e).encode()}
            if cfg.prefixes is None and c != {k: v for k, v in got.items() if not k.startswith("pre-existing")}:
                bad = sorted(k for k in set(c) | set(got) if c.get(k) != got.get(k) and not k.startswith("pre-existing"))
                fails.append({"kind": "command line and directory API produce different content", "cfg": cfg.describe(),
                              "argv": cli_argv(cfg, "<in>", "<out>"), "differing_files": bad[:4]})
            # ---- an (empty, existing) output directory inside the input tree: exactly the planned files, nothing anonymized twice
            if r % 2 == 1:
                ins = os.path.join(d, "snap")
                write_tree(ins, files, empty_dirs)
                os.makedirs(os.path.join(ins, "anon_out"))
                try:
                    run_dir_api(cfg, ins, os.path.join(ins, "anon_out"))
                    g4 = read_tree(os.path.join(ins, "anon_out"))
                except Exception as e:  # noqa
                    g4 = {"<exception>": repr(e).encode()}
                if sorted(g4) != want:
                    fails.append({"kind": "output files are not exactly the non-hidden input files at the same relative paths", "cfg": cfg.describe(),
                                  "situation": "the output directory exists (empty) inside the input directory",
                                  "unexpected": sorted(set(g4) - set(want))[:5], "missing": sorted(set(want) - set(g4))[:5]})
                res.evaluations += len(files)
            # ---- single-file entry points on a directory holding just that file
            for rel in rng.sample(want, min(3, len(want))):
                one = os.path.join(d, "one")
                shutil.rmtree(one, ignore_errors=True)
                os.makedirs(one)
                src = os.path.join(one, "f.cfg")
                open(src, "wb").write(files[rel])
                outs = {}
                run_dir_api(cfg, one, os.path.join(one + "_o1"))
                outs["directory API"] = read_tree(one + "_o1").get("f.cfg")
                with fa.LogCap():
                    anonymize_files(src, os.path.join(d, "o2.cfg"), cfg.pwd, cfg.ip, **api_kwargs(cfg))
                outs["anonymize_files(file)"] = open(os.path.join(d, "o2.cfg"), "rb").read()
                with fa.LogCap():
                    cfg.build().anonymize_file(src, os.path.join(d, "o3.cfg"))
                outs["FileAnonymizer.anonymize_file"] = open(os.path.join(d, "o3.cfg"), "rb").read()
                o = io.StringIO()
                with fa.LogCap():
                    cfg.build().anonymize_io(open(src, "r", newline="", encoding="utf-8"), o)
                outs["stream API"] = o.getvalue().encode("utf-8")
                res.evaluations += 4
                if len(set(outs.values())) != 1:
                    fails.append({"kind": "entry points produce different content for the same file", "cfg": cfg.describe(),
                                  "file_bytes": files[rel][:200].decode("utf-8", "replace"),
                                  "outputs": {k: (v or b"<none>")[:200].decode("utf-8", "replace") for k, v in outs.items()}})
                shutil.rmtree(one + "_o1", ignore_errors=True)
            # a single input file and a bare relative output name, from the file's directory (API and command line)
            if want:
                cwd = os.getcwd()
                rel0 = want[0]
                wd = os.path.join(d, "cwd")
                os.makedirs(wd, exist_ok=True)
                open(os.path.join(wd, "router.cfg"), "wb").write(files[rel0])
                try:
                    os.chdir(wd)
                    with fa.LogCap():
                        anonymize_files("router.cfg", "api.cfg", cfg.pwd, cfg.ip, **api_kwargs(cfg))
                    import contextlib as _cl
                    try:
                        with fa.LogCap(), _cl.redirect_stderr(io.StringIO()):
                            nc.main(cli_argv(cfg, "router.cfg", "cli.cfg"))
                    except BaseException:  # noqa
                        pass
                finally:
                    os.chdir(cwd)
                o = io.StringIO()
                with fa.LogCap():
                    cfg.build().anonymize_io(open(os.path.join(wd, "router.cfg"), "r", newline="", encoding="utf-8"), o)
                res.evaluations += 2
                for nm in ("api.cfg",) + (("cli.cfg",) if cfg.prefixes is None else ()):
                    pth = os.path.join(wd, nm)
                    if not os.path.isfile(pth) or open(pth, "rb").read() != o.getvalue().encode("utf-8"):
                        fails.append({"kind": "a single input file with a bare relative output name did not yield that output file with the stream API's content",
                                      "cfg": cfg.describe(), "output_name": nm, "cwd_listing": sorted(os.listdir(wd))})
            # a file that is called `-` is a file; a path through a symbolic link to a directory is resolved by the file system, not as text
            if want:
                import sys as _sys
                cwd = os.getcwd()
                wd2 = os.path.join(d, "cwd2")
                os.makedirs(os.path.join(wd2, "real", "store", "inner"))
                os.makedirs(os.path.join(wd2, "real", "store", "cfgs"))
                os.makedirs(os.path.join(wd2, "top", "cfgs"))
                open(os.path.join(wd2, "-"), "wb").write(files[want[0]])
                open(os.path.join(wd2, "real", "store", "cfgs", "x.cfg"), "wb").write(files[want[0]])
                open(os.path.join(wd2, "top", "cfgs", "decoy.cfg"), "wb").write(b"hostname decoy\n")
                os.symlink(os.path.join("..", "real", "store", "inner"), os.path.join(wd2, "top", "link"))
                os.makedirs(os.path.join(wd2, "@snapshots"))
                open(os.path.join(wd2, "@snapshots", "r1.cfg"), "wb").write(files[want[0]])
                o = io.StringIO()
                with fa.LogCap():
                    cfg.build().anonymize_io(io.StringIO(files[want[0]].decode("utf-8"), newline=""), o)
                expect = o.getvalue().encode("utf-8")
                stdin0 = _sys.stdin
                try:
                    os.chdir(wd2)
                    _sys.stdin = io.StringIO("")
                    import contextlib as _cl2
                    with fa.LogCap(), _cl2.redirect_stdout(io.StringIO()):
                        try:
                            cfg.build().anonymize_file("-", "dash.out")
                            cfg.build().anonymize_file("dash.out.src" if False else os.path.join("real", "store", "cfgs", "x.cfg"), "-out")
                        except Exception:  # noqa
                            pass
                        try:
                            anonymize_files(os.path.join("top", "link", "..", "cfgs"), "out_api", cfg.pwd, cfg.ip, **api_kwargs(cfg))
                        except Exception:  # noqa
                            pass
                    try:
                        with fa.LogCap(), _cl2.redirect_stderr(io.StringIO()):
                            nc.main(cli_argv(cfg, os.path.join("top", "link", "..", "cfgs"), "out_cli"))
                    except BaseException:  # noqa
                        pass
                    try:
                        with fa.LogCap(), _cl2.redirect_stderr(io.StringIO()):
                            nc.main(cli_argv(cfg, "@snapshots", "@out_cli"))
                    except BaseException:  # noqa
                        pass
                    with fa.LogCap():
                        try:
                            anonymize_files("@snapshots", "@out_api", cfg.pwd, cfg.ip, **api_kwargs(cfg))
                        except Exception:  # noqa
                            pass
                finally:
                    _sys.stdin = stdin0
                    os.chdir(cwd)
                a2_, c2_ = read_tree(os.path.join(wd2, "@out_api")), read_tree(os.path.join(wd2, "@out_cli"))
                if sorted(a2_) != ["r1.cfg"] or (cfg.prefixes is None and c2_ != a2_):
                    fails.append({"kind": "command line and directory API produce different content", "cfg": cfg.describe(),
                                  "situation": "relative input and output directories whose names start with `@`",
                                  "api_outputs": sorted(a2_), "command_line_outputs": sorted(c2_)})
                res.evaluations += 3
                got_dash = open(os.path.join(wd2, "dash.out"), "rb").read() if os.path.isfile(os.path.join(wd2, "dash.out")) else None
                if got_dash != expect:
                    fails.append({"kind": "entry points produce different content for the same file", "cfg": cfg.describe(),
                                  "situation": "FileAnonymizer.anonymize_file on an input file that is named `-`", "output": (got_dash or b"<none>")[:200].decode("utf-8", "replace")})
                a_, c_ = read_tree(os.path.join(wd2, "out_api")), read_tree(os.path.join(wd2, "out_cli"))
                if sorted(a_) != ["x.cfg"] or (cfg.prefixes is None and c_ != a_):
                    fails.append({"kind": "command line and directory API produce different content", "cfg": cfg.describe(),
                                  "situation": "input path `top/link/../cfgs` where `top/link` is a symbolic link to a directory elsewhere",
                                  "api_outputs": sorted(a_), "command_line_outputs": sorted(c_)})
            # a single, explicitly named input file whose name starts with a dot yields the named output file
            if want:
                hid = os.path.join(d, ".rtr1.running-config")
                open(hid, "wb").write(files[want[0]])
                with fa.LogCap():
                    anonymize_files(hid, os.path.join(d, "named.out"), cfg.pwd, cfg.ip, **api_kwargs(cfg))
                res.evaluations += 1
                if not os.path.isfile(os.path.join(d, "named.out")):
                    fails.append({"kind": "a single named input file (name starting with a dot) did not yield the named output file", "cfg": cfg.describe()})
            # running twice into an output directory that was removed in between (same process)
            shutil.rmtree(out2, ignore_errors=True)
            run_dir_api(cfg, ind, out2)
            if sorted(read_tree(out2)) != sorted(k for k in got if not k.startswith("pre-existing")):
                fails.append({"kind": "a second run into a re-created output directory does not write all files", "cfg": cfg.describe(),
                              "written": sorted(read_tree(out2))})
            # ---- failures: undecodable bytes (early and late), output path occupied by a directory
            bad_files = dict(files)
            pw_lines = "".join(render(h) for h in gen_history(rng, 6, classes=["text"]))
            bad_files["0bad-late.cfg"] = (pw_lines * 40).encode() + b"\xff\xfe broken \xc3\x28\n" + pw_lines.encode()
            bad_files[os.path.join(rng.choice(DIRS), "bad-early.cfg")] = b"\xff\xff" + pw_lines.encode()
            occupied = want[0] if want else None
            ind2, outb = os.path.join(d, "in2"), os.path.join(d, "outb")
            blocked = os.path.join("blockeddir", "inner.cfg")
            bad_files[blocked] = pw_lines.encode()          # its output directory is occupied by a regular file
            write_tree(ind2, bad_files, empty_dirs)
            if occupied:
                os.makedirs(os.path.join(outb, occupied))
            os.makedirs(outb, exist_ok=True)
            open(os.path.join(outb, "blockeddir"), "w").write("a file where a directory is needed\n")
            try:
                logs = run_dir_api(cfg, ind2, outb)
            except Exception as e:  # noqa
                logs = []
                fails.append({"kind": "a file that cannot be processed aborted the whole run", "cfg": cfg.describe(), "exc": repr(e)[:200],
                              "failing_files": ["0bad-late.cfg", "bad-early.cfg", occupied, blocked]})
            gotb = read_tree(outb)
            gotb.pop("blockeddir", None)
            # reference: the same tree without the files that fail
            ind3, outc = os.path.join(d, "in3"), os.path.join(d, "outc")
            ref_files = {k: v for k, v in files.items() if k != occupied}
            write_tree(ind3, ref_files, empty_dirs)
            run_dir_api(cfg, ind3, outc)
            gotc = read_tree(outc)
            res.evaluations += len(bad_files)
            for bf in ("0bad-late.cfg", ):
                if bf in gotb and gotb[bf] != b"":
                    fails.append({"kind": "a file that cannot be decoded got an output file with content", "cfg": cfg.describe(), "file": bf,
                                  "output_bytes": gotb[bf][:120].decode("utf-8", "replace")})
            stray = sorted(k for k in gotb if k not in gotc and k not in bad_files)
            if stray:
                fails.append({"kind": "something other than the output files was written (run with files that cannot be processed)", "cfg": cfg.describe(),
                              "unexpected": stray, "failing_files": ["0bad-late.cfg", "bad-early.cfg", occupied, blocked]})
            errs = [m for lv, m in logs if lv == "ERROR"]
            for name in (["0bad-late.cfg", "bad-early.cfg", blocked] + ([occupied] if occupied else [])) if logs else []:
                if not any(os.path.basename(name) in m for m in errs):
                    fails.append({"kind": "a file that cannot be processed is not reported", "cfg": cfg.describe(), "file": name, "error_log": errs[:5]})
            same_order = [k for k in gotc]
            diff = sorted(k for k in gotc if gotb.get(k) != gotc[k])
            if diff and _same_walk_order(ind2, ind3, set(gotc)):
                k = diff[0]
                fails.append({"kind": "a failing file changed the output of another file", "cfg": cfg.describe(), "file": k,
                              "with_failing_files": (gotb.get(k) or b"<missing>")[:300].decode("utf-8", "replace"),
                              "without": gotc[k][:300].decode("utf-8", "replace"), "failing_files": ["0bad-late.cfg", "bad-early.cfg", occupied]})
        finally:
            shutil.rmtree(d, ignore_errors=True)
    # undo as the only feature: the command line writes what the directory API writes
    d = tempfile.mkdtemp(prefix="ncverif_")
    try:
        ucfg = fa.FaCfg(salt="undoOnly", undo=True, b4=8, b6=8)
        ufiles = {"a.cfg": b"ip address 11.22.33.44 255.255.255.0\n neighbor 2001:db8::1 remote-as 65001\n", os.path.join("sub", "b.cfg"): b"ntp server 20.1.2.3\n"}
        write_tree(os.path.join(d, "in"), ufiles)
        run_dir_api(ucfg, os.path.join(d, "in"), os.path.join(d, "o1"))
        import contextlib
        try:
            with fa.LogCap(), contextlib.redirect_stderr(io.StringIO()):
                nc.main(cli_argv(ucfg, os.path.join(d, "in"), os.path.join(d, "o2")))
        except BaseException:  # noqa
            pass
        res.evaluations += 2
        a_, b_ = read_tree(os.path.join(d, "o1")), (read_tree(os.path.join(d, "o2")) if os.path.isdir(os.path.join(d, "o2")) else {})
        if a_ != b_ or sorted(a_) != sorted(ufiles):
            fails.append({"kind": "undo as the only feature: command line and directory API do not write the same files", "argv": cli_argv(ucfg, "<in>", "<out>"),
                          "directory_api_files": sorted(a_), "command_line_files": sorted(b_)})
    finally:
        shutil.rmtree(d, ignore_errors=True)
    # the command line is the directory API with the values as typed: a reserved word with capital letters that also occurs as a secret;
    # a run started inside the input directory, which holds ordinary files called netconan.cfg / .netconan.cfg (as does $HOME)
    d = tempfile.mkdtemp(prefix="ncverif_")
    cwd0, home0 = os.getcwd(), os.environ.get("HOME")
    try:
        import contextlib
        rfiles = {"a.cfg": b"username admin password LabSecret\nusername b password other1zz\nsnmp-server community LABSECRET ro\nip address 11.22.33.44 255.255.255.0\n"}
        write_tree(os.path.join(d, "in"), rfiles)
        rcfg = fa.FaCfg(salt="demoSalt", pwd=True, reserved=["LabSecret", "MixedCaseWord"], b4=8, b6=8)
        run_dir_api(rcfg, os.path.join(d, "in"), os.path.join(d, "o1"))
        try:
            with fa.LogCap(), contextlib.redirect_stderr(io.StringIO()):
                nc.main(cli_argv(rcfg, os.path.join(d, "in"), os.path.join(d, "o2")))
        except BaseException:  # noqa
            pass
        res.evaluations += 2
        a_, b_ = read_tree(os.path.join(d, "o1")), (read_tree(os.path.join(d, "o2")) if os.path.isdir(os.path.join(d, "o2")) else {})
        if a_ != b_:
            fails.append({"kind": "command line and directory API produce different content", "argv": cli_argv(rcfg, "<in>", "<out>"), "input": rfiles["a.cfg"].decode(),
                          "directory_api": (a_.get("a.cfg") or b"<missing>").decode("utf-8", "replace"), "command_line": (b_.get("a.cfg") or b"<missing>").decode("utf-8", "replace")})
        cfiles = {"netconan.cfg": b"anonymize-ips = true\n", ".netconan.cfg": b"anonymize-ips = true\n", "r.cfg": b"ip address 11.22.33.44 255.255.255.0\nusername b password fresh2yyq\n"}
        write_tree(os.path.join(d, "tree"), cfiles)
        write_tree(os.path.join(d, "home"), {".netconan.cfg": b"anonymize-ips = true\n", "netconan.cfg": b"anonymize-ips = true\n"})
        ccfg = fa.FaCfg(salt="demoSalt", pwd=True, b4=8, b6=8)
        try:
            os.chdir(os.path.join(d, "tree"))
            os.environ["HOME"] = os.path.join(d, "home")
            run_dir_api(ccfg, ".", os.path.join(d, "c1"))
            try:
                with fa.LogCap(), contextlib.redirect_stderr(io.StringIO()):
                    nc.main(cli_argv(ccfg, ".", os.path.join(d, "c2")))
            except BaseException:  # noqa
                pass
        finally:
            os.chdir(cwd0)
            if home0 is None:
                os.environ.pop("HOME", None)
            else:
                os.environ["HOME"] = home0
        res.evaluations += 2
        a_, b_ = read_tree(os.path.join(d, "c1")), (read_tree(os.path.join(d, "c2")) if os.path.isdir(os.path.join(d, "c2")) else {})
        want_r = b"ip address 11.22.33.44 255.255.255.0\nusername b password netconanRemoved0\n"
        for nm_, t_ in (("directory API", a_), ("command line", b_)):
            if t_.get("r.cfg") != want_r:
                fails.append({"kind": "a run's output depends on an earlier run in this process (same salt): the first secret of a run is not numbered 0", "entry_point": nm_,
                              "earlier_run": {"salt": "demoSalt", "input": rfiles["a.cfg"].decode()}, "salt": "demoSalt", "input": cfiles["r.cfg"].decode(),
                              "output": (t_.get("r.cfg") or b"<missing>").decode("utf-8", "replace"), "expected": want_r.decode()})
                break
        if a_ != b_:
            bad = sorted(k for k in set(a_) | set(b_) if a_.get(k) != b_.get(k))
            fails.append({"kind": "command line and directory API produce different content", "argv": cli_argv(ccfg, ".", "<out>"),
                          "situation": "started inside the input directory, which (like $HOME) holds ordinary files called netconan.cfg and .netconan.cfg",
                          "input_files": {k: v.decode() for k, v in cfiles.items()}, "differing_files": bad,
                          "directory_api": (a_.get(bad[0]) or b"<missing>").decode("utf-8", "replace"), "command_line": (b_.get(bad[0]) or b"<missing>").decode("utf-8", "replace")})
    finally:
        os.chdir(cwd0)
        shutil.rmtree(d, ignore_errors=True)
    d2 = sess.finish(post=fa.model_out_text)
    res.traces += rounds
    return dis + d2, fails


def _same_walk_order(a, b, keep):
    def order(root):
        out = []
        for r, _, fs in os.walk(root):
            for f in fs:
                rel = os.path.relpath(os.path.join(r, f), root)
                if rel in keep:
                    out.append(rel)
        return out
    return order(a) == order(b)
