"""Which theorems, scopes, search strategies and finding signatures belong to which property."""
import json
import os
import re

from . import ip_scenarios, common, ip_checks, jun_checks, iptext_checks, secret_checks, text_checks, cli_checks, files_checks
from .common import LEAN, VERIF, Infra

TRUSTED_BASE = [
    "Lean 4.33 kernel (theorems); leanchecker re-check in the thorough tier",
    "axioms allowed: propext, Classical.choice, Quot.sound (audited per theorem with #print axioms); no native_decide, no bv_decide, no sorry",
    "Lean compiler for the model driver (the correspondence runs compiled definitions that the theorems are about)",
    "the correspondence harness (harness/*.py) and generator (harness/gen.py); CPython ipaddress/hashlib/re; bidict and passlib as installed in /venv",
    "MD5 is executable only: the IP theorems hold for an arbitrary hash bit h, the AS-number theorems for an arbitrary hash value, and the no-survival theorem (C10) uses only that a digest has 16 bytes (Md5.digest_size, by rfl)",
]


def first_error(log):
    m = re.search(r"error: (.*(?:\n(?!error|warning|✖|✔).*){0,6})", log)
    return (m.group(1) if m else log[-600:])[:900]


def generate(res):
    """Regenerate lean/Netconan/Generated/*.lean from /repo's working tree; returns broken obligations."""
    try:
        from . import gen
    except ImportError:
        return []
    return gen.run(res)


def thorough_lean(res, mods):
    rc, out, err = common.sh(["lake", "env", "leanchecker"] + mods, cwd=LEAN, timeout=3000)
    res.validation["leanchecker"] = "ok" if rc == 0 else ("failed: " + (out + err)[-400:])
    if rc != 0:
        res.broken.append(("audit", "leanchecker", (out + err)[-400:]))


def corpus(res, spec):
    pass


def search(res, spec, rng):
    """4.3: after a broken obligation/correspondence, look harder for an input on which the property itself
    fails on the implementation: further seeds of the property's own generators, under a time budget."""
    import random
    import time
    budget = 60 if res.tier == "quick" else 600
    t0 = time.time()
    k = 0
    while time.time() - t0 < budget and k < (4 if res.tier == "quick" else 12):
        r2 = random.Random("search/%s/%d/%d" % (res.pid, res.seed, k))
        k += 1
        for scope in spec["scopes"]:
            if time.time() - t0 > budget:
                break
            try:
                _, fails = scope(res, res.pid, r2, "quick")
            except Infra:
                raise
            except Exception as e:  # noqa
                res.notes.append("search scope %s raised %r" % (scope.__name__, e))
                continue
            if fails:
                res.violations.extend(fails)
                return
    res.notes.append("search: %d extra rounds, %.0fs, no failing input" % (k, time.time() - t0))


def reconfirm(res, spec):
    for f in common.load_findings()["findings"]:
        if f["property"] != res.pid:
            continue
        fn = FINDING_REPLAYS.get(f["id"])
        if fn is None:
            continue
        try:
            still = fn()
        except Exception as e:  # noqa
            still = True
            res.notes.append("finding %s replay raised %r" % (f["id"], e))
        if still:
            res.known.append((f["id"], {"reconfirmed": True}))
        else:
            res.notes.append("finding %s no longer reproduces on this tree" % f["id"])


def replay(res, spec, path):
    data = json.load(open(path))
    res.notes.append("replay of " + path)
    fn = spec.get("replay")
    if fn:
        res.violations.extend(fn(data))


def match_finding(pid, case, findings):
    for f in findings["findings"]:
        if f["property"] != pid:
            continue
        m = FINDING_MATCHERS.get(f["id"])
        if m and m(case):
            return f["id"]
    return None


def _m_c18_empty(case):
    return case.get("signature") == "empty-plaintext-short-salt"


def _r_c18_empty():
    from netconan.utils import juniper_secrets as J
    c = J.juniper_nonrandom_encrypt("", "i")
    try:
        return J.juniper_decrypt(c) != ""
    except ValueError:
        return True


def _m_c06_dotted(case):
    return case.get("signature") == "v6-dotted-tail"


def _r_c06_dotted():
    from netconan.ip_anonymization import IpV6Anonymizer, anonymize_ip_addr
    out = anonymize_ip_addr(IpV6Anonymizer("s"), "::ffff:1.2.3.4")
    return out.endswith(".2.3.4")


def _sec_run(lines, salt="s"):
    from . import fa
    return secret_checks.run_lines(fa.FaCfg(salt=salt, pwd=True), [l + "\n" for l in lines])[0]


def _r_c07_digit():
    a, b = _sec_run(["password 12345 foo"]), _sec_run(["password 99887 foo"])
    return a != b and "12345" in a[0]


def _r_c07_reserved():
    l1, l2 = "enable secret level 15 5 $1$abcd$Q2xSIm9SjN8U1vZ1xD5Ek0", "ip ospf message-digest-key 3 md5 encrypted SECRETSECRET"
    o = _sec_run([l1, l2])
    return o[0] == l1 + "\n" or o[1] == l2 + "\n"


def _r_c08_two():
    return _sec_run(["password foo password bar"])[0] == "password netconanRemoved0 password netconanRemoved0\n"


def _r_c08_empty9():
    o = _sec_run(['secret "$9$Q3tI"', 'secret "$9$zabc"'])
    from .jun_checks import ref_decrypt
    try:
        return ref_decrypt(o[0].split('"')[1]) != ref_decrypt(o[1].split('"')[1])
    except Exception:  # noqa
        return True


def _r_c09_clear():
    from .jun_checks import ref_encrypt
    o = _sec_run(['secret "%s"' % ref_encrypt("12345", "Q"), "password 12345"])
    return not o[1].strip().split(" ")[-1].isdigit()


FINDING_MATCHERS = {"C18-empty-plaintext-short-salt": _m_c18_empty, "C06-v6-dotted-tail": _m_c06_dotted,
                    "C07-digit-secret-followed-by-word": lambda c: c.get("signature") == "digit-secret-followed-by-word",
                    "C07-reserved-word-captured": lambda c: c.get("signature") == "reserved-word-captured",
                    "C08-two-secrets-one-line": lambda c: c.get("signature") == "two-secrets-one-line",
                    "C08-empty-plaintext-juniper": lambda c: c.get("signature") == "empty-plaintext-juniper",
                    "C09-cleartext-after-juniper": lambda c: c.get("signature") == "cleartext-after-juniper"}
FINDING_REPLAYS = {"C18-empty-plaintext-short-salt": _r_c18_empty, "C06-v6-dotted-tail": _r_c06_dotted,
                   "C07-digit-secret-followed-by-word": _r_c07_digit, "C07-reserved-word-captured": _r_c07_reserved,
                   "C08-two-secrets-one-line": _r_c08_two, "C08-empty-plaintext-juniper": _r_c08_empty9,
                   "C09-cleartext-after-juniper": _r_c09_clear}


def setup():
    """setup_cmd: regenerate data, build every theorem module and the driver."""
    class R:
        pass
    probs = generate(R())
    mods = sorted(set(m for p in PROPS.values() for m in p["modules"]))
    ok, log = common.lake_build(mods + ["ncdriver"])
    print(log[-3000:])
    if not ok:
        return 2
    print("setup ok: %d modules, generator problems: %d" % (len(mods), len(probs)))
    return 0


IP_RULE = ("seeded configurations (family, salt incl. empty/Unicode, host bits 0..32/None, preserved prefixes default/none/random/"
           "nested lists sharing a network address, preserved networks, MD5 or formula hash bit); addresses drawn near every "
           "configured prefix boundary (one bit off at each depth), neighbours of earlier draws, extremes and uniform; "
           "distinct_nontrivial counts distinct (observation kind, width, boundary depth / low address bits) keys")
IP_ASSUME = ["the hash bit is an arbitrary function in every theorem; MD5 only appears in the executable driver",
             "ipaddress parses/prints addresses correctly; bidict behaves as modelled by put/putInv (exercised by the correspondence)"]


# every address-mapping property runs every address scenario: each of them is a theorem about the pure map F, and any
# input on which the implementation does not compute F takes the ground from under all of them
IP_SCOPES = [ip_checks.core_scope, ip_checks.file_scope, ip_checks.cli_scope, ip_checks.big_history, ip_checks.text_history_scope,
             ip_checks.process_history_scope, ip_checks.dir_history_scope, iptext_checks.long_line_scope, ip_scenarios.scenario_scope]


def ip_prop(mod, scopes, extra_mods=()):
    # Props.SrcIp: the same results on the definitions translated from the source text on this run (harness/py2lean.py)
    return {"modules": ["Netconan.Props." + mod, "Netconan.Props.SrcIp"] + list(extra_mods), "scopes": scopes,
            "checker_cmd": "cd lean && lake build Netconan.Props.%s Netconan.Props.SrcIp && lake env lean <#print axioms audit>" % mod,
            "rule": IP_RULE, "assumptions": IP_ASSUME}


JUN_RULE = ("exhaustive: every code point 0..255 at each of the 7 table positions; all 65 salt characters on boundary code points and the "
            "empty plaintext; random plaintexts over 0..255 with arbitrary salt strings (None, empty, outside the alphabet, Unicode); a "
            "malformed stream derived from valid strings (truncations, foreign characters, trailing newline, wrong magic, inserted "
            "characters); every result checked with an independent decoder written after Crypt::Juniper; distinct_nontrivial counts "
            "distinct (position, last code point, salt character) and malformed-shape keys")

SECRET_RULE = ("histories of secret-bearing lines drawn from the committed table of recognised line forms (harness/lineforms.py: ~95 forms, "
               "13 whole-line scrub forms, 2 AWS forms) x format classes (text, hex, type 7 with all salts, $1$ with salt lengths 1-8, $6$ incl. rounds=, "
               "$9$ under all 65 salt characters) x enclosing text x 9 netconan salts (empty, outside the Juniper alphabet, Unicode); repeated secrets, "
               "$9$ re-encodings of one plaintext and its clear text; distinct_nontrivial counts distinct (class, form prefix / secret prefix) keys")
SECRET_ASSUME = ["passlib's md5_crypt / sha512_crypt are parameters of the model (their real values are substituted by the harness)",
                 "the 57 secret patterns and 6 format patterns are the pinned CPython parse trees run by the Lean engine (validated by correspondence)"]

TEXT_RULE = ("FileAnonymizer.anonymize_io twinned with the Lean pipeline model on seeded mixed texts (secret line forms, addresses of both families, "
             "sensitive-word tokens in varied case and embedded positions, AS numbers standalone / adjacent to punctuation / embedded in longer digit "
             "strings, blank and odd lines) under random feature subsets, salts and options; plus the property's own oracle on the implementation's "
             "output; distinct_nontrivial counts distinct (scope, first characters of the line / feature subset) keys")
TEXT_ASSUME = ["regular expressions: pinned CPython parse trees run by the Lean engine; str.lower and IGNORECASE character classes are data generated from the running interpreter",
               "passlib's two crypt hashes are parameters of the model"]


def text_prop(mod, scopes):
    # Props.SrcLines (C12-C15): the per-line loop of anonymize_io as translated from the source text on this run
    extra = ["Netconan.Props.SrcLines", "Netconan.Props.SrcFull"] if mod in ("C12", "C13", "C14", "C15") else []
    return {"modules": ["Netconan.Props." + mod] + extra, "scopes": scopes,
            "checker_cmd": "cd lean && lake build Netconan.Props.%s && lake env lean <#print axioms audit>" % mod,
            "rule": TEXT_RULE, "assumptions": TEXT_ASSUME}


PROPS = {
    "C01": ip_prop("C01", IP_SCOPES),
    "C02": ip_prop("C02", IP_SCOPES),
    "C03": ip_prop("C03", IP_SCOPES),
    "C04": ip_prop("C04", IP_SCOPES, ["Netconan.Props.C04Data"]),
    "C05": ip_prop("C05", [ip_checks.mask_scope] + IP_SCOPES),
    "C18": {"modules": ["Netconan.Props.C18", "Netconan.Props.C18Data", "Netconan.Props.SrcJun"], "scopes": [jun_checks.scope],
            "checker_cmd": "cd lean && lake build Netconan.Props.C18 && lake env lean <#print axioms audit>", "rule": JUN_RULE,
            "assumptions": ["FAMILY/ENCODING/EXTRA/_fixedc tables are regenerated from the live module on every run; the functions are modelled by hand and tied by correspondence"]},
    "C06": {"modules": ["Netconan.Props.C06", "Netconan.Props.SrcIp"], "scopes": [iptext_checks.scope, iptext_checks.io_scope, iptext_checks.long_line_scope, ip_checks.text_history_scope, ip_scenarios.scenario_scope],
            "checker_cmd": "cd lean && lake build Netconan.Props.C06 && lake env lean <#print axioms audit>",
            "rule": "exhaustive strings up to length 4 (quick) / 5 (thorough) over the boundary alphabets '025.a /', '1f:g /', '1f:.% '; structured dotted "
                    "and colon-separated tokens with near-miss parts and delimiters; every h::l split shape; realistic multi-token lines; "
                    "distinct_nontrivial counts distinct (family, first 12 characters) keys",
            "assumptions": ["the regular expressions are modelled by the pinned translation (CPython's own parser) run by the Lean engine; engine = _sre is validated by this correspondence, not proved"]},
    "C07": {"modules": ["Netconan.Props.C07", "Netconan.Props.SrcSecrets"], "scopes": [secret_checks.corr_scope, secret_checks.c07_scope],
            "checker_cmd": "cd lean && lake build Netconan.Props.C07 && lake env lean <#print axioms audit>", "rule": SECRET_RULE,
            "assumptions": SECRET_ASSUME},
    "C08": {"modules": ["Netconan.Props.C08", "Netconan.Props.C18Data", "Netconan.Props.SrcSecrets"], "scopes": [secret_checks.corr_scope, secret_checks.codec_scope, secret_checks.c08_scope, secret_checks.c08_dir_scope, secret_checks.c08_volume_scope],
            "checker_cmd": "cd lean && lake build Netconan.Props.C08 && lake env lean <#print axioms audit>", "rule": SECRET_RULE,
            "assumptions": SECRET_ASSUME},
    "C09": {"modules": ["Netconan.Props.C09", "Netconan.Props.SrcSecrets"], "scopes": [secret_checks.corr_scope, secret_checks.codec_scope, secret_checks.c09_scope],
            "checker_cmd": "cd lean && lake build Netconan.Props.C09 && lake env lean <#print axioms audit>", "rule": SECRET_RULE,
            "assumptions": SECRET_ASSUME},
    "C10": dict(text_prop("C10", [text_checks.words_scope, text_checks.hashseed_scope]), modules=["Netconan.Props.C10", "Netconan.Props.SrcWords"]),
    "C11": dict(text_prop("C11", [text_checks.as_scope]), modules=["Netconan.Props.C11", "Netconan.Props.SrcAs"]),
    "C12": text_prop("C12", [text_checks.pipeline_corr, text_checks.structure_scope, text_checks.order_scope, iptext_checks.long_line_scope, files_checks.files_scope, ip_scenarios.scenario_scope]),
    "C13": text_prop("C13", [text_checks.pipeline_corr, text_checks.determinism_scope, text_checks.hashseed_scope]),
    "C14": text_prop("C14", [text_checks.pipeline_corr, text_checks.total_scope, ip_scenarios.scenario_scope]),
    "C15": text_prop("C15", [text_checks.pipeline_corr, text_checks.compose_scope]),
    "C16": {"modules": ["Netconan.Props.C16"], "scopes": [files_checks.files_scope],
            "checker_cmd": "cd lean && lake build Netconan.Props.C16 && lake env lean <#print axioms audit>",
            "rule": "generated directory trees in a scratch directory (nesting, names with spaces / Unicode / leading dash, dot-files, dot-directories, empty "
                    "sub-directories, CRLF files, files without final newline, a pre-existing output directory) x random feature subsets; directory API, "
                    "trailing-separator spelling, command line, single-file API, FileAnonymizer.anonymize_file and the stream API compared byte for byte; "
                    "failing files (undecodable bytes early and after 8 KiB of password lines, output path occupied by a directory) against the run "
                    "without them; distinct_nontrivial counts distinct (round, tree size) keys",
            "assumptions": ["os.walk order, Unicode file names, permissions and pre-existing directories are runtime behaviour: exercised, not proved",
                            "the model sees a run as the list of files in walk order with their decoded text or a failure mark"]},
    "C19": {"modules": ["Netconan.Props.C19", "Netconan.Props.C04Data", "Netconan.Props.SrcCli"], "scopes": [cli_checks.cli_scope],
            "checker_cmd": "cd lean && lake build Netconan.Props.C19 && lake env lean <#print axioms audit>",
            "rule": "netconan.netconan.main in-process with anonymize_files recorded: every validation-relevant option (-a, -u, -s, -d, -p) in {absent, command line, "
                    "config file, both} exhaustively (4^5), plus seeded vectors over all 14 options incl. empty/out-of-range/non-numeric host bits and empty "
                    "input/output, compared with the Lean decision function; real runs of rejected combinations check that nothing is written; "
                    "distinct_nontrivial counts distinct encoded argument vectors",
            "assumptions": ["argparse / configargparse are abstracted by 'which source gave which value'; their parsing is exercised, not modelled"]},
    "C17": ip_prop("C17", IP_SCOPES),
}
