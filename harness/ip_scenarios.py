"""Address scenarios shared by every address-mapping property (C01-C05, C17).

Each scenario drives the real code (FileAnonymizer / anonymize_ip_addr / the command line) through a specific kind of
situation and compares every output line with the property's reading computed from the cache-free spec map
(Ffull / Gfull evaluated by the Lean driver, `spec_images`) by the independent token scanner (`iptext_checks.expected`).
The situations are the ones unit tests do not reach: pairs of option sets under one salt in one process, preserved hosts and
their /24 neighbours in both orders, the addresses directly before and behind a preserved block and the addresses whose
images are those, undo with preserved networks, network/len spellings with zero host part, IPv6 values below 2^32,
undo of a mask value on an object that already produced it, preserved networks given together with the private blocks on the
command line, option lists shared between constructions, IPv6 entries in the IPv4 lists, lines that grow past a power of
two when anonymized.
"""
import io
import os
import ipaddress

from . import ipgen
from .ip_checks import SPEC_MASKS, spec_images, run_cli
from .iptext_checks import expected


def _fa(salt, undo=False, prefixes=None, nets=None, b4=8, b6=8):
    from netconan.anonymize_files import FileAnonymizer
    return FileAnonymizer(anon_pwd=False, anon_ip=not undo, undo_ip_anon=undo, salt=salt,
                          preserve_prefixes=None if prefixes is None else list(prefixes),
                          preserve_networks=None if nets is None else list(nets), preserve_suffix_v4=b4, preserve_suffix_v6=b6)


def _run(obj, lines):
    o = io.StringIO()
    obj.anonymize_io(io.StringIO("".join(l + "\n" for l in lines)), o)
    return o.getvalue().split("\n")[:-1]


def _v4nets(nets):
    return [n for n in (ipaddress.ip_network(x, strict=False) for x in (nets or [])) if n.version == 4]


def spec_lines(salt, lines, undo=False, prefixes=None, nets=None, b4=8, b6=8):
    """the property's reading of a FileAnonymizer run (IPv6 pass, then IPv4 pass) from the cache-free spec"""
    c4 = ipgen.Cfg(4, salt, b4, prefixes, nets, "md5")
    c6 = ipgen.Cfg(6, salt, b6, None, None, "md5")
    nn = _v4nets(nets)
    need = {4: set(), 6: set()}

    def collect(f, a):
        need[f].add(a)
        return a
    for s in lines:
        expected(6, s, collect, [])
    k6 = sorted(need[6])
    i6 = dict(zip(k6, spec_images(c6, k6, inv=undo) if k6 else []))
    mids = [expected(6, s, lambda f, a: i6[a], [])[0] for s in lines]
    for s in mids:
        expected(4, s, collect, nn)
    k4 = sorted(need[4])
    i4 = dict(zip(k4, spec_images(c4, k4, inv=undo) if k4 else []))
    return [expected(4, s, lambda f, a: i4[a], nn)[0] for s in mids]


def _cmp(fails, kind, ctx, lines, got, exp, limit=3):
    n = 0
    if len(got) != len(exp):
        fails.append(dict(ctx, kind=kind + " (number of lines)", lines_in=len(exp), lines_out=len(got)))
        return
    for ln, g, e in zip(lines, got, exp):
        if g != e and n < limit:
            k = next((i for i, (a, b) in enumerate(zip(g, e)) if a != b), min(len(g), len(e)))
            fails.append(dict(ctx, kind=kind, line=ln if len(ln) < 300 else ln[:80] + " ... " + ln[max(0, k - 60): k + 60],
                              output=g if len(g) < 300 else g[max(0, k - 60): k + 60],
                              expected=e if len(e) < 300 else e[max(0, k - 60): k + 60], line_length=len(ln)))
            n += 1


def v4(a):
    return str(ipaddress.IPv4Address(a))


def _try(fails, kind, ctx, fn):
    try:
        return fn()
    except Exception as e:  # noqa
        fails.append(dict(ctx, kind=kind + ": raised", exc=repr(e)))
        return None


def scenario_scope(res, pid, rng, tier):
    fails = []
    salt = ["scnA", "TESTSALT", "demoSalt", "q7", ""][res.seed % 5]
    rnd = lambda: rng.getrandbits(32)  # noqa

    # ---- A. pairs of option sets under one salt in one process, the same lines through each
    net = "%d.%d.0.0/16" % (rng.choice([11, 44, 150, 200]), rng.randint(1, 250))
    n0 = int(ipaddress.ip_network(net).network_address)
    lines = ["ip address %s 255.255.255.0" % v4(a) for a in
             [n0 + 5, n0 + 70000, n0 - 3, n0 ^ (1 << 17), (10 << 24) + 0x10203, (10 << 24) + 0x900, (192 << 24) + (168 << 16) + 77,
              (200 << 24) + 0x10109, (172 << 24) + (16 << 16) + 9, rnd(), rnd(), rnd()]]
    lines += [" neighbor %s remote-as 65001" % v4(rnd()) for _ in range(6)] + ["set address 2001:db8::%x" % rng.randint(1, 9999)]
    variants = [dict(prefixes=None, nets=None), dict(prefixes=[], nets=None), dict(prefixes=None, nets=[net]),
                dict(prefixes=[net], nets=None), dict(prefixes=None, nets=None, b4=0), dict(prefixes=["10.0.0.0/8"], nets=[net]),
                dict(prefixes=None, nets=None, b4=16, b6=0), dict(prefixes=[], nets=[net])]
    variants += [dict(prefixes=None, nets=["96.0.0.0/4"]), dict(prefixes=["10.0.0.0/8", "10.0.1.0/24"], nets=None),
                 dict(prefixes=["10.0.1.0/24", "10.0.0.0/8"], nets=None), dict(prefixes=["192.0.2.0/24", "10.0.0.0/8"], nets=None),
                 dict(prefixes=None, nets=None, b4=32, b6=32), dict(prefixes=None, nets=None, b4=32, b6=64), dict(prefixes=None, nets=["8.0.0.0/6", "44.0.0.0/8"])]
    # the same network listed twice / in two notations / nested, in the preserved networks and in the preserved prefixes
    variants += [dict(prefixes=None, nets=[net, net]), dict(prefixes=None, nets=["10.0.0.0/8", "172.16.0.0/12", "10.0.0.0/8"]),
                 dict(prefixes=None, nets=[net, net.replace("/16", "/255.255.0.0")]), dict(prefixes=["10.0.0.0/8", "10.0.0.0/8"], nets=None),
                 dict(prefixes=None, nets=["10.0.0.0/8", "10.1.0.0/16", "10.0.0.0/8"]), dict(prefixes=None, nets=["44.0.0.0/8", "44.0.0.0/255.0.0.0"], b4=0)]
    lines += ["ip address %s" % a for a in ("96.1.2.3", "100.1.2.3", "111.2.3.4", "95.255.0.1", "10.0.0.5", "10.0.2.5", "10.0.1.9", "8.1.1.1", "11.1.1.1", "12.1.1.1",
                                            "192.000.002.010", "192.0.2.010", "010.000.001.009", "44.001.002.003")]
    lines += ["set address 2001:DB8:0:0:0:0:0:1", "set address 2001:0db8::0001"]
    # members of an outer preserved block that lie behind a nested inner block; special-purpose addresses that are not private-use
    lines += ["ip route %s" % a for a in ("10.200.3.0 255.255.255.0 10.2.0.1", "10.1.255.255 10.2.0.0", "10.0.255.254 10.255.255.254")]
    lines += ["ip host sp%d %s" % (i, a) for i, a in enumerate(("127.0.0.1", "169.254.1.1", "198.18.0.1", "192.0.2.1", "100.64.0.1", "240.0.0.1", "203.0.113.9"))]
    # library use: network objects instead of strings in the lists
    variants += [dict(prefixes=None, nets=[ipaddress.ip_network("44.44.0.0/16"), "10.0.0.0/8"]),
                 dict(prefixes=[ipaddress.ip_network("12.0.0.0/8")], nets=[ipaddress.ip_network("44.0.0.0/8"), ipaddress.ip_address("111.2.3.4")])]
    # addresses written directly next to non-ASCII letters and digits (delimiters like any other non-ASCII character)
    lines += [" description 到10.1.1.1的链路 到10.1.1.2", "lien privé172.16.5.9 et privé172.16.5.10", "接口2001:db8::77地址 接口2001:db8::78"]
    variants += [dict(prefixes=None, nets=["10.0.0.0/8", "172.16.0.0/12", "192.168.0.0/16"]), dict(prefixes=None, nets=["10.0.0.0/8", "10.1.0.0/16"]),
                 dict(prefixes=None, nets=["10.1.0.0/16", "10.0.0.0/8", "10.1.2.0/24"])]
    if res.seed % 2:
        variants.reverse()
    for v in variants + variants[:2]:
        ctx = {"salt": salt, "options": v, "earlier_in_this_process": "FileAnonymizers with the same salt and other options"}
        got = _try(fails, "pairs of option sets under one salt", ctx, lambda: _run(_fa(salt, **v), lines))
        if got is not None:
            _cmp(fails, "an anonymizer's mapping is not the function of its own salt and options (other option sets were used before under the same salt)",
                 ctx, lines, got, spec_lines(salt, lines, **v))
        res.evaluations += len(lines)
    res.nt(("scn", "pairs"))

    # ---- A2. little stack left (netconan called from deeply nested code): a line either fails as a whole or is anonymized by the map
    import sys as _sys

    def deep(n, fn):
        return fn() if n == 0 else deep(n - 1, fn)
    lim = _sys.getrecursionlimit()
    ls2 = ["ipv6 address 2001:db8:aaaa:1::1:101/64", "ipv6 address 2001:db8:bbbb:7::9:909/64", "ip address 23.45.67.89", "ip address 23.45.200.1", "ntp server 99.1.2.3"]
    for head in (5, 12, 25, 40, 60, 90, 130, 170):
        try:
            ob2 = _fa(salt + "rl")
            import inspect as _insp
            depth_now = len(_insp.stack(0))
            _sys.setrecursionlimit(depth_now + 40 + head)
            try:
                got2 = deep(30, lambda: _run(ob2, ls2))
            finally:
                _sys.setrecursionlimit(lim)
        except RecursionError:
            continue                       # the run fails as a whole: nothing was produced
        except Exception as e:  # noqa
            fails.append({"kind": "little stack left: %s" % type(e).__name__, "salt": salt + "rl", "exc": repr(e)[:200]})
            continue
        _cmp(fails, "with little stack left an address is written out unchanged next to anonymized ones (an error inside the mapping was swallowed)",
             {"salt": salt + "rl", "stack_frames_left": head}, ls2, got2, spec_lines(salt + "rl", ls2))
        res.evaluations += len(ls2)
    res.nt(("scn", "stack"))

    # ---- A3. host-bit values beyond the IPv4 width on the command line: refused, or else anonymize-then-undo still restores the file
    txt3 = "ip address 12.13.14.15 255.255.255.0\nipv6 address 2001:db8::77/64\nntp server 99.88.77.66\n"
    for hb in ("33", "40", "63", "64", "128"):
        st_a, outs_a, _ = run_cli(["-a", "-s", salt + "hb", "--preserve-host-bits", hb], {"r.cfg": txt3})
        res.evaluations += 1
        if st_a != "ok" or "r.cfg" not in outs_a:
            continue                      # refused: nothing written
        st_u, outs_u, _ = run_cli(["-u", "-s", salt + "hb", "--preserve-host-bits", hb], {"r.cfg": outs_a["r.cfg"]})
        if st_u != "ok" or outs_u.get("r.cfg") != txt3:
            fails.append({"kind": "anonymize then undo (same salt and options, command line) does not restore the file", "salt": salt + "hb",
                          "preserve_host_bits": hb, "input": txt3, "anonymized": outs_a["r.cfg"], "undone": outs_u.get("r.cfg"), "undo_status": st_u})
    res.nt(("scn", "hostbits-cli"))

    # ---- B. a preserved host and its /24 neighbours, in both orders
    host = (rng.choice([11, 23, 150]) << 24) + (rng.randint(1, 200) << 16) + (rng.randint(1, 200) << 8) + rng.randint(2, 250)
    nb = [host - 1, host + 1, (host & ~255) + 1, (host & ~255) + 254]
    for nets in ([v4(host)], [v4(host) + "/32", "%s/30" % v4((host + 64) & ~3)]):
        for order in (0, 1):
            for b4 in (0, 8):      # (with 8 preserved host bits the /24 neighbours of a preserved host map to themselves anyway)
                seq = ([host] + nb) if order == 0 else (nb + [host])
                ls = ["ntp server %s" % v4(a) for a in seq] + ["ip route %s/32 %s" % (v4(seq[-1]), v4(seq[0]))]
                ctx = {"salt": salt, "preserve_addresses": nets, "host_bits": b4, "order": "host first" if order == 0 else "neighbours first"}
                got = _try(fails, "preserved host and neighbours", ctx, lambda: _run(_fa(salt, nets=nets, b4=b4), ls))
                if got is not None:
                    _cmp(fails, "a preserved single address and its /24 neighbours: outcome depends on the order of the lines", ctx, ls, got,
                         spec_lines(salt, ls, nets=nets, b4=b4))
                res.evaluations += len(ls)
    res.nt(("scn", "host"))

    # ---- C. the addresses directly before / behind a preserved block, and the addresses mapped onto them; then undo
    nets = [net, "111.111.111.111"]
    c4 = ipgen.Cfg(4, salt, 8, None, nets, "md5")
    edge = []
    for n in _v4nets(nets):
        edge += [int(n.network_address) - 1, int(n.broadcast_address) + 1, int(n.network_address), int(n.broadcast_address)]
    pre = spec_images(c4, edge, inv=True) or []
    cand = [a for a in edge + list(pre) if 0 <= a < 2 ** 32]
    ls = ["ip host %s" % v4(a) for a in cand]
    ctx = {"salt": salt, "preserve_addresses": nets}
    got = _try(fails, "block boundaries", ctx, lambda: _run(_fa(salt, nets=nets), ls))
    if got is not None:
        exp = spec_lines(salt, ls, nets=nets)
        _cmp(fails, "an address next to a preserved block (or mapped next to it) is not handled by the map", ctx, ls, got, exp)
        back = _try(fails, "block boundaries, undo", ctx, lambda: _run(_fa(salt, undo=True, nets=nets), got))
        if back is not None:
            _cmp(fails, "undo (fresh anonymizer, same salt and options) does not return the address next to a preserved block", ctx, got, back,
                 spec_lines(salt, got, undo=True, nets=nets))
            for a, b0, orig in zip(cand, back, ls):
                img = int(ipaddress.IPv4Address(got[cand.index(a)].split()[-1])) if got else None
                if b0 != orig and img is not None and img not in SPEC_MASKS and not any(ipaddress.IPv4Address(img) in n for n in _v4nets(nets)):
                    fails.append(dict(ctx, kind="anonymize then undo does not restore an address near a preserved block", line=orig,
                                      anonymized=got[cand.index(a)], undone=b0))
                    break
    res.evaluations += 2 * len(ls)
    res.nt(("scn", "edges"))

    # ---- D. undo with preserved networks: members stay as written, everything else goes back
    inside = [n0 + rng.randint(1, 65000) for _ in range(4)] + [(10 << 24) + rng.getrandbits(24) for _ in range(2)]
    outside = [rnd() for _ in range(6)]
    for nets_, extra in (([net], {}), ([net, "10.0.0.0/8", "172.16.0.0/12", "192.168.0.0/16"], {}), (["172.16.0.0/12"], {"b4": 0})):
        ls = ["permit ip host %s any" % v4(a) for a in inside + outside] + [" ip address %s 255.255.0.0" % v4(n0 + 259)]
        ctx = {"salt": salt, "undo": True, "preserve_addresses": nets_, "options": extra}
        got = _try(fails, "undo with preserved networks", ctx, lambda: _run(_fa(salt, undo=True, nets=nets_, **extra), ls))
        if got is not None:
            _cmp(fails, "undo with preserved networks: a member of a preserved network is rewritten, or another address is not mapped back",
                 ctx, ls, got, spec_lines(salt, ls, undo=True, nets=nets_, **extra))
        res.evaluations += len(ls)
    res.nt(("scn", "undo-nets"))

    # ---- E. network/len spellings with a zero host part, default 8 host bits; the dumped map agrees with the output
    cidr = ["ip route %d.%d.0.0/16 Null0" % (rng.choice([20, 25, 60]), rng.randint(1, 250)), "network %d.0.0.0/8" % rng.choice([30, 45, 99]),
            "route %d.%d.%d.0/24" % (rng.choice([70, 80]), rng.randint(0, 255), rng.randint(0, 255)),
            "ip prefix-list X permit %d.%d.128.0/17 le 24" % (rng.choice([33, 34]), rng.randint(0, 255)),
            "set route %d.%d.%d.%d/32" % (rng.choice([90, 91]), rng.randint(0, 255), rng.randint(0, 255), rng.randint(0, 255)),
            "ipv6 route 2001:db8:%x::/48 ::1" % rng.randint(1, 65000)]
    ctx = {"salt": salt, "host_bits": 8}
    obj = _try(fails, "network/len spellings", ctx, lambda: _fa(salt))
    got = _try(fails, "network/len spellings", ctx, lambda: _run(obj, cidr)) if obj is not None else None
    if got is not None:
        exp = spec_lines(salt, cidr)
        _cmp(fails, "an address written as network/len is not replaced by the image of the address", ctx, cidr, got, exp)
        buf = io.StringIO()
        try:
            obj.anonymizer4.dump_to_file(buf)
            pairs = dict(ln.split("\t") for ln in buf.getvalue().splitlines())
            for ln_in, ln_out in zip(cidr[:5], got[:5]):
                a = [t for t in ln_in.replace("/", " ").split() if t.count(".") == 3][0]
                b = [t for t in ln_out.replace("/", " ").split() if t.count(".") == 3][0]
                if a in pairs and pairs[a] != b:
                    fails.append(dict(ctx, kind="the dumped map lists another replacement than the one written to the output", line=ln_in,
                                      output=ln_out, map_line="%s\t%s" % (a, pairs[a])))
                elif a not in pairs and a != b:
                    fails.append(dict(ctx, kind="a replaced address has no line in the dumped map", line=ln_in, output=ln_out))
        except Exception as e:  # noqa
            fails.append(dict(ctx, kind="dump_to_file raised", exc=repr(e)))
    res.evaluations += len(cidr)
    res.nt(("scn", "cidr"))

    # ---- F. IPv6 values below 2^32: anonymize, then undo with a fresh anonymizer; whole-address preservation
    small = ["::ffff:c0a8:101", "::ffff:0:c0a8:101", "64:ff9b::c0a8:101", "::ffff:a01:203", "::5", "::1:2", "::ffff", "::1:0:0", "::%x" % rng.randint(1, 65535), "::%x:%x" % (rng.randint(1, 65535), rng.randint(0, 65535))]
    ls = ["set address %s" % a for a in small] + ["set address dead:beef::cafe", "neighbor fe::ab up", "peer dead:beef::caf", "ipv6 route ::/0 ::1", "via :: dev x",
                                                     "set address 2001:DB8:0:0:0:0:0:1", "set address FE80:0000:0000:0000:0202:B3FF:FE1E:8329"]
    small = small + ["dead:beef::cafe", "fe::ab", "dead:beef::caf", None, None, "2001:db8::1", "fe80::202:b3ff:fe1e:8329"]
    ctx = {"salt": salt}
    got = _try(fails, "small IPv6 values", ctx, lambda: _run(_fa(salt), ls))
    if got is not None:
        _cmp(fails, "an IPv6 address with a small value is not replaced by the canonical text of its image", ctx, ls, got, spec_lines(salt, ls))
        back = _try(fails, "small IPv6 values, undo", ctx, lambda: _run(_fa(salt, undo=True), got))
        if back is not None:
            exp_back = spec_lines(salt, got, undo=True)
            _cmp(fails, "undo does not return an IPv6 address (small value, hex letters only, unspecified address) in canonical IPv6 spelling", ctx, got, back, exp_back)
            for l0, b0, a in zip(ls, back, small):
                if a is not None and next((t_ for t_ in b0.split() if ":" in t_), None) != str(ipaddress.IPv6Address(a)):
                    fails.append(dict(ctx, kind="anonymize then undo does not give the canonical spelling of the IPv6 address", line=l0, undone=b0))
                    break
    for b6 in (128, 127, 96):
        got = _try(fails, "IPv6 host bits %d" % b6, ctx, lambda: _run(_fa(salt, b6=b6), ls))
        if got is not None:
            _cmp(fails, "IPv6 addresses with %d preserved host bits" % b6, dict(ctx, host_bits_v6=b6), ls, got, spec_lines(salt, ls, b6=b6))
    res.evaluations += 5 * len(ls)
    res.nt(("scn", "small6"))

    # ---- G. undo of a mask value on an object that has itself produced that value as an image
    from netconan.ip_anonymization import IpAnonymizer, anonymize_ip_addr
    c4d = ipgen.Cfg(4, salt, 8, None, None, "md5")
    masks = [0xFFFFFF00, 0xFFFF0000, 0x000000FF, 0xFFFFFFFC]
    pre = spec_images(c4d, masks, inv=True) or []
    for mk, x in zip(masks, pre):
        ctx = {"salt": salt, "mask_value": v4(mk), "address_with_that_image": v4(x)}

        def step():
            ob = IpAnonymizer(salt, preserve_suffix=8)
            a = anonymize_ip_addr(ob, "ntp server %s" % v4(x), False)
            b = anonymize_ip_addr(ob, "ip address 10.1.2.3 %s" % v4(mk), True)
            return a, b
        r = _try(fails, "mask after its pre-image", ctx, step)
        res.evaluations += 2
        if r is not None:
            exp_b = spec_lines(salt, ["ip address 10.1.2.3 %s" % v4(mk)], undo=True)[0]
            if r[1] != exp_b:
                fails.append(dict(ctx, kind="a netmask-shaped value is rewritten by undo on an anonymizer that produced it as an image earlier",
                                  history=["anonymize 'ntp server %s' -> %r" % (v4(x), r[0])], line="ip address 10.1.2.3 %s" % v4(mk),
                                  output=r[1], expected=exp_b))
    # ... and a netmask-shaped value together with the address mapped onto it in one run, in both orders
    for order in (0, 1):
        ls = []
        for mk, x in zip(masks, pre):
            pair = ["ip address 10.1.2.3 %s" % v4(mk), "ntp server %s" % v4(x)]
            ls += pair if order == 0 else pair[::-1]
        ctx = {"salt": salt, "order": "mask first" if order == 0 else "pre-image first"}
        got = _try(fails, "a netmask-shaped value and the address mapped onto it in one run", ctx, lambda: _run(_fa(salt), ls))
        res.evaluations += len(ls)
        if got is not None:
            _cmp(fails, "a netmask-shaped value and the address mapped onto it in one run", ctx, ls, got, spec_lines(salt, ls))
    res.nt(("scn", "mask-undo"))

    # ---- H. command line: --preserve-addresses together with --preserve-private-addresses; addresses that would map into the
    #         network if it were not registered as a preserved prefix
    pnet = "%d.%d.0.0/16" % (rng.choice([8, 9, 12]), rng.randint(1, 250))
    pn = ipaddress.ip_network(pnet)
    c_nopin = ipgen.Cfg(4, salt, 8, None, ["10.0.0.0/8", "172.16.0.0/12", "192.168.0.0/16"], "md5")   # as if pnet were not pinned
    ys = [int(pn.network_address) + rng.randint(256, 65000) for _ in range(12)]
    xs = [x for x in (spec_images(c_nopin, ys, inv=True) or []) if ipaddress.IPv4Address(x) not in pn and x not in SPEC_MASKS]
    body = "".join("ip host %s\n" % v4(x) for x in xs) + "ip host %s\nip host 10.9.8.7\n" % v4(ys[0])
    argv = ["-a", "-s", salt, "--preserve-addresses", pnet, "--preserve-private-addresses"]
    ctx = {"argv": argv, "input": body}
    st, outs, _ = run_cli(argv, {"a.cfg": body})
    res.evaluations += len(xs) + 2
    if st != "ok" or "a.cfg" not in outs:
        fails.append(dict(ctx, kind="command line run failed", status=st))
    else:
        allnets = [pnet, "10.0.0.0/8", "172.16.0.0/12", "192.168.0.0/16"]
        ls = body.split("\n")[:-1]
        got = outs["a.cfg"].split("\n")[:-1]
        for ln, g in zip(ls, got):
            try:
                a_in, a_out = ipaddress.IPv4Address(ln.split()[-1]), ipaddress.IPv4Address(g.split()[-1])
            except Exception:  # noqa
                continue
            if a_in not in pn and a_out in pn:
                fails.append(dict(ctx, kind="an address outside a preserved network is mapped into it", line=ln, output=g, preserved_network=pnet))
                break
        _cmp(fails, "command line with --preserve-addresses and --preserve-private-addresses", ctx, ls, got, spec_lines(salt, ls, nets=allnets))
    res.nt(("scn", "cli-private"))

    # ---- I. option lists shared between constructions (library use): a later anonymizer is the function of its own arguments
    shared_p = ["10.0.0.0/8", "128.0.0.0/2"]
    shared_n = [net]
    keep_p, keep_n = list(shared_p), list(shared_n)
    from netconan.anonymize_files import FileAnonymizer
    ls = ["ip address %s" % v4(a) for a in [n0 + 9, n0 + 300, n0 ^ (1 << 20), rnd(), (10 << 24) + 7, (130 << 24) + 99999]]
    ctx = {"salt": salt, "preserve_prefixes": keep_p, "preserve_addresses(first anonymizer only)": keep_n}

    def shared():
        FileAnonymizer(anon_pwd=False, anon_ip=True, salt=salt, preserve_prefixes=shared_p, preserve_networks=shared_n, preserve_suffix_v4=8)
        IpAnonymizer(salt, shared_p, shared_n, preserve_suffix=8)
        later = FileAnonymizer(anon_pwd=False, anon_ip=True, salt=salt, preserve_prefixes=shared_p, preserve_networks=None, preserve_suffix_v4=8)
        return _run(later, ls)

    def late_bound():
        lp, ln_ = list(keep_p), [net]
        obj = FileAnonymizer(anon_pwd=False, anon_ip=True, salt=salt, preserve_prefixes=lp, preserve_networks=ln_, preserve_suffix_v4=8)
        lp.append("150.0.0.0/8")          # the caller goes on using its lists (e.g. to build another anonymizer)
        del ln_[:]
        ln_.append("20.0.0.0/8")
        return _run(obj, ls + ["ip address 20.1.2.3", "ip address 150.20.1.1"])
    got_lb = _try(fails, "option lists changed by the caller after construction", ctx, late_bound)
    res.evaluations += len(ls) + 2
    if got_lb is not None:
        ls_lb = ls + ["ip address 20.1.2.3", "ip address 150.20.1.1"]
        _cmp(fails, "an anonymizer follows later changes of the list objects it was constructed with instead of the values it was given",
             ctx, ls_lb, got_lb, spec_lines(salt, ls_lb, prefixes=keep_p, nets=[net]))
    got = _try(fails, "shared option lists", ctx, shared)
    res.evaluations += len(ls)
    if got is not None:
        _cmp(fails, "an anonymizer built from a list object that an earlier anonymizer also received does not compute the map of its own arguments",
             ctx, ls, got, spec_lines(salt, ls, prefixes=keep_p, nets=None))
        if shared_p != keep_p or shared_n != keep_n:
            fails.append(dict(ctx, kind="the caller's option lists were modified", lists_after=[shared_p, shared_n]))
    res.nt(("scn", "shared"))

    # ---- J. lines that are below a power of two in length and above it once anonymized: anonymize, then undo (fresh)
    for bound in ((4096, 8192, 65536) if tier == "quick" else (1024, 2048, 4096, 8192, 16384, 32768, 65536, 131072)):
        toks, ln = [], 0
        while ln + 9 < bound - rng.randint(1, 40):
            t = "%d.%d.%d.%d" % (rng.choice([7, 9, 5]), rng.randint(1, 9), rng.randint(1, 9), rng.randint(1, 9))
            toks.append(t)
            ln += len(t) + 1
        line = " ".join(toks)
        ctx = {"salt": salt, "line_length": len(line), "boundary": bound}
        got = _try(fails, "growing line", ctx, lambda: _run(_fa(salt), [line]))
        res.evaluations += 2
        if got is None:
            continue
        _cmp(fails, "a long line is not handled like a short one", ctx, [line], got, spec_lines(salt, [line]))
        back = _try(fails, "growing line, undo", ctx, lambda: _run(_fa(salt, undo=True), got))
        if back is not None:
            exp_b = spec_lines(salt, got, undo=True)
            _cmp(fails, "undo of an anonymized line (%d characters, original %d) does not restore its addresses" % (len(got[0]), len(line)),
                 dict(ctx, anonymized_length=len(got[0])), got, back, exp_b)
    res.nt(("scn", "growing"))

    # ---- M. a line that the secret stage scrubs from a keyword onward: addresses in front of the keyword are still replaced
    from netconan.anonymize_files import FileAnonymizer as _FA
    scr = ["ntp server %s key-string 7 0822455D0A16" % v4(rnd()), "peer 2001:db8:85a3::%x key-string 7 13061E010803" % rng.randint(1, 9999),
           "neighbor %s cable shared-secret 7 0822455D0A16" % v4(rnd()), "router ospf 1 area %s message-digest-key 1 md5 encrypted 13061E010803" % v4(rnd())]
    ctx = {"salt": salt, "features": "passwords and addresses"}

    def scrub():
        o_ = io.StringIO()
        _FA(anon_pwd=True, anon_ip=True, salt=salt, preserve_suffix_v4=8, preserve_suffix_v6=8).anonymize_io(io.StringIO("".join(x + "\n" for x in scr)), o_)
        return o_.getvalue().split("\n")[:-1]
    got = _try(fails, "scrubbed lines", ctx, scrub)
    res.evaluations += len(scr)
    if got is not None:
        exp_ = spec_lines(salt, scr)
        for ln, g, e in zip(scr, got, exp_):
            k = min(i for i in (ln.find(" key-string"), ln.find(" cable shared-secret"), ln.find(" message-digest-key")) if i >= 0)
            ke = e.find(" key-string") if " key-string" in e else e.find(" cable shared-secret") if " cable" in e else e.find(" message-digest-key")
            if not g.startswith(e[:ke]):
                fails.append(dict(ctx, kind="an address in front of a scrubbed secret is not replaced by the image of the address", line=ln, output=g,
                                  expected_start=e[:ke]))
    res.nt(("scn", "scrub"))

    # ---- N. a second anonymizer with the same salt and options in this process: its own map lists what it replaced
    shared_lines = ["ntp server 151.101.1.67", "ip address %s" % v4(rnd()), "ip address %s" % v4(rnd())]
    ctx = {"salt": salt, "earlier": "another FileAnonymizer with the same salt and options processed the same lines"}

    def second_map():
        _run(_fa(salt), shared_lines)
        ob2 = _fa(salt)
        out2 = _run(ob2, shared_lines + ["ip address %s" % v4(rnd())])
        b_ = io.StringIO()
        ob2.anonymizer4.dump_to_file(b_)
        return out2, dict(x.split("\t") for x in b_.getvalue().splitlines() if "\t" in x)
    r2 = _try(fails, "map of a second anonymizer", ctx, second_map)
    res.evaluations += len(shared_lines)
    if r2 is not None:
        for ln, g in zip(shared_lines, r2[0]):
            a_, b_ = ln.split()[-1], g.split()[-1]
            if a_ != b_ and r2[1].get(a_) != b_:
                fails.append(dict(ctx, kind="an address replaced in the output has no line (or another replacement) in the map of the anonymizer that replaced it",
                                  line=ln, output=g, map_entry=r2[1].get(a_)))
    res.nt(("scn", "second-map"))

    # ---- O. command line: a salt with blanks, tabs or quotes at its ends is used as it stands (output and map)
    for cs in ("pepper ", " lead", "tab\t", " ", "lab\"", "'q'"):
        body = "".join("ip host %s\n" % v4(rnd()) for _ in range(4))
        st, outs, dump = run_cli(["-a", "-s", cs], {"a.cfg": body}, want_dump=True)
        res.evaluations += 4
        ctx = {"argv": ["-a", "-s", cs, "-d", "<map>"], "input": body}
        if st != "ok" or "a.cfg" not in outs:
            fails.append(dict(ctx, kind="command line run failed", status=st))
            continue
        ls_ = body.split("\n")[:-1]
        _cmp(fails, "command line: the mapping is not the one of the salt that was given (blanks / quotes at its ends)", ctx, ls_,
             outs["a.cfg"].split("\n")[:-1], spec_lines(cs, ls_))
        if dump is not None:
            want = dict((l.split()[-1], e.split()[-1]) for l, e in zip(ls_, spec_lines(cs, ls_)))
            got_d = dict(x.split("\t") for x in dump.splitlines() if "\t" in x)
            bad = [(k, v, got_d.get(k)) for k, v in want.items() if k != v and got_d.get(k) != v]
            if bad:
                fails.append(dict(ctx, kind="command line: a pair in the dumped map disagrees with the mapping of the salt that was given", pairs=bad[:3]))
    res.nt(("scn", "cli-salt"))

    # ---- P. replacement is by position, not by text: an address that is a piece of another token of the same line (of a mask,
    #         of a preserved address, of the replacement just written) is handled on its own
    c4p = ipgen.Cfg(4, salt, 8, None, None, "md5")
    seeds_ = [rnd() for _ in range(6)]
    imgs_ = spec_images(c4p, seeds_) or []
    plines = ["ip route 5.0.0.0 255.0.0.0 Null0", "ip route 55.255.255.0 255.255.255.0", "permit 0.0.0.25 0.0.0.255", "permit 92.168.1.10 192.168.1.10",
              "ip route 5.0.0.0 255.0.0.0 5.0.0.0 55.0.0.0"]
    for a_, i_ in zip(seeds_, imgs_):
        tail = v4(i_)[1:]
        try:
            ipaddress.IPv4Address(tail)
        except Exception:  # noqa
            continue
        plines += ["permit %s %s end" % (v4(a_), tail), "permit %s %s end" % (tail, v4(a_))]
    for nets_ in (None, ["10.0.0.0/8", "172.16.0.0/12", "192.168.0.0/16"]):
        ctx = {"salt": salt, "preserve_addresses": nets_}
        got = _try(fails, "addresses that are pieces of other tokens", ctx, lambda: _run(_fa(salt, nets=nets_), plines))
        res.evaluations += len(plines)
        if got is not None:
            _cmp(fails, "an address whose text is a piece of another token on the line (mask, preserved address, a replacement) is not handled on its own",
                 ctx, plines, got, spec_lines(salt, plines, nets=nets_), limit=2)
    res.nt(("scn", "pieces"))

    # ---- L. the empty string is a salt like any other: two anonymizers built with it agree, and compute its map
    ls = ["ip address %s" % v4(rnd()) for _ in range(5)] + ["set address 2001:db8::%x" % rng.randint(1, 9999)]
    ctx = {"salt": ""}
    g1 = _try(fails, "empty salt", ctx, lambda: _run(_fa(""), ls))
    g2 = _try(fails, "empty salt", ctx, lambda: _run(_fa(""), ls))
    res.evaluations += 2 * len(ls)
    if g1 is not None and g2 is not None:
        if g1 != g2:
            fails.append(dict(ctx, kind="two anonymizers built with the empty salt map the same addresses differently", lines=ls, first=g1, second=g2))
        _cmp(fails, "an anonymizer built with the empty salt does not compute the map of that salt", ctx, ls, g1, spec_lines("", ls))
    res.nt(("scn", "empty-salt"))

    # ---- K. IPv6 entries in the lists of the IPv4 anonymizer
    v6net = "2001:db8:%x::/48" % rng.randint(1, 65000)
    ls = ["set address 2001:db8:%s::1" % v6net.split(":")[2], "set address 2001:db8:ffff::%x" % rng.randint(1, 999),
          "ip address %s" % v4((10 << 24) + rng.getrandbits(24)), "ip address %s" % v4(n0 + 77), "ip address %s" % v4(rnd())]
    for v in (dict(prefixes=None, nets=[v6net, net]), dict(prefixes=[v6net, "10.1.0.0/16", net], nets=None),
              dict(prefixes=["10.1.0.0/16", v6net, net], nets=None)):
        ctx = {"salt": salt, "options": v}
        got = _try(fails, "IPv6 entry in an IPv4 list", ctx, lambda: _run(_fa(salt, **v), ls))
        res.evaluations += len(ls)
        if got is not None:
            _cmp(fails, "an IPv6 entry in the preserved lists changes how other entries or other addresses are treated", ctx, ls, got,
                 spec_lines(salt, ls, **v))
    res.nt(("scn", "v6-entries"))

    # ---- Q1. a preserved block that starts at the same address as a shorter preserved prefix: the addresses which the
    #          implementation itself (cold) names as pre-images of members of the block, through a file run
    for nets_ in (["10.0.0.0/24"], ["172.16.0.0/16", "192.168.0.0/24"], ["10.0.0.0/8", "10.0.0.0/16", "10.0.0.0/30"]):
        for b4 in (0, 8):
            ys = []
            for n in _v4nets(nets_):
                ys += [int(n.network_address) + k for k in (0, 5, 77 % n.num_addresses, n.num_addresses - 1)]
            xs = []
            for y in ys:
                try:
                    xs.append(int(IpAnonymizer(salt, None, list(nets_), preserve_suffix=b4).deanonymize(y)))
                except Exception:  # noqa
                    pass
            ls = ["ip host %s" % v4(a) for a in xs + ys if 0 <= a < 2 ** 32]
            ctx = {"salt": salt, "preserve_addresses": nets_, "host_bits": b4}
            got = _try(fails, "block with the base address of a shorter prefix", ctx, lambda: _run(_fa(salt, nets=nets_, b4=b4), ls))
            res.evaluations += len(ls)
            if got is not None:
                _cmp(fails, "an address is mapped onto a member of a preserved block that starts at the base address of a shorter preserved prefix",
                     ctx, ls, got, spec_lines(salt, ls, nets=nets_, b4=b4))
    # ... and through anonymize_files with an entry listed twice: candidates are the pre-images that an anonymizer *without* the networks names
    import tempfile as _tfq
    import shutil as _shq
    from netconan.anonymize_files import anonymize_files as _afq
    for nets_ in (["64.0.0.0/3", "100.64.0.0/10", "64.0.0.0/3"], [net, "44.0.0.0/8", net]):
        ys = []
        for n in _v4nets(nets_):
            ys += [int(n.network_address) + k for k in (3, 77, n.num_addresses // 2 + 1)]
        xs = []
        for y in ys:
            try:
                xs.append(int(IpAnonymizer(salt, None, None, preserve_suffix=8).deanonymize(y)))
            except Exception:  # noqa
                pass
        ls = ["ip host %s" % v4(a) for a in xs + ys if 0 <= a < 2 ** 32]
        dq = _tfq.mkdtemp(prefix="ncverif_")
        ctx = {"salt": salt, "preserve_addresses": nets_, "entry_point": "anonymize_files"}
        try:
            open(os.path.join(dq, "in.cfg"), "w").write("".join(x + "\n" for x in ls))
            _afq(os.path.join(dq, "in.cfg"), os.path.join(dq, "out.cfg"), False, True, salt=salt, preserve_networks=list(nets_), preserve_suffix_v4=8, preserve_suffix_v6=8)
            got = open(os.path.join(dq, "out.cfg")).read().split("\n")[:-1]
            res.evaluations += len(ls)
            _cmp(fails, "an address is mapped into a preserved network (file-level run, a network listed twice)", ctx, ls, got, spec_lines(salt, ls, nets=nets_))
        except Exception as e:  # noqa
            fails.append(dict(ctx, kind="anonymize_files raised", exc=repr(e)[:200]))
        finally:
            _shq.rmtree(dq, ignore_errors=True)
    res.nt(("scn", "same-base"))

    # ---- Q2. the map is written out between requests (library use): what comes afterwards is still the function of salt and options
    hosts = [(rng.choice([100, 23, 150]) << 24) + (rng.randint(1, 200) << 16) + (rng.randint(1, 200) << 8) + 2 * rng.randint(2, 120) for _ in range(6)]
    nets_ = ["%s/32" % v4(h) for h in hosts]
    for b4 in (0, 8):
        ctx = {"salt": salt, "preserve_addresses": nets_, "host_bits": b4, "history": "some lines, dump_to_file, then the lines shown"}

        def dumped_between():
            ob = _fa(salt, nets=nets_, b4=b4)
            _run(ob, ["ntp server %s" % v4(rnd()), "ntp server %s" % v4(hosts[0])])
            ob.anonymizer4.dump_to_file(io.StringIO())
            ob.anonymizer6.dump_to_file(io.StringIO())
            return _run(ob, ls_q2)
        ls_q2 = ["ip host %s" % v4(h ^ 1) for h in hosts] + ["ip host %s" % v4(h) for h in hosts] + ["ip host %s" % v4(rnd())]
        got = _try(fails, "dump between requests", ctx, dumped_between)
        res.evaluations += len(ls_q2)
        if got is not None:
            _cmp(fails, "after dump_to_file the anonymizer no longer computes the map of its salt and options", ctx, ls_q2, got,
                 spec_lines(salt, ls_q2, nets=nets_, b4=b4))
    res.nt(("scn", "dump-between"))

    # ---- Q3. the same anonymizer object used from another thread, copied, or pickled and restored: still the map of its salt and options
    import copy as _copy
    import pickle as _pickle
    import threading as _threading
    cq = ipgen.Cfg(4, salt, 8, None, [net], "md5")
    aq = [n0 + 5, n0 + 300, n0 + 65000, n0 - 3, n0 ^ (1 << 17), rnd(), rnd(), (10 << 24) + 0x10203, (192 << 24) + (168 << 16) + 77]
    aq = [a for a in aq if 0 <= a < 2 ** 32]
    want = spec_images(cq, aq)
    if want:
        def mk():
            return IpAnonymizer(salt, None, [net], preserve_suffix=8)

        def via_thread():
            ob, box = mk(), {}

            def work():
                try:
                    box["r"] = [int(ob.anonymize(a)) for a in aq]
                except Exception as e:  # noqa
                    box["e"] = e
            t = _threading.Thread(target=work)
            t.start()
            t.join()
            if "e" in box:
                raise box["e"]
            return box["r"]
        routes = [("used from a second thread", via_thread)]
        for nm, clone in (("copy.deepcopy", _copy.deepcopy), ("pickle round trip", lambda o: _pickle.loads(_pickle.dumps(o)))):
            try:
                cl = clone(mk())
            except Exception:  # noqa
                continue                       # the object cannot be copied this way at all: nothing to compare
            routes.append((nm, lambda cl=cl: [int(cl.anonymize(a)) for a in aq]))
        for nm, fn in routes:
            ctx = {"salt": salt, "preserve_addresses": [net], "object": nm}
            got = _try(fails, "anonymizer object %s" % nm, ctx, fn)
            res.evaluations += len(aq)
            if got is not None and list(got) != list(want):
                i = next(i for i in range(len(aq)) if got[i] != want[i])
                fails.append(dict(ctx, kind="an IpAnonymizer %s does not compute the map of its salt and options" % nm, address=v4(aq[i]),
                                  image=v4(got[i]), expected=v4(want[i])))
    res.nt(("scn", "transport"))
    return [], fails
