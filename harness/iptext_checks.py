"""C06: address substitution in text.  Correspondence (anonymize_ip_addr vs the Lean engine on the pinned
patterns) and the property oracle (an independent token scanner + the cache-free map)."""
import ipaddress
import itertools

from . import ipgen
from .common import Driver, cps, uncps
from .ip_checks import SPEC_MASKS, Sess, exc_name, spec_images


def ascii_alnum(c):
    return c.isascii() and c.isalnum()


def scan(fam, line):
    """Maximal runs of ASCII letters, digits and '.' (IPv4) / ':' (IPv6) - the property's tokens.
    For IPv6 the run is extended over '.' as well so that dotted-quad tails are seen as one token."""
    tok = (lambda c: ascii_alnum(c) or c == ".") if fam == 4 else (lambda c: ascii_alnum(c) or c in ":.")
    out, i, n = [], 0, len(line)
    while i < n:
        if tok(line[i]):
            j = i
            while j < n and tok(line[j]):
                j += 1
            out.append((True, line[i:j]))
            i = j
        else:
            out.append((False, line[i]))
            i += 1
    return out


def valid4(t):
    ps = t.split(".")
    return len(ps) == 4 and all(p and all(ch in "0123456789" for ch in p) and int(p) <= 255 for p in ps)


def valid6(t):
    if ":" not in t:
        return False
    try:
        ipaddress.IPv6Address(t)
        return True
    except ValueError:
        return False


def v6_subtokens(run):
    """a run over [A-Za-z0-9:.] without ':'-and-'.' mixture is split at '.' into plain IPv6 tokens"""
    return run.split(".")


def expected(fam, line, image, nets):
    """The property's reading of `anonymize_ip_addr`: valid standalone tokens are replaced by the canonical text
    of their image, everything else is copied.  Returns (text, set of signatures of known deviations touched)."""
    out, sigs = [], set()
    for is_tok, t in scan(fam, line):
        if not is_tok:
            out.append(t)
        elif fam == 4:
            if valid4(t):
                a = int(ipaddress.IPv4Address(".".join(str(int(p)) for p in t.split("."))))
                if a in SPEC_MASKS or any(ipaddress.IPv4Address(a) in n for n in nets):
                    out.append(t)
                else:
                    out.append(str(ipaddress.IPv4Address(image(4, a))))
            else:
                out.append(t)
        else:
            if ":" in t and "." in t:
                sigs.add("v6-dotted-tail")
                if valid6(t):
                    out.append(str(ipaddress.IPv6Address(image(6, int(ipaddress.IPv6Address(t))))))
                else:
                    # not one address: the plain sub-tokens delimited by '.' stand on their own
                    out.append(".".join(str(ipaddress.IPv6Address(image(6, int(ipaddress.IPv6Address(s))))) if valid6(s) else s
                                        for s in v6_subtokens(t)))
            elif valid6(t):
                out.append(str(ipaddress.IPv6Address(image(6, int(ipaddress.IPv6Address(t))))))
            else:
                out.append(t)
    return "".join(out), sigs


def gen_strings(rng, tier):
    S4, S6 = [], []
    n = 5 if tier == "thorough" else 4
    for k in range(0, n + 1):
        for t in itertools.product("025.a /", repeat=k):
            S4.append("".join(t))
        for t in itertools.product("1f:g /", repeat=k):
            S6.append("".join(t))
        if k <= n - 1:
            for t in itertools.product("1f:.% ", repeat=k):
                S6.append("".join(t))
    cnt = 6000 if tier == "thorough" else 1500
    for _ in range(cnt):
        s = ".".join(rng.choice(["0", "00", "1", "255", "256", "25", "099", "1234", "249", "01", "a", "", "10", "192", "168"])
                     for _ in range(rng.choice([3, 4, 4, 4, 5])))
        S4.append(rng.choice(["", "x ", " ", "/", ":", "-", ".", "_", "(", "ip "]) + s + rng.choice(["", " ", "/24", ",", ":", "-", "_", ".", ")", "/abc", "/1234"]))
    for _ in range(cnt):
        k = rng.randint(1, 10)
        g = [rng.choice(["", "0", "1", "ffff", "FE80", "12345", "g", "00", "Ab9", "fe80"]) for _ in range(k)]
        s = ":".join(g)
        S6.append(rng.choice(["", "x ", " ", "/", ":", "-", "[", "ip "]) + s + rng.choice(["", " ", "/64", ",", ":", "-", "_", "]", "%eth0", ".", ".1"]))
    # every split shape h::l with h+l <= 7, full form, upper case, with /len
    for hi in range(0, 8):
        for lo in range(0, 8 - hi):
            a = ":".join("%x" % rng.randint(1, 0xFFFF) for _ in range(hi))
            b = ":".join("%x" % rng.randint(1, 0xFFFF) for _ in range(lo))
            s = a + "::" + b
            S6.append("addr " + s + rng.choice(["", "/64", " x"]))
            S6.append(s.upper())
    for _ in range(40):
        s = ":".join("%x" % rng.randint(0, 0xFFFF) for _ in range(8))
        S6 += ["ipv6 address " + s + "/64", s.upper() + ",", "gw" + s, s + "x", s + ":1", "1:" + s,
               "00:1a:2b:3c:4d:5e " + s]
    # dotted-quad tails (known deviation D1) and near misses
    S6 += ["::ffff:1.2.3.4", "2001:db8::192.168.1.1 x", "1:2:3:4:5:6:1.2.3.4", "::1.2.3.4", "64:ff9b::192.0.2.33",
           "fe80::1%eth0 y", "fe80:%x", "fe80::%1", "1::2.x", "::ffff:0:1.2.3.4"]
    # non-ASCII neighbours: only ASCII letters and digits glue a token to its surroundings
    for a in ("10.11.12.13", "198.51.100.7"):
        S4 += ["服务器" + a + "端口", "сервер" + a, "١" + a, a + "é", "ü" + a + " x", "²" + a, a + "٣", "_" + a + "_", "\u00a0" + a + "\u2003"]
    for a in ("2001:db8:aa::17", "fe80::1"):
        S6 += ["服务器" + a + "端口", "сервер" + a, "١" + a, a + "é", "ü" + a + " x", a + "٣", "_" + a + "_"]
    # IPv6 values shaped like prefix masks are addresses like any other (only IPv4 has netmasks that are left alone)
    S6 += ["8000::", "ff00::/8", "ffff:ffff:ffff:ffff::", "ipv6 route ffff:ffff:ffff:ff00::/56 c000::", "FFFF:FFFF::", "fe00::"]
    # the four non-ASCII characters whose case folding is an ASCII letter are delimiters like every other non-ASCII character
    for ch in "\u0130\u0131\u017f\u212a":
        S4 += [ch + "11.22.33.44", "11.22.33.45" + ch, "x " + ch + "11.22.33.46" + ch + " y"]
        S6 += [ch + "2001:db8::1", "2001:db8::2" + ch, "x " + ch + "2001:DB8::3" + ch + " y", ch + "fe80::1"]
    # realistic lines with several tokens
    words = ["ip", "address", "neighbor", "remote-as", "description", "v1.2.3.4.5", "1.2.3", "host11.22.33.44", "11.22.33.44.example.net",
             "255.255.255.0", "0.0.0.255", "10.1.1.1", "010.001.002.003", "300.1.1.1", "1.2.3.4/24", "1.2.3.4/999", "(1.2.3.4)", "1.2.3.4,5.6.7.8",
             "1.2.3.4-1.2.3.9", "ge-0/0/0.100", "00:1a:2b:3c:4d:5e", "2001:db8::1", "2001:DB8::1/64", "[2001:db8::1]:443", "::", "::1", "1::", "2001:db8:0:0:0:0:0:1"]
    for _ in range(cnt // 4):
        S4.append(" ".join(rng.choice(words) for _ in range(rng.randint(1, 6))))
        S6.append(" ".join(rng.choice(words) for _ in range(rng.randint(1, 6))))
    return S4, S6


def scope(res, pid, rng, tier):
    from netconan.ip_anonymization import IpAnonymizer, IpV6Anonymizer, anonymize_ip_addr
    fails = []
    ZEROS = ["10.11.0.00014", "1.2.3.0000014", "10.11.0.00014/24", "000000010.1.2.3", "1.00000.2.000255", "1.2.3.0000256", "9.9.9.00000000000000000009",
             "ip route 1.2.3.000000 0000255.255.255.0"]
    nets = ["10.1.0.0/16"] if rng.random() < 0.5 else None
    c4 = ipgen.Cfg(4, "c06salt", 8, None, nets, "md5")
    c6 = ipgen.Cfg(6, "c06salt", 8, None, None, "md5")
    a4, a6 = c4.build(), c6.build()
    S4, S6 = gen_strings(rng, tier)
    S4 = list(S4) + ZEROS + ["x " + z + " y" for z in ZEROS]
    sess = Sess()
    sess.op(c4.driver_new("t4"), lambda: "ok")
    if nets:
        nn = [ipaddress.ip_network(n) for n in nets]
        sess.op("ipnets t4 " + " ".join("%d/%d" % (int(n.network_address), n.prefixlen) for n in nn), lambda: "ok")
    else:
        nn = []
    sess.op(c6.driver_new("t6"), lambda: "ok")
    undo = False
    rows = []
    for fam, strs, an, oid in ((4, S4, a4, "t4"), (6, S6, a6, "t6")):
        for s in strs:
            r = sess.op("ipline %s pinned 0 %s" % (oid, cps(s)), lambda s=s, an=an: "ok " + cps(anonymize_ip_addr(an, s, False)),
                        {"family": fam, "line": s})
            rows.append((fam, s, r, len(sess.lines) - 1))
    # the arithmetic reading of the IPv4 core language proved in Lean (`lang_core4_iff` / `isQuadB_iff`: four decimal parts
    # <= 255, leading zeros allowed) against CPython's own reading of the core of the pattern, on every token-like piece
    import re
    from netconan import ip_anonymization as _ipa
    core_re = re.compile(r"((0*{o}\.){{3}}0*{o})".format(o=_ipa._IPv4_OCTET_PATTERN))
    pieces = set()
    for s in S4:
        for t in re.findall(r"[0-9.]+", s):
            pieces.add(t)
            pieces.add(t[:-1])
            pieces.add("0" + t)
    pieces |= {"0.0.0.0", "255.255.255.255", "256.1.1.1", "1.2.3", "1.2.3.4.5", "00000.1.2.3", "1.2.3.0255", "1.2.3.0256", "1..2.3", ".1.2.3", "1.2.3.", "",
               "01.02.03.04", "1.2.3.4444", "25.5.2.55", "2555.1.1.1", "0.0.0.00000000000"}
    for t in sorted(pieces):
        sess.op("quad " + cps(t), lambda t=t: "ok %d" % (1 if core_re.fullmatch(t) else 0), {"piece": t})
    # ... and the language `Lang` of both core patterns, decided by the (proved sound and complete) anchored matcher `langB`,
    # against CPython's fullmatch of the core of each pattern: the notion the scanner theorems are stated with
    enc6 = _ipa._IPv6_ENCLOSING
    pat6 = _ipa.IPv6_PATTERN.pattern
    pre6, suf6 = r"(?:(?<=^)|(?<={e}))".format(e=enc6), r"(?={e}|$)".format(e=enc6)
    core6_re = re.compile(pat6[len(pre6): len(pat6) - len(suf6)], re.IGNORECASE) if pat6.startswith(pre6) and pat6.endswith(suf6) else None
    pieces6 = set()
    for s_ in S6:
        for t in re.findall(r"[0-9A-Za-z:.%]+", s_):
            pieces6.add(t)
            pieces6.add(t[:-1])
            pieces6.add(t + ":")
    pieces6 |= {"::", "::1", "1::", "1:2:3:4:5:6:7:8", "1:2:3:4:5:6:7", "1:2:3:4:5:6:7:8:9", "::ffff:1.2.3.4", "fe80::1%eth0", "FE80::A", "12345::", "g::1", ":::",
                "1::2::3", "::1.2.3.4", "1:2:3:4:5:6:1.2.3.4", "::ffff:0:255.255.255.255", ""}
    for t in sorted(pieces6)[: (3000 if tier == "thorough" else 900)]:
        if core6_re is not None and len(t) <= 60:
            sess.op("lang 6 " + cps(t), lambda t=t: "ok %d" % (1 if core6_re.fullmatch(t) else 0), {"piece": t})
    for t in sorted(pieces)[:400]:
        if len(t) <= 40:
            sess.op("lang 4 " + cps(t), lambda t=t: "ok %d" % (1 if core_re.fullmatch(t) else 0), {"piece": t})
    res.count("core_language_pieces", len(pieces))
    res.count("core6_language_pieces", len(pieces6))
    dis = sess.finish()
    res.evaluations += len(rows) + len(pieces)
    res.traces += 2
    # property oracle: independent scanner + cache-free map (asked from the Lean spec in one batch)
    need = {4: set(), 6: set()}

    def collect(f, a):
        need[f].add(a)
        return 0
    for fam, s, r, _ix in rows:
        expected(fam, s, collect, nn)
    imgs = {}
    for f, cfg in ((4, c4), (6, c6)):
        ks = sorted(need[f])
        vs = spec_images(cfg, ks) if ks else []
        imgs[f] = dict(zip(ks, vs))
    for fam, s, r, ix_ in rows:
        exp, sigs = expected(fam, s, lambda f, a: imgs[f][a], nn)
        got = uncps(r[3:]) if r.startswith("ok ") else None
        res.nt(("line", fam, s[:12]))
        res.count("lines_v%d" % fam)
        if got is None:
            fails.append({"kind": "anonymize_ip_addr raised", "family": fam, "line": s, "result": r})
        elif got != exp:
            case = {"kind": "text substitution differs from the token-level reading of the property", "family": fam,
                    "line": s, "output": got, "expected": exp, "preserve_addresses": nets}
            # the recorded finding is the behaviour of the unchanged code, which the model reproduces: only a deviation on which
            # implementation and model agree is that finding - anything else on such a token is a new violation
            if "v6-dotted-tail" in sigs and sess.model[ix_] == r:
                case["signature"] = "v6-dotted-tail"
            fails.append(case)
        elif got != s:
            res.count("lines_changed_v%d" % fam)
    for i in (5, len(sess.lines) // 2, len(sess.lines) - 5):
        res.sample({"op": sess.lines[i], "impl": sess.impl[i], "model": sess.model[i]})
    return dis, fails


def long_line_scope(res, pid, rng, tier):
    """very long lines (a token straddling offsets 8192, 65536, 131072): implementation against the token-level reading;
    addresses, masks and preserved addresses"""
    import io
    from netconan.anonymize_files import FileAnonymizer
    fails = []
    nets = ["10.20.0.0/16"]
    c4 = ipgen.Cfg(4, "longline", 8, None, nets, "md5")
    c6 = ipgen.Cfg(6, "longline", 8, None, None, "md5")
    nn = [ipaddress.ip_network(n) for n in nets]
    fa_ = FileAnonymizer(anon_pwd=False, anon_ip=True, salt="longline", preserve_networks=list(nets), preserve_suffix_v4=8, preserve_suffix_v6=8)
    toks = ["11.22.33.44", "10.20.30.40", "255.255.252.0", "198.51.100.7", "2001:db8:203::d", "2001:db8:0:1:2:3:4:5"]
    lines = []
    offs = (1024, 2048, 4096, 8192, 16384, 32768, 65536, 131072) if tier == "thorough" else (4096, 8192, 65536, 131072)
    for off in offs:
        for ti, t in enumerate(toks):
            for j in (1, len(t) // 2, len(t) - 1):
                lines.append("remark " + "y" * (off - 7 - j - 1) + " " + t + " end " + t)
                if (ti + j + res.seed) % 3 == 0:
                    # the same offset inside a stretch without any white space (comma separated list)
                    k = (off - 7 - j) // 2
                    lines.append("remark " + "y," * k + ("" if (off - 7 - j) % 2 == 0 else ";") + t + ",end," + t)
    need = {4: set(), 6: set()}

    def collect(f, a):
        need[f].add(a)
        return a
    mids = []
    for s_ in lines:
        e6, _ = expected(6, s_, collect, [])
    imgs6 = dict(zip(sorted(need[6]), spec_images(c6, sorted(need[6])) if need[6] else []))
    for s_ in lines:
        e6, sig = expected(6, s_, lambda f, a: imgs6[a], [])
        mids.append(e6)
        expected(4, e6, collect, nn)
    imgs4 = dict(zip(sorted(need[4]), spec_images(c4, sorted(need[4])) if need[4] else []))
    for s_, e6 in zip(lines, mids):
        exp, _ = expected(4, e6, lambda f, a: imgs4[a], nn)
        o = io.StringIO()
        try:
            fa_.anonymize_io(io.StringIO(s_ + "\n"), o)
            got = o.getvalue()
        except Exception as e:  # noqa
            got = "<raised %s>" % type(e).__name__
        res.evaluations += 1
        res.nt(("long", len(s_), s_[-12:]))
        if got != exp + "\n":
            k = next((i for i, (a, b) in enumerate(zip(got, exp + "\n")) if a != b), 0)
            fails.append({"kind": "a very long line is not handled like a short one (token near offset %d)" % k, "line_length": len(s_),
                          "line_tail": s_[-60:], "output_around": got[max(0, k - 30): k + 40], "expected_around": exp[max(0, k - 30): k + 40]})
    return [], fails


def io_scope(res, pid, rng, tier):
    """FileAnonymizer.anonymize_io (IPv6 pass, then IPv4 pass) on lines mixing both families; expected =
    IPv4 reading applied to the IPv6 reading."""
    import io
    from netconan.anonymize_files import FileAnonymizer
    fails, dis = [], []
    c4 = ipgen.Cfg(4, "c06io", 8, None, None, "md5")
    c6 = ipgen.Cfg(6, "c06io", 8, None, None, "md5")
    S4, S6 = gen_strings(rng, "quick")
    lines = [s for s in (S4[-300:] + S6[-500:]) if "\n" not in s and "\r" not in s]
    fa = FileAnonymizer(anon_pwd=False, anon_ip=True, salt="c06io", preserve_suffix_v4=8, preserve_suffix_v6=8)
    out = io.StringIO()
    try:
        fa.anonymize_io(io.StringIO("".join(l + "\n" for l in lines)), out)
    except Exception as e:  # noqa
        return [{"op": "anonymize_io", "impl": "err " + exc_name(e), "model": "ok", "meta": None}], fails
    outs = out.getvalue().split("\n")[:-1]
    if len(outs) != len(lines):
        return [{"op": "anonymize_io", "impl": "%d lines" % len(outs), "model": "%d lines" % len(lines), "meta": None}], fails
    need = {4: set(), 6: set()}

    def collect(f, a):
        need[f].add(a)
        return a
    for s in lines:
        e6, _ = expected(6, s, collect, [])
    imgs6 = dict(zip(sorted(need[6]), spec_images(c6, sorted(need[6])) if need[6] else []))
    mids = []
    for s in lines:
        e6, sig = expected(6, s, lambda f, a: imgs6[a], [])
        mids.append((e6, sig))
        expected(4, e6, collect, [])
    imgs4 = dict(zip(sorted(need[4]), spec_images(c4, sorted(need[4])) if need[4] else []))
    # what the unchanged code does on tokens with a dotted tail (the recorded finding) is what the model does
    from . import fa as _fa
    tw_sess = Sess()
    tw = _fa.FaTwin(tw_sess, _fa.FaCfg(salt="c06io", ip=True, b4=8, b6=8))
    dotted = {}
    for s, (e6, sig) in zip(lines, mids):
        if "v6-dotted-tail" in sig:
            dotted[s] = len(tw_sess.lines)
            tw_sess.op("faline %s %s" % (tw.id, cps(s + "\n")), lambda: None)
    tw_sess.finish(post=_fa.model_out) if dotted else None
    for s, (e6, sig), got in zip(lines, mids, outs):
        exp, _ = expected(4, e6, lambda f, a: imgs4[a], [])
        res.evaluations += 1
        res.nt(("io", s[:12]))
        if got != exp:
            case = {"kind": "anonymize_io output differs from the token-level reading (IPv6 pass, then IPv4 pass)",
                    "line": s, "output": got, "expected": exp}
            if "v6-dotted-tail" in sig and _fa.out_text(tw_sess.model[dotted[s]]) == got + "\n":
                case["signature"] = "v6-dotted-tail"
            fails.append(case)
    return dis, fails
