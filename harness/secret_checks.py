"""C07 / C08 / C09: secret anonymization.  Correspondence of `FileAnonymizer(anon_pwd=True).anonymize_io` with the
Lean model (pinned patterns), and the three property oracles on the implementation's own output."""
import io
import os
import re

from . import fa, lineforms as L
from .common import cps, uncps
from .ip_checks import Sess, exc_name
from .jun_checks import ALPHA, ref_decrypt

SALTS = ["s", "TESTSALT", "", "!x", "Bsalt", "iq", "éa", "7", "Q"]
WRAPS = ["{}", '"{}"', "'{}'", "[{}]", '"{}";', "{},", "{{{}}}", "\\\"{}\\\"", "{};", "[[{}]]", "''{}''", '"{}";;', '"{}"]],', "[{}]]"]


def spec_class(s):
    if re.fullmatch(r"[0-9]+", s):
        return "numeric"
    if re.fullmatch(r"[01][0-9]([0-9a-fA-F]{2})+", s):
        return "type7"
    if re.fullmatch(r"[0-9a-fA-F]+", s):
        return "hex"
    if re.fullmatch(r"\$1\$\S+\$\S+", s):
        return "md5"
    if re.fullmatch(r"\$6\$\S+", s):
        return "sha512"
    if re.fullmatch(r"\$9\$\S+", s):
        return "jun9"
    return "text"


def pseudonym_index(repl, max_n):
    """Decode a replacement to the index N of `netconanRemoved<N>` with independent decoders; None if impossible."""
    from passlib.hash import cisco_type7, md5_crypt, sha512_crypt
    m = re.fullmatch(r"netconanRemoved(\d+)", repl)
    if m:
        return int(m.group(1))
    txt = None
    try:
        c = spec_class(repl)
        if c == "numeric":
            h = "%x" % int(repl)
            txt = bytes.fromhex(h if len(h) % 2 == 0 else "0" + h).decode("ascii")
        elif c == "type7":
            txt = cisco_type7.decode(repl)
        elif c == "hex":
            txt = bytes.fromhex(repl).decode("ascii")
        elif c == "jun9":
            txt = ref_decrypt(repl)
        elif c == "md5":
            for k in range(max_n + 1):
                if md5_crypt.verify("netconanRemoved%d" % k, repl):
                    return k
        elif c == "sha512":
            for k in range(max_n + 1):
                if sha512_crypt.verify("netconanRemoved%d" % k, repl):
                    return k
    except Exception:  # noqa
        return None
    if txt:
        m = re.fullmatch(r"netconanRemoved(\d+)", txt)
        if m:
            return int(m.group(1))
        if spec_class(repl) == "jun9" and spec_class(txt) in ("numeric", "hex", "type7", "md5", "sha512"):
            return pseudonym_index(txt, max_n)      # `$9$` of a clear text that was first seen (and rendered) in another class
    return None


def run_lines(cfg, lines):
    """fresh FileAnonymizer, lines one by one; returns (outputs, log records)"""
    obj = cfg.build()
    outs, logs = [], []
    for ln in lines:
        o = io.StringIO()
        with fa.LogCap() as lc:
            obj.anonymize_io(io.StringIO(ln), o)
        outs.append(o.getvalue())
        logs.append(lc.records)
    return outs, logs


def slot_split(tmpl):
    pre, post = tmpl.split("{}")
    return pre, post


def extract(out_line, tmpl, wrap):
    """the text that replaced the secret, given template and wrapper"""
    wpre, wpost = wrap.split("{}") if wrap != "{{{}}}" else ("{", "}")
    pre, post = slot_split(tmpl)
    pre, post = pre + wpre, wpost + post + "\n"
    if out_line.startswith(pre) and out_line.endswith(post) and len(out_line) >= len(pre) + len(post):
        return out_line[len(pre): len(out_line) - len(post)]
    return None


def gen_history(rng, n, classes=None, pool_size=6, same_plain9=True, nsalts=2, salt0=0, odd_names=False):
    """a run of secret-bearing lines: (template, wrap, secret, class)"""
    pool = []
    for _ in range(pool_size):
        c = rng.choice(classes or list(L.ALLN))
        pool.append((L.gen_secret(rng, c), c))
    if same_plain9 and (classes is None or "jun9" in classes):
        from .jun_checks import ref_encrypt
        while True:
            p = "".join(rng.choice("ghijkmnopqrstuvwxyz") for _ in range(rng.randint(3, 9)))
            if not L.is_reserved(p):          # (a reserved word as secret value is left as it is - C10; not what is generated here)
                break
        for k in range(nsalts):                                             # $9$ encodings of one plaintext, salts cycled
            pool.append((ref_encrypt(p, ALPHA[(salt0 + k) % 65]), "jun9"))
        pool.append((p, "text"))                                            # ... and the clear text itself
        if classes is None or ("numeric" in classes and "hex" in classes):
            p2 = rng.choice(["%08d" % rng.randint(10 ** 6, 10 ** 8 - 1), "".join(rng.choice("abcdef") for _ in range(3)) + "%05d" % rng.randint(0, 99999)])
            for k in range(nsalts):                                         # the same with an all-digit / hexadecimal plaintext
                pool.append((ref_encrypt(p2, ALPHA[(salt0 + 3 * k + 2) % 65]), "jun9"))
            pool.append((p2, spec_class(p2)))
    if same_plain9 and (classes is None or ("sha512" in classes and "jun9" in classes)):
        from .jun_checks import ref_encrypt as _re9
        p6 = L.gen_secret(rng, "sha512")                # a sha512-crypt hash in clear and the `$9$` encodings of that very text
        pool.append((p6, "sha512"))
        for k in range(2):
            pool.append((_re9(p6, ALPHA[(salt0 + 11 * k + 5) % 65]), "jun9"))
    if classes is None or ("type7" in classes and "hex" in classes):
        from passlib.hash import cisco_type7 as _t7
        p3 = rng.choice(["%08d" % rng.randint(10 ** 6, 10 ** 8 - 1), "c0ffee%02d" % rng.randint(0, 99)])
        e3 = next(e for e in (_t7.using(salt=(k + rng.randint(0, 15)) % 16).hash(p3) for k in range(16)) if spec_class(e) == "type7")
        pool += [(e3, "type7"), (p3, spec_class(p3))]           # a type-7 encoding of a string and the string: two secrets
    if odd_names:
        pool.append(("netconanRemoved%d" % rng.randint(0, 3), "text"))      # a secret that looks like a pseudonym
        if classes is None or "hex" in classes:
            hx = "".join(rng.choice("abcdef") for _ in range(4)) + "%04d" % rng.randint(0, 9999)   # distinct secrets equal up to letter case
            pool += [(hx, "hex"), (hx.upper(), "hex"), (hx.capitalize(), "hex")]
        pool.append((rng.choice(["Cisco", "Private", "Monitor", "SYSTEM", "Interface", "Password"]), "text"))   # a reserved keyword in other case is a secret
        if same_plain9 and (classes is None or "jun9" in classes):
            from .jun_checks import ref_encrypt
            lp = "".join(rng.choice("ghijkmnopqrstuvwxyz0123456789") for _ in range(rng.choice([90, 120, 200])))
            for k in range(3):                                              # long secrets (e.g. IKE keys) under several salts
                pool.append((ref_encrypt(lp, ALPHA[(salt0 + 7 * k + 1) % 65]), "jun9"))
        # secrets with a backslash at either end (not part of an escaped quote); only in unquoted slots
        pool.append((rng.choice(["Pa55w0rd", "k3yZ"]) + "%d\\" % rng.randint(0, 99), "textbs"))
        pool.append(("\\" + "c0mm%d" % rng.randint(0, 99), "textbs"))
        if classes is None or "jun9" in classes:
            from .jun_checks import ref_encrypt
            from .jun_checks import lenient_decrypt
            pq = "s3cr" + "".join(rng.choice("ghjkmnpq") for _ in range(3))
            for extra_ in ("", "}", ";", ",", "]", '"', " "):                   # plaintexts that differ only by enclosing characters
                pool.append((ref_encrypt(pq + extra_, rng.choice(ALPHA)), "jun9"))
            full = ref_encrypt("kex" + rng.choice("qjvz") + "z" * rng.randint(0, 3), rng.choice(ALPHA))
            torn = full[:-1]                                                   # a torn `$9$` string is an (undecodable) secret of its own ...
            pool.append((torn, "jun9"))
            try:
                pool.append((ref_encrypt(lenient_decrypt(torn), rng.choice(ALPHA)), "jun9"))   # ... not the secret a sloppy decoder makes of it
            except Exception:  # noqa
                pass
            pool.append(("$9$Be4Ehy_b2GDkevYo", "jun9"))                       # `$9$`-shaped but not decodable (underscore)
            pool.append(("$9$abc", "jun9"))
            hb = rng.choice(ALPHA)
            for ch in ("\xe9", "\xe8", "\xff"):                               # `$9$` plaintexts with bytes >= 0x80 that differ only there
                pool.append((ref_encrypt("caf" + ch + "-key", hb), "jun9"))
        # secrets whose encoded form is very long
        if classes is None or "hex" in classes:
            pool.append((rng.choice("abcdef") + "".join(rng.choice("0123456789abcdef") for _ in range(rng.choice([258, 300, 512]))), "hex"))
        if classes is None or "numeric" in classes:
            pool.append((str(rng.randint(1, 9)) + "".join(rng.choice("0123456789") for _ in range(rng.choice([257, 300]))), "numeric"))
        if classes is None or "type7" in classes:
            from passlib.hash import cisco_type7
            pool.append((cisco_type7.using(salt=rng.randint(0, 15)).hash("".join(rng.choice(L.TEXT_ALPHA) for _ in range(140))), "type7"))
    forms_by_class = {}
    for t, cs in L.FORMS:
        for c in cs:
            forms_by_class.setdefault(c, []).append(t)
    forms_by_class["textbs"] = [t for t in forms_by_class["text"] if '"' not in t and "'" not in t]
    hist = []
    for _ in range(n):
        s, c = rng.choice(pool)
        t = rng.choice(forms_by_class[c])
        if c == "textbs":
            hist.append((t, "{}", s, "text"))
            continue
        quoted = '"{}"' in t
        # clear-text secrets are tried inside every kind of enclosing text; hashes and encoded values as devices write them
        wrap = "{}" if quoted or c != "text" or not t.endswith("{}") else rng.choice(WRAPS if rng.random() < 0.4 else ["{}"])
        hist.append((t, wrap, s, c))
    return hist


def render(h):
    t, wrap, s, c = h
    w = wrap.format(s) if wrap != "{{{}}}" else "{" + s + "}"
    return t.replace("{}", w) + "\n"


# ------------------------------------------------------------------ correspondence

def corr_scope(res, pid, rng, tier):
    sess = Sess()
    rounds = 27 if tier == "thorough" else 9
    for r in range(rounds):
        cfg = fa.FaCfg(salt=SALTS[(r + res.seed) % len(SALTS)], pwd=True,
                       reserved=None if r % 3 else ["Someone", "RemoveMe"])
        t = fa.FaTwin(sess, cfg)
        for h in gen_history(rng, 60 if tier == "thorough" else 35, pool_size=6 if r % 3 else 20, nsalts=4, salt0=4 * r, odd_names=(r % 2 == 0)):
            t.line(render(h))
            res.count("class_" + h[3])
        for tm in L.SCRUB_FORMS + L.AWS_FORMS:
            s = "".join(rng.choice(L.B64) for _ in range(32))
            t.line(("  " if rng.random() < 0.3 else "") + tm.format(s) + "\n")
        # ordinary vocabulary and near misses
        for ln in ["interface GigabitEthernet0/0\n", " description password reset procedure\n", "hostname secret-router\n",
                   "password\n", "\n", "   \n", "key chain K\n", " no password\n", "set community 65000:100 additive\n",
                   "set community internet\n", "set community 100\n", "snmp-server community\n", "enable secret level 15 5\n"]:
            t.line(ln)
        # (the lookup table itself is internal state: compared by nobody - only behaviour counts)
    dis = sess.finish(post=lambda x: fa.model_out(x) if x.startswith("ok ") and x.count(" ") >= 2 else fa.subst_placeholders_reply(x))
    res.evaluations += len(sess.lines)
    res.traces += rounds
    for i in (3, len(sess.lines) // 2):
        res.sample({"op": sess.lines[i][:200], "impl": str(sess.impl[i])[:200], "model": sess.model[i][:200]})
    return dis, []


# ------------------------------------------------------------------ C07

def c07_scope(res, pid, rng, tier):
    """paired runs: same line forms, secrets replaced by other secrets of the same class (and md5 salt length) with
    the same equality pattern -> identical output and identical INFO+ logs; the secret is gone from its position."""
    fails = []
    rounds = 60 if tier == "thorough" else 14
    for r in range(rounds):
        cfg = fa.FaCfg(salt=SALTS[(r + 2 * res.seed) % len(SALTS)], pwd=True, undo=(r % 5 == 4))     # (-p together with -u as well)
        hist = gen_history(rng, 30, same_plain9=False, odd_names=(r % 2 == 1))
        hist = [h for h in hist if not h[2].startswith("netconanRemoved")]
        # second assignment with the same equality pattern
        ren = {}
        for t, w, s, c in hist:
            if s not in ren:
                while True:      # (distinct secrets get distinct new values: a one-character `$9$` plaintext can repeat by chance)
                    if c == "md5":
                        v_ = L.gen_secret(rng, c, md5_salt_len=len(s.split("$")[2]))
                    else:
                        v_ = L.gen_secret(rng, c)
                    if v_ not in ren.values() and v_ not in ren:
                        break
                ren[s] = v_
        hist2 = [(t, w, ren[s], c) for t, w, s, c in hist]
        extra1, extra2 = [], []
        for tm in L.SCRUB_FORMS + L.AWS_FORMS:
            a = "".join(rng.choice(L.B64) for _ in range(32))
            b = "".join(rng.choice(L.B64) for _ in range(32))
            extra1.append(tm.format(a) + "\n")
            extra2.append(tm.format(b) + "\n")
        lines1 = [render(h) for h in hist] + extra1
        lines2 = [render(h) for h in hist2] + extra2
        try:
            o1, g1 = run_lines(cfg, lines1)
            o2, g2 = run_lines(cfg, lines2)
        except Exception as e:  # noqa
            fails.append({"kind": "anonymize_io raised on a recognised line form", "exc": repr(e), "salt": cfg.salt})
            continue
        secrets1 = [h[2] for h in hist] + [None] * len(extra1)
        res.sample({"salt": cfg.salt, "line_with_secret_A": lines1[0], "line_with_secret_B": lines2[0], "output_A": o1[0], "output_B": o2[0]}, limit=3)
        for i, (a, b) in enumerate(zip(o1, o2)):
            res.evaluations += 1
            res.nt(("pair", lines1[i][:24], i if i >= len(hist) else hist[i][3]))
            if a != b or g1[i] != g2[i]:
                fails.append({"kind": "output or INFO+ log depends on the secret's content", "salt": cfg.salt,
                              "line_1": lines1[i], "line_2": lines2[i], "output_1": a, "output_2": b,
                              "logs_1": g1[i], "logs_2": g2[i]})
            s = secrets1[i]
            if s is not None:
                rep = extract(a, hist[i][0], hist[i][1])
                if rep is None and cfg.undo and re.search(r"\d+\.\d+\.\d+\.\d+|::", hist[i][0]):
                    rep = "<address in the template rewritten by the undo stage>"
                if rep is None or rep == s:
                    fails.append({"kind": "the secret's position does not hold a pseudonym", "salt": cfg.salt,
                                  "line": lines1[i], "output": a})
                if len(s) >= 6 and (s in a or any(s in m for _, m in g1[i])):
                    fails.append({"kind": "the secret survives in the output or in an INFO+ log record", "salt": cfg.salt,
                                  "line": lines1[i], "output": a, "logs": g1[i]})
            else:
                sec = lines1[i].strip().split(" ")[-1].strip('"<>/,').split("<")[0]
                body = lines1[i]
                m = re.search(r"[./0-9A-Za-z]{32}", body)
                if m and (m.group(0) in a or any(m.group(0) in x for _, x in g1[i])):
                    fails.append({"kind": "the secret survives in the output or in an INFO+ log record", "salt": cfg.salt,
                                  "line": lines1[i], "output": a, "logs": g1[i]})
    # --- round 6 probes
    # (a) -p together with -w where the listed word is a piece of a keyword of the line form (`pksecret`, `snmp-community`,
    #     `domain-password`, `<pre_shared_key>`): the secret is replaced whatever the word stage does to the keyword
    kw_words = [w for w in ("secret", "communit", "passwor", "shared", "ppp", "authent", "md5", "snmp", "key", "PreShared", "cipher", "ENC")
                if not L.is_reserved(w)]
    cfgw = fa.FaCfg(salt=SALTS[res.seed % len(SALTS)], pwd=True, words=kw_words)
    forms_w = [(t, c) for t, c in L.FORMS if "text" in c] + [(t, ("text32",)) for t in L.AWS_FORMS]
    forms_w += [("set pksecret ENC {}", ("text",)), ("rf-switch snmp-community {}", ("text",)), ("domain-password {}", ("text",)),
                ("ppp pap sent-username bob password 0 {}", ("text",))]
    lines_w, secs_w = [], []
    for t, c in forms_w:
        sv = "".join(rng.choice(L.B64) for _ in range(32)) if "text32" in c else "Zq" + re.sub(r"[^A-Za-z0-9]", "x", L.gen_secret(rng, "text")) + "w7"
        if any(k.lower() in sv.lower() for k in kw_words):
            continue
        lines_w.append(t.format(sv) + "\n")
        secs_w.append(sv)
    try:
        ow, _ = run_lines(cfgw, lines_w)
    except Exception as e:  # noqa
        fails.append({"kind": "anonymize_io raised on a recognised line form", "exc": repr(e), "salt": cfgw.salt, "words": kw_words})
        ow = []
    for ln, sv, out in zip(lines_w, secs_w, ow):
        res.evaluations += 1
        if sv in out:
            fails.append({"kind": "the secret survives in the output or in an INFO+ log record", "salt": cfgw.salt, "sensitive_words": kw_words,
                          "line": ln, "output": out})
    # (b) clear-text secrets that contain `$1$` / `$9$` behind a punctuation character, and two-secret lines with one hash-shaped
    #     secret: the whole value is replaced by one pseudonym (the catch-all patterns come last)
    cfgh = fa.FaCfg(salt=SALTS[(res.seed + 3) % len(SALTS)], pwd=True)
    hv = ["p@$1$w0rdXy", "ab:$9$cdEf12Gh", "k,$1$abcd$efghijkl", "Zx!$9$Qz1F3n6", "q=$1$zz", "(t)$9$aB"]
    forms_h = ["username bob password 0 {}", "snmp-server community {} RO", "enable password {}", " ip ospf authentication-key {}", "isis password {}",
               "tacacs-server key {}", "ip ftp password {}"]
    lines_h = [f_.format(v) + "\n" for f_ in forms_h for v in hv]
    lines_h += ["snmp-server user u1 g1 v3 auth sha %s priv aes 128 %s\n" % (a_, b_) for a_, b_ in
                (("$1$abcd$0123456789abcdefghijkl", "PrivPass77x"), ("AuthPass88y", "$9$Qz1F3n6/9CAtpu0O"), ("Plain1Secretq", "Other2Secretz"))]
    try:
        oh, _ = run_lines(cfgh, lines_h)
    except Exception as e:  # noqa
        fails.append({"kind": "anonymize_io raised on a recognised line form", "exc": repr(e), "salt": cfgh.salt})
        oh = []
    for ln, out in zip(lines_h, oh):
        res.evaluations += 1
        toks_in = set(ln.split())
        for tk in out.split():
            # a piece of a secret next to a pseudonym (`p@netconanRemoved0`), or a secret token kept
            if ("netconanRemoved" in tk and not tk.startswith("netconanRemoved")) or (tk in toks_in and any(tk == v for v in hv)) \
                    or tk in ("PrivPass77x", "AuthPass88y", "Plain1Secretq", "Other2Secretz"):
                fails.append({"kind": "the secret survives in the output or in an INFO+ log record", "salt": cfgh.salt, "line": ln, "output": out,
                              "detail": "a piece of the secret is left next to the pseudonym, or one of two secrets is kept"})
                break
    # (b2) standalone `$1$` / `$9$` tokens that only the catch-all patterns recognise, also malformed ones (salt longer than 8, no second `$`)
    cfgc = fa.FaCfg(salt=SALTS[(res.seed + 1) % len(SALTS)], pwd=True)
    toks = ["$1$abcdefghi$Xw1kQz8fLr3pT0vYb6NcM.", "$1$abcdefghijkl$Xw1kQz8fLr3pT0vYb6NcM.", "$1$nosecondpart", "$1$ab$Xw1kQz8fLr3pT0vYb6NcM.",
            "$9$-tyVs2aZjHqfTz3nCu0-VwYgoJDikmfz", "$9$Be4Ehy-b2GDkevYo"]
    lines_c = [t_ % k_ + "\n" for k_ in toks for t_ in ("my hash is %s", "# previous value was %s before the change", "remark %s")]
    try:
        oc_, _ = run_lines(cfgc, lines_c)
    except Exception as e:  # noqa
        fails.append({"kind": "anonymize_io raised on a recognised line form", "exc": repr(e), "salt": cfgc.salt})
        oc_ = []
    for ln, out in zip(lines_c, oc_):
        res.evaluations += 1
        tk = [t_ for t_ in toks if t_ in ln][0]
        if tk in out or tk[3:].split("$")[-1] in out:
            fails.append({"kind": "the secret survives in the output or in an INFO+ log record", "salt": cfgc.salt, "line": ln, "output": out})
    # (b2') a `$9$` string and the same string without its last character (a torn copy): two different secrets
    from .jun_checks import ref_encrypt as _enc7
    # (six characters: the last group then has four characters of which the last carries the weight 128 - zero for ASCII - so that a decoder
    #  which pairs characters and weights with zip() reads the torn copy as the same plaintext)
    full9 = _enc7("Wint%d" % rng.randint(10, 99), rng.choice(ALPHA))
    l_t = ['secret "%s"\n' % full9, 'secret "%s"\n' % full9[:-1], 'secret "%s"\n' % _enc7("Unre%d" % rng.randint(10, 99), rng.choice(ALPHA)),
           'secret "%s"\n' % _enc7("Othe%d" % rng.randint(10, 99), rng.choice(ALPHA))[:-1]]
    try:
        o_t, _ = run_lines(cfgc, l_t)
        res.evaluations += 4
        r_t = [extract(o_, 'secret "{}"', "{}") for o_ in o_t]
        if None in r_t or len(set(r_t)) != 4:
            fails.append({"kind": "output or INFO+ log depends on the secret's content", "detail": "a `$9$` string and its torn copy are answered like one secret, "
                          "two unrelated strings like two", "salt": cfgc.salt, "lines": l_t, "outputs": o_t})
    except Exception as e:  # noqa
        fails.append({"kind": "anonymize_io raised on a recognised line form", "exc": repr(e), "salt": cfgc.salt})
    # (b3) two directory runs in one process with the same settings: each run is a run of its own (its secrets are numbered from 0, whatever
    #      an earlier run saw)
    import tempfile as _tf2
    import shutil as _sh2
    from netconan.anonymize_files import anonymize_files as _af2
    d2 = _tf2.mkdtemp(prefix="ncverif_")
    try:
        sA, sB = "SiteAsecretQ%d" % rng.randint(10, 99), "SiteBsecretW%d" % rng.randint(10, 99)
        for site, body in (("A", "username x password 0 %s\nusername y password 0 otherAkey77\n" % sA),
                           ("B1", "username z password 0 %s\n" % sA), ("B2", "username z password 0 %s\n" % sB)):
            os.makedirs(os.path.join(d2, site, "in"))
            open(os.path.join(d2, site, "in", "r.cfg"), "w").write(body)
        outs2 = {}
        with fa.LogCap():
            for site in ("A", "B1", "B2"):
                _af2(os.path.join(d2, site, "in"), os.path.join(d2, site, "out"), True, False, salt="sameSalt")
                outs2[site] = open(os.path.join(d2, site, "out", "r.cfg")).read()
        res.evaluations += 3
        if outs2["B1"] != outs2["B2"].replace(sB, sA) or "netconanRemoved0" not in outs2["B1"]:
            fails.append({"kind": "output or INFO+ log depends on the secret's content", "detail": "a later directory run in the same process with the same "
                          "settings gives a secret that an earlier run saw another pseudonym than a secret it did not see",
                          "earlier_run": "username x password 0 %s ..." % sA, "run_with_that_secret": outs2["B1"], "run_with_another_secret": outs2["B2"]})
    except Exception as e:  # noqa
        fails.append({"kind": "anonymize_io raised on a recognised line form", "exc": repr(e), "entry_point": "anonymize_files twice"})
    finally:
        _sh2.rmtree(d2, ignore_errors=True)
    # (c) the file entry points on a text that contains control characters (NUL, BEL, ESC) somewhere: a config is text, every secret goes
    import tempfile
    import shutil
    from netconan.anonymize_files import anonymize_files as _af
    dtmp = tempfile.mkdtemp(prefix="ncverif_")
    try:
        secs = ["Zq%sx7" % re.sub(r"[^A-Za-z0-9]", "k", L.gen_secret(rng, "text")) for _ in range(3)]
        body = "! exported\x00 by tool\n" + "username bob password 0 %s\n" % secs[0] + "snmp-server community %s RO\n" % secs[1] \
            + "banner \x07\x1b[0m\n enable password %s\n" % secs[2]
        for nm, txt in (("nul.cfg", body), ("plain.cfg", body.replace("\x00", ""))):
            os.makedirs(os.path.join(dtmp, "in"), exist_ok=True)
            with open(os.path.join(dtmp, "in", nm), "w", newline="") as f_:
                f_.write(txt)
        with fa.LogCap():
            _af(os.path.join(dtmp, "in"), os.path.join(dtmp, "out"), True, False, salt="s")
        for nm in ("nul.cfg", "plain.cfg"):
            res.evaluations += 1
            try:
                o_ = open(os.path.join(dtmp, "out", nm), newline="").read()
            except OSError:
                o_ = None
            if o_ is None or any(sv in o_ for sv in secs):
                fails.append({"kind": "the secret survives in the output or in an INFO+ log record", "entry_point": "anonymize_files (directory)",
                              "file": nm, "file_text": body if nm == "nul.cfg" else body.replace("\x00", ""), "output": o_})
    except Exception as e:  # noqa
        fails.append({"kind": "anonymize_io raised on a recognised line form", "exc": repr(e), "entry_point": "anonymize_files"})
    finally:
        shutil.rmtree(dtmp, ignore_errors=True)
    # white space other than blank and tab between the keyword and the secret
    sepl = []
    for sp_ in ("\x0c", "\x0b", "\x1c", "\x1e", "\x85", "\xa0", "\u2028", " \x0c ", "\t\x0b"):
        s_ = "Hq" + "".join(rng.choice("ghjkmnpqrstvwxz") for _ in range(9)) + "7"
        for f_ in ("username bob password%s%s", "snmp-server community%s%s RO", "enable secret%s%s"):
            sepl.append((f_ % (sp_, s_), s_))
    try:
        outs_s, logs_s = run_lines(fa.FaCfg(salt=SALTS[res.seed % len(SALTS)], pwd=True), [x[0] + "\n" for x in sepl])
    except Exception as e:  # noqa
        fails.append({"kind": "anonymize_io raised on a recognised line form", "exc": repr(e)})
        outs_s, logs_s = [], []
    for (ln, s_), out, lg in zip(sepl, outs_s, logs_s):
        res.evaluations += 1
        if s_ in out or any(s_ in m for _, m in lg):
            fails.append({"kind": "the secret survives in the output or in an INFO+ log record (white space other than blank / tab before it)",
                          "line": ln, "output": out})
    # communities that merely start with a well-known BGP community name; reserved words of an EARLIER anonymizer
    fa.FaCfg(salt="s", pwd=True, reserved=["Tr0ub4dor-3x", "hunter2x"]).build()
    probes = [("set community %s" % s_, s_) for s_ in ("none-Zk81qPw", "internet.4hGq7", "no-export/s3cr3t", "gshut!x9Y2", "local-AS#k3y", "none.x")]
    probes += [("username bob password %s" % s_, s_) for s_ in ("Tr0ub4dor-3x", "hunter2x")]
    probes += [("snmp-server community %s RO" % s_, s_) for s_ in ("Tr0ub4dor-3x",)]
    try:
        outs_p, logs_p = run_lines(fa.FaCfg(salt=SALTS[res.seed % len(SALTS)], pwd=True), [p_[0] + "\n" for p_ in probes])
    except Exception as e:  # noqa
        fails.append({"kind": "anonymize_io raised on a recognised line form", "exc": repr(e)})
        outs_p, logs_p = [], []
    for (ln, s_), out, lg in zip(probes, outs_p, logs_p):
        res.evaluations += 1
        if s_ in out or any(s_ in m for _, m in lg):
            fails.append({"kind": "the secret survives in the output or in an INFO+ log record", "line": ln, "output": out,
                          "earlier_in_this_process": "an anonymizer with reserved words ['Tr0ub4dor-3x', 'hunter2x'] was constructed"})
    # very long lines: the secret around a multiple of 8192 characters from the start of the line
    for off in (8192, 16384, 65536):
        for shift in (0, 5, 31, 40):
            key_ = "".join(rng.choice(L.B64[2:]) for _ in range(32))
            pad = '{"Description": "' + "x" * (off - 17 - 20 - shift) + '", '
            ln = pad + '"PreSharedKey": "%s", "Tail": 1}' % key_
            com = "Qz" + "".join(rng.choice("ghjkmnpq") for _ in range(12))
            ln2 = "snmp-server " + "y" * (off - 12 - 11 - shift) + " community %s RO" % com
            for line_, sec_ in ((ln, key_), (ln2, com)):
                try:
                    o_, g_ = run_lines(fa.FaCfg(salt="s", pwd=True), [line_ + "\n"])
                except Exception as e:  # noqa
                    fails.append({"kind": "anonymize_io raised on a long line", "exc": repr(e), "line_length": len(line_)})
                    continue
                res.evaluations += 1
                if any(sec_[i:i + 8] in o_[0] for i in range(0, len(sec_) - 7)):
                    k_ = o_[0].find(sec_[:8])
                    fails.append({"kind": "(part of) the secret survives on a very long line", "line_length": len(line_), "secret_offset": line_.find(sec_),
                                  "secret": sec_, "output_around": o_[0][max(0, k_ - 40): k_ + 60]})
    # two secrets recognised by the same line pattern on ONE line: neither may survive (which pseudonym the second one
    # gets is the C08 known finding, not checked here)
    cfg = fa.FaCfg(salt=SALTS[res.seed % len(SALTS)], pwd=True)
    two = []
    for _ in range(6 if tier == "quick" else 20):
        a, b = L.gen_secret(rng, "text"), L.gen_secret(rng, "text")
        a, b = "Qz" + re.sub(r"[^A-Za-z0-9]", "k", a) + "9x", "Wy" + re.sub(r"[^A-Za-z0-9]", "j", b) + "7v"
        k32a, k32b = ("".join(rng.choice(L.B64[2:]) for _ in range(32)) for _ in range(2))
        from .jun_checks import ref_encrypt
        j1, j2 = ref_encrypt("plain" + a[:5], rng.choice(ALPHA)), ref_encrypt("other" + b[:5], rng.choice(ALPHA))
        two += [("username alice password 0 %s username bob password 0 %s\n" % (a, b), a, b),
                ('{"PreSharedKey": "%s"},{"PreSharedKey": "%s"}\n' % (k32a, k32b), k32a, k32b),
                ("<pre_shared_key>%s</pre_shared_key><pre_shared_key>%s</pre_shared_key>\n" % (k32a, k32b), k32a, k32b),
                ('secret "%s"; secret "%s";\n' % (j1, j2), j1, j2)]
        # (two `snmp-server community` statements glued into one line are not a line form: the RANCID pattern's greedy
        #  prefix takes the last one only - observed on the unchanged tree, recorded in DESIGN.md I.6, not probed)
    try:
        outs2, logs2 = run_lines(cfg, [t[0] for t in two])
    except Exception as e:  # noqa
        fails.append({"kind": "anonymize_io raised on a recognised line form", "exc": repr(e), "salt": cfg.salt})
        outs2, logs2 = [], []
    for (ln, a, b), out, lg in zip(two, outs2, logs2):
        res.evaluations += 1
        for s_ in (a, b):
            if s_ in out or any(s_ in m for _, m in lg):
                fails.append({"kind": "a secret survives in the output or in an INFO+ log record (two secrets of one line form on one line)",
                              "salt": cfg.salt, "line": ln, "output": out, "secret": s_})
    # a keyword directly behind a letter that is not an ASCII letter (no blank between them): the secret behind the keyword does not survive
    for ln_, sec_ in (("描述password 0 Alpha!Secret9\n", "Alpha!Secret9"), ("clésecret 0 Xk29fjq1\n", "Xk29fjq1"),
                      ("сетьsnmp-server community Mn77qqrt ro\n", "Mn77qqrt")):
        try:
            on_, lg_ = run_lines(fa.FaCfg(salt="na", pwd=True), [ln_])
        except Exception as e:  # noqa
            fails.append({"kind": "anonymize_io raised on a recognised line form", "exc": repr(e), "salt": "na", "line": ln_})
            continue
        res.evaluations += 1
        if sec_ in on_[0]:
            fails.append({"kind": "a secret survives in the output or in an INFO+ log record (keyword directly behind a non-ASCII letter or digit)", "salt": "na", "line": ln_,
                          "output": on_[0], "secret": sec_})
    # text secrets that Python's int(…, 16) would read as numbers (underscores, 0x, sign) are text secrets like any other: same output
    # as the same line with another text secret
    for a_, b_ in (("dead_beef", "qwer_tyui"), ("0xdeadbeef", "0xqwertyui"), ("+c0ffee11", "+k0ffee11"), ("-1234abcd", "-zzzzabcd"),
                   ("١٢٣٤٥٦٧٨", "klmnopqr")):
        for f_ in ("username x password 0 {}\n", "snmp-server community {} ro\n"):
            try:
                oa_, _ = run_lines(fa.FaCfg(salt="hx", pwd=True), [f_.format(a_)])
                ob_, _ = run_lines(fa.FaCfg(salt="hx", pwd=True), [f_.format(b_)])
            except Exception as e:  # noqa
                fails.append({"kind": "anonymize_io raised on a recognised line form", "exc": repr(e), "salt": "hx", "line": f_.format(a_)})
                continue
            res.evaluations += 2
            if oa_ != ob_:
                fails.append({"kind": "the output depends on the secret: two text secrets in the same line form give different output", "salt": "hx",
                              "line": f_.format(a_), "output": oa_[0], "paired_line": f_.format(b_), "paired_output": ob_[0]})
    # the output is a function of the run, not of what this process did before: a second anonymizer with the same salt and options
    # meets, as its first line, a line that the first anonymizer met later in its input; paired with the same run over a line whose
    # secret differs (same form, same length) - the two outputs must be the same text
    for k_, (f_, sa_, sb_, sc_) in enumerate((("username x password 0 {}\n", "SiteAsecretQ7", "otherAkey7777", "zzzzBkey77777"),
                                              ("snmp-server community {} ro\n", "commAAAA1", "commBBBB2", "commCCCC3"),
                                              (" password 7 {}\n", "0822455D0A16", "13061E010803", "045802150C2E"))):
        salt_ = "p%d-%d" % (k_, res.seed)
        try:
            run_lines(fa.FaCfg(salt=salt_, pwd=True), [f_.format(sa_), f_.format(sb_)])
            o_b, _ = run_lines(fa.FaCfg(salt=salt_, pwd=True), [f_.format(sb_)])
            o_c, _ = run_lines(fa.FaCfg(salt=salt_, pwd=True), [f_.format(sc_)])
        except Exception as e:  # noqa
            fails.append({"kind": "anonymize_io raised on a recognised line form", "exc": repr(e), "salt": salt_})
            continue
        res.evaluations += 4
        if o_b != o_c:
            fails.append({"kind": "the output depends on the secret: a run whose only line was met by an earlier anonymizer of this process (same salt) "
                                  "differs from the run over the same line with another secret",
                          "salt": salt_, "earlier_run": [f_.format(sa_), f_.format(sb_)], "line": f_.format(sb_), "output": o_b[0],
                          "paired_line": f_.format(sc_), "paired_output": o_c[0]})
    return [], fails


def numeric_followed_case():
    cfg = fa.FaCfg(salt="s", pwd=True)
    o1, _ = run_lines(cfg, ["password 12345 foo\n"])
    o2, _ = run_lines(cfg, ["password 99887 foo\n"])
    return o1 != o2


# ------------------------------------------------------------------ C08

def c08_scope(res, pid, rng, tier):
    fails = []
    rounds = 60 if tier == "thorough" else 14
    for r in range(rounds):
        cfg = fa.FaCfg(salt=SALTS[(r + res.seed) % len(SALTS)], pwd=True)
        classes = None if r % 3 else ["text", "hex", "type7", "jun9", "md5", "numeric"]
        big = (r % 4 == 1)
        hist = gen_history(rng, 60 if big else (24 if (classes is None) else 40), classes=classes,
                           pool_size=24 if big else 6, nsalts=6, salt0=6 * r, odd_names=True)
        if big:
            # many all-digit secrets late in a long run (two-digit indices)
            nums = [L.gen_secret(rng, "numeric") for _ in range(14)]
            for k in range(28):
                hist.append((rng.choice(["set password {}", "isis password {}", "domain-password {}"]), "{}", nums[k % 14], "numeric"))
        lines = [render(h) for h in hist]
        try:
            outs, _ = run_lines(cfg, lines)
        except Exception as e:  # noqa
            fails.append({"kind": "anonymize_io raised", "exc": repr(e), "salt": cfg.salt})
            continue
        res.sample({"salt": cfg.salt, "lines": lines[:3], "outputs": outs[:3]}, limit=3)
        seen = {}      # secret key -> index
        used = {}      # index -> secret key
        lit = {}       # secret key -> replacement as written (`$9$` replacements decrypted)
        for (t, w, s, c), ln, out in zip(hist, lines, outs):
            res.evaluations += 1
            rep = extract(out, t, w)
            if rep is None:
                fails.append({"kind": "replacement not found at the secret's position", "line": ln, "output": out, "salt": cfg.salt})
                continue
            idx = pseudonym_index(rep, len(hist))
            if idx is None:
                fails.append({"kind": "replacement is not a decodable pseudonym", "line": ln, "output": out, "salt": cfg.salt})
                continue
            key = s
            if c == "jun9":
                try:
                    key = ref_decrypt(s)        # a $9$ string counts as its plaintext
                except ValueError:
                    key = s
            res.nt(("secret", c, key[:6]))
            if key in seen and seen[key] != idx:
                fails.append({"kind": "equal secrets received different replacements", "salt": cfg.salt, "secret": s,
                              "line": ln, "output": out, "index_now": idx, "index_before": seen[key]})
            if idx in used and used[idx] != key:
                fails.append({"kind": "different secrets received the same replacement", "salt": cfg.salt,
                              "secret": s, "other_secret": used[idx], "line": ln, "output": out, "index": idx})
            seen[key] = idx
            used[idx] = key
            canon = rep
            if spec_class(rep) == "jun9":
                try:
                    canon = ref_decrypt(rep)    # a `$9$` replacement counts as its plaintext
                except ValueError:
                    pass
            if key in lit and lit[key] != canon:
                fails.append({"kind": "equal secrets received different replacements", "salt": cfg.salt, "secret": s, "line": ln, "output": out,
                              "replacement_now": canon, "replacement_before": lit[key]})
            lit.setdefault(key, canon)
        # a second anonymizer with the same salt in the same process: a line it shares with the first run, at another position
        sh = ["Zs%sq%d" % (re.sub(r"[^A-Za-z0-9]", "k", L.gen_secret(rng, "text")), i_) for i_ in range(4)]
        run1 = ["username a password 0 %s\n" % sh[0], "username b password 0 %s\n" % sh[1]]
        run2 = ["username b password 0 %s\n" % sh[1], "username c password 0 %s\n" % sh[2], "username d password 0 %s\n" % sh[3],
                "username b password 0 %s\n" % sh[1]]
        try:
            run_lines(cfg, run1)
            o_2, _ = run_lines(fa.FaCfg(salt=cfg.salt, pwd=True), run2)
        except Exception as e:  # noqa
            fails.append({"kind": "anonymize_io raised", "exc": repr(e), "salt": cfg.salt})
            o_2 = []
        if o_2:
            res.evaluations += len(run2)
            reps = [o_.split(" ")[-1].strip() for o_ in o_2]
            if len(set(reps[:3])) != 3 or reps[0] != reps[3]:
                fails.append({"kind": "different secrets received the same replacement" if len(set(reps[:3])) != 3 else "equal secrets received different replacements",
                              "salt": cfg.salt, "earlier_run_in_this_process_same_salt": run1, "lines": run2, "outputs": o_2})
        # quoted secrets that contain an escaped quote, next to the same text unquoted and to a sibling that differs behind the quote
        q1, q2 = 'pq%d\\"cd' % rng.randint(10, 99), None
        q2 = q1[:-2] + "ef"
        ql = ['set system login user a authentication secret "%s"\n' % q1, 'set system login user b authentication secret "%s"\n' % q2,
              'key "%s"\n' % q1, 'key "%s"\n' % q2, 'set system login user c authentication secret "%s"\n' % q1]
        try:
            oq, _ = run_lines(cfg, ql)
        except Exception as e:  # noqa
            fails.append({"kind": "anonymize_io raised", "exc": repr(e), "salt": cfg.salt, "lines": ql})
            oq = []
        if oq:
            res.evaluations += len(ql)
            rq = [re.findall(r'"([^"]*(?:\\"[^"]*)*)"', o_) for o_ in oq]
            if any('cd' in o_ or 'ef"' in o_ for o_ in oq):
                fails.append({"kind": "equal secrets received different replacements", "salt": cfg.salt, "lines": ql, "outputs": oq,
                              "detail": "a quoted secret that contains an escaped quote is cut at the inner quote: the rest of it stays on the line"})
            elif rq[0] and rq[1] and (rq[0] == rq[1] or rq[0] != rq[4]):
                fails.append({"kind": "different secrets received the same replacement" if rq[0] == rq[1] else "equal secrets received different replacements",
                              "salt": cfg.salt, "lines": ql, "outputs": oq})
        # two `$9$` strings with the same characters behind the salt character and its filler but different salt characters:
        # different plaintexts, hence different secrets (the salt character starts the decoding chain)
        from .jun_checks import ref_encrypt as _enc, FAMILY as _FAM
        payload = lambda e_: e_[4 + 3 - next(i for i, f in enumerate(_FAM) if e_[3] in f):]     # noqa: E731  (behind salt character and filler)
        pairs9 = []
        base = "bc-ospf-key%d" % rng.randint(0, 99)
        i0 = rng.randrange(len(ALPHA))
        for di in range(len(ALPHA)):
            i_ = (i0 + di) % len(ALPHA)
            j_ = (i_ + 1) % len(ALPHA)
            for a_ in "bcdefg":
                e1 = _enc(a_ + base, ALPHA[i_])
                for b_ in "abcdefgh":
                    e2 = _enc(b_ + base, ALPHA[j_])
                    if b_ != a_ and payload(e1) == payload(e2):
                        pairs9.append((e1, e2))
            if len(pairs9) >= 3:
                break
        pairs9 = pairs9[:3]
        # hand-edited `$9$` strings: the last character repeated (a gap of -1) against its successor in the alphabet (a gap of 0) -
        # the reference decoder reads two different clear texts; and two clear texts that differ in a trailing NUL character only
        for sc_ in (ALPHA[(i0 + 7) % len(ALPHA)], "n"):
            eb = _enc("hunter%dpass" % rng.randint(0, 99), sc_)
            for k_ in (1, 2):
                s1_ = eb[:-k_] + eb[-k_ - 1] + eb[len(eb) - k_ + 1:]
                s2_ = eb[:-k_] + ALPHA[(ALPHA.index(eb[-k_ - 1]) + 1) % len(ALPHA)] + eb[len(eb) - k_ + 1:]
                try:
                    if ref_decrypt(s1_) != ref_decrypt(s2_):
                        pairs9.append((s1_, s2_))
                except Exception:  # noqa
                    pass
            pl_ = "Tr%dailing" % rng.randint(0, 99)
            pairs9.append((_enc(pl_, sc_), _enc(pl_ + "\x00", sc_)))
            pairs9.append((_enc(pl_ + "\x00", sc_), _enc(pl_ + "\x00\x00", sc_)))
        # a sha512-crypt hash met in clear, then `$9$` encodings of that very text (two salt characters): one secret, so the `$9$`
        # replacements are encodings of the replacement that the clear form received
        h6_ = L.gen_secret(rng, "sha512")
        l6_ = ["username noc secret sha512 %s\n" % h6_, 'secret "%s"\n' % _enc(h6_, "Q"), 'secret "%s"\n' % _enc(h6_, "n")]
        try:
            o6_, _ = run_lines(cfg, l6_)
            res.evaluations += 3
            r6_ = extract(o6_[0], "username noc secret sha512 {}", "{}")
            d6_ = []
            for o_ in o6_[1:]:
                try:
                    d6_.append(ref_decrypt(extract(o_, 'secret "{}"', "{}")))
                except Exception:  # noqa
                    d6_.append(None)
            if r6_ is None or r6_ == h6_ or d6_ != [r6_, r6_]:
                fails.append({"kind": "equal secrets received different replacements", "salt": cfg.salt, "lines": l6_, "outputs": o6_,
                              "replacement_of_the_clear_form": r6_, "clear_text_of_the_$9$_replacements": d6_})
        except Exception as e:  # noqa
            fails.append({"kind": "anonymize_io raised", "exc": repr(e), "salt": cfg.salt, "lines": l6_})
        # two clear-text secrets that differ in one trailing (or leading) punctuation character are two secrets
        for ch_ in "!#%*?~@+=^&_-/|.:":
            for a_, b_ in (("Winter2024" + ch_, "Winter2024"), (ch_ + "Winter2024", "Winter2024")):
                lp_ = ["username a password 0 %s\n" % a_, "username b password 0 %s\n" % b_]
                try:
                    op_, _ = run_lines(cfg, lp_)
                except Exception as e:  # noqa
                    fails.append({"kind": "anonymize_io raised", "exc": repr(e), "salt": cfg.salt, "lines": lp_})
                    continue
                res.evaluations += 2
                ix_ = [re.search(r"netconanRemoved(\d+)", o_) for o_ in op_]
                if op_[0].split()[-1] == op_[1].split()[-1] or (ix_[0] and ix_[1] and ix_[0].group(1) == ix_[1].group(1)):
                    fails.append({"kind": "different secrets received the same replacement", "salt": cfg.salt, "lines": lp_, "outputs": op_})
        for e1, e2 in pairs9:
            l9 = ['secret "%s"\n' % e1, 'secret "%s"\n' % e2, 'secret "%s"\n' % e1]
            try:
                o9, _ = run_lines(cfg, l9)
            except Exception as e:  # noqa
                fails.append({"kind": "anonymize_io raised", "exc": repr(e), "salt": cfg.salt, "lines": l9})
                continue
            res.evaluations += 3
            r9 = [extract(o_, 'secret "{}"', "{}") for o_ in o9]
            d9 = []
            for r_ in r9:
                try:
                    d9.append(ref_decrypt(r_))
                except Exception:  # noqa
                    d9.append(None)
            if None in d9 or d9[0] == d9[1] or d9[0] != d9[2]:
                fails.append({"kind": "different secrets received the same replacement" if d9[0] == d9[1] else "equal secrets received different replacements",
                              "salt": cfg.salt, "lines": l9, "outputs": o9, "plaintexts": [ref_decrypt(e1), ref_decrypt(e2)]})
        # two different secrets on one line that is handled by a group of two patterns (auth / priv): each gets its own pseudonym,
        # the one it has on every other line
        x_, y_ = "Au7h" + L.gen_secret(rng, "text").strip("-")[:8] + "q", "Pr1v" + L.gen_secret(rng, "text").strip("-")[:8] + "z"
        x_, y_ = re.sub(r"[^A-Za-z0-9]", "k", x_), re.sub(r"[^A-Za-z0-9]", "m", y_)
        two = ["snmp-server community %s RO\n" % x_, "snmp-server user u1 g1 v3 auth sha %s priv aes 128 %s\n" % (x_, y_),
               "snmp-server community %s RW\n" % y_, "snmp-server user u2 g1 v3 auth md5 %s priv des %s\n" % (y_, x_),
               "snmp-server user u3 g1 v3 auth sha %s priv aes 128 %s\n" % (x_, x_)]
        try:
            o2, _ = run_lines(cfg, two)
        except Exception as e:  # noqa
            fails.append({"kind": "anonymize_io raised", "exc": repr(e), "salt": cfg.salt})
            o2 = []
        if o2:
            res.evaluations += len(two)
            rx, ry = o2[0].split()[2], o2[2].split()[2]
            want = [None, (rx, ry), None, (ry, rx), (rx, rx)]
            for ln, out, w_ in zip(two, o2, want):
                if w_ is None:
                    continue
                tk = out.split()
                got = (tk[7], tk[-1]) if len(tk) >= 9 else None
                if rx == ry or got != w_:
                    fails.append({"kind": "equal secrets received different replacements" if rx != ry else "different secrets received the same replacement",
                                  "salt": cfg.salt, "lines": two, "outputs": o2, "line": ln, "output": out,
                                  "replacement_of_first_secret_elsewhere": rx, "replacement_of_second_secret_elsewhere": ry})
                    break
    return [], fails


def c08_dir_scope(res, pid, rng, tier):
    """one run over several files, one of which cannot be processed: replacements stay consistent and collision-free across
    all files of the run"""
    import os
    import shutil
    import tempfile
    from netconan.anonymize_files import anonymize_files
    fails = []
    for r in range(2 if tier == "quick" else 6):
        hist = gen_history(rng, 30, classes=["text", "hex", "type7", "numeric"], pool_size=8)
        lines = [render(h) for h in hist]
        d = tempfile.mkdtemp(prefix="ncverif_")
        try:
            ind, outd = os.path.join(d, "in"), os.path.join(d, "out")
            parts = {"a.cfg": (0, 10), "m/c.cfg": (10, 20), "z.cfg": (20, 30)}
            cr_file = "z.cfg" if r % 2 == 0 else "m/c.cfg"          # one file uses bare carriage returns as line terminators
            for rel, (a, b) in parts.items():
                os.makedirs(os.path.dirname(os.path.join(ind, rel)), exist_ok=True)
                body_ = "".join(lines[a:b])
                open(os.path.join(ind, rel), "w", newline="").write(body_.replace("\n", "\r") if rel == cr_file else body_)
            open(os.path.join(ind, "b-bad.bin"), "wb").write(b"\xff\xfe\x00 \xc3\x28 not text")
            # a file in another encoding: two secrets that differ only in bytes that are not valid UTF-8
            open(os.path.join(ind, "c-latin1.cfg"), "wb").write(b"username a password p\xe4ssw0rdQ\nusername b password p\xdfssw0rdQ\n")
            os.makedirs(os.path.join(ind, "m", "k-dir.cfg"), exist_ok=True)
            os.makedirs(os.path.join(outd, "m", "f-occupied.cfg"))
            open(os.path.join(ind, "m", "f-occupied.cfg"), "w").write("password blockedsecret1\n")
            with fa.LogCap():
                anonymize_files(ind, outd, True, False, salt=SALTS[(r + res.seed) % len(SALTS)])
            order = []
            for root_, _, fs in os.walk(ind):
                for f in fs:
                    order.append(os.path.relpath(os.path.join(root_, f), ind))
            seen, used = {}, {}
            lp = os.path.join(outd, "c-latin1.cfg")
            if os.path.isfile(lp):
                reps_ = [ln_.split()[-1] for ln_ in open(lp, "rb").read().decode("utf-8", "replace").splitlines() if ln_.strip()]
                res.evaluations += 1
                if len(reps_) == 2 and reps_[0] == reps_[1]:
                    fails.append({"kind": "different secrets received the same replacement within one run (file that is not valid UTF-8)",
                                  "file_bytes": "username a password p\\xe4ssw0rdQ / username b password p\\xdfssw0rdQ", "replacements": reps_})
            for rel in order:
                if rel not in parts or not os.path.isfile(os.path.join(outd, rel)):
                    continue
                a, b = parts[rel]
                outs = open(os.path.join(outd, rel), newline="").read().replace("\r", "\n").split("\n")
                for (t, w, s, c), out in zip(hist[a:b], outs):
                    res.evaluations += 1
                    rep = extract(out + "\n", t, w)
                    idx = pseudonym_index(rep, 60) if rep is not None else None
                    if idx is None:
                        fails.append({"kind": "replacement not found / not decodable in a multi-file run", "file": rel, "line": render((t, w, s, c)), "output": out})
                        continue
                    if s in seen and seen[s] != idx:
                        fails.append({"kind": "equal secrets received different replacements within one run (a file failed in between)",
                                      "secret": s, "file": rel, "output": out, "index_now": idx, "index_before": seen[s]})
                    if idx in used and used[idx] != s:
                        fails.append({"kind": "different secrets received the same replacement within one run (a file failed in between)",
                                      "secret": s, "other_secret": used[idx], "file": rel, "output": out, "index": idx})
                    seen[s] = idx
                    used[idx] = s
        finally:
            shutil.rmtree(d, ignore_errors=True)
    # a directory run whose first file holds more than 2^16 distinct secrets: the numbering goes on across the file boundary
    dbig = tempfile.mkdtemp(prefix="ncverif_")
    try:
        nbig = 66000
        os.makedirs(os.path.join(dbig, "in"))
        with open(os.path.join(dbig, "in", "a-big.cfg"), "w") as f_:
            for k_ in range(nbig):
                f_.write("username u%d password 0 Sx%dqZ\n" % (k_, k_))
        os.makedirs(os.path.join(dbig, "in", "z"))        # (files of a sub directory come after the files of the directory itself)
        open(os.path.join(dbig, "in", "z", "b-next.cfg"), "w").write("username again password 0 Sx7qZ\nusername new1 password 0 NewSecretOneQ\nusername new2 password 0 NewSecretTwoQ\n")
        with fa.LogCap():
            anonymize_files(os.path.join(dbig, "in"), os.path.join(dbig, "out"), True, False, salt="big")
        ob = open(os.path.join(dbig, "out", "z", "b-next.cfg")).read().split("\n")[:-1]
        oa = open(os.path.join(dbig, "out", "a-big.cfg")).read().split("\n")[:-1]
        res.evaluations += nbig + 3
        r_again, r_n1, r_n2 = [l_.split(" ")[-1] for l_ in ob]
        ra = [l_.split(" ")[-1] for l_ in oa]
        # (the order in which the two files are processed is the file system's; the checks do not depend on it)
        if r_again != ra[7] or len(set(ra)) != nbig or r_n1 == r_n2 or r_n1 in set(ra) or r_n2 in set(ra):
            fails.append({"kind": "equal secrets received different replacements" if r_again != ra[7] else "different secrets received the same replacement",
                          "detail": "directory run, one file with %d distinct secrets, another file repeats one of them and has two new ones" % nbig,
                          "line_8_of_the_big_file": oa[7], "distinct_replacements_in_the_big_file": len(set(ra)), "other_file_output": ob})
    except Exception as e:  # noqa
        fails.append({"kind": "anonymize_io raised", "exc": repr(e)[:200], "detail": "big directory run"})
    finally:
        shutil.rmtree(dbig, ignore_errors=True)
    return [], fails



def c08_volume_scope(res, pid, rng, tier):
    """a very long run: hundreds of thousands of distinct secrets must receive pairwise distinct replacements (any
    shortened key - a truncated digest, a bounded table - collides by the birthday bound), and a repeated one its own"""
    fails = []
    n = 600000 if tier == "thorough" else 300000
    tag = "".join(rng.choice("GHJKMNPQRSTUVWXYZ") for _ in range(3))
    cfg = fa.FaCfg(salt=SALTS[res.seed % len(SALTS)], pwd=True)
    obj = cfg.build()
    text = "".join("password %s-Key-%d\n" % (tag, i) for i in range(n)) + "".join("password %s-Key-%d\n" % (tag, i) for i in range(0, n, n // 50))
    o = io.StringIO()
    try:
        with fa.LogCap():
            obj.anonymize_io(io.StringIO(text), o)
    except Exception as e:  # noqa
        return [], [{"kind": "anonymize_io raised in a long run", "exc": repr(e), "salt": cfg.salt, "lines": n}]
    outs = o.getvalue().split("\n")
    res.evaluations += n
    res.nt(("volume", n))
    first = {}
    for i in range(n):
        r_ = outs[i]
        if r_ in first:
            fails.append({"kind": "two different secrets receive the same replacement (long run)", "salt": cfg.salt,
                          "line_a": "password %s-Key-%d" % (tag, first[r_]), "line_b": "password %s-Key-%d" % (tag, i), "replacement": r_,
                          "run": "the %d lines 'password %s-Key-<k>', k = 0..%d, in this order" % (n, tag, n - 1)})
            if len(fails) > 3:
                break
        else:
            first[r_] = i
    for j, i in enumerate(range(0, n, n // 50)):
        if n + j < len(outs) and outs[n + j] != outs[i] and len(fails) < 6:
            fails.append({"kind": "a repeated secret receives another replacement (long run)", "salt": cfg.salt,
                          "line": "password %s-Key-%d" % (tag, i), "first": outs[i], "again": outs[n + j]})
    return [], fails


# ------------------------------------------------------------------ re-encodings and their decoders (C08, C09)

def codec_scope(res, pid, rng, tier):
    """the model's re-encodings (`type7`, `hexOf`, `numericOf`) and the decoders their round-trip theorems use
    (`type7Decode`, `unhex`, `decVal`) against passlib / binascii / int – the functions netconan calls, and the
    functions a reader of the output would call"""
    from binascii import b2a_hex, unhexlify
    from passlib.hash import cisco_type7
    from .common import cps
    sess = Sess()
    n = 600 if tier == "thorough" else 150
    texts = ["netconanRemoved%d" % k for k in (0, 1, 9, 10, 99, 100, 12345)] + ["", "a", "\x01x", "~" * 60]
    for _ in range(n):
        ln = rng.choice((1, 2, 5, 17, 25, 53, 54, 80))
        texts.append("".join(chr(rng.randint(1, 127)) for _ in range(rng.randint(1, ln))))
    for t in texts:
        for salt in ({9} | {rng.randint(0, 52)}):
            sess.op("type7 %d %s" % (salt, cps(t)), lambda: "ok " + cps(cisco_type7.using(salt=salt).hash(t)))
            enc = cisco_type7.using(salt=salt).hash(t)
            sess.op("t7dec " + cps(enc), lambda: "ok " + cps(cisco_type7.decode(enc)))
        sess.op("hexof " + cps(t), lambda: "ok " + cps(b2a_hex(t.encode()).decode()))
        h = b2a_hex(t.encode()).decode()
        sess.op("unhex " + cps(h), lambda: "ok " + cps(unhexlify(h).decode("latin-1")))
        if t:
            sess.op("numericof " + cps(t), lambda: "ok " + cps(str(int(b2a_hex(t.encode()), 16))))
            d = str(int(b2a_hex(t.encode()), 16))
            sess.op("decval " + cps(d), lambda: "ok %d" % int(d))
        res.count("codec_text_len_%s" % (len(t) if len(t) < 3 else "3-20" if len(t) <= 20 else ">20"))
    dis = sess.finish()
    res.evaluations += len(sess.lines)
    res.traces += 1
    return dis, []

# ------------------------------------------------------------------ C09

def c09_scope(res, pid, rng, tier):
    from passlib.hash import cisco_type7
    fails = []
    rounds = 60 if tier == "thorough" else 14
    for r in range(rounds):
        cfg = fa.FaCfg(salt=SALTS[(r + res.seed) % len(SALTS)], pwd=True)
        hist = gen_history(rng, 30, pool_size=12, same_plain9=False, odd_names=(r % 2 == 0))
        hist = [h for h in hist if not (h[2].startswith("$9$") and h[2] in ("$9$Be4Ehy_b2GDkevYo", "$9$abc"))]   # (undecodable `$9$` look-alikes have no format to keep)
        if r % 3 == 1:
            # a sensitive word that occurs inside some of the secrets: the secret is replaced first, so its format class is the original's
            picks = [h[2] for h in hist if h[3] in ("numeric", "type7", "hex", "md5") and len(h[2]) >= 8][:3]
            # (pieces with a letter: an all-digit piece can turn up in the digits of a numeric replacement by chance)
            # (all-digit pieces are taken eight digits long, so that they cannot turn up in the digits of a numeric replacement by chance)
            cfg = fa.FaCfg(salt=cfg.salt, pwd=True, words=[(p_[2:10] if p_[2:10].isdigit() and len(p_) >= 11 else p_[3:7]) for p_ in picks
                                                        if not p_[3:7].isdigit() or (p_[2:10].isdigit() and len(p_) >= 11)] or ["zzzq"])
        # all type-7 salts, all md5 salt lengths, many $9$ salt characters
        for k in range(16):
            hist.append((" password 7 {}", "{}", cisco_type7.using(salt=k).hash("pw%dxyz" % k), "type7"))
        for k in range(1, 9):
            hist.append(("enable secret 5 {}", "{}", L.gen_secret(rng, "md5", md5_salt_len=k), "md5"))
        from .jun_checks import ref_encrypt
        for ch in rng.sample(ALPHA, 12):
            hist.append(('secret "{}"', "{}", ref_encrypt("plain" + ch, ch), "jun9"))
        rng.shuffle(hist)
        lines = [render(h) for h in hist]
        # (i) the secret's text also occurs elsewhere on the line as ordinary text: only the secret's position may change
        extra = []
        for f_ in ["set community {}", "rf-switch snmp-community {}", 'set system license keys key "{}"', "key-hash sha256 {}",
                   "snmp-server mib community-map {}:100 context public1"]:
            s_ = L.gen_secret(rng, "text")
            s_ = re.sub(r"[^A-Za-z0-9]", "x", s_)
            ln = "description %s-mgmt link %s" % (s_, f_.format(s_))
            extra.append((ln + "\n", "description %s-mgmt link " % s_, f_, s_))
        # (ii) an unquoted secret directly followed by a terminator and more text
        for cls_, f_ in (("type7", " password 7 {}"), ("text", "username bob password {}"), ("hex", "key hexadecimal {}"), ("numeric", "set password {}"),
                         ("md5", "enable secret 5 {}"), ("jun9", "secret {}")):
            s_ = L.gen_secret(rng, cls_)
            for term, tail_ in ((",", " privilege 15"), (";", " ## SECRET-DATA"), ("]", " extra"), ("}", " more")):
                extra.append((f_.format(s_) + term + tail_ + "\n", "", f_.replace("{}", "{}" + term + tail_), s_))
        # (v) a quoted key followed by other quoted text on the line
        s_q = re.sub(r"[^A-Za-z0-9]", "x", L.gen_secret(rng, "text")) + "9k"
        extra.append(('  key "%s" description "uplink to core"\n' % s_q, "", '  key "{}" description "uplink to core"', s_q))
        extra.append(('set system login user a authentication secret "%s"; ## "quoted note"\n' % s_q, "",
                      'set system login user a authentication secret "{}"; ## "quoted note"', s_q))
        # (vi) very long lines: the secret across offset 65536 of its line
        for cls_, f_ in (("md5", "enable secret 5 {}"), ("jun9", 'secret "{}"'), ("type7", "password 7 {}")):
            s_l = L.gen_secret(rng, cls_)
            padl = "description " + "x" * (65536 - len(f_.format("")) - 12 - rng.randint(2, max(2, min(12, len(s_l) - 2)))) + " "
            extra.append((padl + f_.format(s_l) + "\n", padl, f_, s_l))
        # (iv) minified JSON / XML: further fields follow the key on the same line and stay where they are
        k32 = "".join(rng.choice("0123456789abcdef") for _ in range(31)) + "e"
        extra.append(('{"PreSharedKey": "%s", "TunnelName": "left-uplink/30", "Note": "x"}\n' % k32, "",
                      '{{"PreSharedKey": "{}", "TunnelName": "left-uplink/30", "Note": "x"}}'.replace("{{", "{").replace("}}", "}"), k32))
        extra.append(('<a><pre_shared_key>%s</pre_shared_key><b>"q"</b></a>\n' % k32, "", '<a><pre_shared_key>{}</pre_shared_key><b>"q"</b></a>', k32))
        # (iii) the two AWS forms with a 32-character key of every class a key can have (free text, all digits, hexadecimal)
        for f_ in L.AWS_FORMS:
            for s_ in ("".join(rng.choice(L.B64.replace("/", "").replace("+", "")) for _ in range(31)) + "Z",
                       "".join(rng.choice("0123456789") for _ in range(32)),
                       "".join(rng.choice("0123456789abcdef") for _ in range(31)) + "f"):
                extra.append((f_.format(s_) + "\n", "", f_, s_))
        try:
            cfg_ = fa.FaCfg(salt=cfg.salt, pwd=True, undo=(r % 4 == 3))      # (also with --undo: secrets are still anonymized)
            xouts, _ = run_lines(cfg_, [e[0] for e in extra])
        except Exception as e:  # noqa
            fails.append({"kind": "anonymize_io raised", "exc": repr(e), "salt": cfg.salt})
            xouts = []
        for (ln, pre_, f_, s_), out in zip(extra, xouts):
            res.evaluations += 1
            rep = extract(out[len(pre_):] if out.startswith(pre_) else "\0", f_, "{}")
            if rep is None or rep == s_:
                fails.append({"kind": "text around the secret (other occurrences of the same text, terminators, words after it) not kept in place, or the secret not replaced",
                              "salt": cfg.salt, "undo": cfg_.undo, "line": ln, "output": out})
            elif spec_class(rep) != spec_class(s_):
                fails.append({"kind": "replacement does not have the original's format", "salt": cfg.salt, "line": ln, "output": out,
                              "original_class": spec_class(s_), "replacement_class": spec_class(rep)})
        try:
            outs, _ = run_lines(cfg, lines)
        except Exception as e:  # noqa
            fails.append({"kind": "anonymize_io raised", "exc": repr(e), "salt": cfg.salt})
            continue
        res.sample({"salt": cfg.salt, "lines": lines[:3], "outputs": outs[:3]}, limit=3)
        for (t, w, s, c), ln, out in zip(hist, lines, outs):
            res.evaluations += 1
            res.nt(("fmt", c, w, t[:8], s[:4]))
            rep = extract(out, t, w)
            if rep is None:
                fails.append({"kind": "text around the secret (quotes, brackets, terminators, words before/after) not kept in place",
                              "salt": cfg.salt, "line": ln, "output": out})
                continue
            rc = spec_class(rep)
            want = spec_class(s)
            ok = rc == want
            detail = None
            if want == "md5" and ok:
                ok = len(rep.split("$")[2]) == len(s.split("$")[2])
                detail = "md5 salt length changed"
            if want == "type7" and ok:
                try:
                    cisco_type7.decode(rep)
                except Exception:  # noqa
                    ok, detail = False, "type 7 replacement does not decode"
            if want == "jun9" and ok:
                try:
                    ref_decrypt(rep)
                except ValueError:
                    ok, detail = False, "$9$ replacement does not decrypt"
            if want == "sha512" and ok:
                from passlib.hash import sha512_crypt
                ok = sha512_crypt.identify(rep)
                detail = "not a sha512-crypt hash"
            if not ok:
                fails.append({"kind": "replacement does not have the original's format", "salt": cfg.salt, "words": cfg.words, "line": ln,
                              "output": out, "original_class": want, "replacement_class": rc, "detail": detail})
        # the same secret line again with other indentation / line terminator: each copy keeps its own
        h0 = hist[r % len(hist)]
        body = render(h0).rstrip("\n")
        copies = [body + "\n", "  " + body + "\n", "      " + body + "\n", "\t" + body + " \n", " " + body + "\r\n", body]
        try:
            obj = cfg.build()
            o_ = io.StringIO()
            with fa.LogCap():
                obj.anonymize_io(io.StringIO("".join(copies), newline=""), o_)
            outs_c = o_.getvalue().splitlines(True)
        except Exception as e:  # noqa
            fails.append({"kind": "anonymize_io raised", "exc": repr(e), "salt": cfg.salt, "lines": copies})
            outs_c = []
        res.evaluations += len(copies)
        frame = lambda x: (x[:len(x) - len(x.lstrip(" \t"))], x[len(x.rstrip(" \t\r\n")):])  # noqa
        if outs_c and (len(outs_c) != len(copies) or any(frame(a) != frame(b) for a, b in zip(copies, outs_c))):
            fails.append({"kind": "white space before / after the line or its terminator not kept in place when the same secret line occurs again",
                          "salt": cfg.salt, "lines": copies, "outputs": outs_c})
    # white space other than blank and tab at the edges of a line with a secret stays where it is
    for ws_ in ("\x0c", "\x0b", "\x1c", "\x1f", "\u00a0", "\u2028", "\u3000", "\x85"):
        for f_ in (" password 7 08224F4008170A1E02", "username bob password 0 EdgeSecret77", "snmp-server community EdgeComm88 ro"):
            for ln_ in (f_ + ws_ + "\n", ws_ + f_ + "\n", ws_ + " " + f_ + " " + ws_ + "\n"):
                try:
                    ow_, _ = run_lines(fa.FaCfg(salt="edge", pwd=True), [ln_])
                except Exception as e:  # noqa
                    fails.append({"kind": "anonymize_io raised", "exc": repr(e), "salt": "edge", "line": ln_})
                    continue
                res.evaluations += 1
                lead_ = lambda x: x[:len(x) - len(x.lstrip())]      # noqa: E731
                trail_ = lambda x: x[len(x.rstrip()):]              # noqa: E731
                if lead_(ow_[0]) != lead_(ln_) or trail_(ow_[0]) != trail_(ln_):
                    fails.append({"kind": "white space before / after the line or its terminator not kept in place", "salt": "edge", "line": ln_, "output": ow_[0]})
    # the `$9$` replacement under every salt whose first character is a character of the `$9$` alphabet (it becomes the salt character
    # of the replacement): an independent decoder reads it, and reads the same clear text under every salt
    from .jun_checks import ref_decrypt as _rd9, ref_encrypt as _re9
    seen9 = {}
    for ch in ALPHA:
        try:
            o9_, _ = run_lines(fa.FaCfg(salt=ch + "saltsalt", pwd=True), ['secret "%s"\n' % _re9("plain-text-9", "n")])
        except Exception as e:  # noqa
            fails.append({"kind": "anonymize_io raised", "exc": repr(e), "salt": ch + "saltsalt"})
            continue
        res.evaluations += 1
        rep = extract(o9_[0], 'secret "{}"', "{}")
        try:
            seen9[ch] = _rd9(rep)
        except Exception:  # noqa
            fails.append({"kind": "a `$9$` secret was replaced by a string that an independent `$9$` decoder cannot read", "salt": ch + "saltsalt",
                          "line": 'secret "%s"' % _re9("plain-text-9", "n"), "output": o9_[0]})
    if len(set(seen9.values())) > 1:
        vals = sorted(set(seen9.values()), key=lambda v: -list(seen9.values()).count(v))
        odd = [c for c in seen9 if seen9[c] != vals[0]]
        fails.append({"kind": "the `$9$` replacement decodes (independent decoder) to another clear text under this salt than under the others",
                      "salt": odd[0] + "saltsalt", "decoded": seen9[odd[0]], "decoded_under_other_salts": vals[0]})
    # a listed word that occurs inside a secret: the secret is replaced first, so the replacement has the secret's own format class
    # (and md5 salt length), whatever the word stage would have made of the secret
    cfgk = fa.FaCfg(salt="kw", pwd=True, words=["471108", "acme", "822455"])
    lk = [("set password {}", "4711081577", "numeric"), ("enable secret 5 {}", "$1$ACME$Xw1kQz8fLr3pT0vYb6NcM.", "md5"), (" password 7 {}", "0822455D0A16", "type7"),
          ("key hexadecimal {}", "c0ffee822455", "hex")]
    try:
        ok_, _ = run_lines(cfgk, [t_.format(s_) + "\n" for t_, s_, _ in lk])
    except Exception as e:  # noqa
        fails.append({"kind": "anonymize_io raised", "exc": repr(e), "salt": "kw"})
        ok_ = []
    for (t_, s_, c_), o_ in zip(lk, ok_):
        res.evaluations += 1
        rep = extract(o_, t_, "{}")
        if rep is None or spec_class(rep) != c_ or (c_ == "md5" and len(rep.split("$")[2]) != 4):
            fails.append({"kind": "replacement does not have the original's format", "salt": "kw", "sensitive_words": cfgk.words, "line": t_.format(s_),
                          "output": o_, "original_class": c_, "replacement_class": None if rep is None else spec_class(rep)})
    return [], fails
