"""Correspondence and property oracles for the IP properties C01-C05 and C17."""
import io
import ipaddress
import logging
import os
import random
import shutil
import tempfile

from . import ipgen
from .common import Driver, cpl, write_replay

SPEC_MASKS = set()
for _j in range(33):
    SPEC_MASKS.add((1 << 32) - (1 << _j))
    SPEC_MASKS.add((1 << _j) - 1)


def exc_name(e):
    n = type(e).__name__
    if "Duplication" in n:
        return "bidictDup"
    if isinstance(e, IndexError):
        return "indexEmptyBits"
    if isinstance(e, RecursionError):
        return "recursionDepth"
    if isinstance(e, KeyError):
        return "keyError"
    if isinstance(e, ValueError):
        return "valueError"
    return "pyexc:" + n


SAMPLE_BUF = []


class Sess:
    """Runs the same operations on the implementation (now) and on the model driver (at finish)."""

    def __init__(self):
        self.lines, self.impl, self.meta = [], [], []

    def op(self, line, thunk, meta=None):
        try:
            r = thunk()
        except Exception as e:  # noqa
            r = "err " + exc_name(e)
        self.lines.append(line)
        self.impl.append(r)
        self.meta.append(meta)
        return r

    def finish(self, post=None):
        model = Driver().run(self.lines) if self.lines else []
        if post is not None:
            model = [post(x) for x in model]
        dis = []
        for i, (l, a, b) in enumerate(zip(self.lines, self.impl, model)):
            if a is not None and a != b:
                dis.append({"index": i, "op": l, "impl": a, "model": b, "meta": self.meta[i]})
        self.model = model
        n = len(self.lines)
        for i in sorted(set([min(n - 1, 1), n // 3, (2 * n) // 3, n - 1])) if n else []:
            if len(SAMPLE_BUF) < 8 and self.impl[i] is not None:
                SAMPLE_BUF.append({"op": self.lines[i][:240], "implementation": str(self.impl[i])[:240], "model": str(model[i])[:240]})
        return dis


def ok(n):
    return "ok %d" % n


def dump_impl(obj):
    buf = io.StringIO()
    obj.dump_to_file(buf)
    pairs = []
    for ln in buf.getvalue().splitlines():
        k, v = ln.split("\t")
        pairs.append((int(ipaddress.ip_address(k)), int(ipaddress.ip_address(v)), k, v))
    return pairs


def dump_line(pairs):
    ps = sorted((p[0], p[1]) for p in pairs)
    return "ok " + ",".join("%d>%d" % p for p in ps)


class IpCtx:
    """An implementation object and its twin in the model driver."""
    n = 0

    def __init__(self, sess, cfg):
        IpCtx.n += 1
        self.id = "o%d" % IpCtx.n
        self.cfg, self.sess = cfg, sess
        self.obj = None

        def mk():
            self.obj = cfg.build()
            return "ok"
        sess.op(cfg.driver_new(self.id), mk, {"cfg": cfg.describe()})

    def anon(self, a):
        return self.sess.op("anon %s %d" % (self.id, a), lambda: ok(self.obj.anonymize(a)),
                            {"cfg": self.cfg.describe(), "anon": a})

    def deanon(self, a):
        return self.sess.op("deanon %s %d" % (self.id, a), lambda: ok(self.obj.deanonymize(a)),
                            {"cfg": self.cfg.describe(), "deanon": a})

    def dump(self):
        return self.sess.op("dump %s" % self.id, lambda: dump_line(dump_impl(self.obj)), {"cfg": self.cfg.describe()})

    def spec(self, a, inv=False):
        """ask the driver for the cache-free spec value (no implementation side)"""
        self.sess.lines.append("%s %s %d" % ("specG" if inv else "specF", self.id, a))
        self.sess.impl.append(None)
        self.sess.meta.append(None)
        return len(self.sess.lines) - 1


def val(r):
    return int(r[3:]) if isinstance(r, str) and r.startswith("ok ") else None


def bits(n, L):
    return format(n, "0%db" % L)


def sizes(tier):
    if tier == "thorough":
        return dict(cfgs=160, v6cfgs=24, ops=90, v6ops=30, big=120000)
    return dict(cfgs=36, v6cfgs=6, ops=50, v6ops=16, big=48000)


# --------------------------------------------------------------------------- core-level scopes

def core_scope(res, pid, rng, tier):
    """Drive implementation and model with histories shaped for property `pid`; apply the
    property's oracle to the *implementation's* answers.  Returns (disagreements, failures)."""
    sz = sizes(tier)
    sess = Sess()
    fails = []
    plans = []
    ncfg = sz["cfgs"]
    for ci in range(ncfg):
        fam = 6 if ci < sz["v6cfgs"] else 4
        cfg = ipgen.gen_cfg(rng, fam=fam)
        if ci % 9 == 0 and fam == 4:
            # default everything, as the command line does by default
            cfg = ipgen.Cfg(4, cfg.salt, 8, None, None, "md5")
        L = cfg.L
        nops = sz["v6ops"] if fam == 6 else sz["ops"]
        addrs = ipgen.gen_addrs(rng, cfg, nops)
        if cfg.hmode == "md5" and ci % 2 == 0:
            sp = ipgen.special_preimages(cfg)
            addrs = sp[: max(4, nops // 4)] + [a ^ 1 for a in sp[:4]] + addrs
        res.count("cfg_family_%d" % fam)
        res.count("cfg_B_%s" % cfg.B)
        res.count("cfg_hash_%s" % (cfg.hmode if cfg.hmode == "md5" else "fn"))
        res.count("cfg_prefixes_%s" % ("default" if cfg.prefixes is None else ("none" if not cfg.prefixes else "custom")))
        res.count("cfg_nets_%s" % ("none" if not cfg.nets else "some"))
        o = IpCtx(sess, cfg)
        if o.obj is None:
            continue
        rec = {"cfg": cfg, "pairs": [], "hist": [], "o": o}
        if pid in ("C01", "C04", "C05"):
            for a in addrs:
                r = o.anon(a)
                rec["pairs"].append((a, val(r)))
                if pid == "C05" and rng.random() < 0.4:
                    r2 = o.deanon(a)
                    rec["hist"].append(("deanon", a, val(r2)))
        elif pid == "C02":
            # images produced by one anonymizer are undone by a *fresh* one, and by a warm one
            fresh = IpCtx(sess, cfg)
            warm = IpCtx(sess, cfg)
            for a in addrs[: len(addrs) // 2]:
                warm.anon(a)
                if rng.random() < 0.3:
                    warm.deanon(rng.choice(addrs))
            for a in addrs:
                y = val(o.anon(a))
                if y is None:
                    continue
                x1 = val(fresh.deanon(y))
                x2 = val(warm.deanon(y))
                rec["pairs"].append((a, y, x1, x2))
                if rng.random() < 0.5:
                    f2 = IpCtx(sess, cfg)
                    x = val(f2.deanon(a))           # undo of a never-seen value on a fresh memo ...
                    y2 = val(f2.anon(x)) if x is not None else None   # ... and anonymizing it again
                    rec["hist"].append((a, x, y2))
        elif pid == "C03":
            # one long-lived anonymizer: every interleaving / repetition, incl. anonymize and undo
            # of the same integer; each answer compared with a fresh anonymizer's answer
            pool = list(addrs[: max(4, len(addrs) // 3)])
            for _ in range(nops):
                a = rng.choice(pool)
                kind = rng.choice(["anon", "anon", "deanon"])
                r = o.anon(a) if kind == "anon" else o.deanon(a)
                v = val(r)
                if v is not None and rng.random() < 0.5:
                    pool.append(v)                  # feed answers back as later requests
                f = IpCtx(sess, cfg)
                rf = f.anon(a) if kind == "anon" else f.deanon(a)
                rec["hist"].append((kind, a, v, val(rf)))
        elif pid == "C17":
            seen = []
            for a in addrs:
                kind = "anon" if rng.random() < 0.8 else "deanon"
                if kind == "anon":
                    seen.append((a, val(o.anon(a))))
                else:
                    o.deanon(a)
            o.dump()
            try:
                rec["dump"] = dump_impl(o.obj)
            except Exception as e:  # noqa
                rec["dump"] = None
                rec["dump_exc"] = repr(e)
            rec["pairs"] = seen
        plans.append(rec)
    dis = sess.finish()
    res.evaluations += len(sess.lines)
    res.traces += len(plans)
    # ---- oracles on the implementation's own answers
    for rec in plans:
        cfg, L = rec["cfg"], rec["cfg"].L
        B = cfg.B or 0
        d = cfg.describe()
        if pid == "C01":
            ps = [(a, y) for a, y in rec["pairs"] if y is not None]
            for i in range(len(ps)):
                for j in range(i + 1, min(len(ps), i + 12)):
                    (a, ya), (b, yb) = ps[i], ps[j]
                    k0 = cpl(bits(a, L), bits(b, L))
                    k1 = cpl(bits(ya, L), bits(yb, L)) if max(ya, yb) < (1 << L) else -1
                    res.nt(("cpl", L, k0))
                    if k0 != k1:
                        fails.append({"kind": "common-prefix length changed", "cfg": d, "a": a, "b": b,
                                      "image_a": ya, "image_b": yb, "cpl_in": k0, "cpl_out": k1})
            for a, y in rec["pairs"]:
                if y is None:
                    fails.append({"kind": "anonymize raised or left the address space", "cfg": d, "a": a})
        elif pid == "C02":
            for a, y, x1, x2 in rec["pairs"]:
                res.nt(("undo", L, B, a != y))
                if x1 != a or x2 != a:
                    fails.append({"kind": "undo did not return the original", "cfg": d, "a": a, "image": y,
                                  "undo_fresh": x1, "undo_warm": x2})
            for a, x, y2 in rec["hist"]:
                if y2 != a:
                    fails.append({"kind": "anonymizing an undone address did not return the input", "cfg": d,
                                  "input": a, "undone": x, "re_anonymized": y2})
        elif pid == "C03":
            for kind, a, v, vf in rec["hist"]:
                res.nt((kind, L, B, a & 0xFF))
                if v != vf or v is None:
                    fails.append({"kind": "answer depends on history", "cfg": d, "request": kind, "arg": a,
                                  "long_lived": v, "fresh": vf})
        elif pid == "C04":
            pins = cfg.pins()
            for a, y in rec["pairs"]:
                if y is None:
                    fails.append({"kind": "anonymize raised", "cfg": d, "a": a})
                    continue
                ba, by = bits(a, L), bits(y, L)
                for p in pins:
                    res.nt(("pin", len(p), ba.startswith(p)))
                    if ba.startswith(p) != by.startswith(p):
                        fails.append({"kind": "preserved prefix not respected", "cfg": d, "a": a, "image": y,
                                      "prefix_bits": p})
                if B and ba[L - min(B, L):] != by[L - min(B, L):]:
                    fails.append({"kind": "host bits changed", "cfg": d, "a": a, "image": y})
            # leading bits independent of host bits: same leading part -> same leading image
            lead = {}
            for a, y in rec["pairs"]:
                if y is None or not B:
                    continue
                k = a >> min(B, L)
                if k in lead and lead[k] != y >> min(B, L):
                    fails.append({"kind": "leading bits of the image depend on host bits", "cfg": d, "a": a})
                lead[k] = y >> min(B, L)
        elif pid == "C05":
            nets = [ipaddress.ip_network(n) for n in (cfg.nets or [])] if cfg.fam == 4 else []
            for a, y in rec["pairs"]:
                if y is None:
                    continue
                ia, iy = ipaddress.ip_address(a) if cfg.fam == 4 else None, ipaddress.ip_address(y) if cfg.fam == 4 else None
                for n in nets:
                    res.nt(("net", n.prefixlen, ia in n))
                    if (ia in n) != (iy in n):
                        fails.append({"kind": "address mapped across the boundary of a preserved network",
                                      "cfg": d, "a": str(ia), "image": str(iy), "network": str(n)})
            for _, a, x in rec["hist"]:
                if x is None or cfg.fam != 4:
                    continue
                for n in nets:
                    if (ipaddress.ip_address(a) in n) != (ipaddress.ip_address(x) in n):
                        fails.append({"kind": "inverse image crosses the boundary of a preserved network",
                                      "cfg": d, "y": a, "inverse": x, "network": str(n)})
        elif pid == "C17":
            dump = rec.get("dump")
            if dump is None:
                fails.append({"kind": "dump raised", "cfg": d, "exc": rec.get("dump_exc")})
                continue
            ks = [p[0] for p in dump]
            vs = [p[1] for p in dump]
            if len(set(ks)) != len(ks) or len(set(vs)) != len(vs):
                fails.append({"kind": "an original or a replacement is listed twice", "cfg": d})
            m = dict((p[0], p[1]) for p in dump)
            for a, y in rec["pairs"]:
                res.nt(("dumped", L, B, a & 0xFF))
                if y is not None and m.get(a) != y:
                    fails.append({"kind": "anonymized address missing from the dump or listed with another image",
                                  "cfg": d, "a": a, "image_used": y, "listed": m.get(a)})
    return dis, fails


def spec_images(cfg, addrs, inv=False):
    """Cache-free spec values Ffull/Gfull for a configuration, from the Lean driver."""
    lines = [cfg.driver_new("s")] + ["%s s %d" % ("specG" if inv else "specF", a) for a in addrs]
    out = Driver().run(lines)
    if out[0] != "ok":
        return None
    return [val(x) for x in out[1:]]


# --------------------------------------------------------------------------- file level

V4_TEMPLATES = ["ip address {a}", " neighbor {a} remote-as 65001", "set interfaces ge-0/0/0 unit 0 family inet address {a}/24",
                "permit ip host {a} any", "\tserver {a};", "route {a}/32"]
V6_TEMPLATES = ["ipv6 address {a}/64", " neighbor {a} remote-as 65001", "set address {a}", "permit ipv6 host {a} any"]


def v4_text(rng, a):
    o = [(a >> 24) & 255, (a >> 16) & 255, (a >> 8) & 255, a & 255]
    if rng.random() < 0.25:
        return ".".join(("%03d" % x) if rng.random() < 0.6 else str(x) for x in o)
    return ".".join(str(x) for x in o)


def v6_text(rng, a):
    ip = ipaddress.IPv6Address(a)
    k = rng.random()
    if k < 0.5:
        return str(ip)
    if k < 0.75:
        return str(ip).upper()
    return ip.exploded if rng.random() < 0.5 else ip.exploded.upper()


def split_addr(line_out, tmpl):
    """Recover the token that replaced {a} given the template."""
    pre, post = tmpl.split("{a}")
    if not (line_out.startswith(pre) and line_out.endswith(post)) or len(line_out) < len(pre) + len(post):
        return None
    return line_out[len(pre): len(line_out) - len(post)] if post else line_out[len(pre):]


class FileCfg:
    def __init__(self, rng, cli_like=False, shape=None):
        self.salt = rng.choice(ipgen.SALTS)
        self.b4 = rng.choice([None, 0, 8, 8, 4, 16, 24])
        self.b6 = rng.choice([None, 0, 8, 8, 16, 32, 64])
        k = rng.random()
        self.prefixes = None if k < 0.4 else ([] if k < 0.5 else ([ipgen.rand_cidr(rng) for _ in range(2)] if k < 0.75 else ipgen.nested_cidrs(rng)))
        k = rng.random()
        self.nets = None if k < 0.4 else (list(ipgen.SPEC_RFC1918) if k < 0.55 else ([ipgen.rand_cidr(rng)] if k < 0.7 else (
            ipgen.same_addr_subnets(rng, self.prefixes) if k < 0.88 else ipgen.nested_cidrs(rng)[:3])))
        if shape is not None:
            shape %= 5
            if shape == 0:
                self.prefixes, self.nets = None, None
            elif shape == 1:
                self.prefixes, self.nets = None, list(ipgen.SPEC_RFC1918)
            elif shape == 2:
                self.prefixes = None
                self.nets = ipgen.same_addr_subnets(rng, None)
            elif shape == 3:
                self.prefixes = ipgen.nested_cidrs(rng)
                self.nets = ipgen.same_addr_subnets(rng, self.prefixes) if rng.random() < 0.6 else None
            elif shape == 4:
                self.nets = ipgen.nested_cidrs(rng)[:3] + (list(ipgen.SPEC_RFC1918) + ["10.1.0.0/16"] if rng.random() < 0.5 else [])
        if cli_like:
            self.b6 = self.b4 = (8 if self.b4 is None else min(self.b4, 32))

    def cfg(self, fam):
        return ipgen.Cfg(fam, self.salt, self.b4 if fam == 4 else self.b6, self.prefixes, self.nets, "md5")

    def describe(self):
        return {"salt": self.salt, "preserve_suffix_v4": self.b4, "preserve_suffix_v6": self.b6,
                "preserve_prefixes": self.prefixes, "preserve_networks": self.nets}

    def build(self, undo=False):
        from netconan.anonymize_files import FileAnonymizer
        return FileAnonymizer(anon_pwd=False, anon_ip=not undo, undo_ip_anon=undo, salt=self.salt,
                              preserve_prefixes=None if self.prefixes is None else list(self.prefixes),
                              preserve_networks=None if self.nets is None else list(self.nets),
                              preserve_suffix_v4=self.b4, preserve_suffix_v6=self.b6)


def run_io(fa, text):
    out = io.StringIO()
    fa.anonymize_io(io.StringIO(text), out)
    return out.getvalue()


def gen_file_lines(rng, fc, n4, n6):
    items = []
    c4, c6 = fc.cfg(4), fc.cfg(6)
    a4 = ipgen.gen_addrs(rng, c4, n4)
    # masks, one-bit perturbations of masks, preserved-network members
    ms = sorted(SPEC_MASKS)
    for _ in range(max(2, n4 // 4)):
        m = rng.choice(ms)
        a4.append(m)
        a4.append(m ^ (1 << rng.randint(0, 31)))
    sp4 = ipgen.special_preimages(c4)
    a4 += sp4 + [a ^ 1 for a in sp4[:6]]
    for a in a4:
        t = rng.choice(V4_TEMPLATES)
        items.append((4, a, v4_text(rng, a), t))
    for a in ipgen.special_preimages(c6):
        items.append((6, a, v6_text(rng, a), rng.choice(V6_TEMPLATES)))
        items.append((6, a ^ 1, v6_text(rng, a ^ 1), rng.choice(V6_TEMPLATES)))
    for a in ipgen.gen_addrs(rng, c6, n6):
        if rng.random() < 0.3:
            a &= (1 << rng.choice([16, 32, 48, 64])) - 1     # small values, e.g. ::5, ::1:2
        t = rng.choice(V6_TEMPLATES)
        items.append((6, a, v6_text(rng, a), t))
    rng.shuffle(items)
    return items


def expected_token(fam, a, txt, img, nets):
    """Spec of the text layer for one standalone address token (C05/C06 reading)."""
    if fam == 4:
        if a in SPEC_MASKS or any(ipaddress.IPv4Address(a) in n for n in nets):
            return txt
        return str(ipaddress.IPv4Address(img))
    return str(ipaddress.IPv6Address(img))


def file_scope(res, pid, rng, tier):
    """FileAnonymizer.anonymize_io on lines with one address token at a known position; images compared
    with the cache-free spec (Lean), masks / preserved addresses with the text spec; undo by a fresh
    FileAnonymizer."""
    fails, dis = [], []
    rounds = 15 if tier == "thorough" else 5
    for rnd in range(rounds):
        fc = FileCfg(rng, shape=rnd)
        try:
            fa = fc.build()
        except Exception as e:  # noqa
            dis.append({"op": "FileAnonymizer(...)", "impl": "err " + exc_name(e), "model": "ok", "meta": fc.describe()})
            continue
        items = gen_file_lines(rng, fc, 40 if tier == "thorough" else 24, 10 if tier == "thorough" else 6)
        text = "".join(t.format(a=txt) + "\n" for _, _, txt, t in items)
        nets = [ipaddress.ip_network(n) for n in (fc.nets or [])]
        try:
            out = run_io(fa, text).split("\n")[:-1]
        except Exception as e:  # noqa
            dis.append({"op": "anonymize_io", "impl": "err " + exc_name(e), "model": "ok", "meta": fc.describe()})
            continue
        img4 = spec_images(fc.cfg(4), [a for f, a, _, _ in items if f == 4])
        img6 = spec_images(fc.cfg(6), [a for f, a, _, _ in items if f == 6])
        i4 = i6 = 0
        outs = []
        for (fam, a, txt, t), lo in zip(items, out):
            if fam == 4:
                img = img4[i4]; i4 += 1
            else:
                img = img6[i6]; i6 += 1
            tok = split_addr(lo, t)
            exp = expected_token(fam, a, txt, img, nets)
            outs.append((fam, a, txt, t, img, tok, exp))
            res.evaluations += 1
            res.nt(("file", fam, a & 0xFFFF))
            untouched = fam == 4 and (a in SPEC_MASKS or any(ipaddress.IPv4Address(a) in n for n in nets))
            res.count("file_token_%s" % ("untouched" if untouched else "v%d" % fam))
            if tok != exp:
                rec = {"cfg": fc.describe(), "line": t.format(a=txt), "output": lo, "expected_token": exp,
                       "family": fam, "address": a, "spec_image": img}
                if untouched and pid in ("C05",):
                    rec["kind"] = "mask or preserved address not reproduced exactly as written"
                    fails.append(rec)
                elif pid in ("C01", "C03", "C04", "C17") or (pid == "C05" and fam == 4):
                    rec["kind"] = "file-level image differs from the mapping function"
                    dis.append({"op": "anonymize_io " + rec["line"], "impl": lo, "model": exp, "meta": rec})
                elif pid == "C02":
                    dis.append({"op": "anonymize_io " + rec["line"], "impl": lo, "model": exp, "meta": rec})
            # property-level oracles that need no model
            if pid == "C04" and tok is not None and not untouched:
                try:
                    y = int(ipaddress.ip_address(tok))
                except ValueError:
                    y = None
                if y is not None:
                    L = 32 if fam == 4 else 128
                    B = (fc.b4 if fam == 4 else fc.b6) or 0
                    if B and (y & ((1 << min(B, L)) - 1)) != (a & ((1 << min(B, L)) - 1)):
                        fails.append({"kind": "host bits changed (file level)", "cfg": fc.describe(),
                                      "line": t.format(a=txt), "output": lo, "host_bits": B})
                    for p in fc.cfg(fam).pins():
                        if bits(a, L).startswith(p) != bits(y, L).startswith(p):
                            fails.append({"kind": "preserved prefix not respected (file level)", "cfg": fc.describe(),
                                          "line": t.format(a=txt), "output": lo, "prefix_bits": p})
            if pid == "C05" and fam == 4 and tok is not None and not untouched:
                try:
                    y = ipaddress.IPv4Address(tok)
                except ValueError:
                    y = None
                for n in nets:
                    if y is not None and y in n:
                        fails.append({"kind": "address outside a preserved network mapped into it", "cfg": fc.describe(),
                                      "line": t.format(a=txt), "output": lo, "network": str(n)})
        if pid == "C01":
            # the mapping as the text layer applies it (identity on preserved addresses; masks are
            # deliberately left alone and excluded) must preserve common-prefix lengths as well
            for fam in (4, 6):
                L = 32 if fam == 4 else 128
                ps = []
                for (f, a, txt, t, img, tok, exp) in outs:
                    if f != fam or tok is None or (fam == 4 and a in SPEC_MASKS):
                        continue
                    try:
                        ps.append((a, int(ipaddress.ip_address(tok)), t.format(a=txt)))
                    except ValueError:
                        pass
                for i in range(len(ps)):
                    for j in range(i + 1, len(ps)):
                        k0, k1 = cpl(bits(ps[i][0], L), bits(ps[j][0], L)), cpl(bits(ps[i][1], L), bits(ps[j][1], L))
                        if k0 != k1 and not (fam == 4 and (ps[i][1] in SPEC_MASKS or ps[j][1] in SPEC_MASKS)):
                            fails.append({"kind": "common-prefix length changed (file level)", "cfg": fc.describe(),
                                          "line_a": ps[i][2], "line_b": ps[j][2], "image_a": str(ipaddress.ip_address(ps[i][1])),
                                          "image_b": str(ipaddress.ip_address(ps[j][1])), "cpl_in": k0, "cpl_out": k1})
        if pid == "C02":
            # undo with a fresh FileAnonymizer (same salt and options)
            try:
                back = run_io(fc.build(undo=True), "\n".join(out) + "\n").split("\n")[:-1]
            except Exception as e:  # noqa
                fails.append({"kind": "undo raised", "cfg": fc.describe(), "exc": repr(e)})
                continue
            for (fam, a, txt, t, img, tok, exp), lb in zip(outs, back):
                canon = str(ipaddress.IPv4Address(a)) if fam == 4 else str(ipaddress.IPv6Address(a))
                untouched = fam == 4 and (a in SPEC_MASKS or any(ipaddress.IPv4Address(a) in n for n in nets))
                try:
                    y = int(ipaddress.ip_address(tok)) if tok else None
                except ValueError:
                    y = None
                if untouched:
                    want = t.format(a=txt)
                elif fam == 4 and y in SPEC_MASKS:
                    continue          # image is mask-shaped: deliberately left alone in both directions
                elif fam == 4 and y is not None and any(ipaddress.IPv4Address(y) in n for n in nets):
                    continue
                else:
                    want = t.format(a=canon)
                res.nt(("file-undo", fam, a & 0xFFFF))
                if lb != want:
                    fails.append({"kind": "--undo did not restore the address", "cfg": fc.describe(),
                                  "line": t.format(a=txt), "anonymized": t.format(a=tok or "?"), "undone": lb,
                                  "expected": want})
        if pid == "C03":
            # the same lines one by one through fresh anonymizers, and in reversed order
            lines_in = [t.format(a=txt) + "\n" for _, _, txt, t in items]
            sep = [run_io(fc.build(), ln) for ln in lines_in[:12]]
            for ln, o1, o2 in zip(lines_in, out, sep):
                if o1 + "\n" != o2:
                    fails.append({"kind": "line anonymized alone differs from the same line in a longer run",
                                  "cfg": fc.describe(), "line": ln, "together": o1, "alone": o2})
            rev = run_io(fc.build(), "".join(reversed(lines_in))).split("\n")[:-1]
            if list(reversed(rev)) != out:
                fails.append({"kind": "order of lines changes the address mapping", "cfg": fc.describe()})
    return dis, fails


# --------------------------------------------------------------------------- command line level

def run_cli(argv, files, want_dump=False, stale_dump=None):
    """netconan.netconan.main in-process on a scratch directory; returns (status, outputs, dumptext)."""
    from netconan import netconan as nc
    d = tempfile.mkdtemp(prefix="ncverif_")
    try:
        ind, outd = os.path.join(d, "in"), os.path.join(d, "out")
        os.makedirs(ind)
        for name, body in files.items():
            p = os.path.join(ind, name)
            os.makedirs(os.path.dirname(p), exist_ok=True)
            with open(p, "w", newline="", encoding="utf-8", errors="surrogateescape") as f:
                f.write(body)
        args = ["-i", ind, "-o", outd] + list(argv)
        dump = os.path.join(d, "dump.txt")
        if want_dump:
            args += ["-d", dump]
            if stale_dump is not None:      # a dump file left behind by an earlier run
                with open(dump, "w") as f:
                    f.write(stale_dump)
        # as in a fresh command-line process: no handlers yet, so that main's logging.basicConfig takes effect
        import contextlib
        root = logging.getLogger()
        lvl, handlers = root.level, list(root.handlers)
        for h_ in handlers:
            root.removeHandler(h_)
        try:
            with contextlib.redirect_stderr(io.StringIO()):
                nc.main(args)
            status = "ok"
        except SystemExit as e:
            status = "exit %s" % e.code
        except Exception as e:  # noqa
            status = "err " + type(e).__name__
        finally:
            for h_ in list(root.handlers):
                root.removeHandler(h_)
            for h_ in handlers:
                root.addHandler(h_)
            root.setLevel(lvl)
        outs = {}
        if os.path.isdir(outd):
            for root, _, fs in os.walk(outd):
                for fn in fs:
                    p = os.path.join(root, fn)
                    outs[os.path.relpath(p, outd)] = open(p, newline="", encoding="utf-8", errors="surrogateescape").read()
        dumptext = open(dump).read() if want_dump and os.path.exists(dump) else None
        return status, outs, dumptext
    finally:
        shutil.rmtree(d, ignore_errors=True)


def cli_scope(res, pid, rng, tier):
    """The command line with documented defaults: -a [-s salt] [--preserve-...]; images compared with the
    spec under the *documented* defaults (8 host bits both families; class + private prefixes)."""
    fails, dis = [], []
    rounds = 8 if tier == "thorough" else 4
    stale = None
    for r in range(rounds):
        fc = FileCfg(rng, cli_like=True)
        shape = r % 4
        # the option shapes are cycled deterministically; details are random
        if shape == 0:      # everything by default
            fc.prefixes, fc.nets, fc.b4, fc.b6 = None, None, 8, 8
        elif shape == 1:    # --preserve-private-addresses alone
            fc.prefixes, fc.nets = None, list(ipgen.SPEC_RFC1918)
        elif shape == 2:    # --preserve-addresses (custom), default prefixes
            fc.prefixes = None
            # an explicit entry inside a private block, together with --preserve-private-addresses (first pass); else random
            fc.nets = ["10.1.0.0/16", "192.168.44.201/32"] if r < 4 else ([ipgen.rand_cidr(rng)] if rng.random() < 0.5 else ipgen.same_addr_subnets(rng, None))
        else:               # custom prefixes, maybe networks
            if not fc.prefixes:
                fc.prefixes = ipgen.nested_cidrs(rng)
        salt = fc.salt
        argv = ["-a", "-s", salt] + (["-l", ["DEBUG", "WARNING", "ERROR"][r % 3]] if r % 2 == 0 else [])
        hb_given = rng.random() < 0.5
        if hb_given or fc.b4 != 8:
            argv += ["--preserve-host-bits", str(fc.b4)]
        if fc.prefixes:
            argv += ["--preserve-prefixes", ",".join(fc.prefixes)]
        else:
            fc.prefixes = None
        private = False
        if fc.nets is not None:
            if fc.nets == list(ipgen.SPEC_RFC1918):
                argv += ["--preserve-private-addresses"]
                private = True
            else:
                argv += ["--preserve-addresses", ",".join(fc.nets)]
                if rng.random() < 0.4 or fc.nets[0] == "10.1.0.0/16":
                    argv += ["--preserve-private-addresses"]
                    fc.nets = fc.nets + list(ipgen.SPEC_RFC1918)
                    private = True
        items = gen_file_lines(rng, fc, 20, 5)
        if private:
            for a in (0x0A141E29, 0xAC100901, 0xC0A80164):   # non-mask private addresses
                items.append((4, a, str(ipaddress.IPv4Address(a)), "ip address {a}"))
        text = "".join(t.format(a=txt) + "\n" for _, _, txt, t in items)
        files_in = {"r1.cfg": text}
        sub_addrs = []
        if pid in ("C17", "C03"):
            # files in sub directories, with addresses that occur in no top-level file: one run, one map
            sub_addrs = [ipgen_rand4(rng) for _ in range(5)]
            files_in[os.path.join("site1", "pop", "r2.cfg")] = "".join("ntp server %s\n" % ipaddress.IPv4Address(a_) for a_ in sub_addrs[:3])
            files_in[os.path.join("site2", "r3.cfg")] = "".join("logging host %s\n" % ipaddress.IPv4Address(a_) for a_ in sub_addrs[3:5])
            if pid == "C17" and r % 2 == 0:
                # many small files, each with an address of its own (however the files are scheduled, there is one map)
                for k_ in range(18):
                    sub_addrs.append(ipgen_rand4(rng))
                    files_in[os.path.join("bulk", "f%02d.cfg" % k_)] = "ntp server %s\n" % ipaddress.IPv4Address(sub_addrs[-1])
        if pid == "C17" and r % 2 == 1:
            # written as undecodable bytes: this file fails, the map must still be complete (and if the file is processed after all,
            # its address belongs in the map like any other)
            files_in["blob.bin"] = "\udcff\udcfe binary\nip host 11.22.33.44\n"
        stale_dump_used = stale
        status, outs, dumptext = run_cli(argv, files_in, want_dump=(pid in ("C17", "C03")), stale_dump=stale)
        if pid in ("C17", "C03") and dumptext:
            # the next run finds this run's map at the same path - and longer than its own will be
            stale = dumptext + "".join("203.0.113.%d\t198.51.100.%d\n" % (i, i) for i in range(80))
        res.evaluations += 1
        meta = {"argv": argv, "cfg": fc.describe()}
        if status != "ok" or "r1.cfg" not in outs:
            dis.append({"op": "netconan " + " ".join(argv), "impl": status, "model": "ok", "meta": meta})
            continue
        out = outs["r1.cfg"].split("\n")[:-1]
        nets = [ipaddress.ip_network(n) for n in (fc.nets or [])]
        img4 = spec_images(fc.cfg(4), [a for f, a, _, _ in items if f == 4])
        img6 = spec_images(fc.cfg(6), [a for f, a, _, _ in items if f == 6])
        i4 = i6 = 0
        observed = []
        for (fam, a, txt, t), lo in zip(items, out):
            if fam == 4:
                img = img4[i4]; i4 += 1
            else:
                img = img6[i6]; i6 += 1
            tok = split_addr(lo, t)
            exp = expected_token(fam, a, txt, img, nets)
            untouched = fam == 4 and (a in SPEC_MASKS or any(ipaddress.IPv4Address(a) in n for n in nets))
            observed.append((fam, a, txt, t, tok, untouched))
            res.nt(("cli", fam, a & 0xFFFF))
            if tok != exp:
                rec = dict(meta, line=t.format(a=txt), output=lo, expected_token=exp)
                if untouched:
                    if pid == "C05":
                        rec["kind"] = "mask or preserved address not reproduced exactly as written (CLI)"
                        fails.append(rec)
                else:
                    dis.append({"op": "netconan " + " ".join(argv), "impl": lo, "model": exp, "meta": rec})
            if pid == "C04" and tok and not untouched:
                try:
                    y = int(ipaddress.ip_address(tok))
                    L = 32 if fam == 4 else 128
                    for p in fc.cfg(fam).pins():
                        if bits(a, L).startswith(p) != bits(y, L).startswith(p):
                            fails.append(dict(meta, kind="preserved prefix not respected (CLI)", line=t.format(a=txt), output=lo, prefix_bits=p))
                    if (y & 0xFF if fc.b4 >= 8 else 0) != (a & 0xFF if fc.b4 >= 8 else 0):
                        fails.append(dict(meta, kind="host bits changed (CLI)", line=t.format(a=txt), output=lo))
                except ValueError:
                    pass
        if pid == "C02":
            uargv = ["-u"] + argv[1:]
            st2, outs2, _ = run_cli(uargv, {"r1.cfg": outs["r1.cfg"]})
            if st2 != "ok" or "r1.cfg" not in outs2:
                fails.append(dict(meta, kind="--undo run failed", status=st2))
                continue
            back = outs2["r1.cfg"].split("\n")[:-1]
            for (fam, a, txt, t, tok, untouched), lb in zip(observed, back):
                canon = str(ipaddress.IPv4Address(a)) if fam == 4 else str(ipaddress.IPv6Address(a))
                try:
                    y = int(ipaddress.ip_address(tok)) if tok else None
                except ValueError:
                    y = None
                if untouched:
                    want = t.format(a=txt)
                elif fam == 4 and (y in SPEC_MASKS or (y is not None and any(ipaddress.IPv4Address(y) in n for n in nets))):
                    continue
                else:
                    want = t.format(a=canon)
                if lb != want:
                    fails.append(dict(meta, kind="--undo did not restore the address (CLI)", line=t.format(a=txt),
                                      anonymized=t.format(a=tok or "?"), undone=lb, expected=want, undo_argv=uargv))
        if pid == "C17" and dumptext is not None:
            pairs = [ln.split("\t") for ln in dumptext.splitlines()]
            bad = [ln for ln, p in zip(dumptext.splitlines(), pairs) if len(p) != 2]
            if bad:
                fails.append(dict(meta, kind="the dump file contains a line that is not `original<TAB>replacement` (torn or left over from an earlier file)",
                                  bad_lines=bad[:3], stale_dump_before_the_run=bool(stale_dump_used)))
            pairs = [p for p in pairs if len(p) == 2]
            ks = [p[0] for p in pairs]
            vs = [p[1] for p in pairs]
            if len(set(ks)) != len(ks) or len(set(vs)) != len(vs):
                fails.append(dict(meta, kind="an original or a replacement is listed twice in the dump file"))
            m = dict((p[0], p[1]) for p in pairs)
            for fam, a, txt, t, tok, untouched in observed:
                if untouched or tok is None:
                    continue
                canon = str(ipaddress.IPv4Address(a)) if fam == 4 else str(ipaddress.IPv6Address(a))
                if m.get(canon) != tok:
                    fails.append(dict(meta, kind="replaced address missing from the dump file or listed with another image",
                                      address=canon, used=tok, listed=m.get(canon)))
            bl = [l_ for l_ in outs.get("blob.bin", "").split("\n") if l_.startswith("ip host ")]
            if pid == "C17" and bl and bl[0].split(" ")[-1] != "11.22.33.44" and m.get("11.22.33.44") != bl[0].split(" ")[-1]:
                fails.append(dict(meta, kind="replaced address missing from the dump file or listed with another image", file="blob.bin (not valid UTF-8)",
                                  address="11.22.33.44", used=bl[0].split(" ")[-1], listed=m.get("11.22.33.44")))
            bulk_ = [(os.path.join("bulk", "f%02d.cfg" % k_), [a_]) for k_, a_ in enumerate(sub_addrs[5:])]
            for rel_, addrs_ in [(os.path.join("site1", "pop", "r2.cfg"), sub_addrs[:3]), (os.path.join("site2", "r3.cfg"), sub_addrs[3:5])] + bulk_:
                if pid != "C17" or not addrs_:
                    continue
                lo_ = outs.get(rel_, "").split("\n")[:-1]
                if len(lo_) != len(addrs_):
                    fails.append(dict(meta, kind="a file in a sub directory was not anonymized into the same relative path", file=rel_))
                    continue
                for a_, l_ in zip(addrs_, lo_):
                    canon, tok = str(ipaddress.IPv4Address(a_)), l_.split(" ")[-1]
                    if tok != canon and m.get(canon) != tok:
                        fails.append(dict(meta, kind="replaced address missing from the dump file or listed with another image",
                                          file=rel_, address=canon, used=tok, listed=m.get(canon)))
        elif pid == "C17":
            fails.append(dict(meta, kind="dump file not written"))
    return dis, fails


def ipgen_rand4(rng):
    """a random IPv4 value that is no mask and outside the private blocks"""
    while True:
        a = rng.getrandbits(32)
        if a not in SPEC_MASKS and not ipaddress.IPv4Address(a).is_private and (a >> 24) not in (0, 10, 127, 172, 192) and (a >> 28) < 14:
            return a


def mask_scope(res, pid, rng, tier):
    """All 66 mask/wildcard values and all their one-bit perturbations (exhaustive): `_is_mask` and
    `should_anonymize` against the model, and the text layer against the property itself."""
    from netconan.ip_anonymization import IpAnonymizer, anonymize_ip_addr
    fails, dis = [], []
    vals = sorted(SPEC_MASKS)
    pert = sorted(set(m ^ (1 << b) for m in vals for b in range(32)) - SPEC_MASKS)
    nets_sets = [None, ["10.0.0.0/8"], ["255.255.0.0/16", "0.0.0.0/24"], ["128.0.0.0/1"],
                 ["10.0.0.0/8", "172.16.0.0/12", "192.168.0.0/16", "10.1.0.0/16"],      # nested: inner inside an outer
                 ipgen.nested_cidrs(rng)]
    sess = Sess()
    for ni, nets in enumerate(nets_sets):
        anon = IpAnonymizer("masksalt%d" % (res.seed % 7), None, None if nets is None else list(nets), preserve_suffix=rng.choice([0, 8]))
        nspec = [ipaddress.ip_network(n) for n in (nets or [])]
        nwords = " ".join("%d/%d" % (int(n.network_address), n.prefixlen) for n in nspec)
        for x in vals + pert:
            if ni == 0:
                sess.op("ismask %d" % x, lambda x=x: "ok %d" % (1 if anon._is_mask(x) else 0), {"value": x})
            sess.op(("shouldanon %d %s" % (x, nwords)).rstrip(), lambda x=x: "ok %d" % (1 if anon.should_anonymize(x) else 0),
                    {"value": x, "preserve_addresses": nets})
        around = ipgen.gen_addrs(rng, ipgen.Cfg(4, "s", 0, [], nets, "md5"), 80) if nets else []
        for x in around:
            sess.op(("shouldanon %d %s" % (x, nwords)).rstrip(), lambda x=x: "ok %d" % (1 if anon.should_anonymize(x) else 0),
                    {"value": x, "preserve_addresses": nets})
        # text layer: masks (and preserved addresses) exactly as written, zero-padded spellings included
        for x in vals + rng.sample(pert, 150 if tier == "quick" else len(pert)) + around:
            o = [(x >> 24) & 255, (x >> 16) & 255, (x >> 8) & 255, x & 255]
            for txt in {".".join(map(str, o)), ".".join("%03d" % q for q in o)}:
                line = "ip address 1.2.3.4 " + txt + " secondary"
                out = anonymize_ip_addr(anon, line)
                tok = out.split(" ")[3] if len(out.split(" ")) == 5 else None
                res.evaluations += 1
                keep = x in SPEC_MASKS or any(ipaddress.IPv4Address(x) in n for n in nspec)
                res.nt(("masktext", x, txt[0] == "0" or ".0" in txt))
                if keep and tok != txt:
                    fails.append({"kind": "mask or preserved address not reproduced exactly as written",
                                  "preserve_addresses": nets, "line": line, "output": out})
                if not keep and tok == txt and x not in SPEC_MASKS:
                    # a non-mask value left alone: allowed only if its image is itself (checked by the model side)
                    pass
    d = sess.finish()
    res.evaluations += len(sess.lines)
    res.exhaustive = True
    res.count("mask_values", len(vals))
    res.count("mask_perturbations", len(pert))
    return dis + d, fails


def text_history_scope(res, pid, rng, tier):
    """one anonymizer object driven through `anonymize_ip_addr` in both directions (undo / anonymize interleaved on the
    same address texts); every answer compared with the cache-free spec and with a fresh object"""
    from netconan.ip_anonymization import anonymize_ip_addr
    fails, dis = [], []
    for r in range(6 if tier == "quick" else 20):
        fam = 6 if r % 3 == 2 else 4
        cfg = ipgen.gen_cfg(rng, fam=fam)
        cfg.hmode = "md5"
        try:
            obj = cfg.build()
        except Exception as e:  # noqa
            continue
        L = cfg.L
        base = ipgen.gen_addrs(rng, cfg, 10)
        base = [a for a in base if not (fam == 4 and a in SPEC_MASKS)]
        pool = base + [a ^ 1 for a in base[:5]]
        nets = [ipaddress.ip_network(n) for n in (cfg.nets or [])] if fam == 4 else []
        ops = []
        for _ in range(40):
            a = rng.choice(pool)
            ops.append((rng.random() < 0.45, a))
        f_img = dict(zip(pool, spec_images(cfg, pool)))
        g_img = dict(zip(pool, spec_images(cfg, pool, inv=True)))
        fwd = {}
        for undo, a in ops:
            txt = str(ipaddress.ip_address(a)) if fam == 4 else str(ipaddress.IPv6Address(a))
            line = "neighbor %s up" % txt
            try:
                out = anonymize_ip_addr(obj, line, undo)
            except Exception as e:  # noqa
                fails.append({"kind": "anonymize_ip_addr raised", "cfg": cfg.describe(), "line": line, "undo": undo, "exc": repr(e)})
                continue
            tok = out.split(" ")[1] if len(out.split(" ")) == 3 else None
            keep = fam == 4 and (a in SPEC_MASKS or any(ipaddress.IPv4Address(a) in n for n in nets))
            want = txt if keep else str(ipaddress.ip_address((g_img if undo else f_img)[a])) if fam == 4 else str(ipaddress.IPv6Address((g_img if undo else f_img)[a]))
            res.evaluations += 1
            res.nt(("texthist", fam, undo, a & 0xFFFF))
            if tok != want:
                try:
                    fresh = anonymize_ip_addr(cfg.build(), line, undo)
                except Exception:  # noqa
                    fresh = None
                rec = {"cfg": cfg.describe(), "line": line, "undo": undo, "output": out, "expected_token": want,
                       "history": [("undo" if u else "anonymize", str(ipaddress.ip_address(x))) for u, x in ops[:ops.index((undo, a)) + 1]][-8:]}
                if fresh is not None and fresh != out:
                    rec["kind"] = "the answer of a long-lived anonymizer differs from a fresh one's (depends on the earlier requests)"
                    rec["fresh_output"] = fresh
                    fails.append(rec)
                else:
                    dis.append({"op": "anonymize_ip_addr(undo=%s) %s" % (undo, line), "impl": out, "model": want, "meta": rec})
            if not undo and tok is not None and not keep:
                try:
                    fwd[a] = int(ipaddress.ip_address(tok))
                except ValueError:
                    pass
        if pid == "C01":
            ks = list(fwd)
            for i in range(len(ks)):
                for j in range(i + 1, len(ks)):
                    k0, k1 = cpl(bits(ks[i], L), bits(ks[j], L)), cpl(bits(fwd[ks[i]], L), bits(fwd[ks[j]], L))
                    if k0 != k1 and not (fam == 4 and (fwd[ks[i]] in SPEC_MASKS or fwd[ks[j]] in SPEC_MASKS)):
                        fails.append({"kind": "common-prefix length changed (text level, one object used in both directions)", "cfg": cfg.describe(),
                                      "a": str(ipaddress.ip_address(ks[i])), "b": str(ipaddress.ip_address(ks[j])),
                                      "image_a": str(ipaddress.ip_address(fwd[ks[i]])), "image_b": str(ipaddress.ip_address(fwd[ks[j]])),
                                      "cpl_in": k0, "cpl_out": k1})
    return dis, fails


FRESH_SNIPPET = r"""
import json, sys
sys.path.insert(0, %r)
from netconan.ip_anonymization import IpAnonymizer, IpV6Anonymizer
req = json.load(sys.stdin)
out = []
for c in req:
    if c["fam"] == 4:
        o = IpAnonymizer(c["salt"], c["prefixes"], c["nets"], preserve_suffix=c["B"])
    else:
        o = IpV6Anonymizer(c["salt"], preserve_suffix=c["B"])
    out.append([(o.deanonymize(v) if c["undo"] else o.anonymize(v)) for v in c["vals"]])
json.dump(out, sys.stdout)
"""


def fresh_process(reqs):
    """Answers of newly constructed anonymizers in a brand-new interpreter process."""
    import json
    import subprocess
    import sys
    from .common import REPO
    p = subprocess.run([sys.executable, "-c", FRESH_SNIPPET % REPO], input=json.dumps(reqs), capture_output=True,
                       text=True, timeout=600)
    if p.returncode != 0:
        return None, p.stderr[-500:]
    return json.loads(p.stdout), None


def process_history_scope(res, pid, rng, tier):
    """This process has by now constructed many anonymizers with all kinds of options.  Anonymizers built here
    *now* must answer exactly like anonymizers built in a fresh process (C03: no dependence on what ran before;
    C02: undo in a fresh process that has never seen the originals)."""
    fails, dis = [], []
    cfgs = []
    # make sure the history contains anonymizers with preserved networks before default ones are built
    for nets in (["10.0.0.0/16"], ["44.0.0.0/8", "200.1.0.0/16"], list(ipgen.SPEC_RFC1918)):
        ipgen.Cfg(4, "hist", 8, None, nets, "md5").build()
    for i in range(6 if tier == "quick" else 20):
        c = ipgen.gen_cfg(rng, fam=4 if i % 3 else 6)
        c.hmode = "md5"
        if i % 2 == 0:
            c.prefixes = None        # defaults, as a library user gets them
        cfgs.append(c)
    reqs, local = [], []
    for c in cfgs:
        addrs = ipgen.gen_addrs(rng, c, 25)
        o = c.build()
        ys = [o.anonymize(a) for a in addrs]
        local.append((c, addrs, ys))
        base = {"fam": c.fam, "salt": c.salt, "prefixes": c.prefixes, "nets": c.nets, "B": c.B}
        reqs.append(dict(base, undo=False, vals=addrs))
        reqs.append(dict(base, undo=True, vals=ys))
    # text level: an earlier anonymizer had preserved networks; a later one without them must not treat them as preserved
    from netconan.ip_anonymization import anonymize_ip_addr
    if pid in ("C01", "C03", "C05"):
        for net in ("100.64.0.0/10", "44.0.0.0/8"):
            ipgen.Cfg(4, "leak", 8, None, [net], "md5").build()
            later = ipgen.Cfg(4, "leak", 8, None, None, "md5")
            obj = later.build()
            n = ipaddress.ip_network(net)
            inside = [int(n.network_address) + rng.randint(1, 60000) for _ in range(4)]
            imgs = spec_images(later, inside)
            for a, y in zip(inside, imgs):
                line = "ip address %s" % ipaddress.IPv4Address(a)
                out = anonymize_ip_addr(obj, line)
                res.evaluations += 1
                if out != "ip address %s" % ipaddress.IPv4Address(y) and a not in SPEC_MASKS:
                    fails.append({"kind": "an anonymizer behaves differently after another anonymizer with preserved networks was constructed in the process",
                                  "earlier_preserve_addresses": [net], "cfg": later.describe(), "line": line, "output": out,
                                  "expected": "ip address %s" % ipaddress.IPv4Address(y)})
    got, err = fresh_process(reqs)
    if got is None:
        dis.append({"op": "fresh interpreter process", "impl": "failed: " + str(err), "model": "ok", "meta": None})
        return dis, fails
    for i, (c, addrs, ys) in enumerate(local):
        fa, fu = got[2 * i], got[2 * i + 1]
        res.evaluations += 2 * len(addrs)
        for a, y, y2, x2 in zip(addrs, ys, fa, fu):
            res.nt(("proc", c.fam, a & 0xFFF))
            if pid == "C03" and y != y2:
                fails.append({"kind": "image differs between this process (after other anonymizers were constructed) and a fresh process",
                              "cfg": c.describe(), "a": a, "image_here": y, "image_fresh_process": y2})
            if pid == "C02" and x2 != a:
                fails.append({"kind": "undo in a fresh process does not return the original", "cfg": c.describe(),
                              "a": a, "image": y, "undo_fresh_process": x2})
    return dis, fails


def dir_history_scope(res, pid, rng, tier):
    """directory runs: no salt given (one generated salt must serve the whole run), a file that fails in the middle;
    identical files before and after it must receive identical mappings; a dump file left by an earlier run with
    another salt must not influence this run"""
    from netconan.anonymize_files import anonymize_files
    fails = []
    body = "".join("ip address %s 255.255.255.0\n neighbor %s remote-as 65001\n" % (
        ipaddress.IPv4Address(rng.getrandbits(32)), ipaddress.IPv6Address(rng.getrandbits(128))) for _ in range(12))
    # members of the preserved networks of the run (they stay as written in every file, also after a file has failed)
    body += "".join("ip host %s\n" % ipaddress.IPv4Address(a) for a in (0x2C010203, 0x2C01FFFE, 0x0A090807, 0xC0A80102))
    for salt in (None, "dirsalt"):
        d = tempfile.mkdtemp(prefix="ncverif_")
        try:
            ind, outd = os.path.join(d, "in"), os.path.join(d, "out")
            for rel, data in (("a.cfg", body.encode()), ("m/bad.bin", b"\xff\xfe\x00 not text \xc3\x28"), ("m/z/c.cfg", body.encode()),
                              ("zz.cfg", body.encode())):
                p = os.path.join(ind, rel)
                os.makedirs(os.path.dirname(p), exist_ok=True)
                open(p, "wb").write(data)
            dump = os.path.join(d, "map.txt")
            if salt is not None:
                # a map left behind by an earlier run with another salt
                open(dump, "w").write("".join("%s\t%s\n" % (ln.split()[2], "9.9.9.%d" % (i % 250)) for i, ln in enumerate(body.splitlines()) if ln.startswith("ip address")))
            from . import fa as _fa
            with _fa.LogCap():
                anonymize_files(ind, outd, False, True, salt=salt, dumpfile=dump if salt is not None else None,
                                preserve_networks=["44.1.0.0/16", "10.0.0.0/8", "192.168.0.0/16"])
            outs = {}
            for r_, _, fs in os.walk(outd):
                for f in fs:
                    outs[os.path.relpath(os.path.join(r_, f), outd)] = open(os.path.join(r_, f), encoding="utf-8", errors="surrogateescape").read()
            res.evaluations += 3
            res.nt(("dirhist", salt))
            good = [k for k in ("a.cfg", os.path.join("m", "z", "c.cfg"), "zz.cfg") if k in outs]
            if len(good) < 3:
                fails.append({"kind": "a healthy file was not written", "salt": salt, "written": sorted(outs)})
            elif len(set(outs[k] for k in good)) != 1:
                fails.append({"kind": "identical files of one run received different address mappings (a file failed in between)",
                              "salt": salt, "first_lines": {k: outs[k].split("\n")[0] for k in good}})
            elif salt is not None:
                cfg4 = ipgen.Cfg(4, salt, None, None, ["44.1.0.0/16", "10.0.0.0/8", "192.168.0.0/16"], "md5")
                a0 = int(ipaddress.IPv4Address(body.split()[2]))
                want = spec_images(cfg4, [a0])[0]
                got = outs["a.cfg"].split()[2]
                in_nets = any(ipaddress.IPv4Address(a0) in ipaddress.ip_network(n_) for n_ in ("44.1.0.0/16", "10.0.0.0/8", "192.168.0.0/16"))
                if a0 not in SPEC_MASKS and not in_nets and got != str(ipaddress.IPv4Address(want)):
                    fails.append({"kind": "a map file left by an earlier run (other salt) changed this run's mapping", "salt": salt,
                                  "address": body.split()[2], "output": got, "expected": str(ipaddress.IPv4Address(want))})
        finally:
            shutil.rmtree(d, ignore_errors=True)
    return [], fails


def big_history(res, pid, rng, tier):
    """A long run on one anonymizer (tens of thousands of addresses): every answer and the dump compared with
    the cache-free spec.  (The list-based model machine is too slow here; the spec is proved equal to it.)"""
    fails, dis = [], []
    n = sizes(tier)["big"]
    for fam, cnt in ((4, n), (6, max(300, n // 12))):
        L = 32 if fam == 4 else 128
        nets = None
        if fam == 4 and pid == "C05":
            nets = ["10.0.0.0/16", "48.0.0.0/5"]
        elif fam == 4 and pid in ("C01", "C04") and rng.random() < 0.5:
            nets = ["10.0.0.0/16"]
        cfg = ipgen.Cfg(fam, "big" + str(rng.randint(0, 9)), rng.choice([0, 8]), None, nets, "md5")
        obj = cfg.build()
        # half near the configured boundaries, half uniform (every uniform address adds ~L new memo nodes)
        addrs = list(dict.fromkeys(ipgen.gen_addrs(rng, cfg, cnt // 2) + [rng.getrandbits(L) for _ in range(cnt // 2)]))
        rng.shuffle(addrs)
        probes = addrs[:40]
        # neighbours of the probes are asked again at the very end of the history
        tail = [a ^ (1 << rng.randint(0, L - 1)) for a in probes for _ in range(3)]
        addrs = list(dict.fromkeys(addrs + tail))
        ys = [obj.anonymize(a) for a in addrs]
        spec = spec_images(cfg, addrs)
        res.evaluations += len(addrs)
        res.count("big_history_v%d_addresses" % fam, len(addrs))
        bad = [i for i, (y, s) in enumerate(zip(ys, spec)) if y != s]
        if bad:
            i = bad[0]
            dis.append({"op": "anonymize %d (request %d in a history of %d)" % (addrs[i], i, len(addrs)),
                        "impl": ys[i], "model": spec[i], "meta": cfg.describe()})
        d = cfg.describe()
        if pid == "C01":
            cand = set(bad[:50]) | set(range(40)) | set(range(len(addrs) - 120, len(addrs)))
            done = False
            for i in cand:
                if done:
                    break
                for j in list(range(0, len(addrs), max(1, len(addrs) // 400))) + list(range(40)) + list(range(len(addrs) - 120, len(addrs))):
                    if i == j:
                        continue
                    k0, k1 = cpl(bits(addrs[i], L), bits(addrs[j], L)), cpl(bits(ys[i], L), bits(ys[j], L))
                    res.nt(("bigcpl", L, k0))
                    if k0 != k1:
                        fails.append({"kind": "common-prefix length changed within a long history", "cfg": d,
                                      "a": addrs[i], "b": addrs[j], "request_index_a": i, "request_index_b": j,
                                      "image_a": ys[i], "image_b": ys[j], "cpl_in": k0, "cpl_out": k1,
                                      "history_length": len(addrs)})
                        done = True
                        break
        if pid == "C04":
            for a, y in zip(addrs, ys):
                for p in cfg.pins():
                    if bits(a, L).startswith(p) != bits(y, L).startswith(p):
                        fails.append({"kind": "preserved prefix not respected within a long history", "cfg": d, "a": a,
                                      "image": y, "prefix_bits": p, "history_length": len(addrs)})
                        break
                if fails:
                    break
        if pid == "C05" and fam == 4:
            for a, y in zip(addrs, ys):
                for n in [ipaddress.ip_network(x) for x in (cfg.nets or [])]:
                    if (ipaddress.IPv4Address(a) in n) != (ipaddress.IPv4Address(y) in n):
                        fails.append({"kind": "address mapped across the boundary of a preserved network within a long history", "cfg": d,
                                      "a": str(ipaddress.IPv4Address(a)), "image": str(ipaddress.IPv4Address(y)), "network": str(n),
                                      "history_length": len(addrs)})
                        break
                if fails:
                    break
        if pid == "C17":
            m = dict((p[0], p[1]) for p in dump_impl(obj))
            miss = [a for a, y in zip(addrs, ys) if m.get(a) != y]
            if miss:
                fails.append({"kind": "anonymized address missing from the dump after a long run", "cfg": d,
                              "addresses_in_run": len(addrs), "missing": len(miss), "first_missing": miss[0]})
        if pid in ("C03", "C02"):
            fresh = cfg.build()
            for a, y in list(zip(addrs, ys))[:60]:
                res.nt(("big-reask", L, a & 0xFF))
                if obj.anonymize(a) != y:
                    fails.append({"kind": "answer changed after a long history", "cfg": d, "a": a})
                    break
                x = obj.deanonymize(y)
                xf = fresh.deanonymize(y)
                if x != a or xf != a:
                    fails.append({"kind": "undo after a long history / on a fresh memo does not return the original",
                                  "cfg": d, "a": a, "image": y, "undo_long_lived": x, "undo_fresh": xf})
                    break
    return dis, fails
