"""C19 (command-line contract) and C16 (files map one-to-one; failures isolated; entry points agree)."""
import hashlib
import io
import itertools
import logging
import os
import re
import shutil
import tempfile
from unittest import mock

from . import fa
from .common import cps, hexs
from .ip_checks import Sess, exc_name

MSG = {"Input must be specified": "inputMissing", "Output must be specified": "outputMissing",
       "Cannot anonymize and undo": "undoWithAnonymize", "Salt used for anonymization must be specified": "undoWithoutSalt",
       "Can only dump IP address map": "dumpWithoutIps"}


def hx(s):
    return s.encode().hex() if s else "-"


def show_opt_s(v):
    return "none" if v is None else "s" + hx(v)


def show_opt_l(v):
    return "none" if v is None else "l" + ",".join(hx(x) for x in v)


def impl_outcome(argv, cfg_text):
    """netconan.netconan.main with anonymize_files replaced by a recorder"""
    from netconan import netconan as nc
    d = tempfile.mkdtemp(prefix="ncverif_")
    calls = []
    try:
        args = list(argv)
        if cfg_text is not None:
            p = os.path.join(d, "n.cfg")
            with open(p, "w") as f:
                f.write(cfg_text)
            args = ["-c", p] + args

        def rec(*a, **k):
            calls.append((a, k))
        lvl = logging.getLogger().level
        try:
            import contextlib
            with mock.patch.object(nc, "anonymize_files", rec), contextlib.redirect_stderr(io.StringIO()):
                with fa.LogCap():
                    nc.main(args)
        except SystemExit:
            return "reject argparse"
        except ValueError as e:
            for k, v in MSG.items():
                if k in str(e):
                    return "reject " + v
            return "reject ValueError:" + str(e)[:60]
        except Exception as e:  # noqa
            return "err " + type(e).__name__
        finally:
            logging.getLogger().setLevel(lvl)
        if not calls:
            return "noop"
        a, k = calls[0]
        names = ["input", "output", "pwd", "ip", "salt", "dump", "words", "undo", "asn", "reserved", "prefixes", "nets"]
        v = dict(zip(names, a))
        v.update({"b4": k.get("preserve_suffix_v4"), "b6": k.get("preserve_suffix_v6")})
        for kk in names[len(a):]:
            v[kk] = k.get({"pwd": "anon_pwd", "ip": "anon_ip", "words": "sensitive_words", "asn": "as_numbers", "reserved": "reserved_words",
                           "prefixes": "preserve_prefixes", "nets": "preserve_networks", "undo": "undo_ip_anon", "dump": "dumpfile"}.get(kk, kk))
        b = lambda x: "true" if x else "false"  # noqa
        return ("call input=%s output=%s pwd=%s ip=%s salt=%s dump=%s words=%s undo=%s asn=%s reserved=%s prefixes=%s nets=%s b4=%s b6=%s" % (
            hx(v["input"]), hx(v["output"]), b(v["pwd"]), b(v["ip"]), show_opt_s(v["salt"]), show_opt_s(v["dump"]), show_opt_l(v["words"]),
            b(v["undo"]), show_opt_l(v["asn"]), show_opt_l(v["reserved"]), show_opt_l(v["prefixes"]), show_opt_l(v["nets"]), v["b4"], v["b6"]))
    finally:
        shutil.rmtree(d, ignore_errors=True)


OPTS = {  # name -> (cli flag, config key, is flag)
    "input": ("-i", "input", False), "output": ("-o", "output", False), "ips": ("-a", "anonymize-ips", True),
    "pwd": ("-p", "anonymize-passwords", True), "undo": ("-u", "undo", True), "salt": ("-s", "salt", False),
    "dump": ("-d", "dump-ip-map", False), "asn": ("-n", "as-numbers", False), "reserved": ("-r", "reserved-words", False),
    "words": ("-w", "sensitive-words", False), "prefixes": ("--preserve-prefixes", "preserve-prefixes", False),
    "addrs": ("--preserve-addresses", "preserve-addresses", False), "private": ("--preserve-private-addresses", "preserve-private-addresses", True),
    "hostbits": ("--preserve-host-bits", "preserve-host-bits", False)}
VALUES = {"input": ["in", "in2"], "output": ["out", "out2"], "salt": ["s1", "s2"], "dump": ["map1", "map2"], "asn": ["65001,12", "7"],
          "reserved": ["foo,bar", "baz"], "words": ["sea,lax", "atl"], "prefixes": ["12.0.0.0/8", "10.0.0.0/8,20.0.0.0/16"],
          "addrs": ["10.1.0.0/16", "44.0.0.0/8,200.1.2.3"], "hostbits": ["0", "17"]}


ABBREV = {"reserved": "--reserved-w", "words": "--sensitive-w", "asn": "--as-n", "salt": "--sal", "dump": "--dump-ip", "prefixes": "--preserve-pre",
          "addrs": "--preserve-a", "hostbits": "--preserve-h", "input": "--inp", "output": "--outp"}


def build(assign, style=None):
    """assign: name -> (source in 'c','f','b', [values]); style: None (flag and value as two arguments) or a random source
    choosing per option among the spellings argparse accepts (`-rX`, `--long=X`, unambiguous abbreviation `--lon=X`)"""
    argv, cfg, words = [], [], []
    for name, (src, vals) in assign.items():
        flag, key, isflag = OPTS[name]
        if src in ("c", "b"):
            # (other spellings than "flag value": configargparse then also parses - and type-checks - the config file's value of the
            #  same option, so they are used only where that value cannot be ill-typed: string- and list-valued options, or no config entry)
            ok_style = style is not None and not isflag and vals[0] != "" and not vals[0].startswith("-") and (src == "c" or name != "hostbits")
            k_ = style.random() if ok_style else 1.0
            if k_ < 0.25 and len(flag) == 2:
                argv += [flag + vals[0]]
            elif k_ < 0.45:
                argv += ["--" + key + "=" + vals[0]]
            elif k_ < 0.6 and name in ABBREV:
                argv += [ABBREV[name] + "=" + vals[0]]
            else:
                argv += [flag] if isflag else [flag, vals[0]]
            words.append("%s:c:%s" % (name, "-" if isflag else hx(vals[0])))
        if src in ("f", "b"):
            v = vals[-1]
            cfg.append("%s=%s" % (key, "true" if isflag else v))
            words.append("%s:f:%s" % (name, "-" if isflag else hx(v)))
    return argv, ("\n".join(cfg) + "\n") if cfg else None, "cli " + " ".join(words)


def _effective(line, name):
    """command line over config file"""
    vals = {}
    for w in line.split(" ")[1:]:
        k, src, hv = w.split(":")
        if k == name:
            vals[src] = "" if hv == "-" else bytes.fromhex(hv).decode()
    return vals.get("c", vals.get("f"))


def cli_scope(res, pid, rng, tier):
    sess, fails = Sess(), []
    cases = []
    # exhaustive over the validation-relevant options: each in {absent, command line, config file, both}
    core = ["ips", "undo", "salt", "dump", "pwd"]
    for combo in itertools.product("-cfb", repeat=len(core)):
        assign = {"input": ("c", ["in"]), "output": ("c", ["out"])}
        for name, src in zip(core, combo):
            if src != "-":
                assign[name] = (src, VALUES.get(name, ["x"]))
        cases.append(assign)
    # input / output / host bits incl. out-of-range, and the list-valued options, randomly
    hb_vals = ["0", "8", "32", "33", "-1", "abc", "17", "", "1e1", "007"]
    for _ in range(1500 if tier == "thorough" else 400):
        assign = {}
        for name in OPTS:
            k = rng.random()
            p_absent = 0.15 if name in ("input", "output") else 0.55
            if k < p_absent:
                continue
            src = rng.choice("cfb")
            vals = list(VALUES.get(name, ["x"]))
            if name == "hostbits":
                vals = [rng.choice(hb_vals), rng.choice(hb_vals)]
            if name in ("input", "output") and rng.random() < 0.08:
                vals = ["", ""]
            if name == "salt" and rng.random() < 0.3:
                vals = ["", rng.choice(["", "s2"])]         # an empty salt is a salt
            elif name in ("salt", "words", "asn", "reserved") and rng.random() < 0.12:
                vals = ["@" + v_ for v_ in vals]            # a value that starts with `@` is a value (not a file of further arguments)
            rng.shuffle(vals)
            assign[name] = (src, vals)
        cases.append(assign)
    for ci, assign in enumerate(cases):
        argv, cfg, line = build(assign, style=rng if ci % 2 else None)
        if ci % 3 == 0:
            # the log level is no part of the contract: the same decision and the same parameters at every level
            argv = argv + rng.choice([["-l", "DEBUG"], ["--log-level", "DEBUG"], ["-l", "WARNING"], ["--log-level=ERROR"], ["-l", "INFO"]])
        hbv = assign.get("hostbits")
        # conservatively: required options present, every host-bits value well-formed, no empty value anywhere (configargparse refuses
        # an empty `key=` line, see DESIGN I.6)
        meta_ok = ("input" in assign and "output" in assign and not any(v_ == "" for _, vs_ in assign.values() for v_ in vs_)
                   and (hbv is None or all(v_.isdigit() and v_.isascii() and int(v_) <= 32 for v_ in hbv[1])))
        sess.op(line, lambda argv=argv, cfg=cfg: impl_outcome(argv, cfg), {"argv": argv, "config_file": cfg, "argparse_should_accept": meta_ok})
        res.nt(line[:80])
    dis = sess.finish()
    res.evaluations += len(sess.lines)
    res.traces += 1
    # the property's oracle on the implementation's outcomes
    for line, out, meta in zip(sess.lines, sess.impl, sess.meta):
        has = lambda n: (" %s:" % n) in (" " + line)  # noqa
        if out == "reject argparse" and meta.get("argparse_should_accept"):
            fails.append({"kind": "a well-formed command line (required options present, host bits in range) was refused by the parser",
                          "argv": meta["argv"], "config_file": meta["config_file"], "outcome": out})
        if out.startswith("call"):
            f = dict(x.split("=", 1) for x in out.split(" ")[1:])
            bad = None
            if f["input"] == "-" or f["output"] == "-":
                bad = "an empty input or output path reached the library"
            elif f["undo"] == "true" and f["ip"] == "true":
                bad = "undo together with anonymize reached the library"
            elif f["undo"] == "true" and f["salt"] == "none":
                bad = "undo without salt reached the library"
            elif f["dump"] != "none" and f["ip"] != "true":
                bad = "map dump without IP anonymization reached the library"
            elif has("salt") and f["salt"] != show_opt_s(_effective(line, "salt")):
                bad = "the salt given by the user (possibly empty) is not the salt passed on"
            elif f["b4"] != f["b6"] or not f["b4"].isdigit() or not 0 <= int(f["b4"]) <= 32:
                bad = "host bits outside 0-32 or different for the two families"
            elif not has("hostbits") and f["b4"] != "8":
                bad = "default of 8 host bits not applied"
            elif has("hostbits") and not re.fullmatch(r"\s*[+-]?\d+\s*", _effective(line, "hostbits") or ""):
                bad = "a preserved-host-bits value that is not an integer was accepted"
            elif has("hostbits") and f["b4"] != str(int(_effective(line, "hostbits"))):
                bad = "the number of preserved host bits given by the user is not the one applied"
            elif not has("prefixes") and f["prefixes"] != show_opt_l("0.0.0.0/1,128.0.0.0/2,192.0.0.0/3,224.0.0.0/4,10.0.0.0/8,172.16.0.0/12,192.168.0.0/16".split(",")):
                bad = "default preserved prefixes (classes + private) not applied"
            elif any(has(n_) and f[k_] != show_opt_l((_effective(line, n_) or "").split(",")) for n_, k_ in
                     (("reserved", "reserved"), ("words", "words"), ("asn", "asn"), ("prefixes", "prefixes"))):
                bad = "a list-valued option does not reach the library with the value given (command line over config file)"
            elif has("private") and not f["nets"].endswith(show_opt_l(["10.0.0.0/8", "172.16.0.0/12", "192.168.0.0/16"])[1:]):
                bad = "--preserve-private-addresses is not the same as listing the three RFC 1918 networks"
            if bad:
                fails.append({"kind": bad, "argv": meta["argv"], "config_file": meta["config_file"], "outcome": out})
        elif out == "noop" and any(has(n) for n in ("ips", "undo", "pwd", "asn", "words")):
            fails.append({"kind": "an anonymization option was given but nothing was done", "argv": meta["argv"], "config_file": meta["config_file"]})
        elif out.startswith("err"):
            fails.append({"kind": "main raised something other than a usage error", "argv": meta["argv"], "config_file": meta["config_file"], "outcome": out})
    # every number of host bits 0..32 is accepted, from the command line and from the config file; 33 and -1 are not
    for hb in list(range(0, 33)) + [33, -1, "32.5", "32.01", "-0.5", "-0.99", "8.0", "1e1", " 8", "0x8", "8 "]:
        for src in "cf":
            argv, cfg, line = build({"input": ("c", ["in"]), "output": ("c", ["out"]), "ips": ("c", ["x"]), "salt": ("c", ["s1"]), "hostbits": (src, [str(hb)])})
            o_ = impl_outcome(argv, cfg)
            res.evaluations += 1
            if isinstance(hb, str):
                # not an integer in 0..32 as written: accepted only if Python's int() reads it as one (" 8", "8 "), then applied as that integer
                try:
                    iv = int(hb)
                except ValueError:
                    iv = None
                if (iv is None and o_.startswith("call")) or (iv is not None and o_.startswith("call") and "b4=%d b6=%d" % (iv, iv) not in o_):
                    fails.append({"kind": "preserved host bits: the value %r is accepted (as another number)" % hb, "argv": argv, "config_file": cfg, "outcome": o_})
                continue
            if (0 <= hb <= 32) != o_.startswith("call") or (o_.startswith("call") and "b4=%d b6=%d" % (hb, hb) not in o_):
                fails.append({"kind": "preserved host bits: %d is %s" % (hb, "rejected or not applied" if 0 <= hb <= 32 else "accepted"),
                              "argv": argv, "config_file": cfg, "outcome": o_})
    # same options on the command line and in the config file behave identically
    for _ in range(60):
        assign = {}
        for name in OPTS:
            if name in ("input", "output") or rng.random() < 0.4:
                assign[name] = ("c", VALUES.get(name, ["x"])[:1])
        a1, c1, _ = build(assign)
        a2, c2, _ = build({k: ("f" if k not in ("input", "output") else "c", v) for k, (s, v) in assign.items()})
        o1, o2 = impl_outcome(a1, c1), impl_outcome(a2, c2)
        res.evaluations += 2
        if o1 != o2:
            fails.append({"kind": "an option behaves differently on the command line and in the config file", "argv": a1,
                          "config_file": c2, "outcome_cli": o1, "outcome_config": o2})
    # real runs: --preserve-private-addresses gives the same files as listing the three networks, also next to other options
    from .ip_checks import run_cli
    body = "".join("ip host %s\n" % a for a in ("10.9.8.7", "172.16.5.4", "192.168.7.7", "11.11.3.4", "11.12.3.4", "9.8.7.6", "100.64.12.34", "100.100.3.17", "96.1.2.3",
                                                "200.1.1.1", "8.8.8.8", "172.32.0.1", "192.169.0.1", "10.200.3.77", "10.1.1.9", "10.1.2.9", "172.31.255.254", "192.168.200.1"))
    for extra in ([], ["--preserve-addresses", "11.11.0.0/16"], ["--preserve-prefixes", "0.0.0.0/1"], ["--preserve-prefixes", "12.0.0.0/8", "--preserve-addresses", "9.8.0.0/16"],
                  ["--preserve-addresses", "10.1.1.0/24"], ["--preserve-addresses", "172.16.5.4,192.168.0.0/24,10.0.0.0/9"]):
        a1 = ["-a", "-s", "eq"] + extra + ["--preserve-private-addresses"]
        lst = "10.0.0.0/8,172.16.0.0/12,192.168.0.0/16"
        if "--preserve-addresses" in extra:
            i_ = extra.index("--preserve-addresses")
            a2 = ["-a", "-s", "eq"] + extra[:i_] + ["--preserve-addresses", extra[i_ + 1] + "," + lst] + extra[i_ + 2:]
            a3 = ["-a", "-s", "eq"] + extra[:i_] + ["--preserve-addresses", lst + "," + extra[i_ + 1]] + extra[i_ + 2:]
        else:
            a2 = ["-a", "-s", "eq"] + extra + ["--preserve-addresses", lst]
            a3 = ["-a", "-s", "eq"] + extra + ["--preserve-addresses", ",".join(reversed(lst.split(",")))]
        s1, o1, _ = run_cli(a1, {"a.cfg": body})
        s2, o2, _ = run_cli(a2, {"a.cfg": body})
        s3, o3, _ = run_cli(a3, {"a.cfg": body})
        res.evaluations += 3
        if (s1, o1) == (s2, o2) and (s3, o3) != (s2, o2):
            a2, s2, o2 = a3, s3, o3          # the listing in the other order
        if s1 != s2 or o1 != o2:
            la, lb = (o1.get("a.cfg") or "").split("\n"), (o2.get("a.cfg") or "").split("\n")
            k = next((i for i, (x, y) in enumerate(zip(la, lb)) if x != y), 0)
            fails.append({"kind": "--preserve-private-addresses does not give the same output as listing the three RFC 1918 networks", "argv_flag": a1, "argv_listing": a2,
                          "status": [s1, s2], "input_line": body.split("\n")[k], "with_flag": la[k] if k < len(la) else None, "with_listing": lb[k] if k < len(lb) else None})
    # real runs: the private-address switch preserves the three RFC 1918 networks and nothing else (loopback, link-local, benchmark and
    # documentation addresses are anonymized like any other); the private ones stay
    sp = ["127.0.0.1", "169.254.1.1", "198.18.0.1", "192.0.2.1", "203.0.113.9", "100.64.0.1", "240.0.0.1"]
    s1, o1, _ = run_cli(["-a", "-s", "sp", "--preserve-private-addresses", "--preserve-host-bits", "0"],
                        {"a.cfg": "".join("ip host %s\n" % a for a in sp + ["10.9.8.7", "192.168.1.1"])})
    res.evaluations += 1
    lo = (o1.get("a.cfg") or "").split("\n")[:-1]
    kept = [a for a, l_ in zip(sp, lo) if l_ == "ip host %s" % a]
    if s1 != "ok" or len(lo) != len(sp) + 2 or len(kept) >= 2 or lo[-2:] != ["ip host 10.9.8.7", "ip host 192.168.1.1"]:
        fails.append({"kind": "--preserve-private-addresses does not give the same output as listing the three RFC 1918 networks",
                      "argv": ["-a", "-s", "sp", "--preserve-private-addresses", "--preserve-host-bits", "0"], "status": s1,
                      "addresses_outside_the_three_networks_left_unchanged": kept, "output": lo})
    # real runs: every run gets the host bits it was given - two runs in one process with the same salt and lists
    txt_hb = "ip address 12.34.56.78 255.255.255.0\nipv6 address 2001:db8::1234:5678/64\n"
    runs_hb = []
    for hb in (["--preserve-host-bits", "0"], [], ["--preserve-host-bits", "16"], []):
        st_, o_, _ = run_cli(["-a", "-s", "samesalt"] + hb, {"a.cfg": txt_hb})
        runs_hb.append((hb, st_, (o_.get("a.cfg") or "")))
        res.evaluations += 1
    for hb, st_, o_ in runs_hb:
        want8 = hb == []
        l4 = o_.split("\n")[0] if o_ else ""
        if st_ != "ok" or (want8 and not l4.split(" ")[2:3] == [l4.split(" ")[2]] ) or (want8 and not l4.split(" ")[2].endswith(".78")) \
                or (hb == ["--preserve-host-bits", "16"] and not l4.split(" ")[2].endswith(".56.78")):
            fails.append({"kind": "a run does not preserve the number of host bits it was given (default 8)", "argv": ["-a", "-s", "samesalt"] + hb,
                          "earlier_runs_in_this_process": [r_[0] for r_ in runs_hb], "input": txt_hb, "output": o_, "status": st_})
            break
    if runs_hb[1][2] != runs_hb[3][2]:
        fails.append({"kind": "a run does not preserve the number of host bits it was given (default 8)", "detail": "two runs with the same options differ",
                      "argv": ["-a", "-s", "samesalt"], "outputs": [runs_hb[1][2], runs_hb[3][2]]})
    # real runs: every anonymization option alone is an anonymization option (the output file is written and the option has its effect)
    one = "hostname acme-gw\nrouter bgp 65001\nusername bob password 0 hunter2abc\nip address 12.34.56.78 255.255.255.0\n"
    for argv1, gone in ((["-n", "65001"], "65001"), (["-w", "acme"], "acme"), (["-p"], "hunter2abc"), (["-a"], "12.34.56.78")):
        s_, o_, _ = run_cli(["-s", "only"] + argv1, {"a.cfg": one})
        res.evaluations += 1
        if s_ != "ok" or gone in (o_.get("a.cfg") or gone):
            fails.append({"kind": "a single anonymization option on the command line does not produce its output", "argv": ["-s", "only"] + argv1,
                          "status": s_, "output": o_.get("a.cfg")})
    # real runs: the default of 8 host bits holds for both families as the library understands it
    from netconan.ip_anonymization import IpV6Anonymizer as _A6, IpAnonymizer as _A4
    import ipaddress as _ipa
    s_, o_, _ = run_cli(["-a", "-s", "hb6"], {"a.cfg": "ipv6 address 2001:db8:1234:5678:9abc:def0:1234:5678/64\nip address 12.34.56.78\n"})
    res.evaluations += 1
    w6 = str(_ipa.IPv6Address(_A6("hb6", preserve_suffix=8).anonymize(int(_ipa.IPv6Address("2001:db8:1234:5678:9abc:def0:1234:5678")))))
    w4 = str(_ipa.IPv4Address(_A4("hb6", preserve_suffix=8).anonymize(int(_ipa.IPv4Address("12.34.56.78")))))
    if s_ != "ok" or (o_.get("a.cfg") or "") != "ipv6 address %s/64\nip address %s\n" % (w6, w4):
        fails.append({"kind": "a run does not preserve the number of host bits it was given (default 8)", "argv": ["-a", "-s", "hb6"],
                      "output": o_.get("a.cfg"), "library_with_8_host_bits": [w6, w4]})
    # real runs: the ends of the accepted host-bit range (0, 1, 31, 32) do what the mapping function with that many host bits does,
    # with -a and with -u
    for hb in (0, 1, 31, 32):
        for flag in ("-a", "-u"):
            s_, o_, _ = run_cli([flag, "-s", "hbend", "--preserve-host-bits", str(hb)], {"a.cfg": "ip address 12.34.56.78\nipv6 address 2001:db8::1234:5678/64\n"})
            res.evaluations += 1
            try:
                m4, m6 = _A4("hbend", preserve_suffix=hb), _A6("hbend", preserve_suffix=hb)
                f4, f6 = (m4.anonymize, m6.anonymize) if flag == "-a" else (m4.deanonymize, m6.deanonymize)
                want_ = "ip address %s\nipv6 address %s/64\n" % (_ipa.IPv4Address(int(f4(int(_ipa.IPv4Address("12.34.56.78"))))),
                                                                 _ipa.IPv6Address(int(f6(int(_ipa.IPv6Address("2001:db8::1234:5678"))))))
            except Exception:  # noqa
                continue
            if s_ != "ok" or (o_.get("a.cfg") or "") != want_:
                fails.append({"kind": "preserved host bits: %d is rejected or not applied" % hb, "argv": [flag, "-s", "hbend", "--preserve-host-bits", str(hb)],
                              "status": s_, "output": o_.get("a.cfg"), "mapping_function_with_that_many_host_bits": want_})
    # real runs: rejected combinations and the no-option case write nothing
    for argv in (["-u"], ["-u", "-a", "-s", "x"], ["-d", "map"], ["-a", "--preserve-host-bits", "33"], [], ["-u", "-p"], ["-d", "map", "-p", "-u", "-s", "q"]):
        d = tempfile.mkdtemp(prefix="ncverif_")
        try:
            os.makedirs(os.path.join(d, "in"))
            open(os.path.join(d, "in", "a.cfg"), "w").write("ip address 1.2.3.4\n")
            from netconan import netconan as nc
            full = ["-i", os.path.join(d, "in"), "-o", os.path.join(d, "out")] + [os.path.join(d, x) if x == "map" else x for x in argv]
            import contextlib
            try:
                with fa.LogCap(), contextlib.redirect_stderr(io.StringIO()):
                    nc.main(full)
            except (SystemExit, ValueError):
                pass
            left = sorted(os.listdir(d))
            res.evaluations += 1
            if left != ["in"]:
                fails.append({"kind": "a rejected / no-option invocation wrote something", "argv": argv, "created": left})
        finally:
            shutil.rmtree(d, ignore_errors=True)
    return dis, fails
