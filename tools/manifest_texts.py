NOTES = ("Every check: regenerate data from /repo -> lake build of the property's theorem modules and the model driver -> "
         "#print axioms audit (only propext, Classical.choice, Quot.sound) and a scan for sorry/native_decide/bv_decide -> "
         "differential correspondence between the compiled Lean model and the live Python code on seeded inputs (VERIF_SEED) -> "
         "the property's oracle on the implementation's own answers -> known findings. A broken theorem or correspondence triggers "
         "a search for a concrete failing input; without one the VIOLATION line ends with no-failing-input-found.")

IPNOTE = ("Theorems hold for every hash bit h (every salt), every width L, every host-bit count B and every list of preserved "
          "prefixes. Trusted: Lean kernel; the three standard axioms; the hand-written model lean/Netconan/Model/IpCore.lean is tied "
          "to netconan/ip_anonymization.py only by the differential correspondence (results of anonymize/deanonymize/dump_to_file, "
          "FileAnonymizer.anonymize_io and the command line on seeded histories); MD5, ipaddress and bidict are exercised, not verified.")

TEXT = {
 "C01": {"ref": "DESIGN.md §7 C01", "technique": "Lean 4 theorem (induction over bit lists) + memo-machine refinement + differential correspondence",
         "text": "Proved for all widths, salts, host-bit counts and preserved-prefix lists: the whole-address map Ffull preserves the common-prefix length of every pair, is injective and a permutation with two-sided inverse; the memo machine written as the Python code writes it (look-up, strip last bit, hash, recurse, bidict put, seeding loop) is proved to return Ffull for every request of every history.",
         "note": IPNOTE},
 "C02": {"ref": "DESIGN.md §7 C02", "technique": "Lean 4 theorem (inverse walk refinement over all reachable memos) + differential correspondence",
         "text": "Proved: Gfull∘Ffull = id and Ffull∘Gfull = id; deanonymize on a freshly constructed memo and on every reachable memo returns Gfull (fresh_undo, warm_undo). The file-level clause (--undo restores canonical text) is validated by correspondence on FileAnonymizer and the command line, not proved (partial).",
         "note": IPNOTE},
 "C03": {"ref": "DESIGN.md §7 C03", "technique": "Lean 4 refinement theorem by induction over request histories with a memo invariant",
         "text": "Main refinement theorem: for every finite sequence of anonymize/undo requests from the constructor's memo, every answer equals the cache-free function of (h, pins, L, B, request) and no request raises (bidict duplicate error and IndexError unreachable); corollaries for splits across runs.",
         "note": IPNOTE},
 "C04": {"ref": "DESIGN.md §7 C04", "technique": "Lean 4 theorem (pinned-node closure, prefix iff via common-prefix length) + correspondence incl. command line defaults",
         "text": "Proved: for every preserved prefix p (any length, nested, overlapping, longer than the anonymized part) p is a prefix of Ffull a iff of a; the trailing B bits are unchanged; the leading image bits are a function of the leading input bits only. Defaults (class + RFC1918 list, 8 host bits for both families) are checked on regenerated data and through the command line.",
         "note": IPNOTE},
 "C05": {"ref": "DESIGN.md §7 C05", "technique": "Lean 4 theorems (kernel-decided mask table, bit-trick lemma by induction on width, prefix iff) + exhaustive correspondence on masks and perturbations",
         "text": "Proved: _is_mask accepts all 66 mask/wildcard values (kernel-decided over the whole table) and is exactly 'the adjacent-bit difference word has at most one bit set' for every integer (bit trick proved for every width); should_anonymize is false for masks and members of preserved networks; for every preserved network (registered as a pinned prefix) outside stays outside under Ffull and Gfull. The characterisation 'at most one transition iff ones-then-zeros or zeros-then-ones' (the direction that non-masks are anonymized) and the verbatim return in the text layer are validated exhaustively on all masks and one-bit perturbations, not yet proved.",
         "note": IPNOTE},
 "C18": {"ref": "DESIGN.md §7 C18", "technique": "Lean 4 theorem by induction over the plaintext; table side conditions decided by the kernel on regenerated tables; correspondence + independent decoder",
         "text": "Proved for all plaintexts over 0..255 of any length and every salt (None, empty, any alphabet character, any other string): encrypt yields a string that passes the validity check and decrypts to the plaintext, under the hypothesis the proof forces (plaintext non-empty, or a salt character with three fillers); decrypt of ANY string ends in a result or ValueError, never KeyError/IndexError (decrypt_total). The excluded corner is kernel-evaluated and recorded as known finding.",
         "note": "Tables FAMILY/ENCODING/EXTRA/_fixedc are regenerated from netconan/utils/juniper_secrets.py on every run and the kernel re-decides the side conditions (1792-case row check, alphabet facts); the hand-written model of the two functions is tied to the code by exhaustive/seeded correspondence. Plaintext characters above 255 are outside the property."},
 "C17": {"ref": "DESIGN.md §7 C17", "technique": "Lean 4 invariant (graph of the map + key uniqueness) over all histories + correspondence on dump_to_file and --dump-ip-map",
         "text": "Proved for every history on a constructed anonymizer: the dump (full-length memo entries) contains every anonymized address with exactly the image returned, lists no original and no replacement twice, and every listed pair satisfies v = Ffull k (both the B = 0 and the B > 0 caching path).",
         "note": IPNOTE},
}
NA = {}

TEXT["C06"] = {"ref": "DESIGN.md §7 C06", "technique": "Lean 4 model of Python's backtracking matcher run on CPython-parsed pattern trees (pinned) + correspondence + independent token-scanner oracle; frame theorem at T0",
    "text": "Partial (tier T0). The two address patterns are translated through CPython's own parser into the Lean Re type and run by a Lean model of the backtracking matcher (ordered alternation, counted repeats, look-around, groups); parse/print of both families are modelled after ipaddress. Kernel-evaluated instances and the octet arithmetic are proved; the unbounded token-level reading ('every valid standalone token and nothing else is replaced') is NOT yet a theorem - it is validated exhaustively on all short strings over boundary alphabets and on structured tokens against an independent scanner. Known finding: IPv6 addresses with a dotted-quad tail.",
    "note": "Trusted/validated rather than proved: that the Lean engine interprets the pinned trees as CPython's _sre does (validated on every exhaustive/seeded line of each run); ipaddress parsing/printing re-implemented in IpText.lean (validated likewise). The address map used by the text model is the pure Ffull/Gfull proved equal to the implementation's memo machine."}

SECNOTE = ("Modelled by hand after netconan/sensitive_item_removal.py (Secrets.lean) with the patterns pinned from CPython's parser; tied to the code by "
           "correspondence on every run (outputs, WARNING records and the lookup table after each history). passlib's two crypt hashes are external "
           "parameters. 'The captured group is the operator's secret' is a statement about vendor syntax represented by the committed line-form table.")
TEXT["C07"] = {"ref": "DESIGN.md §7 C07", "technique": "Lean 4 theorems about the model of _anonymize_value (non-interference of the replacement) + correspondence + paired-run oracle",
    "text": "Partial (T0). Proved for every table, salt, pattern set: the replacement of a new secret is a function of (format class, md5 salt length, table size) only; seen secrets are answered from the table; the scrub WARNING contains the pattern text only. Line-form level non-interference (same equality pattern => identical output and INFO+ logs, secret gone from its slot) is validated by paired runs on the real code over the committed line-form table, with two recorded findings.",
    "note": SECNOTE}
TEXT["C08"] = {"ref": "DESIGN.md §7 C08", "technique": "Lean 4 theorems about the lookup discipline of the model (hit/miss/append, $9$ keyed by plaintext) + correspondence + decoding oracle",
    "text": "Proved for every history prefix (any table): a hit returns the stored replacement and leaves the table unchanged; a miss appends exactly one entry numbered by the table size; repeating a value is idempotent; any $9$ string or clear text whose plaintext is already keyed gets that pseudonym; enclosing text never reaches the key. Distinctness of rendered pseudonyms is kernel-checked for the first 40 indices (test) and validated with independent decoders; passlib's hashes are hypotheses.",
    "note": SECNOTE}
TEXT["C09"] = {"ref": "DESIGN.md §7 C09", "technique": "Lean 4 frame theorems (head ++ value ++ tail = raw; leading/trailing kept) + correspondence + independent decoders (passlib, own $9$ decoder)",
    "text": "Proved: _extract_enclosing_text loses nothing (head ++ value ++ tail = raw for every input and table of enclosing texts) and _anonymize_value returns head ++ replacement ++ tail; replace_matching_item returns leading ++ body' ++ trailing; the $9$ replacement decrypts (C18); closed forms for the type-7 prefix and hex length. Format preservation per class (type 7 decodable, md5 salt length, $6$, digits, hex) is validated with independent decoders on every run.",
    "note": SECNOTE}

TXTNOTE = ("Model: lean/Netconan/Model/{Secrets,Words,Lines,IpText,Regex}.lean, hand-written after the Python code, patterns pinned from CPython's parser; "
           "tied to /repo by the pipeline correspondence on every run. Not modelled: interpreter start-up, the random module, logging internals, file I/O.")
TEXT["C10"] = {"ref": "DESIGN.md §7 C10", "technique": "Lean 4 theorems about the word-anonymizer model (reserved tokens kept, pseudonym alphabet/length, token structure) + correspondence + case-insensitive survival search across hash seeds",
    "text": "Partial (T0). Proved: a token that is a conflicting reserved word is returned unchanged; the pseudonym is a function of salt and matched text, has at most 6 characters, all hexadecimal; one output token per input token with leading/trailing white space kept. The no-survival statement is validated on every run by searching the implementation's output case-insensitively for every listed word (all token positions, embedded occurrences, prefix/substring word lists) in processes with different hash seeds; not yet a theorem.",
    "note": TXTNOTE}
TEXT["C11"] = {"ref": "DESIGN.md §7 C11", "technique": "Lean 4 theorem for every hash value and every number (case analysis over the regenerated block table + omega) + correspondence + independent digit-run scanner",
    "text": "Proved for every hash value H and every n < 2^32: the replacement exists, lies in the AS block of n and below 2^32 (so both ends of the replacement range are covered); numbers above 4294967295 are refused; the block table regenerated from the code equals the documented one (kernel-decided). Whole-number-only matching in text is validated with an independent digit-run scanner (prefix pairs, adjacent punctuation, Unicode digits), not yet proved.",
    "note": TXTNOTE}
TEXT["C12"] = {"ref": "DESIGN.md §7 C12", "technique": "Lean 4 theorems by induction over the line list (length, split invariance, statelessness without secrets, line frame) + correspondence + structure oracle",
    "text": "Proved: readlines loses nothing; anonymize_io emits exactly one line per input line in order; processing a text in two parts with the table carried over equals processing it at once; without secret anonymization a line's output is a function of that line alone; the secret stage returns leading ++ body' ++ trailing. That tokens outside matched spans are carried over verbatim by the regex stages needs the engine's frame theorem (T1) and is validated by the structure oracle on ordinary-vocabulary lines for all feature subsets.",
    "note": TXTNOTE}
TEXT["C13"] = {"ref": "DESIGN.md §7 C13", "technique": "purity of the Lean model + correspondence across interpreter processes, hash seeds and construction histories",
    "text": "Partial by nature. The model is a total function of (configuration, lookup table, text) with no environment among its arguments, and the correspondence shows the implementation computes this function in separate processes with different PYTHONHASHSEED values and after unrelated anonymizers were constructed; the no-salt clause is stated and the reported salt is replayed on the real code. Interpreter start-up, the real PRNG and the hash-seed machinery are not modelled.",
    "note": TXTNOTE}
TEXT["C14"] = {"ref": "DESIGN.md §7 C14", "technique": "Lean 4 totality theorem over the whole per-line pipeline (every raise site unreachable) + hostile-input search on the real code",
    "text": "Proved: for every line, lookup table, salt string and feature subset the per-line function of the model returns ok (the only other outcome is the model's own out-of-fuel, which the correspondence would report); _anonymize_value never raises (Juniper re-encoding total for every salt, re-decryption by the C18 round trip); unparsable address matches are left alone. One hypothesis is explicit: a value with a non-empty $9$ plaintext is classified as $9$ by the six format patterns (validated on every run, not yet derived from the trees).",
    "note": TXTNOTE}
TEXT["C15"] = {"ref": "DESIGN.md §7 C15", "technique": "Lean 4 composition theorem (multi-feature step = single-feature steps in fixed order) + differential runs multi-feature vs chained single-feature anonymizers",
    "text": "Proved: for every pipeline (all 2^4 feature subsets, undo in place of anonymize) the per-line step equals the secrets-only step followed by the IP-only, words-only and AS-only stages in that order, each stage being determined by its own options and the salt; an absent feature is the identity; the secret stage is unaffected by the other features. The real multi-feature FileAnonymizer is compared with chained single-feature ones on seeded texts for all subsets.",
    "note": TXTNOTE}
