NOTES = ("Every check: regenerate data from /repo -> lake build of the property's theorem modules and the model driver -> "
         "#print axioms audit (only propext, Classical.choice, Quot.sound) and a scan for sorry/native_decide/bv_decide -> "
         "differential correspondence between the compiled Lean model and the live Python code on seeded inputs (VERIF_SEED) -> "
         "the property's oracle on the implementation's own answers -> known findings. A broken theorem or correspondence triggers "
         "a search for a concrete failing input; without one the VIOLATION line ends with no-failing-input-found.")

IPNOTE = ("Theorems hold for every hash bit h (every salt), every width L, every host-bit count B and every list of preserved "
          "prefixes. Trusted: Lean kernel; the three standard axioms; the hand-written model lean/Netconan/Model/IpCore.lean is tied "
          "to netconan/ip_anonymization.py only by the differential correspondence (results of anonymize/deanonymize/dump_to_file, "
          "FileAnonymizer.anonymize_io and the command line on seeded histories); MD5, ipaddress and bidict are exercised, not verified.")

TEXT = {
 "C01": {"ref": "DESIGN.md §7 C01", "technique": "Lean 4 theorem (induction over bit lists) + memo-machine refinement + differential correspondence",
         "text": "Proved for all widths, salts, host-bit counts and preserved-prefix lists: the whole-address map Ffull preserves the common-prefix length of every pair, is injective and a permutation with two-sided inverse; the memo machine written as the Python code writes it (look-up, strip last bit, hash, recurse, bidict put, seeding loop) is proved to return Ffull for every request of every history.",
         "note": IPNOTE},
 "C02": {"ref": "DESIGN.md §7 C02", "technique": "Lean 4 theorem (inverse walk refinement over all reachable memos) + differential correspondence",
         "text": "Proved: Gfull∘Ffull = id and Ffull∘Gfull = id; deanonymize on a freshly constructed memo and on every reachable memo returns Gfull (fresh_undo, warm_undo). The file-level clause (--undo restores canonical text) is validated by correspondence on FileAnonymizer and the command line, not proved (partial).",
         "note": IPNOTE},
 "C03": {"ref": "DESIGN.md §7 C03", "technique": "Lean 4 refinement theorem by induction over request histories with a memo invariant",
         "text": "Main refinement theorem: for every finite sequence of anonymize/undo requests from the constructor's memo, every answer equals the cache-free function of (h, pins, L, B, request) and no request raises (bidict duplicate error and IndexError unreachable); corollaries for splits across runs.",
         "note": IPNOTE},
 "C04": {"ref": "DESIGN.md §7 C04", "technique": "Lean 4 theorem (pinned-node closure, prefix iff via common-prefix length) + correspondence incl. command line defaults",
         "text": "Proved: for every preserved prefix p (any length, nested, overlapping, longer than the anonymized part) p is a prefix of Ffull a iff of a; the trailing B bits are unchanged; the leading image bits are a function of the leading input bits only. Defaults (class + RFC1918 list, 8 host bits for both families) are checked on regenerated data and through the command line.",
         "note": IPNOTE},
 "C05": {"ref": "DESIGN.md §7 C05", "technique": "Lean 4 theorems (kernel-decided mask table, bit-trick lemma by induction on width, prefix iff) + exhaustive correspondence on masks and perturbations",
         "text": "Proved: _is_mask accepts all 66 mask/wildcard values (kernel-decided over the whole table) and is exactly 'the adjacent-bit difference word has at most one bit set' for every integer (bit trick proved for every width); should_anonymize is false for masks and members of preserved networks; for every preserved network (registered as a pinned prefix) outside stays outside under Ffull and Gfull. The characterisation 'at most one transition iff ones-then-zeros or zeros-then-ones' (the direction that non-masks are anonymized) and the verbatim return in the text layer are validated exhaustively on all masks and one-bit perturbations, not yet proved.",
         "note": IPNOTE},
 "C18": {"ref": "DESIGN.md §7 C18", "technique": "Lean 4 theorem by induction over the plaintext; table side conditions decided by the kernel on regenerated tables; correspondence + independent decoder",
         "text": "Proved for all plaintexts over 0..255 of any length and every salt (None, empty, any alphabet character, any other string): encrypt yields a string that passes the validity check and decrypts to the plaintext, under the hypothesis the proof forces (plaintext non-empty, or a salt character with three fillers); decrypt of ANY string ends in a result or ValueError, never KeyError/IndexError (decrypt_total). The excluded corner is kernel-evaluated and recorded as known finding.",
         "note": "Tables FAMILY/ENCODING/EXTRA/_fixedc are regenerated from netconan/utils/juniper_secrets.py on every run and the kernel re-decides the side conditions (1792-case row check, alphabet facts); the hand-written model of the two functions is tied to the code by exhaustive/seeded correspondence. Plaintext characters above 255 are outside the property."},
 "C17": {"ref": "DESIGN.md §7 C17", "technique": "Lean 4 invariant (graph of the map + key uniqueness) over all histories + correspondence on dump_to_file and --dump-ip-map",
         "text": "Proved for every history on a constructed anonymizer: the dump (full-length memo entries) contains every anonymized address with exactly the image returned, lists no original and no replacement twice, and every listed pair satisfies v = Ffull k (both the B = 0 and the B > 0 caching path).",
         "note": IPNOTE},
}
NA = {}

TEXT["C06"] = {"ref": "DESIGN.md §7 C06", "technique": "Lean 4 model of Python's backtracking matcher run on CPython-parsed pattern trees (pinned) + correspondence + independent token-scanner oracle; frame theorem at T0",
    "text": "Partial (tier T0). The two address patterns are translated through CPython's own parser into the Lean Re type and run by a Lean model of the backtracking matcher (ordered alternation, counted repeats, look-around, groups); parse/print of both families are modelled after ipaddress. Kernel-evaluated instances and the octet arithmetic are proved; the unbounded token-level reading ('every valid standalone token and nothing else is replaced') is NOT yet a theorem - it is validated exhaustively on all short strings over boundary alphabets and on structured tokens against an independent scanner. Known finding: IPv6 addresses with a dotted-quad tail.",
    "note": "Trusted/validated rather than proved: that the Lean engine interprets the pinned trees as CPython's _sre does (validated on every exhaustive/seeded line of each run); ipaddress parsing/printing re-implemented in IpText.lean (validated likewise). The address map used by the text model is the pure Ffull/Gfull proved equal to the implementation's memo machine."}

SECNOTE = ("Modelled by hand after netconan/sensitive_item_removal.py (Secrets.lean) with the patterns pinned from CPython's parser; tied to the code by "
           "correspondence on every run (outputs, WARNING records and the lookup table after each history). passlib's two crypt hashes are external "
           "parameters. 'The captured group is the operator's secret' is a statement about vendor syntax represented by the committed line-form table.")
TEXT["C07"] = {"ref": "DESIGN.md §7 C07", "technique": "Lean 4 theorems about the model of _anonymize_value (non-interference of the replacement) + correspondence + paired-run oracle",
    "text": "Partial (T0). Proved for every table, salt, pattern set: the replacement of a new secret is a function of (format class, md5 salt length, table size) only; seen secrets are answered from the table; the scrub WARNING contains the pattern text only. Line-form level non-interference (same equality pattern => identical output and INFO+ logs, secret gone from its slot) is validated by paired runs on the real code over the committed line-form table, with two recorded findings.",
    "note": SECNOTE}
TEXT["C08"] = {"ref": "DESIGN.md §7 C08", "technique": "Lean 4 theorems about the lookup discipline of the model (hit/miss/append, $9$ keyed by plaintext) + correspondence + decoding oracle",
    "text": "Proved for every history prefix (any table): a hit returns the stored replacement and leaves the table unchanged; a miss appends exactly one entry numbered by the table size; repeating a value is idempotent; any $9$ string or clear text whose plaintext is already keyed gets that pseudonym; enclosing text never reaches the key. Distinctness of rendered pseudonyms is kernel-checked for the first 40 indices (test) and validated with independent decoders; passlib's hashes are hypotheses.",
    "note": SECNOTE}
TEXT["C09"] = {"ref": "DESIGN.md §7 C09", "technique": "Lean 4 frame theorems (head ++ value ++ tail = raw; leading/trailing kept) + correspondence + independent decoders (passlib, own $9$ decoder)",
    "text": "Proved: _extract_enclosing_text loses nothing (head ++ value ++ tail = raw for every input and table of enclosing texts) and _anonymize_value returns head ++ replacement ++ tail; replace_matching_item returns leading ++ body' ++ trailing; the $9$ replacement decrypts (C18); closed forms for the type-7 prefix and hex length. Format preservation per class (type 7 decodable, md5 salt length, $6$, digits, hex) is validated with independent decoders on every run.",
    "note": SECNOTE}
