#!/venv/bin/python
"""keep_seeded.py <stage_dir> <Cxx> : confirm in a scratch worktree, run the check against it, and keep it
under /verif/seeded/<name>/ with meta.json (maintenance tool)."""
import json, os, shutil, sys
HERE = os.path.dirname(os.path.dirname(os.path.abspath(__file__)))
sys.path.insert(0, os.path.join(HERE, "tools"))
import seeded  # noqa

d, pid = os.path.abspath(sys.argv[1]), sys.argv[2]
name = os.path.basename(d.rstrip("/"))
c = seeded.confirm(d)
ok = c.get("applies") and c["demo_pristine_rc"] == 0 and c["demo_patched_rc"] != 0 and c["suite"].startswith("2409 passed")
print(name, "confirmed" if ok else "NOT CONFIRMED", c.get("suite"))
if not ok:
    print(json.dumps(c, indent=1)); sys.exit(1)
r = seeded.run(d, pid)
verdict = [l for l in r[1] if l.startswith("VIOLATION")]
dst = os.path.join(HERE, "seeded", name)
os.makedirs(dst, exist_ok=True)
for f in ("patch.diff", "demo.py"):
    shutil.copy(os.path.join(d, f), dst)
meta = json.load(open(os.path.join(d, "meta.json")))
meta.update({"property": pid, "confirmed": {"suite_with_patch": c["suite"], "demo_on_pristine_exit": c["demo_pristine_rc"],
             "demo_with_patch_exit": c["demo_patched_rc"], "demo_with_patch_output": c["demo_patched_tail"]},
             "ran": ["tools/seeded.py confirm (scratch worktree: git apply, full pytest suite, demo.py with and without the patch)",
                     "git -C /repo apply patch.diff; /venv/bin/python check.py %s quick; git -C /repo checkout -- ." % pid],
             "check_result": {"exit": r[0], "verdict": verdict[0] if verdict else None,
                              "with_failing_input": bool(verdict) and "no-failing-input-found" not in verdict[0]}})
json.dump(meta, open(os.path.join(dst, "meta.json"), "w"), indent=1)
print(" ->", r[0], verdict)
