#!/venv/bin/python
"""Writes MANIFEST.json from harness/registry.py and tools/manifest_texts.py (maintenance tool)."""
import json
import os
import sys

HERE = os.path.dirname(os.path.dirname(os.path.abspath(__file__)))
sys.path.insert(0, HERE)
sys.dont_write_bytecode = True
from harness import registry  # noqa
from tools import manifest_texts as T  # noqa

props = [json.loads(l) for l in open(os.path.join(HERE, "properties.jsonl"))]
checks, na = [], []
for p in props:
    pid = p["id"]
    if pid in registry.PROPS and pid in T.TEXT:
        t = T.TEXT[pid]
        checks.append({
            "property_id": pid,
            "quick_cmd": "/venv/bin/python check.py %s quick" % pid,
            "thorough_cmd": "/venv/bin/python check.py %s thorough" % pid,
            "evidence_file": "evidence/%s.json" % pid,
            "replay_cmd_template": "/venv/bin/python check.py %s --replay {path}" % pid,
            "engine": "lean4-proof+correspondence",
            "level_claimed": {"category": "proof", "text": t["text"], "design_ref": t["ref"]},
            "level_note": t["note"],
            "technique": t["technique"],
        })
    else:
        na.append({"property_id": pid, "reason": T.NA.get(pid, "check not built yet in this session; no claim is made")})
# the source translator (harness/py2lean.py, DESIGN I.3a): what is added to the claim of the properties it serves
SRC = {
    "ip": (" On the source as it reads on this run: the address core (_anonymize_bits, _deanonymize_bits, anonymize, deanonymize, the seeding loop, _is_mask, "
           "should_anonymize, _anonymize_match, anonymize_ip_addr) is translated from the source text into Lean on every run and proved equal to the model "
           "(Proofs/SrcTieIp, SrcTieText); Props/SrcIp restates history independence for the translated functions and proves that the stateful "
           "_anonymize_match / anonymize_ip_addr of the source return the pure text-level replacement (IpText.anonMatch / anonIpLine) on every reachable memo, "
           "for both families, for whole lines and whole texts.", ["C01", "C02", "C03", "C04", "C05", "C06", "C17"]),
    "secrets": (" _check_sensitive_item_format, _extract_enclosing_text, _anonymize_value and replace_matching_item are translated from the source text on "
                "every run (loops with break/continue, try/except, the lookup table as state) and proved equal to the model's classify, extractEnclosing, "
                "anonymizeValue and replaceMatchingItem (Proofs/SrcTieSecrets); Props/SrcSecrets restates the C07/C08 theorems for the translated functions.",
                ["C07", "C08", "C09"]),
    "words": (" SensitiveWordAnonymizer.anonymize is translated from the source text on every run (list comprehension, conditional expression) and "
              "proved equal to the model's Words.anonymize; Props/SrcWords restates the no-survival theorem for the translated function.", ["C10"]),
    "jun": (" The arithmetic of the codec (_gap_encode, _gap, _fixedc) is translated from the source text on every run, on alphabet indices, and proved equal "
            "to the model's emit/gapsOf, gapBack and fixedc (Props/SrcJun).", ["C18"]),
    "as": (" _generate_as_number_replacement is translated from the source text on every run and proved equal to the model "
           "(Props/SrcAs: block preservation and range refusal for the translated function).", ["C11"]),
    "lines": (" The loop body of FileAnonymizer.anonymize_io (which stages, in which order, under which conditions) and replace_matching_item are translated "
              "from the source text on every run and proved equal to the model's lineStep / replaceMatchingItem (Props/SrcLines).", ["C12", "C13", "C14", "C15"]),
    "cli": (" main() after _parse_args is translated from the source text on every run and proved to decide exactly as the model's decideArgs for every "
            "accepted argument vector (Props/SrcCli).", ["C19"]),
}
for txt, pids in SRC.values():
    for c in checks:
        if c["property_id"] in pids:
            c["level_claimed"]["text"] += txt
            c["technique"] += " + source-to-Lean translation of the anchored functions on every run with machine-checked tie theorems"
            c["level_note"] += (" The translator's per-function mapping rules (harness/py2lean.py) and the primitives of Model/Py.lean are trusted; "
                                "the control and data flow of the translated functions is not.")
m = {
    "version": 1,
    "setup_cmd": "/venv/bin/python check.py --setup",
    "hooks": {"guard": "NETCONAN_VERIF", "enable": "no hooks are needed: every observation is made in-process through public and module-level names",
              "baseline_off_cmd": "cd /repo && /venv/bin/python -m pytest -ra -q -p no:cacheprovider --timeout=900 --continue-on-collection-errors",
              "source_commits": [], "add_only": True},
    "engines": [{"name": "lean4-proof+correspondence", "path": "lean/", "serves_properties": [c["property_id"] for c in checks],
                 "kind_free_text": "Lean 4 theorems about a hand-written executable model (lean/Netconan), tied to /repo on every run by a source-to-Lean translator for the anchored functions (with tie theorems), a generator of data tables and a differential correspondence between the compiled model driver and the live Python code"}],
    "checks": checks,
    "notes": T.NOTES,
    "not_applicable": na,
}
json.dump(m, open(os.path.join(HERE, "MANIFEST.json"), "w"), indent=1)
print("checks:", [c["property_id"] for c in checks], "not claimed:", [n["property_id"] for n in na])
