#!/venv/bin/python
"""Writes MANIFEST.json from harness/registry.py and tools/manifest_texts.py (maintenance tool)."""
import json
import os
import sys

HERE = os.path.dirname(os.path.dirname(os.path.abspath(__file__)))
sys.path.insert(0, HERE)
sys.dont_write_bytecode = True
from harness import registry  # noqa
from tools import manifest_texts as T  # noqa

props = [json.loads(l) for l in open(os.path.join(HERE, "properties.jsonl"))]
checks, na = [], []
for p in props:
    pid = p["id"]
    if pid in registry.PROPS and pid in T.TEXT:
        t = T.TEXT[pid]
        checks.append({
            "property_id": pid,
            "quick_cmd": "/venv/bin/python check.py %s quick" % pid,
            "thorough_cmd": "/venv/bin/python check.py %s thorough" % pid,
            "evidence_file": "evidence/%s.json" % pid,
            "replay_cmd_template": "/venv/bin/python check.py %s --replay {path}" % pid,
            "engine": "lean4-proof+correspondence",
            "level_claimed": {"category": "proof", "text": t["text"], "design_ref": t["ref"]},
            "level_note": t["note"],
            "technique": t["technique"],
        })
    else:
        na.append({"property_id": pid, "reason": T.NA.get(pid, "check not built yet in this session; no claim is made")})
m = {
    "version": 1,
    "setup_cmd": "/venv/bin/python check.py --setup",
    "hooks": {"guard": "NETCONAN_VERIF", "enable": "no hooks are needed: every observation is made in-process through public and module-level names",
              "baseline_off_cmd": "cd /repo && /venv/bin/python -m pytest -ra -q -p no:cacheprovider --timeout=900 --continue-on-collection-errors",
              "source_commits": [], "add_only": True},
    "engines": [{"name": "lean4-proof+correspondence", "path": "lean/", "serves_properties": [c["property_id"] for c in checks],
                 "kind_free_text": "Lean 4 theorems about a hand-written executable model (lean/Netconan), tied to /repo on every run by a generator of data tables and a differential correspondence between the compiled model driver and the live Python code"}],
    "checks": checks,
    "notes": T.NOTES,
    "not_applicable": na,
}
json.dump(m, open(os.path.join(HERE, "MANIFEST.json"), "w"), indent=1)
print("checks:", [c["property_id"] for c in checks], "not claimed:", [n["property_id"] for n in na])
