#!/venv/bin/python
"""Maintenance tool (not a registered check): confirm a seeded change and run checks against it.

  seeded.py confirm <dir>            scratch worktree: suite passes with patch, demo FAILs with, PASSes without
  seeded.py run <dir> <Cxx> [tier]   apply to /repo, run check.py, undo; prints the verdict line
"""
import json
import os
import subprocess
import sys

REPO = "/repo"
VERIF = os.path.dirname(os.path.dirname(os.path.abspath(__file__)))


def sh(cmd, cwd=None, env=None, timeout=3000):
    p = subprocess.run(cmd, shell=True, cwd=cwd, env=env, capture_output=True, text=True, timeout=timeout)
    return p.returncode, p.stdout + p.stderr


def confirm(d):
    d = os.path.abspath(d)
    wt = "/tmp/wt_confirm_%d" % os.getpid()
    sh("git -C %s worktree add -q --detach %s HEAD" % (REPO, wt))
    try:
        env = dict(os.environ, PYTHONPATH=wt, PYTHONDONTWRITEBYTECODE="1")
        rc0, out0 = sh("/venv/bin/python %s/demo.py" % d, cwd=wt, env=env)
        rc, out = sh("git apply %s/patch.diff" % d, cwd=wt)
        if rc:
            return {"applies": False, "log": out}
        rcs, outs = sh("/venv/bin/python -m pytest -q -p no:cacheprovider -x 2>&1 | tail -3", cwd=wt, env=env)
        rc1, out1 = sh("/venv/bin/python %s/demo.py" % d, cwd=wt, env=env)
        return {"applies": True, "demo_pristine_rc": rc0, "demo_patched_rc": rc1, "suite": outs.strip().splitlines()[-1],
                "demo_patched_tail": out1.strip()[-300:]}
    finally:
        sh("git -C %s worktree remove --force %s" % (REPO, wt))


def run(d, pid, tier="quick"):
    d = os.path.abspath(d)
    rc, out = sh("git -C %s status --porcelain" % REPO)
    if out.strip():
        print("refusing: /repo is dirty:\n" + out)
        return None
    rc, out = sh("git -C %s apply %s/patch.diff" % (REPO, d))
    if rc:
        print("patch does not apply: " + out)
        return None
    try:
        rc, out = sh("/venv/bin/python check.py %s %s" % (pid, tier), cwd=VERIF)
    finally:
        sh("git -C %s checkout -- ." % REPO)
    lines = [ln for ln in out.splitlines() if ln.startswith(("VIOLATION", "KNOWN-FINDING", "INFRA", pid))]
    return rc, lines, out


if __name__ == "__main__":
    if sys.argv[1] == "confirm":
        print(json.dumps(confirm(sys.argv[2]), indent=1))
    else:
        r = run(sys.argv[2], sys.argv[3], sys.argv[4] if len(sys.argv) > 4 else "quick")
        if r:
            print("exit", r[0])
            print("\n".join(r[1]) if r[1] else r[2][-1500:])
