#!/bin/bash
# sweep.sh <tier> <seed...> : run every registered check with several seeds; print one line per run
tier=$1; shift
/venv/bin/python check.py --setup > /dev/null 2>&1 || { echo "setup failed"; exit 2; }
for s in "$@"; do
  for p in C01 C02 C03 C04 C05 C06 C07 C08 C09 C10 C11 C12 C13 C14 C15 C16 C17 C18 C19; do
    out=$(VERIF_SEED=$s timeout 3000 /venv/bin/python check.py $p $tier 2>&1); rc=$?
    echo "seed=$s $p rc=$rc $(echo "$out" | grep -E 'VIOLATION|INFRA' | head -2 | tr '\n' ' ') $(echo "$out" | tail -1)"
  done
done
