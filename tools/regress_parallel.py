#!/venv/bin/python
"""regress_parallel.py [-j N] [name-filter ...] : run every kept seeded change against its property's quick check, in parallel,
on private copies of /repo (git worktrees) and of /verif (rsync, build output included) under /tmp/rg.  /repo itself is not
touched.  Writes tools/regress.log (one line per change) and updates each meta.json's check_result.  Maintenance tool."""
import concurrent.futures as cf
import json
import os
import shutil
import subprocess
import sys

HERE = os.path.dirname(os.path.dirname(os.path.abspath(__file__)))
ROOT = "/tmp/rg"


def sh(cmd, cwd=None, env=None, timeout=3000):
    p = subprocess.run(cmd, shell=True, cwd=cwd, env=env, capture_output=True, text=True, timeout=timeout)
    return p.returncode, p.stdout + p.stderr


def setup(n):
    shutil.rmtree(ROOT, ignore_errors=True)
    os.makedirs(ROOT)
    sh("git -C /repo worktree prune")
    for w in range(n):
        rc, out = sh("git -C /repo worktree add -q --detach %s/repo_%d HEAD" % (ROOT, w))
        if rc:
            raise SystemExit("worktree: " + out)
        sh("rsync -a --exclude replays --exclude .git --exclude __pycache__ %s/ %s/verif_%d/" % (HERE, ROOT, w))


def teardown(n):
    for w in range(n):
        sh("git -C /repo worktree remove --force %s/repo_%d" % (ROOT, w))
    sh("git -C /repo worktree prune")
    shutil.rmtree(ROOT, ignore_errors=True)


def work(w, names):
    repo, verif = "%s/repo_%d" % (ROOT, w), "%s/verif_%d" % (ROOT, w)
    env = dict(os.environ, NETCONAN_REPO=repo, PYTHONDONTWRITEBYTECODE="1")
    out = []
    for n in names:
        d = os.path.join(HERE, "seeded", n)
        pid = json.load(open(os.path.join(d, "meta.json")))["property"]
        sh("git checkout -q -- . && git clean -fdq", cwd=repo)
        rc, log = sh("git apply %s/patch.diff" % d, cwd=repo)
        if rc:
            out.append((n, pid, None, "patch does not apply"))
            continue
        rc, log = sh("/venv/bin/python check.py %s quick" % pid, cwd=verif, env=env)
        sh("git checkout -q -- . && git clean -fdq", cwd=repo)
        v = [l for l in log.splitlines() if l.startswith("VIOLATION")]
        out.append((n, pid, rc, v[0] if v else ("INFRA: " + log[-300:] if rc == 2 else "")))
    return out


def main():
    args = sys.argv[1:]
    n = 8
    if args[:1] == ["-j"]:
        n = int(args[1])
        args = args[2:]
    names = sorted(x for x in os.listdir(os.path.join(HERE, "seeded")) if x[0] == "C" and (not args or any(a in x for a in args)))
    setup(n)
    try:
        chunks = [names[i::n] for i in range(n)]
        res = []
        with cf.ThreadPoolExecutor(n) as ex:
            for r in ex.map(work, range(n), chunks):
                res += r
    finally:
        teardown(n)
    res.sort()
    lines = []
    for name, pid, rc, v in res:
        kind = "MISSED" if rc == 0 else ("no-input" if "no-failing-input-found" in v else ("input" if rc == 1 else "?? " + v))
        lines.append("%s %s %s" % (name, pid, kind))
        mp = os.path.join(HERE, "seeded", name, "meta.json")
        m = json.load(open(mp))
        m["check_result"] = {"exit": rc, "verdict": (v.split(" replay=")[0] + (" no-failing-input-found" if "no-failing-input-found" in v else "")) if v.startswith("VIOLATION") else None,
                             "with_failing_input": rc == 1 and "no-failing-input-found" not in v}
        json.dump(m, open(mp, "w"), indent=1)
    logp = os.path.join(HERE, "tools", "regress.log")
    old = {}
    if args and os.path.exists(logp):            # a partial run updates the lines of the changes it ran
        for ln in open(logp).read().splitlines():
            if ln.strip():
                old[ln.split(" ")[0]] = ln
    for ln in lines:
        old[ln.split(" ")[0]] = ln
    open(logp, "w").write("\n".join(old[k] for k in sorted(old)) + "\n")
    bad = [l for l in lines if not l.endswith(" input")]
    print("%d changes; %d with input; others:\n%s" % (len(lines), len(lines) - len(bad), "\n".join(bad)))


if __name__ == "__main__":
    main()
