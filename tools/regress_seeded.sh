#!/bin/bash
# regress_seeded.sh : run every kept seeded change against its property's quick check (applies to /repo, reverts)
cd /verif
for d in seeded/[A-Z]*/; do
  m=$(basename $d); p=$(python3 -c "import json;print(json.load(open('$d/meta.json'))['property'])")
  out=$(/venv/bin/python tools/seeded.py run $d $p 2>&1)
  echo "$m $p $(echo "$out" | grep -E '^VIOLATION' | head -1 | sed 's/replay=[^ ]*//') $(echo "$out" | grep -c 'exit 0' | sed 's/1/MISSED/;s/0//')"
done
