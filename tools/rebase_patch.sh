#!/bin/bash
# rebase_patch.sh <stage_dir>: try to re-create patch.diff against /repo's current HEAD (after fix: commits)
d=$1; wt=/tmp/wt_rebase_$$
git -C /repo worktree add -q --detach $wt HEAD
if (cd $wt && patch -p1 --fuzz=3 -s --no-backup-if-mismatch < $d/patch.diff); then
  (cd $wt && git diff) > $d/patch.rebased.diff && cp $d/patch.diff $d/patch.orig.diff && cp $d/patch.rebased.diff $d/patch.diff && echo "rebased $d"
else
  echo "MANUAL $d"; find $wt -name '*.rej' | head
fi
git -C /repo worktree remove --force $wt
