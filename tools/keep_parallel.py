#!/venv/bin/python
"""keep_parallel.py [-j N] <stage_root> : confirm every staged seeded change under <stage_root>/out_*/<name>/ (patch.diff, demo.py,
meta.json) in a private worktree (full suite with the patch, demo fails with / passes without), run its property's quick check on
private copies of /repo and /verif, and keep the confirmed ones under /verif/seeded/<name>/ with what was run.  Maintenance tool."""
import concurrent.futures as cf
import glob
import json
import os
import shutil
import sys

HERE = os.path.dirname(os.path.dirname(os.path.abspath(__file__)))
sys.path.insert(0, os.path.join(HERE, "tools"))
import regress_parallel as rp  # noqa: E402


def work(w, dirs):
    repo, verif = "%s/repo_%d" % (rp.ROOT, w), "%s/verif_%d" % (rp.ROOT, w)
    env = dict(os.environ, NETCONAN_REPO=repo, PYTHONPATH=repo, PYTHONDONTWRITEBYTECODE="1")
    out = []
    for d in dirs:
        name = os.path.basename(d.rstrip("/"))
        pid = name.split("_")[0]
        clean = "git checkout -q -- . && git clean -fdq"
        rp.sh(clean, cwd=repo)
        rc0, o0 = rp.sh("/venv/bin/python %s/demo.py" % d, cwd=repo, env=env, timeout=900)
        rc, o = rp.sh("git apply %s/patch.diff" % d, cwd=repo)
        if rc:
            out.append((name, pid, "patch does not apply", None))
            continue
        rcs, os_ = rp.sh("/venv/bin/python -m pytest -q -p no:cacheprovider -x 2>&1 | tail -3", cwd=repo, env=env, timeout=1800)
        suite = os_.strip().splitlines()[-1] if os_.strip() else "?"
        rc1, o1 = rp.sh("/venv/bin/python %s/demo.py" % d, cwd=repo, env=env, timeout=900)
        ok = rc0 == 0 and rc1 != 0 and suite.startswith("2409 passed")
        if not ok:
            rp.sh(clean, cwd=repo)
            out.append((name, pid, "NOT CONFIRMED: demo pristine rc=%s, patched rc=%s, suite=%s" % (rc0, rc1, suite), None))
            continue
        env2 = dict(os.environ, NETCONAN_REPO=repo, PYTHONDONTWRITEBYTECODE="1")
        rcc, log = rp.sh("/venv/bin/python check.py %s quick" % pid, cwd=verif, env=env2)
        rp.sh(clean, cwd=repo)
        v = [l for l in log.splitlines() if l.startswith("VIOLATION")]
        meta = json.load(open(os.path.join(d, "meta.json")))
        meta.update({"property": pid, "confirmed": {"suite_with_patch": suite, "demo_on_pristine_exit": rc0, "demo_with_patch_exit": rc1,
                                                    "demo_with_patch_output": o1.strip()[-300:]},
                     "ran": ["tools/keep_parallel.py (private worktree: git apply, full pytest suite, demo.py with and without the patch)",
                             "private copies of /repo (patched) and /verif: /venv/bin/python check.py %s quick" % pid],
                     "check_result": {"exit": rcc, "verdict": (v[0].split(" replay=")[0] + (" no-failing-input-found" if "no-failing-input-found" in v[0] else "")) if v else None,
                                      "with_failing_input": bool(v) and "no-failing-input-found" not in v[0]}})
        out.append((name, pid, "INFRA " + log[-200:] if rcc == 2 else ("MISSED" if rcc == 0 else ("no-input" if "no-failing-input-found" in v[0] else "input")), (d, meta)))
    return out


def main():
    args = sys.argv[1:]
    n = 8
    if args[:1] == ["-j"]:
        n = int(args[1])
        args = args[2:]
    dirs = sorted(d for d in glob.glob(os.path.join(args[0], "out_*", "*_r*_*")) if all(os.path.exists(os.path.join(d, f)) for f in ("patch.diff", "demo.py", "meta.json"))
                  and not os.path.exists(os.path.join(HERE, "seeded", os.path.basename(d))))
    rp.setup(n)
    try:
        res = []
        with cf.ThreadPoolExecutor(n) as ex:
            for r in ex.map(work, range(n), [dirs[i::n] for i in range(n)]):
                res += r
    finally:
        rp.teardown(n)
    for name, pid, status, keep in sorted(res):
        print(name, pid, status)
        if keep:
            d, meta = keep
            dst = os.path.join(HERE, "seeded", name)
            os.makedirs(dst, exist_ok=True)
            for f in ("patch.diff", "demo.py"):
                shutil.copy(os.path.join(d, f), dst)
            json.dump(meta, open(os.path.join(dst, "meta.json"), "w"), indent=1)


if __name__ == "__main__":
    main()
