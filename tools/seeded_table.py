#!/venv/bin/python
"""Regenerate the table of seeded changes in DESIGN.md (between the SEEDED-TABLE markers) from seeded/*/meta.json and
the last regression log (tools/regress_parallel.py or tools/regress_seeded.sh -> tools/regress.log)."""
import glob, json, os, re
V = os.path.dirname(os.path.dirname(os.path.abspath(__file__)))
log = {}
p = os.path.join(V, "tools", "regress.log")
if os.path.exists(p):
    for ln in open(p):
        w = ln.split()
        if len(w) >= 2:
            # two log formats: tools/regress_seeded.sh ("... VIOLATION ...") and tools/regress_parallel.py ("<name> <Cxx> input|no-input|MISSED")
            log[w[0]] = ("VIOLATION with failing input" if ("VIOLATION" in ln and "no-failing-input-found" not in ln) or w[-1] == "input" else
                         "VIOLATION no-failing-input-found" if "VIOLATION" in ln or w[-1] == "no-input" else "MISSED")
rows = ["| seeded change | breaks | what was changed | needs | check result (last regression run) |", "|---|---|---|---|---|"]
def key(d):
    m = re.match(r"(C\d+)_(r\d+_)?(\d+)", os.path.basename(d))
    return (m.group(1), m.group(2) or "", int(m.group(3)))
for d in sorted(glob.glob(os.path.join(V, "seeded", "C*")), key=key):
    m = json.load(open(os.path.join(d, "meta.json")))
    clean = lambda s: re.sub(r"\s+", " ", str(s)).replace("|", "/")[:150]
    name = os.path.basename(d)
    rows.append("| %s | %s | %s | %s | %s |" % (name, m["property"], clean(m.get("summary", "")), clean(m.get("needs", "")), log.get(name, "not run")))
t = open(os.path.join(V, "DESIGN.md")).read()
a, b = t.index("<!-- SEEDED-TABLE -->"), t.index("<!-- /SEEDED-TABLE -->")
t = t[:a] + "<!-- SEEDED-TABLE -->\n" + "\n".join(rows) + "\n" + t[b:]
open(os.path.join(V, "DESIGN.md"), "w").write(t)
print(len(rows) - 2, "rows;", sum(1 for r in rows if "MISSED" in r), "missed")
