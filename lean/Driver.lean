import Netconan.Driver.Main
def main : IO Unit := Netconan.Driver.main
