import Netconan.Spec.Ip
import Netconan.Model.Basic
import Netconan.Model.IpCore
