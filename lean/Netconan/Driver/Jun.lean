import Netconan.Model.Juniper
import Netconan.Driver.Util
/-! Driver commands for the `$9$` codec. -/
namespace Netconan.Driver
open Netconan

def showChars : Except Err (List Char) → String
  | .ok cs => "ok " ++ showCps cs
  | .error e => "err " ++ e.name

def junCmd (ws : List String) : Option String :=
  match ws with
  | ["junenc", plain, "none"] => some (showChars (Juniper.encrypt (parseCps plain) none))
  | ["junenc", plain, "some", salt] => some (showChars (Juniper.encrypt (parseCps plain) (some (parseCps salt))))
  | ["jundec", crypt] => some (showChars (Juniper.decrypt (parseCps crypt)))
  | _ => none

end Netconan.Driver
