import Netconan.Driver.Ip
import Netconan.Driver.Jun
/-! The model driver: one operation per line on stdin, one reply per line on stdout. -/
namespace Netconan.Driver

structure St where
  ips : List (String × IpObj) := []

def stepLine (st : St) (line : String) : St × String :=
  let ws := (line.trimAscii.toString.splitOn " ").filter (· != "")
  match ipCmd st.ips ws with
  | some (out, ips) => ({ st with ips := ips }, out)
  | none =>
  match junCmd ws with
  | some out => (st, out)
  | none => (st, "bad-op")

partial def loop (h : IO.FS.Stream) (out : IO.FS.Stream) (st : St) : IO Unit := do
  let line ← h.getLine
  if line.isEmpty then return ()
  let (st', o) := stepLine st line
  out.putStrLn o
  loop h out st'

def main : IO Unit := do
  let out ← IO.getStdout
  loop (← IO.getStdin) out {}

end Netconan.Driver
