import Netconan.Driver.Ip
import Netconan.Driver.Jun
import Netconan.Driver.Fa
import Netconan.Driver.CliD
/-! The model driver: one operation per line on stdin, one reply per line on stdout. -/
namespace Netconan.Driver

structure St where
  ips : List (String × IpObj) := []
  fas : List (String × FaObj) := []
  env : FaEnv := {}

def stepLine (st : St) (line : String) : St × String :=
  let ws := (line.trimAscii.toString.splitOn " ").filter (· != "")
  match ipCmd st.ips ws with
  | some (out, ips) => ({ st with ips := ips }, out)
  | none =>
  match junCmd ws with
  | some out => (st, out)
  | none =>
  match faCmd st.env st.fas ws with
  | some (out, fas) => ({ st with fas := fas }, out)
  | none =>
  match cliCmd ws with
  | some out => (st, out)
  | none => (st, "bad-op")

partial def loop (h : IO.FS.Stream) (out : IO.FS.Stream) (st : St) : IO Unit := do
  let line ← h.getLine
  if line.isEmpty then return ()
  let ws := (line.trimAscii.toString.splitOn " ").filter (· != "")
  match ws with
  | ["loadreserved", path] =>
    let txt ← IO.FS.readFile path
    let words := (txt.splitOn "\n").filter (· != "") |>.map parseCps
    let set := words.foldl (fun (s : Std.HashSet String) w => s.insert (String.ofList w)) {}
    out.putStrLn s!"ok {words.length}"
    loop h out { st with env := { st.env with reserved := set, reservedList := words } }
  | ["pl", key, hash] =>
    out.putStrLn "ok"
    loop h out { st with env := { st.env with passlib := st.env.passlib.insert (String.ofList (parseCps key)) (parseCps hash) } }
  | _ =>
  let (st', o) := stepLine st line
  out.putStrLn o
  loop h out st'

def main : IO Unit := do
  let out ← IO.getStdout
  loop (← IO.getStdin) out { env := { lower := mkLower } }

end Netconan.Driver
