/-! Line-protocol helpers for the model driver. -/
namespace Netconan.Driver

def hexVal (c : Char) : Nat :=
  if '0' ≤ c ∧ c ≤ '9' then c.toNat - 48
  else if 'a' ≤ c ∧ c ≤ 'f' then c.toNat - 87
  else if 'A' ≤ c ∧ c ≤ 'F' then c.toNat - 55 else 0

/-- "-" is the empty byte string, otherwise hex pairs -/
def parseHex (s : String) : ByteArray :=
  if s == "-" then ByteArray.empty else
  let rec go : List Char → ByteArray → ByteArray
    | a :: b :: rest, acc => go rest (acc.push (UInt8.ofNat (hexVal a * 16 + hexVal b)))
    | _, acc => acc
  go s.toList ByteArray.empty

/-- "-" is the empty bit string, otherwise '0'/'1' characters -/
def parseBits (s : String) : List Bool :=
  if s == "-" then [] else s.toList.map (· == '1')

def showBits (b : List Bool) : String :=
  if b.isEmpty then "-" else String.ofList (b.map (fun x => if x then '1' else '0'))

/-- a string as dot-separated code points ("-" = empty) -/
def parseCps (s : String) : List Char :=
  if s == "-" then [] else (s.splitOn ".").map (fun t => Char.ofNat t.toNat!)

def showCps (cs : List Char) : String :=
  if cs.isEmpty then "-" else ".".intercalate (cs.map (fun c => toString c.toNat))

end Netconan.Driver
