import Netconan.Model.Lines
import Netconan.Model.Decoders
import Netconan.Proofs.WordsNoSurvival
import Netconan.Proofs.QuadCheck
import Netconan.Proofs.LangCheck
import Netconan.Proofs.PatShape
import Netconan.Pinned.Patterns
import Netconan.Model.Md5
import Netconan.Pinned.Patterns
import Netconan.Generated.Patterns
import Netconan.Generated.Unicode
import Netconan.Driver.Util
import Netconan.Driver.Ip
import Std.Data.HashSet
import Std.Data.HashMap
/-! Driver commands for the text pipeline (`FileAnonymizer`) and its stages. -/
namespace Netconan.Driver
open Netconan Netconan.Regex Netconan.Secrets Netconan.Lines

structure FaObj where
  p : Pipeline
  lk : Lookup := []

structure FaEnv where
  reserved : Std.HashSet String := {}
  reservedList : List (List Char) := []
  lower : Std.HashMap Nat (List Char) := {}
  /-- passlib values supplied by the harness: "m<saltlen>:<plain>" / "s:<plain>" ↦ hash -/
  passlib : Std.HashMap String (List Char) := {}

def mkLower : Std.HashMap Nat (List Char) :=
  Generated.lowerTable.foldl (fun m (k, v) => m.insert k (v.map Char.ofNat)) {}

/-- placeholders for passlib's two hashes (substituted by the harness with the real values) -/
def phMd5 (n : Nat) (s : List Char) : List Char := [Char.ofNat 0xE000, 'm'] ++ (toString n).toList ++ [':'] ++ s ++ [Char.ofNat 0xE001]
def phSha (s : List Char) : List Char := [Char.ofNat 0xE000, 's', ':'] ++ s ++ [Char.ofNat 0xE001]

def kv (ws : List String) (k : String) : Option String :=
  ws.findSome? (fun w => if w.startsWith (k ++ "=") then some ((w.drop (k.length + 1)).toString) else none)

def parseList (s : String) : List (List Char) :=
  if s == "-" then [] else (s.splitOn ";").map parseCps

def parseRanges (s : String) : List (Nat × Nat) :=
  if s == "-" then [] else (s.splitOn ",").map (fun t => match t.splitOn "-" with
    | [a, b] => (a.toNat!, b.toNat!)
    | _ => (0, 0))

/-- `ic=<cp>:<lo>-<hi>,...;<cp>:...` -/
def parseIcase (s : String) : List (Nat × List (Nat × Nat)) :=
  if s == "-" then [] else (s.splitOn ";").map (fun t => match t.splitOn ":" with
    | [c, rs] => (c.toNat!, parseRanges rs)
    | _ => (0, []))

def zipTexts (gs : List (List (Re × Option Nat × Option Nat))) (ts : List (List String)) :
    List (List ((Re × Option Nat × Option Nat) × String)) :=
  (gs.zip ts).map (fun (g, t) => g.zip t)

def mkPipeline (env : FaEnv) (ws : List String) : Except String Pipeline := do
  let get (k : String) (d : String) := (kv ws k).getD d
  let pinned := get "pinned" "1" == "1"
  let salt := (String.fromUTF8! (parseHex (get "salt" "-"))).toList
  let spaceSet := if pinned then Pinned.Patterns.spaceSet else Generated.Patterns.spaceSet
  let notDigit := if pinned then Pinned.Patterns.notDigit else Generated.Patterns.notDigit
  let userReserved := parseList (get "reserved" "-")
  let userSet : Std.HashSet String := userReserved.foldl (fun s w => s.insert (String.ofList w)) {}
  let isSpace := fun c => inRanges spaceSet c
  let md5f := fun (n : Nat) (pl : List Char) => (env.passlib.get? (s!"m{n}:" ++ String.ofList pl)).getD (phMd5 n pl)
  let shaf := fun (pl : List Char) => (env.passlib.get? ("s:" ++ String.ofList pl)).getD (phSha pl)
  let ext : Ext := { md5crypt := md5f, sha512crypt := shaf, isSpace := isSpace,
                     isReserved := fun v => env.reserved.contains (String.ofList v) || userSet.contains (String.ofList v) }
  let icase := parseIcase (get "ic" "-")
  let wenv : WEnv := { lower := fun c => (env.lower.get? c.toNat).getD [c],
                       icase := fun c => ((icase.find? (·.1 == c.toNat)).map (·.2)).getD [(c.toNat, c.toNat)],
                       isSpace := isSpace }
  let secrets : Option SecretCfg :=
    if get "pwd" "0" == "1" then
      some (if pinned then { groups := zipTexts Pinned.Patterns.secretGroups Pinned.Patterns.secretTexts, formats := Pinned.Patterns.formatRes }
            else { groups := zipTexts Generated.Patterns.secretGroups Generated.Patterns.secretTexts, formats := Generated.Patterns.formatRes })
    else none
  let ipOn := get "ip" "0" == "1"
  let undo := get "undo" "0" == "1"
  let h := Md5.hashBit (String.ofList salt).toUTF8
  let pins := (if get "pins" "-" == "-" then [] else (get "pins" "-").splitOn ",").map parseBits
  let nets := parseNets (if get "nets" "-" == "-" then [] else (get "nets" "-").splitOn ",")
  let ip4 : Option IpText.IpCfg := if ipOn || undo then
      some { fam6 := false, h := h, pins := pins, B := (get "b4" "0").toNat!, nets := nets,
             pattern := if pinned then Pinned.Patterns.ipv4 else Generated.Patterns.ipv4 } else none
  let ip6 : Option IpText.IpCfg := if ipOn || undo then
      some { fam6 := true, h := h, pins := [], B := (get "b6" "0").toNat!, nets := [],
             pattern := if pinned then Pinned.Patterns.ipv6 else Generated.Patterns.ipv6 } else none
  let words : Option Words.T := match kv ws "words" with
    | some w => some (Words.mk wenv (parseList w) salt (env.reservedList ++ userReserved))
    | none => none
  let asn ← match kv ws "asn" with
    | some a => match AsNum.mk notDigit (parseList a) salt with
      | .ok t => pure (some t)
      | .error e => throw s!"err {e.name}"
    | none => pure none
  pure { salt := salt, ext := ext, wenv := wenv, secrets := secrets, ip6 := ip6, ip4 := ip4, undo := undo, words := words, asn := asn }

def showLogs (ls : List LogRec) : String :=
  if ls.isEmpty then "-" else ";".intercalate (ls.map (fun l => l.level ++ ":" ++ showCps l.msg))

def showLookup (lk : Lookup) : String :=
  if lk.isEmpty then "-" else ";".intercalate (lk.map (fun e => showCps e.1 ++ ">" ++ showCps e.2))

def faCmd (env : FaEnv) (objs : List (String × FaObj)) (ws : List String) : Option (String × List (String × FaObj)) :=
  let find (id : String) := (objs.find? (·.1 == id)).map (·.2)
  let upd (id : String) (o : FaObj) := (id, o) :: objs.filter (·.1 != id)
  match ws with
  | "fanew" :: id :: rest =>
    match mkPipeline env rest with
    | .ok p => some ("ok", upd id { p := p })
    | .error e => some (e, objs)
  -- one line through the pipeline: `ok <out> <logs>` ; state (lookup table) is kept
  | ["faline", id, line] =>
    match find id with
    | none => some ("bad-op", objs)
    | some o =>
      match lineStep o.p o.lk (parseCps line) with
      | .ok (out, lk, logs) => some (s!"ok {showCps out} {showLogs logs}", upd id { o with lk := lk })
      | .error e => some (s!"err {e.name}", objs)
  -- whole text through readlines + pipeline (mode lf | universal)
  | ["fatext", id, mode, text] =>
    match find id with
    | none => some ("bad-op", objs)
    | some o =>
      let lines := if mode == "lf" then readlinesLF (parseCps text) else readlinesUniversal (parseCps text)
      match anonymizeLines o.p o.lk lines with
      | .ok (outs, lk, logs) => some (s!"ok {showCps outs.flatten} {showLogs logs}", upd id { o with lk := lk })
      | .error e => some (s!"err {e.name}", objs)
  | ["fawordok", id] =>
    -- the hypotheses of the no-survival theorem, per (lower-cased) listed word in alternation order
    match find id with
    | none => some ("bad-op", objs)
    | some o => match o.p.words with
      | none => some ("ok -", objs)
      | some t =>
        let verdict := fun (w : List Char) =>
          let sets := NoSurvival.setsOf o.p.wenv w
          NoSurvival.wordOKb Generated.wordLen sets && NoSurvival.spaceFree Pinned.Patterns.spaceSet sets
        some ("ok " ++ (if t.words.isEmpty then "-" else
          ";".intercalate (t.words.map (fun w => showCps w ++ ":" ++ (if verdict w then "1" else "0")))), objs)
  | ["falookup", id] =>
    match find id with
    | none => some ("bad-op", objs)
    | some o => some ("ok " ++ showLookup o.lk, objs)
  -- helpers exposed for helper-level differentials
  | ["splitline", line] =>
    let (a, w, t) := splitLine (fun c => inRanges Pinned.Patterns.spaceSet c) (parseCps line)
    some (s!"ok {showCps a} {if w.isEmpty then "-" else ";".intercalate (w.map showCps)} {showCps t}", objs)
  | ["enclosing", v] =>
    let s := parseCps v
    let (h, m, t) := extractEnclosing (s.length + 1) s [] []
    some (s!"ok {showCps h} {showCps m} {showCps t}", objs)
  | ["classify", v] =>
    some ("ok " ++ (match classify Pinned.Patterns.formatRes (parseCps v) with
      | .type7 => "cisco_type7" | .numeric => "numeric" | .hex => "hexadecimal" | .md5 => "md5"
      | .text => "text" | .sha512 => "sha512" | .jun9 => "juniper_type9"), objs)
  | ["type7", salt, v] => some ("ok " ++ showCps (type7 salt.toNat! (parseCps v)), objs)
  | ["lang", fam, v] =>
    let core := if fam == "6" then NoSurvival.coreOf Pinned.Patterns.ipv6 else NoSurvival.core4
    some (match NoSurvival.langB core (parseCps v) with
      | some true => "ok 1" | some false => "ok 0" | none => "ok oof", objs)
  | ["quad", v] => some (if NoSurvival.isQuadB (parseCps v) then "ok 1" else "ok 0", objs)
  | ["t7dec", v] => some ("ok " ++ showCps (type7Decode (parseCps v)), objs)
  | ["unhex", v] => some ("ok " ++ showCps (unhex (parseCps v)), objs)
  | ["decval", v] => some (s!"ok {decVal (parseCps v)}", objs)
  | ["hexof", v] => some ("ok " ++ showCps (hexOf (parseCps v)), objs)
  | ["numericof", v] => some ("ok " ++ showCps (numericOf (parseCps v)), objs)
  | _ => none

end Netconan.Driver
