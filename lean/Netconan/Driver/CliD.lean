import Netconan.Model.Cli
import Netconan.Model.Md5
import Netconan.Driver.Util
/-! Driver command for the command-line model: `cli <opt>:<c|f>:<hex utf-8 value> ...` -/
namespace Netconan.Driver
open Netconan.Cli

def hexStr (s : String) : String :=
  if s.isEmpty then "-" else Netconan.Md5.hex s.toUTF8

def setSrc {α} (s : Src α) (src : String) (v : α) : Src α := if src == "c" then { s with cli := some v } else { s with cfg := some v }

def parseArgs (ws : List String) : Args :=
  ws.foldl (fun a w => match w.splitOn ":" with
    | [k, src, hv] =>
      let v := String.fromUTF8! (parseHex hv)
      match k with
      | "input" => { a with input := setSrc a.input src v }
      | "output" => { a with output := setSrc a.output src v }
      | "ips" => { a with anonymizeIps := setSrc a.anonymizeIps src true }
      | "pwd" => { a with anonymizePasswords := setSrc a.anonymizePasswords src true }
      | "undo" => { a with undo := setSrc a.undo src true }
      | "salt" => { a with salt := setSrc a.salt src v }
      | "dump" => { a with dump := setSrc a.dump src v }
      | "asn" => { a with asNumbers := setSrc a.asNumbers src v }
      | "reserved" => { a with reserved := setSrc a.reserved src v }
      | "words" => { a with words := setSrc a.words src v }
      | "prefixes" => { a with preservePrefixes := setSrc a.preservePrefixes src v }
      | "addrs" => { a with preserveAddresses := setSrc a.preserveAddresses src v }
      | "private" => { a with preservePrivate := setSrc a.preservePrivate src true }
      | "hostbits" => { a with hostBits := setSrc a.hostBits src v }
      | _ => a
    | _ => a) {}

def showOptS : Option String → String
  | none => "none"
  | some s => "s" ++ hexStr s
def showOptL : Option (List String) → String
  | none => "none"
  | some l => "l" ++ ",".intercalate (l.map hexStr)

def showOutcome : Outcome → String
  | .noop => "noop"
  | .reject r => "reject " ++ (match r with
    | .argparse => "argparse" | .inputMissing => "inputMissing" | .outputMissing => "outputMissing"
    | .undoWithAnonymize => "undoWithAnonymize" | .undoWithoutSalt => "undoWithoutSalt" | .dumpWithoutIps => "dumpWithoutIps")
  | .call p => s!"call input={hexStr p.input} output={hexStr p.output} pwd={p.anonPwd} ip={p.anonIp} salt={showOptS p.salt} dump={showOptS p.dump} words={showOptL p.words} undo={p.undo} asn={showOptL p.asNumbers} reserved={showOptL p.reserved} prefixes={showOptL p.preservePrefixes} nets={showOptL p.preserveNetworks} b4={p.suffixV4} b6={p.suffixV6}"

def cliCmd (ws : List String) : Option String :=
  match ws with
  | "cli" :: rest => some (showOutcome (decideArgs (parseArgs rest)))
  | _ => none

end Netconan.Driver
