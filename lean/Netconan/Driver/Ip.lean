import Netconan.Model.IpCore
import Netconan.Model.Mask
import Netconan.Model.IpText
import Netconan.Pinned.Patterns
import Netconan.Generated.Patterns
import Netconan.Model.Md5
import Netconan.Driver.Util
/-! Driver commands for the IP core. -/
namespace Netconan.Driver
open Netconan Netconan.IpCore

structure IpObj where
  L : Nat
  B : Nat
  h : Bits → Bool
  pins : List Bits
  cache : Cache
  nets : List Mask.Net := []

def parseNets (ws : List String) : List Mask.Net :=
  ws.map (fun t => match t.splitOn "/" with
    | [a, p] => (⟨a.toNat!, p.toNat!⟩ : Mask.Net)
    | _ => ⟨0, 0⟩)

def IpObj.textCfg (o : IpObj) (pinned : Bool) : IpText.IpCfg :=
  let fam6 := o.L == 128
  { fam6 := fam6, h := o.h, pins := o.pins, B := o.B, nets := o.nets,
    pattern := if fam6 then (if pinned then Pinned.Patterns.ipv6 else Generated.Patterns.ipv6)
               else (if pinned then Pinned.Patterns.ipv4 else Generated.Patterns.ipv4) }

def showRes' : Regex.Res (List Char) → String
  | .ok cs => "ok " ++ showCps cs
  | .none => "err none"
  | .oof => "err outOfFuel"

/-- formula salter shared with the harness: v = int('1' + head, 2); ((v*a + b) % 1000003) >> 3 & 1 -/
def fnBit (a b : Nat) (head : Bits) : Bool :=
  let v := ofBits (true :: head)
  (((v * a + b) % 1000003) >>> 3) % 2 == 1

def mkHash : List String → Option ((Bits → Bool) × List String)
  | "md5" :: salt :: rest => some (Md5.hashBit (parseHex salt), rest)
  | "fn" :: a :: b :: rest => some (fnBit a.toNat! b.toNat!, rest)
  | _ => none

def showRes : Except Err Nat → String
  | .ok n => s!"ok {n}"
  | .error e => s!"err {e.name}"

def dumpLine (o : IpObj) : String :=
  let es := (dump o.L o.cache).map (fun e => (ofBits e.1, ofBits e.2))
  let es := es.toArray.qsort (fun a b => a.1 < b.1 || (a.1 == b.1 && a.2 < b.2))
  "ok " ++ ",".intercalate (es.toList.map (fun e => s!"{e.1}>{e.2}"))

/-- returns the reply and the updated object table entry -/
def ipCmd (objs : List (String × IpObj)) (ws : List String) : Option (String × List (String × IpObj)) :=
  let find (id : String) := (objs.find? (·.1 == id)).map (·.2)
  let upd (id : String) (o : IpObj) := (id, o) :: objs.filter (·.1 != id)
  match ws with
  | "ipnew" :: id :: l :: b :: rest =>
    match mkHash rest with
    | none => some ("bad-op", objs)
    | some (h, pinWords) =>
      let pins := pinWords.map parseBits
      match seed pins with
      | .ok c => some ("ok", upd id { L := l.toNat!, B := b.toNat!, h := h, pins := pins, cache := c })
      | .error e => some (s!"err {e.name}", objs)
  | ["anon", id, n] =>
    match find id with
    | none => some ("bad-op", objs)
    | some o =>
      match step o.h o.L o.B o.cache (.anon n.toNat!) with
      | .ok (r, c) => some (s!"ok {r}", upd id { o with cache := c })
      | .error e => some (s!"err {e.name}", objs)
  | ["deanon", id, n] =>
    match find id with
    | none => some ("bad-op", objs)
    | some o =>
      match step o.h o.L o.B o.cache (.deanon n.toNat!) with
      | .ok (r, c) => some (s!"ok {r}", upd id { o with cache := c })
      | .error e => some (s!"err {e.name}", objs)
  | ["dump", id] =>
    match find id with
    | none => some ("bad-op", objs)
    | some o => some (dumpLine o, objs)
  -- the *spec* (cache-free pure map), used as oracle by the search and for large histories
  | ["specF", id, n] =>
    match find id with
    | none => some ("bad-op", objs)
    | some o => some (s!"ok {ofBits (Spec.Ffull o.h o.pins o.L o.B (fmt o.L n.toNat!))}", objs)
  | ["specG", id, n] =>
    match find id with
    | none => some ("bad-op", objs)
    | some o => some (s!"ok {ofBits (Spec.Gfull o.h o.pins o.L o.B (fmt o.L n.toNat!))}", objs)
  | ["ipfree", id] => some ("ok", objs.filter (·.1 != id))
  | "ipnets" :: id :: nets =>
    match find id with
    | none => some ("bad-op", objs)
    | some o => some ("ok", upd id { o with nets := parseNets nets })
  -- ipline <id> <pinned|gen> <undo 0|1> <code points>
  | ["ipline", id, which, undo, line] =>
    match find id with
    | none => some ("bad-op", objs)
    | some o => some (showRes' (IpText.anonIpLine (o.textCfg (which == "pinned")) (undo == "1") (parseCps line)), objs)
  | ["parsev6", t] => some (showRes (IpText.parseV6 (parseCps t)), objs)
  | ["parsev4", t] => some (showRes (IpText.parseV4 (parseCps t)), objs)
  | ["showv6", n] => some ("ok " ++ showCps (IpText.showV6 n.toNat!), objs)
  | ["showv4", n] => some ("ok " ++ showCps (IpText.showV4 n.toNat!), objs)
  | ["ismask", n] => some (if Mask.isMask n.toNat! then "ok 1" else "ok 0", objs)
  -- shouldanon <n> <addr>/<plen> ...
  | "shouldanon" :: n :: nets =>
    let ns := parseNets nets
    some (if Mask.shouldAnonymize ns n.toNat! then "ok 1" else "ok 0", objs)
  | _ => none

end Netconan.Driver
