/-!
# Spec: the prefix-preserving address map

What a user of netconan relies on, as short as possible.  Addresses are bit lists (most
significant bit first).  `h` is the keyed hash bit (MD5 of salt ++ prefix in the real
code) and is an *arbitrary* function here: every theorem about this spec holds for every
salt.  `pins` are the bit strings of the preserved prefixes.
-/
namespace Netconan

abbrev Bits := List Bool

namespace Spec

/-- `g pre` is the bit XORed into the bit that follows the (original) prefix `pre`. -/
def anonFrom (g : Bits → Bool) (pre : Bits) : Bits → Bits
  | [] => []
  | x :: xs => (x ^^ g pre) :: anonFrom g (pre ++ [x]) xs

/-- The inverse walk: each flip is recomputed from the already recovered original prefix. -/
def deanonFrom (g : Bits → Bool) (pre : Bits) : Bits → Bits
  | [] => []
  | y :: ys => let x := (y ^^ g pre); x :: deanonFrom g (pre ++ [x]) ys

/-- Length of the common prefix of two bit lists. -/
def cpl : Bits → Bits → Nat
  | x :: xs, y :: ys => if x = y then cpl xs ys + 1 else 0
  | _, _ => 0

/-- A node of the address tree is *pinned* when it is the root or a child of a proper
prefix of a preserved prefix: both children of every node on a preserved path. -/
def pinned (pins : List Bits) (b : Bits) : Bool :=
  b.isEmpty || pins.any (fun p => decide (b.length ≤ p.length) && (b.dropLast == p.take (b.length - 1)))

/-- The flip applied after original prefix `pre`: none below a pinned node, else the hash bit. -/
def flip (h : Bits → Bool) (pins : List Bits) (pre : Bits) : Bool :=
  if pinned pins (pre ++ [false]) then false else h pre

/-- The mapping on the anonymized (leading) part of an address. -/
def F (h : Bits → Bool) (pins : List Bits) (b : Bits) : Bits := anonFrom (flip h pins) [] b
/-- Its inverse. -/
def G (h : Bits → Bool) (pins : List Bits) (b : Bits) : Bits := deanonFrom (flip h pins) [] b

/-- The mapping on whole addresses of width `L` with `B` preserved host bits. -/
def Ffull (h : Bits → Bool) (pins : List Bits) (L B : Nat) (a : Bits) : Bits :=
  F h pins (a.take (L - B)) ++ a.drop (L - B)
def Gfull (h : Bits → Bool) (pins : List Bits) (L B : Nat) (a : Bits) : Bits :=
  G h pins (a.take (L - B)) ++ a.drop (L - B)

end Spec
end Netconan
