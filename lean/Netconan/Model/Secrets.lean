import Netconan.Model.Regex
import Netconan.Model.Juniper
import Netconan.Generated.Tables
/-!
# Model of netconan/sensitive_item_removal.py: secret (password/community) anonymization

* `splitLine`          – `_split_line` (with Python's `line[:-0]` quirk);
* `extractEnclosing`   – `_extract_enclosing_text` (the iterative version, one pass per round);
* `classify`           – `_check_sensitive_item_format` (six `re.match` tests, later ones override);
* `type7`, `numericOf`, `hexOf` – the re-encodings of the pseudonym done without passlib's hashes;
* `anonymizeValue`     – `_anonymize_value` (lookup, `$9$` keyed by plaintext, pseudonym numbered by
                         the table size);
* `replaceMatchingItem`– `replace_matching_item` (first group with a match wins; every pattern of the
                         group applied; `None` index scrubs; otherwise `prefix ++ anon(group n)` is
                         substituted for every match).

External functions are parameters (`Ext`): passlib's `md5_crypt` and `sha512_crypt`.  WARNING-level
log records are part of the result.
-/
namespace Netconan
namespace Secrets
open Regex Generated

structure Ext where
  /-- `md5_crypt.using(salt="0"*n).hash(s)` -/
  md5crypt : Nat → List Char → List Char
  /-- `sha512_crypt.using(rounds=5000, salt="0"*16).hash(s)` -/
  sha512crypt : List Char → List Char
  /-- `str.isspace` -/
  isSpace : Char → Bool
  /-- `val in reserved_words` -/
  isReserved : List Char → Bool

/-- `_split_line` -/
def splitWords (sp : Char → Bool) (s : List Char) : List (List Char) :=
  let rec go : List Char → List Char → List (List Char)
    | [], cur => if cur.isEmpty then [] else [cur.reverse]
    | c :: cs, cur =>
      if sp c then (if cur.isEmpty then go cs [] else cur.reverse :: go cs [])
      else go cs (c :: cur)
  go s []

def splitLine (sp : Char → Bool) (line : List Char) : List Char × List (List Char) × List Char :=
  let ls := line.dropWhile sp
  -- `line[: -len(line.lstrip())]`: for an all-blank line this is `line[:-0]` = ""
  let leading := if ls.isEmpty then [] else line.take (line.length - ls.length)
  let rs := (line.reverse.dropWhile sp).reverse
  (leading, splitWords sp line, line.drop rs.length)

def joinSp : List (List Char) → List Char
  | [] => []
  | [w] => w
  | w :: ws => w ++ [' '] ++ joinSp ws

def startsWith (s p : List Char) : Bool := s.take p.length == p
def endsWith (s p : List Char) : Bool := p.length ≤ s.length && s.drop (s.length - p.length) == p

/-- `for head_text in ...: if val.startswith(head_text): head += head_text; val = val[len(head_text):]` -/
def stripHeads (ts : List (List Char)) (head val : List Char) : List Char × List Char :=
  ts.foldl (fun (hv : List Char × List Char) t =>
    if startsWith hv.2 t then (hv.1 ++ t, hv.2.drop t.length) else hv) (head, val)

/-- `for tail_text in ...: if val.endswith(tail_text): tail = tail_text + tail; val = val[:-len(tail_text)]` -/
def stripTails (ts : List (List Char)) (tail val : List Char) : List Char × List Char :=
  ts.foldl (fun (tv : List Char × List Char) t =>
    if endsWith tv.2 t then (t ++ tv.1, tv.2.take (tv.2.length - t.length)) else tv) (tail, val)

/-- one pass over the head texts, then over the tail texts -/
def stripPassW (hs ts : List (List Char)) (head val tail : List Char) : List Char × List Char × List Char :=
  ((stripHeads hs head val).1, (stripTails ts tail (stripHeads hs head val).2).2,
   (stripTails ts tail (stripHeads hs head val).2).1)

/-- `_extract_enclosing_text(in_val, head, tail)` over given tables of enclosing texts -/
def extractEnclosingW (hs ts : List (List Char)) : Nat → List Char → List Char → List Char → List Char × List Char × List Char
  | 0, v, h, t => (h, v, t)
  | n + 1, v, h, t =>
    if (stripPassW hs ts h v t).2.1 == v then stripPassW hs ts h v t
    else extractEnclosingW hs ts n (stripPassW hs ts h v t).2.1 (stripPassW hs ts h v t).1 (stripPassW hs ts h v t).2.2

def stripPass := stripPassW headText tailText
/-- `_extract_enclosing_text(in_val, head, tail)` with netconan's tables -/
def extractEnclosing := extractEnclosingW headText tailText

inductive Fmt | type7 | numeric | hex | md5 | text | sha512 | jun9
  deriving DecidableEq, Repr

/-- `re.match(pattern, val)` is not none (anchored at the start only) -/
def reMatch (r : Re) (s : List Char) : Bool :=
  match matchAt r (fuelFor r s.length) ⟨[], s⟩ with
  | .ok _ => true
  | _ => false

/-- `_check_sensitive_item_format`; `fs` = the six patterns in source order -/
def classify (fs : List Re) (val : List Char) : Fmt :=
  let t (i : Nat) := reMatch (fs.getD i .fail) val
  if t 5 then .numeric else if t 4 then .type7 else if t 3 then .hex
  else if t 2 then .md5 else if t 1 then .sha512 else if t 0 then .jun9 else .text

def type7Key : List Char := "dsfd;kfoA,.iyewrkldJKDHSUBsgvca69834ncxv9873254k;fg87".toList

def hexDigitU (n : Nat) : Char := if n < 10 then Char.ofNat (48 + n) else Char.ofNat (55 + n)
def hexDigitL (n : Nat) : Char := if n < 10 then Char.ofNat (48 + n) else Char.ofNat (87 + n)

/-- passlib `cisco_type7.using(salt=s).hash(txt)` on ASCII text -/
def type7 (salt : Nat) (txt : List Char) : List Char :=
  let two := [Char.ofNat (48 + salt / 10 % 10), Char.ofNat (48 + salt % 10)]
  let body := (txt.zipIdx.map (fun (c, i) =>
    let k := (type7Key.getD ((salt + i) % type7Key.length) 'x').toNat
    let v := c.toNat ^^^ k
    [hexDigitU (v / 16 % 16), hexDigitU (v % 16)])).flatten
  two ++ body

/-- `int(b2a_hex(s.encode()), 16)` for ASCII `s` -/
def bytesVal (txt : List Char) : Nat := txt.foldl (fun acc c => acc * 256 + c.toNat) 0

/-- `str(int(b2a_hex(...), 16))` -/
def numericOf (txt : List Char) : List Char := decDigits (bytesVal txt)
/-- `b2a_hex(s.encode()).decode()` -/
def hexOf (txt : List Char) : List Char :=
  (txt.map (fun c => [hexDigitL (c.toNat / 16 % 16), hexDigitL (c.toNat % 16)])).flatten

def pseudonymPrefix : List Char := ['n', 'e', 't', 'c', 'o', 'n', 'a', 'n', 'R', 'e', 'm', 'o', 'v', 'e', 'd']
def pseudonym (n : Nat) : List Char := pseudonymPrefix ++ decDigits n

abbrev Lookup := List (List Char × List Char)

def Lookup.get (l : Lookup) (k : List Char) : Option (List Char) := (l.find? (·.1 == k)).map (·.2)
/-- `d[k] = v` on an insertion-ordered dict -/
def Lookup.set (l : Lookup) (k v : List Char) : Lookup :=
  if (l.find? (·.1 == k)).isSome then l.map (fun e => if e.1 == k then (k, v) else e) else l ++ [(k, v)]

def splitOnDollar (s : List Char) : List (List Char) :=
  let rec go : List Char → List Char → List (List Char)
    | [], cur => [cur.reverse]
    | c :: cs, cur => if c == '$' then cur.reverse :: go cs [] else go cs (c :: cur)
  go s []

/-- the `$9$` plaintext of a value, when it has one (`juniper_decrypt` inside `try ... except ValueError`) -/
def decryptedOf (val : List Char) : Option (List Char) :=
  if startsWith val junMagic then
    match Juniper.decrypt val with
    | .ok p => some p
    | .error _ => none      -- only ValueError is caught; `decrypt_total` shows nothing else occurs
  else none

/-- the re-encoding of the pseudonym in the format of the original -/
def renderAs (x : Ext) (salt : List Char) (fmt : Fmt) (md5Len : Nat) (base : List Char) : Except Err (List Char) :=
  match fmt with
  | .type7 => .ok (type7 9 base)
  | .numeric => .ok (numericOf base)
  | .hex => .ok (hexOf base)
  | .md5 => .ok (x.md5crypt md5Len base)
  | .sha512 => .ok (x.sha512crypt base)
  | .jun9 => Juniper.encrypt base (some salt)
  | .text => .ok base

def md5SaltLen (val : List Char) : Nat := min ((splitOnDollar val).getD 2 []).length 8

/-- `_anonymize_value` after the enclosing text has been split off: the replacement of the bare
value and the updated lookup table -/
def anonCore (x : Ext) (fs : List Re) (salt : List Char) (val : List Char) (lk : Lookup) :
    Except Err (List Char × Lookup) :=
  let decrypted := decryptedOf val
  match lk.get val with
  | some a => .ok (a, lk)
  | none =>
    match decrypted.bind (fun d => lk.get d) with
    | some a =>
      match Juniper.encrypt a (some salt) with
      | .ok c => .ok (c, lk)
      | .error e => .error e
    | none =>
      match renderAs x salt (classify fs val) (md5SaltLen val) (pseudonym lk.length) with
      | .error e => .error e
      | .ok anon =>
        match decrypted with
        | some d =>
          if d.isEmpty then .ok (anon, lk.set val anon)
          else
            -- `lookup[decrypted] = juniper_decrypt(anon_val)`
            match Juniper.decrypt anon with
            | .ok p => .ok (anon, lk.set d p)
            | .error e => .error e
        | none => .ok (anon, lk.set val anon)

/-- `_anonymize_value(raw_val, lookup, reserved_words, salt)` -/
def anonymizeValue (x : Ext) (fs : List Re) (salt : List Char) (raw : List Char) (lk : Lookup) :
    Except Err (List Char × Lookup) :=
  let (h, val, t) := extractEnclosing (raw.length + 1) raw [] []
  if x.isReserved val then .ok (raw, lk)
  else if val.isEmpty then .ok (raw, lk)
  else
    match anonCore x fs salt val lk with
    | .error e => .error e
    | .ok (a, lk') => .ok (h ++ a ++ t, lk')

/-- a WARNING (or higher) log record -/
structure LogRec where
  level : String
  msg : List Char
  deriving Repr

def scrubWarning (patText : String) : LogRec :=
  ⟨"WARNING", ("Anonymizing sensitive info in lines like \"" ++ patText ++
    "\" is currently unsupported, so removing this line completely").toList⟩

/-- what one pattern of a group does to the line -/
inductive StepRes where
  | noMatch
  | scrubbed (out : List Char) (w : LogRec)
  | replaced (out : List Char) (lk : Lookup)

/-- the body of the loop over one group of related patterns, for one pattern -/
def applyOne (x : Ext) (fs : List Re) (salt : List Char) (e : (Re × Option Nat × Option Nat) × String)
    (line : List Char) (lk : Lookup) : Except Err StepRes :=
  match search e.1.1 line with
  | .oof => .error .outOfFuel
  | .none => .error .outOfFuel
  | .ok none => .ok .noMatch
  | .ok (some mt) =>
    match e.1.2.1 with
    | none =>
      match sub e.1.1 (fun _ => scrubbedMessage) line with
      | .ok out => .ok (.scrubbed out (scrubWarning e.2))
      | _ => .error .outOfFuel
    | some n =>
      let prefixTxt := match e.1.2.2 with
        | some p => (mt.group p).getD []
        | none => []
      match anonymizeValue x fs salt ((mt.group n).getD []) lk with
      | .error err => .error err
      | .ok (av, lk') =>
        match sub e.1.1 (fun _ => prefixTxt ++ av) line with
        | .ok out => .ok (.replaced out lk')
        | _ => .error .outOfFuel

/-- the loop over one group of related patterns (`break` after a scrub) -/
def applyGroup (x : Ext) (fs : List Re) (salt : List Char) :
    List ((Re × Option Nat × Option Nat) × String) → List Char → Lookup → Bool → List LogRec →
    Except Err (List Char × Lookup × Bool × List LogRec)
  | [], line, lk, found, logs => .ok (line, lk, found, logs)
  | e :: rest, line, lk, found, logs =>
    match applyOne x fs salt e line lk with
    | .error err => .error err
    | .ok .noMatch => applyGroup x fs salt rest line lk found logs
    | .ok (.scrubbed out w) => .ok (out, lk, true, logs ++ [w])
    | .ok (.replaced out lk') => applyGroup x fs salt rest out lk' true logs

def applyGroups (x : Ext) (fs : List Re) (salt : List Char) :
    List (List ((Re × Option Nat × Option Nat) × String)) → List Char → Lookup → List LogRec →
    Except Err (List Char × Lookup × List LogRec)
  | [], line, lk, logs => .ok (line, lk, logs)
  | g :: gs, line, lk, logs =>
    match applyGroup x fs salt g line lk false logs with
    | .error e => .error e
    | .ok (line', lk', found, logs') =>
      if found then .ok (line', lk', logs') else applyGroups x fs salt gs line' lk' logs'

/-- `replace_matching_item` -/
def replaceMatchingItem (x : Ext) (fs : List Re)
    (groups : List (List ((Re × Option Nat × Option Nat) × String)))
    (salt : List Char) (input : List Char) (lk : Lookup) :
    Except Err (List Char × Lookup × List LogRec) :=
  let (leading, words, trailing) := splitLine x.isSpace input
  let joined := joinSp words
  let (leading, body, trailing) := extractEnclosing (joined.length + 1) joined leading trailing
  match applyGroups x fs salt groups body lk [] with
  | .error e => .error e
  | .ok (out, lk', logs) => .ok (leading ++ out ++ trailing, lk', logs)

end Secrets
end Netconan
