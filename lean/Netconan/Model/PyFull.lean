import Netconan.Generated.SrcIp
import Netconan.Generated.SrcSecrets
import Netconan.Model.Lines
/-!
# The whole state of a `FileAnonymizer` during `anonymize_io`: the two address memos and the password lookup table

The translated per-line loop body (`Generated/SrcFull.lean`) runs in this monad; its stages are the *translated* stateful functions
(`Src.replace_matching_item` on the lookup table, `Src.anonymize_ip_addr` on the IPv6 / IPv4 memo), lifted to the whole state.
-/
namespace Netconan
namespace Py
open Secrets Lines Generated

structure FaState where
  c6 : IpCore.Cache
  c4 : IpCore.Cache
  lk : Lookup

@[reducible] def S (α : Type) := FaState → Except Err (α × FaState)
def S.pure {α} (a : α) : S α := fun s => .ok (a, s)
def S.bind {α β} (x : S α) (f : α → S β) : S β := fun s =>
  match x s with
  | .error e => .error e
  | .ok (a, s') => f a s'
instance : Monad S := { pure := S.pure, bind := S.bind }

@[simp] theorem spure_apply {α} (a : α) (s : FaState) : (pure a : S α) s = .ok (a, s) := rfl
@[simp] theorem sbind_apply {α β} (x : S α) (f : α → S β) (s : FaState) :
    (x >>= f) s = (match x s with | .error e => .error e | .ok (a, s') => f a s') := rfl

@[simp] theorem smbind_apply {α β} (x : S α) (f : α → S β) (s : FaState) :
    (S.bind x f) s = (match x s with | .error e => .error e | .ok (a, s') => f a s') := rfl
@[simp] theorem smpure_apply {α} (a : α) (s : FaState) : (S.pure a : S α) s = .ok (a, s) := rfl

def liftC6 {α} (x : M α) : S α := fun s =>
  match x s.c6 with
  | .error e => .error e
  | .ok (a, c) => .ok (a, { s with c6 := c })
def liftC4 {α} (x : M α) : S α := fun s =>
  match x s.c4 with
  | .error e => .error e
  | .ok (a, c) => .ok (a, { s with c4 := c })
def liftL {α} (x : L α) : S α := fun s =>
  match x s.lk with
  | .error e => .error e
  | .ok (a, l) => .ok (a, { s with lk := l })
/-- a result of the regex engine model as a Python outcome (`oof` / `none`: the model's fuel ran out) -/
def resS {α} (r : Regex.Res α) : S α := fun s =>
  match r with
  | .ok a => .ok (a, s)
  | _ => .error .outOfFuel

/-- `if self.compiled_regexes is not None and self.pwd_lookup is not None: output_line = replace_matching_item(...)` -/
def secretStageS (p : Pipeline) (line : List Char) : S (List Char × List LogRec) :=
  match p.secrets with
  | some sc => liftL (Src.replace_matching_item p.ext sc.formats sc.groups line p.salt)
  | none => pure (line, [])

/-- `anonymize_ip_addr(self.anonymizer6, line, self.undo_ip_anon)` on the IPv6 memo -/
def ipStage6S (c : IpText.IpCfg) (undo : Bool) (line : List Char) : S (List Char) := do
  let r ← liftC6 (Src.anonymize_ip_addr c.h c.fam6 c.nets c.L c.B c.pattern line undo)
  resS r
/-- the same on the IPv4 memo -/
def ipStage4S (c : IpText.IpCfg) (undo : Bool) (line : List Char) : S (List Char) := do
  let r ← liftC4 (Src.anonymize_ip_addr c.h c.fam6 c.nets c.L c.B c.pattern line undo)
  resS r

end Py
end Netconan
