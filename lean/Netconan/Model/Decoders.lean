import Netconan.Model.Secrets
/-! Decoders of the re-encodings (what a device or passlib does with the replacement): used to state
round-trip theorems, and compared with `passlib.hash.cisco_type7.decode`, `binascii.unhexlify` and
`int` by the correspondence check (`t7dec`, `unhex`, `decval` driver operations). -/
namespace Netconan
namespace Secrets

def hexValU (c : Char) : Nat :=
  if '0' ≤ c && c ≤ '9' then c.toNat - 48 else c.toNat - 55

/-- decoder after passlib's `cisco_type7.decode`: salt from the first two digits, then XOR of each
byte with the key stream -/
def type7DecodeBody (salt : Nat) : Nat → List Char → List Char
  | i, a :: b :: rest =>
    let v := hexValU a * 16 + hexValU b
    let k := (type7Key.getD ((salt + i) % type7Key.length) 'x').toNat
    Char.ofNat (v ^^^ k) :: type7DecodeBody salt (i + 1) rest
  | _, _ => []

def type7Decode (s : List Char) : List Char :=
  match s with
  | d1 :: d2 :: body => type7DecodeBody ((d1.toNat - 48) * 10 + (d2.toNat - 48)) 0 body
  | _ => []

def hexValL (c : Char) : Nat := if '0' ≤ c && c ≤ '9' then c.toNat - 48 else c.toNat - 87
def unhex : List Char → List Char
  | a :: b :: rest => Char.ofNat (hexValL a * 16 + hexValL b) :: unhex rest
  | _ => []

def decVal (l : List Char) : Nat := l.foldl (fun a c => a * 10 + (c.toNat - 48)) 0

end Secrets
end Netconan
