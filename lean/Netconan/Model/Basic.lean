/-!
# Model basics: Python exceptions as values

Every Python `raise` site that the modelled code can reach has one constructor here, so
that "the function never raises" is the theorem "the result is `.ok`".
-/
namespace Netconan

inductive Err where
  | bidictDup        -- bidict ValueDuplicationError / KeyAndValueDuplicationError
  | indexEmptyBits   -- `bits[-1]` on the empty string (IndexError)
  | valueError       -- ValueError
  | keyError         -- KeyError
  | indexError       -- IndexError
  | reTemplate       -- re.error raised by a replacement template
  | recursionDepth   -- RecursionError
  | addressValue     -- ipaddress.AddressValueError
  | outOfFuel        -- the model ran out of fuel: never a Python outcome, always a model failure
  deriving DecidableEq, Repr, Inhabited

def Err.name : Err → String
  | .bidictDup => "bidictDup" | .indexEmptyBits => "indexEmptyBits" | .valueError => "valueError"
  | .keyError => "keyError" | .indexError => "indexError" | .reTemplate => "reTemplate"
  | .recursionDepth => "recursionDepth" | .addressValue => "addressValue" | .outOfFuel => "outOfFuel"

deriving instance DecidableEq for Except

end Netconan
