/-!
# Model basics: Python exceptions as values

Every Python `raise` site that the modelled code can reach has one constructor here, so
that "the function never raises" is the theorem "the result is `.ok`".
-/
namespace Netconan

inductive Err where
  | bidictDup        -- bidict ValueDuplicationError / KeyAndValueDuplicationError
  | indexEmptyBits   -- `bits[-1]` on the empty string (IndexError)
  | valueError       -- ValueError
  | keyError         -- KeyError
  | indexError       -- IndexError
  | reTemplate       -- re.error raised by a replacement template
  | recursionDepth   -- RecursionError
  | addressValue     -- ipaddress.AddressValueError
  | outOfFuel        -- the model ran out of fuel: never a Python outcome, always a model failure
  deriving DecidableEq, Repr, Inhabited

def Err.name : Err → String
  | .bidictDup => "bidictDup" | .indexEmptyBits => "indexEmptyBits" | .valueError => "valueError"
  | .keyError => "keyError" | .indexError => "indexError" | .reTemplate => "reTemplate"
  | .recursionDepth => "recursionDepth" | .addressValue => "addressValue" | .outOfFuel => "outOfFuel"

deriving instance DecidableEq for Except

namespace Secrets
/-- decimal digits of a natural number (`str(n)`), written out so that it can be reasoned about -/
def decDigitsAux : Nat → Nat → List Char → List Char
  | 0, _, acc => acc
  | f + 1, n, acc =>
    let d := Char.ofNat (48 + n % 10)
    if n < 10 then d :: acc else decDigitsAux f (n / 10) (d :: acc)
/-- `str(n)` -/
def decDigits (n : Nat) : List Char := decDigitsAux (n + 1) n []
end Secrets

end Netconan
