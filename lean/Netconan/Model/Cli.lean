/-!
# Model of `netconan.netconan.main`: validation, precedence, translation into library parameters

Every option may be given on the command line, in the config file, in both or in neither;
`resolve` is configargparse's precedence (command line over config file over default).  `decide`
transcribes `main` after parsing: the checks in their order, the no-feature case, and the call of
`anonymize_files` with its parameters.
-/
namespace Netconan
namespace Cli

/-- where an option was given -/
structure Src (α : Type) where
  cli : Option α := none
  cfg : Option α := none

/-- command line over config file over default -/
def resolve {α} (s : Src α) (default : α) : α := s.cli.getD (s.cfg.getD default)
def resolveOpt {α} (s : Src α) : Option α := match s.cli with | some v => some v | none => s.cfg

structure Args where
  input : Src String := {}
  output : Src String := {}
  anonymizeIps : Src Bool := {}
  anonymizePasswords : Src Bool := {}
  undo : Src Bool := {}
  salt : Src String := {}
  dump : Src String := {}
  asNumbers : Src String := {}
  reserved : Src String := {}
  words : Src String := {}
  preservePrefixes : Src String := {}
  preserveAddresses : Src String := {}
  preservePrivate : Src Bool := {}
  hostBits : Src String := {}

inductive Reject | argparse | inputMissing | outputMissing | undoWithAnonymize | undoWithoutSalt | dumpWithoutIps
  deriving DecidableEq, Repr

structure Params where
  input : String
  output : String
  anonPwd : Bool
  anonIp : Bool
  salt : Option String
  dump : Option String
  words : Option (List String)
  undo : Bool
  asNumbers : Option (List String)
  reserved : Option (List String)
  preservePrefixes : Option (List String)
  preserveNetworks : Option (List String)
  suffixV4 : Nat
  suffixV6 : Nat
  deriving DecidableEq, Repr

inductive Outcome
  | reject (r : Reject)
  | noop
  | call (p : Params)
  deriving DecidableEq, Repr

def defaultPrefixes : String := "0.0.0.0/1,128.0.0.0/2,192.0.0.0/3,224.0.0.0/4,10.0.0.0/8,172.16.0.0/12,192.168.0.0/16"
def rfc1918 : List String := ["10.0.0.0/8", "172.16.0.0/12", "192.168.0.0/16"]

/-- `host_bits`: `int(x)`, 0..32 (plain decimal digits here; anything else is an argparse error) -/
def parseHostBits (s : String) : Option Nat :=
  if s.toList.isEmpty || !s.toList.all (fun c => '0' ≤ c && c ≤ '9') then none
  else
    let v := s.toList.foldl (fun acc c => acc * 10 + (c.toNat - 48)) 0
    if v ≤ 32 then some v else none

def splitChars (sep : Char) : List Char → List Char → List (List Char)
  | [], cur => [cur.reverse]
  | c :: cs, cur => if c == sep then cur.reverse :: splitChars sep cs [] else splitChars sep cs (c :: cur)

/-- `s.split(",")` -/
def splitComma (s : String) : List String := (splitChars ',' s.toList []).map String.ofList

/-- the checks of `main`, in their order; `none` = all passed -/
def checks (inp outp : String) (undo ips : Bool) (salt dump : Option String) : Option Reject :=
  if inp.isEmpty then some .inputMissing
  else if outp.isEmpty then some .outputMissing
  else if undo && ips then some .undoWithAnonymize
  else if undo && salt.isNone then some .undoWithoutSalt
  else if dump.isSome && !ips then some .dumpWithoutIps
  else none

/-- `--preserve-private-addresses`: the three RFC 1918 networks are appended to the preserved addresses -/
def mergePrivate (priv : Bool) (addrs : Option (List String)) : Option (List String) :=
  if priv then (match addrs with | none => some rfc1918 | some l => some (l ++ rfc1918)) else addrs

def decideArgs (a : Args) : Outcome :=
  match resolveOpt a.input, resolveOpt a.output, parseHostBits (resolve a.hostBits "8") with
  | some inp, some outp, some hb =>
    let undo := resolve a.undo false
    let ips := resolve a.anonymizeIps false
    let salt := resolveOpt a.salt
    let dump := resolveOpt a.dump
    match checks inp outp undo ips salt dump with
    | some r => .reject r
    | none =>
      let asn := (resolveOpt a.asNumbers).map splitComma
      let words := (resolveOpt a.words).map splitComma
      let pwd := resolve a.anonymizePasswords false
      -- `any([as_numbers, sensitive_words, anonymize_passwords, anonymize_ips, undo])`: a list is truthy when non-empty,
      -- and `"".split(",")` is `[""]`, so a given option always counts
      if !(asn.isSome || words.isSome || pwd || ips || undo) then .noop
      else .call { input := inp, output := outp, anonPwd := pwd, anonIp := ips, salt := salt, dump := dump, words := words,
                   undo := undo, asNumbers := asn, reserved := (resolveOpt a.reserved).map splitComma,
                   preservePrefixes := some (splitComma (resolve a.preservePrefixes defaultPrefixes)),
                   preserveNetworks := mergePrivate (resolve a.preservePrivate false) ((resolveOpt a.preserveAddresses).map splitComma),
                   suffixV4 := hb, suffixV6 := hb }
  | _, _, _ => .reject .argparse            -- `required=True` options missing, or `host_bits` refused the value

/-- the namespace returned by `_parse_args` (fields named as in Python): what `main` works on after parsing -/
structure Parsed where
  input : String
  output : String
  anonymize_ips : Bool
  anonymize_passwords : Bool
  undo : Bool
  salt : Option String
  dump_ip_map : Option String
  as_numbers : Option String
  reserved_words : Option String
  sensitive_words : Option String
  preserve_prefixes : Option String
  preserve_addresses : Option String
  preserve_private_addresses : Bool
  preserve_host_bits : Nat

/-- the parsed namespace of an argument vector whose required options and host bits were accepted by argparse -/
def parsedOf (a : Args) (inp outp : String) (hb : Nat) : Parsed :=
  { input := inp, output := outp, anonymize_ips := resolve a.anonymizeIps false,
    anonymize_passwords := resolve a.anonymizePasswords false, undo := resolve a.undo false,
    salt := resolveOpt a.salt, dump_ip_map := resolveOpt a.dump, as_numbers := resolveOpt a.asNumbers,
    reserved_words := resolveOpt a.reserved, sensitive_words := resolveOpt a.words,
    preserve_prefixes := some (resolve a.preservePrefixes defaultPrefixes),
    preserve_addresses := resolveOpt a.preserveAddresses,
    preserve_private_addresses := resolve a.preservePrivate false, preserve_host_bits := hb }

end Cli
end Netconan
