import Netconan.Spec.Ip
import Netconan.Model.Basic
/-!
# Model of `_BaseIpAnonymizer` and of the seeding loop of `IpAnonymizer.__init__`

Mirrors netconan/ip_anonymization.py function by function:

* `Cache`, `get`, `getInv`, `put`, `putInv`  – the `bidict` memo with bidict's default
  duplication policy (`key = DROP_OLD`, `val = RAISE`), forward and inverse view;
* `anonRevM` / `anonBitsM`                   – `_anonymize_bits` (look up, else strip the last
  bit, hash the head, recurse, append, store);
* `anonymizeM`                               – `anonymize` on the bit string (host-bit split, extra
  full-address entry);
* `deanonRevM` / `deanonBitsM` / `deanonymizeM` – `_deanonymize_bits`, `deanonymize`;
* `seedPrefix`, `seed`                       – the pre-seeding loop;
* `dump`                                     – `dump_to_file` (the full-length entries);
* `fmt`, `ofBits`                            – `"{:0Lb}".format(n)` and `int(s, 2)`.

The recursion of `_anonymize_bits` strips the *last* bit; the model runs on the reversed
list so that this is structural recursion.
-/
namespace Netconan
namespace IpCore

abbrev Cache := List (Bits × Bits)

def get (c : Cache) (k : Bits) : Option Bits := (c.find? (fun e => e.1 == k)).map (·.2)
def getInv (c : Cache) (v : Bits) : Option Bits := (c.find? (fun e => e.2 == v)).map (·.1)

/-- bidict `b[k] = v`: the same item is a no-op; a value held by another key raises; an
existing key is overwritten (old item dropped). -/
def put (c : Cache) (k v : Bits) : Except Err Cache :=
  match getInv c v with
  | some k' => if k' == k then .ok c else .error .bidictDup
  | none => .ok ((k, v) :: c.filter (fun e => !(e.1 == k)))

/-- bidict `b.inv[v] = k` (the mirrored policy): forward item `(k, v)`. -/
def putInv (c : Cache) (v k : Bits) : Except Err Cache :=
  match get c k with
  | some v' => if v' == v then .ok c else .error .bidictDup
  | none => .ok ((k, v) :: c.filter (fun e => !(e.2 == v)))

/-- `_anonymize_bits` on the reversed bit list. -/
def anonRevM (h : Bits → Bool) : List Bool → Cache → Except Err (Bits × Cache)
  | [], c =>
    match get c [] with
    | some r => .ok (r, c)
    | none => .error .indexEmptyBits
  | last :: rh, c =>
    match get c (rh.reverse ++ [last]) with
    | some r => .ok (r, c)
    | none =>
      match anonRevM h rh c with
      | .error e => .error e
      | .ok (r, c1) =>
        let ret := r ++ [h rh.reverse ^^ last]
        match put c1 (rh.reverse ++ [last]) ret with
        | .error e => .error e
        | .ok c2 => .ok (ret, c2)

def anonBitsM (h : Bits → Bool) (bits : Bits) (c : Cache) : Except Err (Bits × Cache) :=
  anonRevM h bits.reverse c

/-- `anonymize`, from the formatted bit string to the anonymized bit string. -/
def anonymizeM (h : Bits → Bool) (B : Nat) (bits : Bits) (c : Cache) : Except Err (Bits × Cache) :=
  if B == 0 then anonBitsM h bits c
  else
    let toAnon := bits.take (bits.length - B)
    let toPreserve := bits.drop (bits.length - B)
    match anonBitsM h toAnon c with
    | .error e => .error e
    | .ok (r, c1) =>
      let ab := r ++ toPreserve
      match put c1 bits ab with
      | .error e => .error e
      | .ok c2 => .ok (ab, c2)

/-- `_deanonymize_bits` on the reversed bit list. -/
def deanonRevM (h : Bits → Bool) : List Bool → Cache → Except Err (Bits × Cache)
  | [], c =>
    match getInv c [] with
    | some r => .ok (r, c)
    | none => .error .indexEmptyBits
  | last :: rh, c =>
    match getInv c (rh.reverse ++ [last]) with
    | some r => .ok (r, c)
    | none =>
      match deanonRevM h rh c with
      | .error e => .error e
      | .ok (origHead, c1) =>
        let ret := origHead ++ [h origHead ^^ last]
        match putInv c1 (rh.reverse ++ [last]) ret with
        | .error e => .error e
        | .ok c2 => .ok (ret, c2)

def deanonBitsM (h : Bits → Bool) (bits : Bits) (c : Cache) : Except Err (Bits × Cache) :=
  deanonRevM h bits.reverse c

def deanonymizeM (h : Bits → Bool) (B : Nat) (bits : Bits) (c : Cache) : Except Err (Bits × Cache) :=
  if B == 0 then deanonBitsM h bits c
  else
    let toDeanon := bits.take (bits.length - B)
    let toPreserve := bits.drop (bits.length - B)
    match deanonBitsM h toDeanon c with
    | .error e => .error e
    | .ok (r, c1) => .ok (r ++ toPreserve, c1)

/-- One preserved prefix: both children of every proper prefix get an identity entry. -/
def seedPrefix (c : Cache) (p : Bits) : Except Err Cache :=
  (List.range p.length).foldlM (fun c i => do
    let c ← put c (p.take i ++ [false]) (p.take i ++ [false])
    put c (p.take i ++ [true]) (p.take i ++ [true])) c

/-- The constructor: `bidict({"": ""})` followed by the seeding loop. -/
def seed (pins : List Bits) : Except Err Cache := pins.foldlM seedPrefix [([], [])]

/-- `dump_to_file`: the full-length entries (insertion order is newest first here; the
harness compares dumps as sets of lines). -/
def dump (L : Nat) (c : Cache) : List (Bits × Bits) := c.filter (fun e => e.1.length == L)

/-! ### integers -/

/-- `w` binary digits of `n`, most significant first. -/
def toBitsW : Nat → Nat → Bits
  | 0, _ => []
  | w + 1, n => toBitsW w (n / 2) ++ [n % 2 == 1]

/-- `"{:0Lb}".format(n)`: at least `L` digits, more when `n` needs them. -/
def fmt (L n : Nat) : Bits := toBitsW (max L (n.log2 + 1)) n

/-- `int(s, 2)`. -/
def ofBits (b : Bits) : Nat := b.foldl (fun acc x => 2 * acc + x.toNat) 0

/-- Requests of a history. -/
inductive Op where
  | anon (n : Nat)
  | deanon (n : Nat)
  deriving Repr

/-- One request on the integer interface, as `anonymize(ip_int)` / `deanonymize(ip_int)`. -/
def step (h : Bits → Bool) (L B : Nat) (c : Cache) : Op → Except Err (Nat × Cache)
  | .anon n => match anonymizeM h B (fmt L n) c with
    | .error e => .error e | .ok (r, c') => .ok (ofBits r, c')
  | .deanon n => match deanonymizeM h B (fmt L n) c with
    | .error e => .error e | .ok (r, c') => .ok (ofBits r, c')

/-- A whole history of requests on one anonymizer. -/
def run (h : Bits → Bool) (L B : Nat) : Cache → List Op → Except Err (List Nat × Cache)
  | c, [] => .ok ([], c)
  | c, op :: ops => match step h L B c op with
    | .error e => .error e
    | .ok (r, c1) => match run h L B c1 ops with
      | .error e => .error e
      | .ok (rs, c2) => .ok (r :: rs, c2)

end IpCore
end Netconan
