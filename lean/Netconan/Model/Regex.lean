/-!
# Model of Python's `re` matcher (the subset netconan's patterns use)

A backtracking matcher in continuation-passing style over a zipper, written after CPython's
`_sre`: ordered alternation; greedy and lazy counted repeats (a zero-width iteration of an
optional repeat is not taken again); capture groups (the last participation wins); positive and
negative look-ahead; fixed-width look-behind; `^`; `$` (also before a final newline); character
sets as explicit code-point ranges (the generator asks CPython itself which code points a set
matches under the pattern's flags, so `\d \s \w`, negation and IGNORECASE are already resolved).

Every call decrements `fuel`, so the definition is structural and the kernel can evaluate it;
running out of fuel is a third outcome `oof`, never confused with "no match".
-/
namespace Netconan
namespace Regex

inductive Re where
  | chr (ranges : List (Nat × Nat))
  | eps | fail | bol | eol
  | seq (a b : Re) | alt (a b : Re)
  | rep (min : Nat) (max : Option Nat) (greedy : Bool) (r : Re)
  | grp (idx : Nat) (r : Re)
  | look (ahead neg : Bool) (width : Nat) (r : Re)
  deriving Repr, Inhabited

def inRanges (rs : List (Nat × Nat)) (c : Char) : Bool := rs.any (fun r => r.1 ≤ c.toNat && c.toNat ≤ r.2)

/-- input zipper: consumed characters (reversed) and remaining characters -/
structure Z where
  left : List Char
  right : List Char
  deriving Repr

/-- group index ↦ captured text, most recent participation first -/
abbrev Caps := List (Nat × List Char)

inductive Res (α : Type) where
  | ok (a : α)
  | none
  | oof
  deriving Repr

def Res.orElse {α} : Res α → (Unit → Res α) → Res α
  | .none, f => f ()
  | r, _ => r

abbrev K := Z → Caps → Res (Z × Caps)

def stepBack (z : Z) (w : Nat) : Option Z :=
  if z.left.length < w then none else some ⟨z.left.drop w, (z.left.take w).reverse ++ z.right⟩

def m : Nat → Re → K → K
  | 0, _, _, _, _ => .oof
  | _ + 1, .chr rs, k, z, cs =>
    match z.right with
    | [] => .none
    | c :: rest => if inRanges rs c then k ⟨c :: z.left, rest⟩ cs else .none
  | _ + 1, .eps, k, z, cs => k z cs
  | _ + 1, .fail, _, _, _ => .none
  | _ + 1, .bol, k, z, cs => if z.left.isEmpty then k z cs else .none
  | _ + 1, .eol, k, z, cs => if z.right.isEmpty || z.right == ['\n'] then k z cs else .none
  | f + 1, .seq a b, k, z, cs => m f a (m f b k) z cs
  | f + 1, .alt a b, k, z, cs => (m f a k z cs).orElse fun _ => m f b k z cs
  | f + 1, .grp idx r, k, z, cs =>
    m f r (fun z' cs' => k z' ((idx, (z'.left.take (z'.left.length - z.left.length)).reverse) :: cs')) z cs
  | f + 1, .look ahead neg width r, k, z, cs =>
    let z0 : Option Z := if ahead then some z else stepBack z width
    match z0 with
    | .none => if neg then k z cs else .none
    | some z0 =>
      match m f r (fun z' cs' => if ahead || z'.left.length == z.left.length then .ok (z', cs') else .none) z0 cs, neg with
      | .ok (_, cs'), false => k z cs'
      | .none, true => k z cs
      | .oof, _ => .oof
      | _, _ => .none
  | f + 1, .rep mn mx greedy r, k, z, cs =>
    let stop : Unit → Res (Z × Caps) := fun _ => if mn == 0 then k z cs else .none
    let more : Unit → Res (Z × Caps) := fun _ =>
      if mx == some 0 then .none else
      m f r (fun z' cs' =>
        if mn == 0 && z'.right.length == z.right.length then .none
        else m f (.rep (mn - 1) (mx.map (· - 1)) greedy r) k z' cs') z cs
    if greedy then (more ()).orElse stop else (stop ()).orElse more

/-- size of a pattern, for the fuel bound -/
def Re.size : Re → Nat
  | .seq a b => a.size + b.size + 1
  | .alt a b => a.size + b.size + 1
  | .rep mn _ _ r => (r.size + 2) * (mn + 1) + 1
  | .grp _ r => r.size + 1
  | .look _ _ _ r => r.size + 1
  | _ => 1

/-- generous fuel: every recursion level consumes a character, descends in the pattern or
unrolls a mandatory iteration -/
def fuelFor (r : Re) (n : Nat) : Nat := (n + 2) * (r.size + 2) + 8

structure Match where
  start : Nat           -- index of the first matched character
  text : List Char      -- group 0
  caps : Caps
  deriving Repr

/-- `pattern.match` at the zipper position (not anchored at the end) -/
def matchAt (r : Re) (fuel : Nat) (z : Z) : Res (Z × Caps) :=
  m fuel r (fun z' cs' => .ok (z', cs')) z []

/-- `pattern.search(s)`: leftmost match; the zipper walks the string -/
def searchFrom (r : Re) (fuel : Nat) : Nat → Z → Res (Option (Z × Z × Caps))
  | 0, _ => .oof
  | n + 1, z =>
    match matchAt r fuel z with
    | .ok (z', cs) => .ok (some (z, z', cs))
    | .oof => .oof
    | .none =>
      match z.right with
      | [] => .ok none
      | c :: rest => searchFrom r fuel n ⟨c :: z.left, rest⟩

def search (r : Re) (s : List Char) : Res (Option Match) :=
  match searchFrom r (fuelFor r s.length) (s.length + 2) ⟨[], s⟩ with
  | .ok (some (z, z', cs)) =>
    .ok (some ⟨z.left.length, (z'.left.take (z'.left.length - z.left.length)).reverse, cs⟩)
  | .ok none => .ok none
  | .none => .none
  | .oof => .oof

def Match.group (mt : Match) (i : Nat) : Option (List Char) :=
  if i == 0 then some mt.text else (mt.caps.find? (·.1 == i)).map (·.2)

/-- `pattern.sub(f, s)` with a function replacement (CPython ≥ 3.7 rules for empty matches):
output accumulated in reverse -/
def subLoop (r : Re) (fuel : Nat) (f : Match → List Char) : Nat → Z → List Char → Res (List Char)
  | 0, _, _ => .oof
  | n + 1, z, acc =>
    match matchAt r fuel z with
    | .oof => .oof
    | .ok (z', cs) =>
      let txt := (z'.left.take (z'.left.length - z.left.length)).reverse
      let rep := f ⟨z.left.length, txt, cs⟩
      if txt.isEmpty then
        match z.right with
        | [] => .ok (acc ++ rep)
        | c :: rest => subLoop r fuel f n ⟨c :: z.left, rest⟩ (acc ++ rep ++ [c])
      else subLoop r fuel f n z' (acc ++ rep)
    | .none =>
      match z.right with
      | [] => .ok acc
      | c :: rest => subLoop r fuel f n ⟨c :: z.left, rest⟩ (acc ++ [c])

def sub (r : Re) (f : Match → List Char) (s : List Char) : Res (List Char) :=
  subLoop r (fuelFor r s.length) f (s.length + 2) ⟨[], s⟩ []

end Regex
end Netconan
