/-!
# Model of `IpAnonymizer._is_mask` and `should_anonymize`

```python
diff = (possible_mask_int ^ (possible_mask_int >> 1)) & 0x7FFFFFFF
return (diff & ((0xFFFFFFFF ^ diff) + 1)) == diff
```
Python integers are unbounded; so are `Nat`s: the `+ 1` is modelled as written.
-/
namespace Netconan
namespace Mask

def diffOf (x : Nat) : Nat := (x ^^^ (x >>> 1)) &&& 0x7FFFFFFF

def isMask (x : Nat) : Bool :=
  let diff := diffOf x
  (diff &&& ((0xFFFFFFFF ^^^ diff) + 1)) == diff

/-- a preserved network: address value of the network and prefix length -/
structure Net where
  addr : Nat
  plen : Nat
  deriving Repr, DecidableEq

/-- `ip in n` for an IPv4 network `n` -/
def Net.contains (n : Net) (x : Nat) : Bool := x >>> (32 - n.plen) == n.addr >>> (32 - n.plen)

/-- `should_anonymize` -/
def shouldAnonymize (nets : List Net) (x : Nat) : Bool :=
  !(isMask x || nets.any (·.contains x))

end Mask
end Netconan
