import Netconan.Model.Regex
import Netconan.Model.IpCore
import Netconan.Model.Mask
import Netconan.Model.Basic
/-!
# Model of the text layer of IP anonymization

* `parseV4`  – `IpAnonymizer.make_addr`: leading zeros of each part dropped
               (`_DROP_ZEROS_PATTERN.sub`), then `ipaddress.IPv4Address(str)`;
* `showV4`   – `str(IPv4Address(n))`;
* `parseV6`  – `ipaddress.IPv6Address(str)` (`_split_scope_id`, `_ip_int_from_string`,
               `_parse_hextet`, IPv4 tail);
* `showV6`   – `str(IPv6Address(n))` (RFC 5952 compression, `_compress_hextets`);
* `anonMatch`, `anonIpLine` – `_anonymize_match`, `anonymize_ip_addr`.

The address map itself is the pure `Ffull` / `Gfull` (proved equal to the memo machine's
answers for every history in `Proofs/IpInt.lean`).
-/
namespace Netconan
namespace IpText
open Regex

def isAsciiDigit (c : Char) : Bool := '0' ≤ c && c ≤ '9'

def splitOn (sep : Char) (s : List Char) : List (List Char) :=
  let rec go : List Char → List Char → List (List Char)
    | [], cur => [cur.reverse]
    | c :: cs, cur => if c == sep then cur.reverse :: go cs [] else go cs (c :: cur)
  go s []

def decVal (ds : List Char) : Nat := ds.foldl (fun acc c => acc * 10 + (c.toNat - 48)) 0

/-- one dotted-quad part after `0*(\d+)` dropped its leading zeros: decimal, at most 3 digits
left, value ≤ 255 (`IPv4Address._parse_octet`) -/
def parseOctet (p : List Char) : Option Nat :=
  if p.isEmpty || !p.all isAsciiDigit then none else
  let q := p.dropWhile (· == '0')
  let q := if q.isEmpty then ['0'] else q
  if q.length > 3 then none else
  let v := decVal q
  if v ≤ 255 then some v else none

def parseV4 (s : List Char) : Except Err Nat :=
  match (splitOn '.' s).map parseOctet with
  | [some a, some b, some c, some d] => .ok (((a * 256 + b) * 256 + c) * 256 + d)
  | _ => .error .addressValue

/-- `str(n)` (list-based, so that the canonical spelling can be reasoned about) -/
def natToDec (n : Nat) : List Char := Secrets.decDigits n

def showV4 (n : Nat) : List Char :=
  natToDec (n / 16777216 % 256) ++ ['.'] ++ natToDec (n / 65536 % 256) ++ ['.'] ++
  natToDec (n / 256 % 256) ++ ['.'] ++ natToDec (n % 256)

/-! ### IPv6 -/

def hexVal? (c : Char) : Option Nat :=
  if '0' ≤ c && c ≤ '9' then some (c.toNat - 48)
  else if 'a' ≤ c && c ≤ 'f' then some (c.toNat - 87)
  else if 'A' ≤ c && c ≤ 'F' then some (c.toNat - 55)
  else none

/-- `_parse_hextet` -/
def parseHextet (p : List Char) : Option Nat :=
  if p.isEmpty || p.length > 4 then none else
  p.foldl (fun acc c => match acc, hexVal? c with
    | some a, some v => some (a * 16 + v)
    | _, _ => none) (some 0)

/-- the IPv4 tail inside an IPv6 address is parsed by `IPv4Address` itself: no leading zeros
allowed there (Python ≥ 3.9.5) -/
def parseOctetStrict (p : List Char) : Option Nat :=
  if p.isEmpty || !p.all isAsciiDigit || p.length > 3 then none else
  if p.length > 1 && p.head? == some '0' then none else
  let v := decVal p
  if v ≤ 255 then some v else none

def parseV4Strict (s : List Char) : Option Nat :=
  match (splitOn '.' s).map parseOctetStrict with
  | [some a, some b, some c, some d] => some (((a * 256 + b) * 256 + c) * 256 + d)
  | _ => none

def hextetsVal (ps : List (List Char)) : Option Nat :=
  ps.foldl (fun acc p => match acc, parseHextet p with
    | some a, some v => some (a * 65536 + v)
    | _, _ => none) (some 0)

/-- `IPv6Address(str)`; the scope id is checked and dropped (`int(ip)` ignores it) -/
def parseV6 (s : List Char) : Except Err Nat :=
  -- _split_scope_id
  let (addr, okScope) :=
    match splitOn '%' s with
    | [a] => (a, true)
    | [a, sc] => (a, !sc.isEmpty)
    | a :: _ => (a, false)
    | [] => ([], false)
  if !okScope then .error .addressValue else
  let parts := splitOn ':' addr
  if parts.length < 3 then .error .addressValue else
  -- IPv4 tail
  let partsE : Option (List (List Char)) :=
    match parts.getLast? with
    | some last =>
      if last.contains '.' then
        match parseV4Strict last with
        | some v => some (parts.dropLast ++ [(Nat.toDigits 16 (v / 65536)), (Nat.toDigits 16 (v % 65536))])
        | none => none
      else some parts
    | none => none
  match partsE with
  | none => .error .addressValue
  | some parts =>
  if parts.length > 9 then .error .addressValue else
  -- position(s) of '::'
  let inner := (List.range parts.length).filter (fun i => 1 ≤ i && i + 1 < parts.length && (parts.getD i []).isEmpty)
  match inner with
  | _ :: _ :: _ => .error .addressValue
  | [skip] =>
    let hi0 := skip
    let lo0 := parts.length - skip - 1
    let firstEmpty := (parts.headD []).isEmpty
    let lastEmpty := (parts.getLast?.getD []).isEmpty
    let hi := if firstEmpty then hi0 - 1 else hi0
    let lo := if lastEmpty then lo0 - 1 else lo0
    if firstEmpty && hi != 0 then .error .addressValue
    else if lastEmpty && lo != 0 then .error .addressValue
    else if hi + lo > 7 then .error .addressValue
    else
      match hextetsVal (parts.take hi), hextetsVal (parts.drop (parts.length - lo)) with
      | some h, some l => .ok (h * 65536 ^ (8 - hi) + l)
      | _, _ => .error .addressValue
  | [] =>
    if parts.length != 8 then .error .addressValue
    else match hextetsVal parts with
      | some v => .ok v
      | none => .error .addressValue

def hextetsOf (n : Nat) : List Nat := (List.range 8).map (fun i => n / 65536 ^ (7 - i) % 65536)

/-- `_compress_hextets`: (start, length) of the leftmost longest run of zero hextets, length > 1 -/
def bestZeroRun (hs : List Nat) : Option (Nat × Nat) :=
  let rec go : List Nat → Nat → Option (Nat × Nat) → Option (Nat × Nat) → Option (Nat × Nat)
    | [], _, cur, best => pick cur best
    | h :: rest, i, cur, best =>
      if h == 0 then
        match cur with
        | some (s, l) => go rest (i + 1) (some (s, l + 1)) best
        | none => go rest (i + 1) (some (i, 1)) best
      else go rest (i + 1) none (pick cur best)
  go hs 0 none none
where
  pick (cur best : Option (Nat × Nat)) : Option (Nat × Nat) :=
    match cur, best with
    | some (s, l), some (bs, bl) => if l > bl then some (s, l) else some (bs, bl)
    | some (s, l), none => some (s, l)
    | none, b => b

def hexStr (n : Nat) : List Char := Nat.toDigits 16 n

def joinWith (sep : Char) : List (List Char) → List Char
  | [] => []
  | [x] => x
  | x :: xs => x ++ [sep] ++ joinWith sep xs

def showV6 (n : Nat) : List Char :=
  let hs := hextetsOf n
  let strs := hs.map hexStr
  match bestZeroRun hs with
  | some (s, l) =>
    if l > 1 then
      let pre := strs.take s
      let post := strs.drop (s + l)
      -- `hextets[start:end] = ['']`, plus an extra '' at either end when the run touches it
      let mid : List (List Char) := [[]]
      let pre' := if s == 0 then [[]] else pre
      let post' := if s + l == 8 then [[]] else post
      joinWith ':' (pre' ++ mid ++ post')
    else joinWith ':' strs
  | none => joinWith ':' strs

/-! ### the per-match replacement and the line function -/

structure IpCfg where
  fam6 : Bool
  h : Bits → Bool
  pins : List Bits
  B : Nat
  nets : List Mask.Net         -- preserved networks (IPv4 only)
  pattern : Re

def IpCfg.L (c : IpCfg) : Nat := if c.fam6 then 128 else 32

/-- `_anonymize_match` (with the `fix:` that leaves unparsable matches alone) -/
def anonMatch (c : IpCfg) (undo : Bool) (txt : List Char) : List Char :=
  match (if c.fam6 then parseV6 txt else parseV4 txt) with
  | .error _ => txt
  | .ok n =>
    if !c.fam6 && !Mask.shouldAnonymize c.nets n then txt
    else
      let bits := IpCore.fmt c.L n
      let img := if undo then Spec.Gfull c.h c.pins c.L c.B bits else Spec.Ffull c.h c.pins c.L c.B bits
      let v := IpCore.ofBits img
      if c.fam6 then showV6 v else showV4 v

/-- `anonymize_ip_addr` -/
def anonIpLine (c : IpCfg) (undo : Bool) (line : List Char) : Res (List Char) :=
  sub c.pattern (fun mt => anonMatch c undo mt.text) line

end IpText
end Netconan
