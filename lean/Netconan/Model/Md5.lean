namespace Netconan.Md5

def sTab : Array UInt32 := #[
  7,12,17,22,7,12,17,22,7,12,17,22,7,12,17,22,
  5,9,14,20,5,9,14,20,5,9,14,20,5,9,14,20,
  4,11,16,23,4,11,16,23,4,11,16,23,4,11,16,23,
  6,10,15,21,6,10,15,21,6,10,15,21,6,10,15,21]

def kTab : Array UInt32 := #[
 0xd76aa478,0xe8c7b756,0x242070db,0xc1bdceee,0xf57c0faf,0x4787c62a,0xa8304613,0xfd469501,
 0x698098d8,0x8b44f7af,0xffff5bb1,0x895cd7be,0x6b901122,0xfd987193,0xa679438e,0x49b40821,
 0xf61e2562,0xc040b340,0x265e5a51,0xe9b6c7aa,0xd62f105d,0x02441453,0xd8a1e681,0xe7d3fbc8,
 0x21e1cde6,0xc33707d6,0xf4d50d87,0x455a14ed,0xa9e3e905,0xfcefa3f8,0x676f02d9,0x8d2a4c8a,
 0xfffa3942,0x8771f681,0x6d9d6122,0xfde5380c,0xa4beea44,0x4bdecfa9,0xf6bb4b60,0xbebfbc70,
 0x289b7ec6,0xeaa127fa,0xd4ef3085,0x04881d05,0xd9d4d039,0xe6db99e5,0x1fa27cf8,0xc4ac5665,
 0xf4292244,0x432aff97,0xab9423a7,0xfc93a039,0x655b59c3,0x8f0ccc92,0xffeff47d,0x85845dd1,
 0x6fa87e4f,0xfe2ce6e0,0xa3014314,0x4e0811a1,0xf7537e82,0xbd3af235,0x2ad7d2bb,0xeb86d391]

@[inline] def rotl (x : UInt32) (c : UInt32) : UInt32 := (x <<< c) ||| (x >>> (32 - c))

def pad (msg : ByteArray) : ByteArray := Id.run do
  let len := msg.size
  let mut m := msg.push 0x80
  while m.size % 64 != 56 do
    m := m.push 0
  let bits : UInt64 := (UInt64.ofNat len) * 8
  for i in [0:8] do
    m := m.push ((bits >>> (UInt64.ofNat (8*i))).toUInt8)
  return m

def word (m : ByteArray) (off : Nat) : UInt32 :=
  (m.get! off).toUInt32 ||| ((m.get! (off+1)).toUInt32 <<< 8) |||
  ((m.get! (off+2)).toUInt32 <<< 16) ||| ((m.get! (off+3)).toUInt32 <<< 24)

/-- the four state words after the last block -/
def digestState (msg : ByteArray) : UInt32 × UInt32 × UInt32 × UInt32 := Id.run do
  let m := pad msg
  let mut a0 : UInt32 := 0x67452301
  let mut b0 : UInt32 := 0xefcdab89
  let mut c0 : UInt32 := 0x98badcfe
  let mut d0 : UInt32 := 0x10325476
  for blk in [0:m.size/64] do
    let base := blk*64
    let mut a := a0; let mut b := b0; let mut c := c0; let mut d := d0
    for i in [0:64] do
      let mut f : UInt32 := 0
      let mut g : Nat := 0
      if i < 16 then
        f := (b &&& c) ||| ((~~~ b) &&& d); g := i
      else if i < 32 then
        f := (d &&& b) ||| ((~~~ d) &&& c); g := (5*i+1) % 16
      else if i < 48 then
        f := b ^^^ c ^^^ d; g := (3*i+5) % 16
      else
        f := c ^^^ (b ||| (~~~ d)); g := (7*i) % 16
      f := f + a + kTab[i]! + word m (base + 4*g)
      a := d; d := c; c := b
      b := b + rotl f sTab[i]!
    a0 := a0 + a; b0 := b0 + b; c0 := c0 + c; d0 := d0 + d
  return (a0, b0, c0, d0)

/-- the four bytes of a word, least significant first -/
def le4 (w : UInt32) : List UInt8 := [w.toUInt8, (w >>> 8).toUInt8, (w >>> 16).toUInt8, (w >>> 24).toUInt8]

/-- MD5: the state words written out little-endian (16 bytes) -/
def digest (msg : ByteArray) : ByteArray :=
  let s := digestState msg
  ⟨(le4 s.1 ++ le4 s.2.1 ++ le4 s.2.2.1 ++ le4 s.2.2.2).toArray⟩

/-- an MD5 digest has 16 bytes -/
theorem digest_size (msg : ByteArray) : (digest msg).size = 16 := rfl

def hexDigit (n : UInt8) : Char := if n < 10 then Char.ofNat (48 + n.toNat) else Char.ofNat (87 + n.toNat)
def hex (b : ByteArray) : String := Id.run do
  let mut s := ""
  for x in b do
    s := s.push (hexDigit (x >>> 4)); s := s.push (hexDigit (x &&& 15))
  return s
def md5hex (s : String) : String := hex (digest s.toUTF8)
end Netconan.Md5

namespace Netconan.Md5
/-- `_generate_bit_from_hash`: `int(md5(salt + string).hexdigest()[-1], 16) & 1`, i.e. the low bit of
the last digest byte.  `salt` is the UTF-8 encoding of the salt, `bits` the head as '0'/'1' text. -/
def hashBit (salt : ByteArray) (bits : List Bool) : Bool :=
  let msg := bits.foldl (fun (acc : ByteArray) b => acc.push (if b then 49 else 48)) salt
  ((digest msg).get! 15) &&& 1 == 1

/-- the digest as a natural number, `int(hexdigest, 16)` -/
def digestNat (msg : ByteArray) : Nat := (digest msg).foldl (fun acc b => acc * 256 + b.toNat) 0
end Netconan.Md5
