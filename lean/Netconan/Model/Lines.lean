import Netconan.Model.Secrets
import Netconan.Model.Words
import Netconan.Model.IpText
/-!
# Model of `FileAnonymizer.anonymize_io`

`readlines` (per entry point: `io.StringIO` splits at `\n` only; files opened with `newline=""`
split at `\n`, `\r`, `\r\n` and keep the terminators), the per-line pipeline in its fixed order
secrets → IPv6 → IPv4 → sensitive words → AS numbers, and the threading of the only cross-line state,
the secret lookup table.
-/
namespace Netconan
namespace Lines
open Regex Secrets

/-- `io.StringIO(text).readlines()` -/
def readlinesLF : List Char → List (List Char) :=
  let rec go : List Char → List Char → List (List Char)
    | [], cur => if cur.isEmpty then [] else [cur.reverse]
    | c :: cs, cur => if c == '\n' then (c :: cur).reverse :: go cs [] else go cs (c :: cur)
  fun s => go s []

/-- `open(path, newline="").readlines()`: universal line boundaries, terminators kept -/
def readlinesUniversal : List Char → List (List Char) :=
  -- `pendingCR`: the current line ends with a carriage return that a following line feed would join
  let rec go : List Char → List Char → Bool → List (List Char)
    | [], cur, _ => if cur.isEmpty then [] else [cur.reverse]
    | c :: cs, cur, true =>
      if c == '\n' then ('\n' :: cur).reverse :: go cs [] false
      else cur.reverse :: (if c == '\r' then go cs ['\r'] true else go cs [c] false)
    | c :: cs, cur, false =>
      if c == '\r' then go cs ('\r' :: cur) true
      else if c == '\n' then (c :: cur).reverse :: go cs [] false
      else go cs (c :: cur) false
  fun s => go s [] false

structure SecretCfg where
  groups : List (List ((Re × Option Nat × Option Nat) × String))
  formats : List Re

structure Pipeline where
  salt : List Char
  ext : Ext
  wenv : WEnv
  secrets : Option SecretCfg
  ip6 : Option IpText.IpCfg
  ip4 : Option IpText.IpCfg
  undo : Bool
  words : Option Words.T
  asn : Option AsNum.T

def liftRes {α} : Res α → Except Err α
  | .ok a => .ok a
  | _ => .error .outOfFuel

/-- an optional stage: absent (`None`) means the line passes through -/
def optStage {α} (f : α → List Char → Except Err (List Char)) : Option α → List Char → Except Err (List Char)
  | some a, l => f a l
  | none, l => .ok l

def ip6Stage (p : Pipeline) : List Char → Except Err (List Char) :=
  optStage (fun c l => liftRes (IpText.anonIpLine c p.undo l)) p.ip6
def ip4Stage (p : Pipeline) : List Char → Except Err (List Char) :=
  optStage (fun c l => liftRes (IpText.anonIpLine c p.undo l)) p.ip4
def wordStage (p : Pipeline) : List Char → Except Err (List Char) :=
  optStage (fun w l => liftRes (Words.anonymize p.wenv w l)) p.words
def asStage (p : Pipeline) : List Char → Except Err (List Char) :=
  optStage (fun a l => liftRes (AsNum.anonymize a l)) p.asn

/-- the secret stage: the only one with state (the lookup table) and with log records -/
def secretStage (p : Pipeline) (lk : Lookup) (line : List Char) : Except Err (List Char × Lookup × List LogRec) :=
  match p.secrets with
  | some sc => replaceMatchingItem p.ext sc.formats sc.groups p.salt line lk
  | none => .ok (line, lk, [])

/-- the four stateless stages in their fixed order: IPv6, IPv4, sensitive words, AS numbers -/
def pureStages (p : Pipeline) (l : List Char) : Except Err (List Char) :=
  ip6Stage p l >>= ip4Stage p >>= wordStage p >>= asStage p

/-- one iteration of the `for line in in_io.readlines()` loop -/
def lineStep (p : Pipeline) (lk : Lookup) (line : List Char) : Except Err (List Char × Lookup × List LogRec) :=
  match secretStage p lk line with
  | .error e => .error e
  | .ok (l1, lk1, logs) =>
    match pureStages p l1 with
    | .error e => .error e
    | .ok l5 => .ok (l5, lk1, logs)

/-- `anonymize_io` on the list of lines; one output line per input line, in order -/
def anonymizeLines (p : Pipeline) : Lookup → List (List Char) → Except Err (List (List Char) × Lookup × List LogRec)
  | lk, [] => .ok ([], lk, [])
  | lk, l :: ls =>
    match lineStep p lk l with
    | .error e => .error e
    | .ok (o, lk1, lg1) =>
      match anonymizeLines p lk1 ls with
      | .error e => .error e
      | .ok (os, lk2, lg2) => .ok (o :: os, lk2, lg1 ++ lg2)

end Lines
end Netconan
