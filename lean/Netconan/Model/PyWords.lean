import Netconan.Model.Py
import Netconan.Model.Words
/-!
# Primitives for the translated word anonymizer: results of the regex engine model as a monad
(`ok` continues; `none` / `oof` – the model's fuel ran out – end the computation)
-/
namespace Netconan
namespace Py
open Regex

def R.bind {α β} (x : Res α) (f : α → Res β) : Res β :=
  match x with
  | .ok a => f a
  | .none => .none
  | .oof => .oof
instance : Monad Res := { pure := Res.ok, bind := R.bind }

@[simp] theorem rbind_ok {α β} (a : α) (f : α → Res β) : (Res.ok a >>= f) = f a := rfl
@[simp] theorem rbind_none {α β} (f : α → Res β) : ((Res.none : Res α) >>= f) = .none := rfl
@[simp] theorem rbind_oof {α β} (f : α → Res β) : ((Res.oof : Res α) >>= f) = .oof := rfl
@[simp] theorem rpure {α} (a : α) : (pure a : Res α) = .ok a := rfl

/-- `[f(w) for w in words]` with a function that can run out of fuel -/
def listMapR {α β} (f : α → Res β) : List α → Res (List β)
  | [] => .ok []
  | a :: as => do
    let b ← f a
    let bs ← listMapR f as
    pure (b :: bs)

end Py
end Netconan
