import Netconan.Model.Py
import Netconan.Model.Regex
/-!
# `pattern.sub(callback, line)` with a callback that reads and writes the memo

The same scanning loop as `Regex.subLoop`, with the replacement function in the state monad `Py.M` (the callback of
`anonymize_ip_addr` is `_anonymize_match`, which memoises).  The matches are visited left to right and the callback is
called once per match, in that order, as `re.sub` does.
-/
namespace Netconan
namespace Py
open Regex

def subLoopM (r : Re) (fuel : Nat) (f : Match → M (List Char)) : Nat → Z → List Char → M (Res (List Char))
  | 0, _, _ => M.pure .oof
  | n + 1, z, acc =>
    match matchAt r fuel z with
    | .oof => M.pure .oof
    | .ok (z', cs) =>
      let txt := (z'.left.take (z'.left.length - z.left.length)).reverse
      M.bind (f ⟨z.left.length, txt, cs⟩) (fun rep =>
        if txt.isEmpty then
          match z.right with
          | [] => M.pure (.ok (acc ++ rep))
          | c :: rest => subLoopM r fuel f n ⟨c :: z.left, rest⟩ (acc ++ rep ++ [c])
        else subLoopM r fuel f n z' (acc ++ rep))
    | .none =>
      match z.right with
      | [] => M.pure (.ok acc)
      | c :: rest => subLoopM r fuel f n ⟨c :: z.left, rest⟩ (acc ++ [c])

/-- `pattern.sub(f, s)` with a stateful `f` -/
def subM (r : Re) (f : Match → M (List Char)) (s : List Char) : M (Res (List Char)) :=
  subLoopM r (fuelFor r s.length) f (s.length + 2) ⟨[], s⟩ []

end Py
end Netconan
