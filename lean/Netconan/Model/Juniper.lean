import Netconan.Generated.Tables
import Netconan.Model.Basic
/-!
# Model of netconan/utils/juniper_secrets.py  (`$9$` codec)

The tables (`FAMILY`, `ENCODING`, `EXTRA`, `_fixedc`) are *generated* from the live code; the
functions below are written by hand after the Python functions:

* `gapsOf`      – the first loop of `_gap_encode` (`gaps.insert(0, ord // mod); ord %= mod` over
                  the reversed row);
* `emit`        – its second loop (`gap += ALPHA_NUM[prev] + 1; prev = NUM_ALPHA[gap % 65]`);
* `encBody`     – the `for p in plain` loop of `juniper_nonrandom_encrypt`;
* `gapBack`     – `_gap`; `decodeNum` – `_gap_decode`; `decBody` – the `while chars` loop of
                  `juniper_decrypt`;
* `valid`       – `re.search(VALID, crypt)` with `VALID = ^\$9\$[alphabet]{4,}\Z`;
* `encrypt`, `decrypt` – the two public functions on characters.

Characters of the alphabet are handled through their index in `NUM_ALPHA` (`ALPHA_NUM[c]`);
a character outside the alphabet makes the lookup fail with `keyError` as `dict[...]` does.
-/
namespace Netconan
namespace Juniper
open Generated

def A : Nat := junNumAlpha.length

def alphaNum (c : Char) : Option Nat :=
  let i := junNumAlpha.findIdx (· == c)
  if i < junNumAlpha.length then some i else none

def numAlpha (i : Nat) : Char := junNumAlpha.getD i '?'

def extra (c : Char) : Option Nat := (junExtra.find? (·.1 == c)).map (·.2)

def row (pos : Nat) : List Nat := junEncoding.getD (pos % junEncoding.length) []

def fixedc (n : Nat) : List Char := junFixedc.getD n []

/-- `_gap_encode`, first loop -/
def gapsOf (v : Nat) (enc : List Nat) : List Nat :=
  (enc.reverse.foldl (fun (acc : List Nat × Nat) m => ((acc.2 / m) :: acc.1, acc.2 % m)) ([], v)).1

/-- `_gap_encode`, second loop, on alphabet indices -/
def emit (prev : Nat) : List Nat → List Nat
  | [] => []
  | g :: gs => let c := (g + prev + 1) % A; c :: emit c gs

def lastOr (d : Nat) : List Nat → Nat
  | [] => d
  | [x] => x
  | _ :: xs => lastOr d xs

/-- the `for p in plain` loop: `prev = crypt[-1]` after each character -/
def encBody (prev pos : Nat) : List Nat → List Nat
  | [] => []
  | p :: ps =>
    let cs := emit prev (gapsOf p (row pos))
    cs ++ encBody (lastOr prev cs) (pos + 1) ps

/-- `_gap(c1, c2)` on indices -/
def gapBack (c1 c2 : Nat) : Int := ((c2 : Int) - c1 + A) % A - 1

def gapsBack (prev : Nat) : List Nat → List Int
  | [] => []
  | c :: cs => gapBack prev c :: gapsBack c cs

/-- the sum of `_gap_decode` -/
def decodeNum (gaps : List Int) (enc : List Nat) : Int :=
  ((gaps.zip enc).map (fun p => p.1 * (p.2 : Int))).sum

/-- the `while chars` loop; `fuel` bounds the number of iterations (one per remaining character
suffices: every iteration with a non-empty row consumes at least one) -/
def decBody (fuel prev pos : Nat) (chars : List Nat) : Except Err (List Nat) :=
  match fuel with
  | 0 => match chars with
    | [] => .ok []
    | _ => .error .outOfFuel
  | fuel + 1 =>
    match chars with
    | [] => .ok []
    | _ :: _ =>
      let enc := row pos
      let nib := chars.take enc.length
      if nib.length ≠ enc.length then .error .valueError      -- "Nibble and decode size not the same!"
      else
        let v := (decodeNum (gapsBack prev nib) enc % 256).toNat
        match decBody fuel (lastOr prev nib) (pos + 1) (chars.drop enc.length) with
        | .error e => .error e
        | .ok rest => .ok (v :: rest)

/-- `re.search(VALID, crypt)` -/
def valid (crypt : List Char) : Bool :=
  crypt.take junMagic.length == junMagic
    && decide (4 ≤ (crypt.drop junMagic.length).length)
    && (crypt.drop junMagic.length).all (fun c => junNumAlpha.contains c)

def mapIdx : List Char → Option (List Nat)
  | [] => some []
  | c :: cs => match alphaNum c, mapIdx cs with
    | some i, some is => some (i :: is)
    | _, _ => none

/-- `juniper_decrypt` -/
def decrypt (crypt : List Char) : Except Err (List Char) :=
  if crypt.isEmpty || !valid crypt then .error .valueError
  else
    let chars := crypt.drop junMagic.length
    match chars with
    | [] => .error .keyError             -- `_nibble` on the empty string; `EXTRA['']` is a KeyError
    | first :: rest =>
      match extra first with
      | none => .error .keyError
      | some e =>
        match alphaNum first, mapIdx (rest.drop e) with
        | some f, some body =>
          match decBody (body.length + 1) f 0 body with
          | .error err => .error err
          | .ok codes => .ok (codes.map Char.ofNat)
        | _, _ => .error .keyError

/-- `salt = _fixedc(1); salt = salt[0]` -/
def fallbackSalt : Except Err Char :=
  match fixedc 1 with
  | [] => .error .indexError
  | c :: _ => .ok c

/-- the salt character that `juniper_nonrandom_encrypt` ends up using: the first character of
the given salt when it is usable (`salt` non-empty and `salt[0] in EXTRA`), else `_fixedc(1)[0]` -/
def saltChar (salt : Option (List Char)) : Except Err Char :=
  match salt with
  | some (c :: _) => if (extra c).isSome then .ok c else fallbackSalt
  | _ => fallbackSalt

/-- `juniper_nonrandom_encrypt` -/
def encrypt (plain : List Char) (salt : Option (List Char)) : Except Err (List Char) :=
  match saltChar salt with
  | .error e => .error e
  | .ok s =>
    match extra s, alphaNum s with
    | some e, some si =>
      .ok (junMagic ++ [s] ++ fixedc e ++ (encBody si 0 (plain.map Char.toNat)).map numAlpha)
    | none, _ => .error .keyError
    | some _, none => if plain.isEmpty then .ok (junMagic ++ [s] ++ fixedc ((extra s).getD 0)) else .error .keyError

end Juniper
end Netconan
