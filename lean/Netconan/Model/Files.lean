import Netconan.Model.Lines
/-!
# Model of `anonymize_files` over an abstract directory listing

The operating system's part (walking the tree, opening, decoding) is input: a run is given the
list of files in the order `os.walk` yields them, each with its path relative to the input
directory and its decoded text, or `none` when it cannot be opened/decoded (or its output path is
occupied by a directory) – the `try/except` around one file.  One `FileAnonymizer` (pipeline and
lookup table) serves all files.
-/
namespace Netconan
namespace Files
open Lines Secrets

structure Ent where
  relDir : List String
  name : String
  text : Option (List Char)      -- `none`: the file fails at open/decode time (or its output cannot be opened)

/-- files whose name starts with "." are skipped (directories are not) -/
def hidden (e : Ent) : Bool := e.name.toList.head? == some '.'

def planned (fs : List Ent) : List Ent := fs.filter (fun e => !hidden e)

/-- input and output path relative to the respective root: the same -/
def relPath (e : Ent) : List String := e.relDir ++ [e.name]

/-- one file: `readlines()` happens before any line is processed, so a file that cannot be decoded
leaves the anonymizer untouched -/
def processFile (p : Pipeline) (lk : Lookup) (e : Ent) : Option (List Char) × Lookup :=
  match e.text with
  | none => (none, lk)
  | some t =>
    match anonymizeLines p lk (readlinesUniversal t) with
    | .ok (outs, lk', _) => (some outs.flatten, lk')
    | .error _ => (none, lk)

/-- all planned files, one after another, sharing the lookup table -/
def runFiles (p : Pipeline) : Lookup → List Ent → List (List String × Option (List Char))
  | _, [] => []
  | lk, e :: es => (relPath e, (processFile p lk e).1) :: runFiles p (processFile p lk e).2 es

end Files
end Netconan
