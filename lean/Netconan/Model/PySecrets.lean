import Netconan.Model.Py
import Netconan.Model.Secrets
/-!
# Primitives for the translated secret functions: the state is the password lookup table (`pwd_lookup`)
-/
namespace Netconan
namespace Py
open Secrets

/-- functions that read and write the lookup dict and may raise -/
@[reducible] def L (α : Type) := Lookup → Except Err (α × Lookup)

def L.pure {α} (a : α) : L α := fun s => .ok (a, s)
def L.bind {α β} (x : L α) (f : α → L β) : L β := fun s =>
  match x s with
  | .error e => .error e
  | .ok (a, s') => f a s'
instance : Monad L := { pure := L.pure, bind := L.bind }

def lraise {α} (e : Err) : L α := fun _ => .error e
/-- the current `lookup` -/
def lookup : L Lookup := fun s => .ok (s, s)
/-- `lookup[k]` (`KeyError` when absent) -/
def lkGet (k : List Char) : L (List Char) := fun s =>
  match s.get k with
  | some v => .ok (v, s)
  | none => .error .keyError
/-- `lookup[k]` for a key that may be `None` -/
def lkGetOpt (k : Option (List Char)) : L (List Char) :=
  match k with
  | some k => lkGet k
  | none => lraise .keyError
/-- `k in lookup` for a key that may be `None` (`None` is never a key) -/
def optIn (k : Option (List Char)) (s : Lookup) : Bool :=
  match k with
  | some k => (s.get k).isSome
  | none => false
/-- `lookup[k] = v` -/
def lkSet (k v : List Char) : L Unit := fun s => .ok ((), s.set k v)
/-- `lookup[k] = v` for a key known to be a string here (`if decrypted:` holds) -/
def lkSetOpt (k : Option (List Char)) (v : List Char) : L Unit :=
  match k with
  | some k => lkSet k v
  | none => lraise .keyError
/-- a call of a function that may raise -/
def lift {α} (r : Except Err α) : L α := fun s =>
  match r with
  | .ok a => .ok (a, s)
  | .error e => .error e
/-- `try: x = f(..) except ValueError: pass` – the value on success, the old one on `ValueError`, any other error goes on -/
def tryValue {α} (r : Except Err α) (old : Option α) : L (Option α) :=
  match r with
  | .ok a => L.pure (some a)
  | .error .valueError => L.pure old
  | .error e => lraise e

/-- `compiled_re.search(line)`: the model's engine answers `oof` / `none` only when its fuel runs out (never a Python outcome) -/
def searchL (r : Regex.Re) (line : List Char) : L (Option Regex.Match) :=
  match Regex.search r line with
  | .ok m => L.pure m
  | _ => lraise .outOfFuel
/-- `compiled_re.sub(f, line)` -/
def subL (r : Regex.Re) (f : Regex.Match → List Char) (line : List Char) : L (List Char) :=
  match Regex.sub r f line with
  | .ok o => L.pure o
  | _ => lraise .outOfFuel

@[simp] theorem lpure_apply {α} (a : α) (s : Lookup) : (pure a : L α) s = .ok (a, s) := rfl
@[simp] theorem lmpure_apply {α} (a : α) (s : Lookup) : (L.pure a : L α) s = .ok (a, s) := rfl
@[simp] theorem lbind_apply {α β} (x : L α) (f : α → L β) (s : Lookup) :
    (x >>= f) s = (match x s with | .error e => .error e | .ok (a, s') => f a s') := rfl
@[simp] theorem lmbind_apply {α β} (x : L α) (f : α → L β) (s : Lookup) :
    (L.bind x f) s = (match x s with | .error e => .error e | .ok (a, s') => f a s') := rfl
@[simp] theorem lraise_apply {α} (e : Err) (s : Lookup) : (lraise e : L α) s = .error e := rfl
@[simp] theorem lookup_apply (s : Lookup) : lookup s = .ok (s, s) := rfl

end Py
end Netconan
