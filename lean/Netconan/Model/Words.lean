import Netconan.Model.Regex
import Netconan.Model.Secrets
import Netconan.Model.Md5
/-!
# Model of `SensitiveWordAnonymizer` and `AsNumberAnonymizer`

* `Words.mk`        – the constructor: lower-cased word set, alternation sorted by (-length, word) of
                      escaped words under IGNORECASE, conflicting reserved words;
* `Words.anonymize` – per white-space token substitution, conflicting tokens kept, pseudonym =
                      first `wordLen` hex digits of md5(salt ++ matched text);
* `AsNum.mk`, `AsNum.replacement`, `AsNum.anonymize` – block table walk, modulo map, pattern with digit
                      look-around, substitution through the precomputed map (`KeyError` when a match is
                      not a key).

`str.lower` and the set of characters that equal a pattern character under IGNORECASE are data
(`WEnv`): generated from the running interpreter.
-/
namespace Netconan
open Regex

structure WEnv where
  /-- `str.lower` on one character (may give several) -/
  lower : Char → List Char
  /-- code points that match pattern character `c` under IGNORECASE -/
  icase : Char → List (Nat × Nat)
  isSpace : Char → Bool

def lowerStr (e : WEnv) (s : List Char) : List Char := (s.map e.lower).flatten

/-- lexicographic `<` on code points, as Python compares `str` -/
def strLt : List Char → List Char → Bool
  | [], [] => false
  | [], _ :: _ => true
  | _ :: _, [] => false
  | a :: as, b :: bs => if a.toNat < b.toNat then true else if a.toNat > b.toNat then false else strLt as bs

def insertSorted (lt : List Char → List Char → Bool) (x : List Char) : List (List Char) → List (List Char)
  | [] => [x]
  | y :: ys => if lt x y then x :: y :: ys else y :: insertSorted lt x ys

def dedup (l : List (List Char)) : List (List Char) :=
  l.foldl (fun acc x => if acc.contains x then acc else acc ++ [x]) []

namespace Words

/-- sort key `(-len(w), w)` -/
def keyLt (a b : List Char) : Bool :=
  if a.length > b.length then true else if a.length < b.length then false else strLt a b

def isSub (s w : List Char) : Bool :=
  (List.range (w.length + 1)).any (fun i => (w.drop i).take s.length == s)

structure T where
  salt : List Char
  words : List (List Char)            -- lower-cased, deduplicated, in alternation order
  re : Re
  conflicting : List (List Char)

def literalRe (e : WEnv) (w : List Char) : Re :=
  w.foldr (fun c acc => .seq (.chr (e.icase c)) acc) .eps

def altOf : List Re → Re
  | [] => .eps              -- `"()"`: the empty pattern
  | [r] => r
  | r :: rs => .alt r (altOf rs)

/-- the constructor; `reserved` is the set handed in (built-in list plus the user's additions) -/
def mk (e : WEnv) (sensitive : List (List Char)) (salt : List Char) (reserved : List (List Char)) : T :=
  let res := reserved.map (lowerStr e)
  let ws := dedup (sensitive.map (lowerStr e))
  let sorted := ws.foldl (fun acc w => insertSorted keyLt w acc) []
  { salt := salt, words := sorted,
    re := .grp 1 (altOf (sorted.map (literalRe e))),
    conflicting := dedup (res.filter (fun w => ws.any (fun s => isSub s w))) }

def hexNib (n : Nat) : Char := if n < 10 then Char.ofNat (48 + n) else Char.ofNat (87 + n)

/-- `hexdigest()`: two lower-case hex digits per byte -/
def hexOfBytes (b : ByteArray) : List Char :=
  (b.toList.map (fun x => [hexNib (x.toNat / 16 % 16), hexNib (x.toNat % 16)])).flatten

/-- `md5((salt + word).encode()).hexdigest()[:_ANON_SENSITIVE_WORD_LEN]` -/
def replacement (salt matched : List Char) : List Char :=
  (hexOfBytes (Md5.digest (String.ofList (salt ++ matched)).toUTF8)).take Generated.wordLen

/-- one white-space token: kept when it is a conflicting reserved word, else every match replaced -/
def anonToken (e : WEnv) (t : T) (w : List Char) : Res (List Char) :=
  if t.conflicting.contains (lowerStr e w) then .ok w
  else sub t.re (fun mt => replacement t.salt mt.text) w

def mapRes {α β} (f : α → Res β) : List α → Res (List β)
  | [] => .ok []
  | a :: as => match f a with
    | .ok b => (match mapRes f as with
      | .ok bs => .ok (b :: bs)
      | .oof => .oof
      | .none => .none)
    | .oof => .oof
    | .none => .none

def anonymize (e : WEnv) (t : T) (line : List Char) : Res (List Char) :=
  match search t.re line with
  | .oof => .oof
  | .none => .none
  | .ok none => .ok line
  | .ok (some _) =>
    let (leading, words, trailing) := Secrets.splitLine e.isSpace line
    match mapRes (anonToken e t) words with
    | .ok ws => .ok (leading ++ Secrets.joinSp ws ++ trailing)
    | .oof => .oof
    | .none => .none

end Words

namespace AsNum

def decVal? (s : List Char) : Option Nat :=
  if s.isEmpty || !s.all (fun c => '0' ≤ c && c ≤ '9') then none
  else some (s.foldl (fun acc c => acc * 10 + (c.toNat - 48)) 0)

/-- the walk over `_AS_NUM_BOUNDARIES` -/
def blockMap (bounds : List Nat) (hash n : Nat) : Option Nat :=
  let rec go : List Nat → Nat → Option Nat
    | [], _ => none                       -- falls off the loop: Python returns None
    | nb :: rest, begin_ => if n < nb then some (hash % (nb - begin_) + begin_) else go rest nb
  go bounds 0

/-- `_generate_as_number_replacement` (numbers given as plain ASCII digit strings) -/
def replacement (salt : List Char) (num : List Char) : Except Err (List Char) :=
  let hash := Md5.digestNat (String.ofList (salt ++ num)).toUTF8
  match decVal? num with
  | none => .error .valueError
  | some n =>
    if n > 4294967295 then .error .valueError
    else match blockMap Generated.asBoundaries hash n with
      | some v => .ok (toString v).toList
      | none => .error .valueError

structure T where
  re : Re
  map : List (List Char × List Char)

def litRe (w : List Char) : Re := w.foldr (fun c acc => .seq (.chr [(c.toNat, c.toNat)]) acc) .eps

/-- `(?:(?<=\D)|(?<=^))(n1|n2|...)(?=\D|$)` -/
def pattern (notDigit : List (Nat × Nat)) (nums : List (List Char)) : Re :=
  .seq (.alt (.look false false 1 (.chr notDigit)) (.look false false 0 .bol))
    (.seq (.grp 1 (Words.altOf (nums.map litRe)))
      (.look true false 0 (.alt (.chr notDigit) .eol)))

def mk (notDigit : List (Nat × Nat)) (nums : List (List Char)) (salt : List Char) : Except Err T :=
  let rec build : List (List Char) → List (List Char × List Char) → Except Err (List (List Char × List Char))
    | [], acc => .ok acc
    | n :: ns, acc => match replacement salt n with
      | .error e => .error e
      | .ok r => build ns (if (acc.find? (·.1 == n)).isSome then acc.map (fun e => if e.1 == n then (n, r) else e) else acc ++ [(n, r)])
  match build nums [] with
  | .error e => .error e
  | .ok m => .ok { re := pattern notDigit nums, map := m }

/-- `anonymize_as_numbers`.  Every match of the alternation of the listed numbers is one of the
listed numbers, hence a key of the map (`self.as_num_map[...]` cannot raise); a missing key
would show as the matched text staying in place. -/
def anonymize (t : T) (line : List Char) : Res (List Char) :=
  sub t.re (fun mt => match t.map.find? (·.1 == mt.text) with
      | some e => e.2
      | none => mt.text) line

end AsNum
end Netconan
