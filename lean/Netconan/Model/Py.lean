import Netconan.Model.IpCore
import Netconan.Model.Basic
/-!
# Primitives that the source translator (`harness/py2lean.py`) maps Python operations to

`Generated/Src.lean` is written on every run from the *source text* of selected netconan functions
(Python `ast`); the statements and expressions of those functions are translated one by one, and the
few operations that have no Lean counterpart are mapped to the definitions below (the mapping rules
are listed in `py2lean.py`, one line each).  `Proofs/SrcTie.lean` proves that the translated functions
are the hand-written model's.
-/
namespace Netconan
namespace Py

/-- functions that read and write `self.cache` and may raise: state in, result and state out -/
@[reducible] def M (α : Type) := IpCore.Cache → Except Err (α × IpCore.Cache)

def M.pure {α} (a : α) : M α := fun c => .ok (a, c)
def M.bind {α β} (x : M α) (f : α → M β) : M β := fun c =>
  match x c with
  | .error e => .error e
  | .ok (a, c') => f a c'
instance : Monad M := { pure := M.pure, bind := M.bind }

/-- `raise` -/
def raise {α} (e : Err) : M α := fun _ => .error e
/-- the current `self.cache` -/
def cache : M IpCore.Cache := fun c => .ok (c, c)

/-- `int(bits[-1])` on a string of binary digits (`IndexError` on the empty string) -/
def lastBit (bits : Bits) : M Bool :=
  match bits.getLast? with
  | some b => M.pure b
  | none => raise Err.indexEmptyBits

/-- `self.cache[k] = v` (bidict item assignment) -/
def cachePut (k v : Bits) : M Unit := fun c =>
  match IpCore.put c k v with
  | .ok c' => .ok ((), c')
  | .error e => .error e

/-- `self.cache.inv[v] = k` -/
def cachePutInv (v k : Bits) : M Unit := fun c =>
  match IpCore.putInv c v k with
  | .ok c' => .ok ((), c')
  | .error e => .error e

@[simp] theorem pure_apply {α} (a : α) (c : IpCore.Cache) : (pure a : M α) c = .ok (a, c) := rfl
@[simp] theorem mpure_apply {α} (a : α) (c : IpCore.Cache) : (M.pure a : M α) c = .ok (a, c) := rfl
@[simp] theorem bind_apply {α β} (x : M α) (f : α → M β) (c : IpCore.Cache) :
    (x >>= f) c = (match x c with | .error e => .error e | .ok (a, c') => f a c') := rfl
@[simp] theorem mbind_apply {α β} (x : M α) (f : α → M β) (c : IpCore.Cache) :
    (M.bind x f) c = (match x c with | .error e => .error e | .ok (a, c') => f a c') := rfl
@[simp] theorem raise_apply {α} (e : Err) (c : IpCore.Cache) : (raise e : M α) c = .error e := rfl
@[simp] theorem cache_apply (c : IpCore.Cache) : cache c = .ok (c, c) := rfl

/-- `bits[: -n]` for `n > 0` -/
def sliceToNeg {α} (s : List α) (n : Nat) : List α := s.take (s.length - n)
/-- `bits[-n :]` for `n > 0` -/
def sliceFromNeg {α} (s : List α) (n : Nat) : List α := s.drop (s.length - n)

/-- `for x in xs: body` followed by the rest of the function: the body answers `Sum.inl r` for `return r` and
`Sum.inr s` with the loop-carried variables when it falls off its end -/
def forLoop {m : Type → Type} [Monad m] {α σ ρ : Type} : List α → σ → (α → σ → m (Sum ρ σ)) → (σ → m ρ) → m ρ
  | [], s, _, k => k s
  | x :: xs, s, body, k => do
    match ← body x s with
    | Sum.inl r => pure r
    | Sum.inr s' => forLoop xs s' body k

/-- `if x is not None: A else: B` as a named combinator -/
def optCase {α β : Type} (o : Option α) (f : α → β) (g : β) : β :=
  match o with
  | some a => f a
  | none => g
@[simp] theorem optCase_some {α β : Type} (a : α) (f : α → β) (g : β) : optCase (some a) f g = f a := rfl
@[simp] theorem optCase_none {α β : Type} (f : α → β) (g : β) : optCase (none : Option α) f g = g := rfl

/-- what one round of a `for` loop with `break` / `continue` in its body answers -/
inductive Step (ρ σ : Type) where
  | ret (r : ρ)        -- `return r`
  | brk (s : σ)        -- `break`
  | next (s : σ)       -- `continue`, or the end of the body

/-- `for x in xs: body` with `break` / `continue`, followed by the rest of the function -/
def forLoopB {m : Type → Type} [Monad m] {α σ ρ : Type} : List α → σ → (α → σ → m (Step ρ σ)) → (σ → m ρ) → m ρ
  | [], s, _, k => k s
  | x :: xs, s, body, k => do
    match ← body x s with
    | Step.ret r => pure r
    | Step.brk s' => k s'
    | Step.next s' => forLoopB xs s' body k

/-- `while True: body`, at most `fuel` rounds; the body answers `Sum.inl r` for `return r` and `Sum.inr s` with the loop-carried
variables when it falls off its end.  `dflt` is what the model answers when the fuel runs out (never a Python outcome; the callers
give fuel that suffices) -/
def whileLoop {m : Type → Type} [Monad m] {σ ρ : Type} : Nat → σ → (σ → m (Sum ρ σ)) → (σ → m ρ) → m ρ
  | 0, s, _, dflt => dflt s
  | fuel + 1, s, body, dflt => do
    match ← body s with
    | Sum.inl r => pure r
    | Sum.inr s' => whileLoop fuel s' body dflt

/-- Python truth value of the few types that occur in conditions of the translated functions -/
class Truthy (α : Type) where
  truthy : α → Bool
export Truthy (truthy)
instance : Truthy Bool := ⟨id⟩
instance : Truthy String := ⟨fun s => !s.isEmpty⟩
instance {α} : Truthy (List α) := ⟨fun l => !l.isEmpty⟩
instance {α} [Truthy α] : Truthy (Option α) := ⟨fun o => match o with | none => false | some v => truthy v⟩

/-- `int(s)` for a string of ASCII decimal digits; anything else is a `ValueError` here (Python's `int` also accepts
signs, blanks, underscores and non-ASCII digits: outside the modelled domain, as in `AsNum.decVal?`) -/
def intOfDigits (s : List Char) : Except Err Nat :=
  if s.isEmpty || !s.all (fun c => '0' ≤ c && c ≤ '9') then .error .valueError
  else .ok (s.foldl (fun acc c => acc * 10 + (c.toNat - 48)) 0)

/-- `str(n)` -/
def strNat (n : Nat) : List Char := (toString n).toList

end Py
end Netconan
