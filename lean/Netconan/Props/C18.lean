import Netconan.Proofs.Juniper
/-!
# C18 – Juniper `$9$` codec round-trips for every plaintext and salt
-/
namespace Netconan.Props.C18
open Netconan Netconan.Juniper Netconan.Generated

/-- the salt character actually used has 3 filler characters (e.g. the fallback `n`) -/
def threeFillers (salt : Option (List Char)) : Prop :=
  ∀ s, saltChar salt = .ok s → extra s = some 3

/-- **Round trip and well-formedness**, for every plaintext over code points 0..255 of any
length and every salt – `None`, the empty string, any of the 65 alphabet characters, any other
string (which falls back to the fixed salt character).  The hypothesis is what the proof
forces: an *empty* plaintext under a salt character with fewer than three fillers gives a
string shorter than the decoder's own validity check accepts (known finding, see
`empty_plaintext_short_salt`). -/
theorem roundtrip (plain : List Char) (hv : ∀ c ∈ plain, c.toNat < 256) (salt : Option (List Char))
    (hne : plain ≠ [] ∨ threeFillers salt) :
    ∃ s, encrypt plain salt = .ok s ∧ valid s = true ∧ decrypt s = .ok plain := by
  obtain ⟨sc, e, hsc, he⟩ := saltChar_spec salt
  obtain ⟨he3, ⟨si, hsi⟩, hsmem⟩ := extra_spec he
  have hsi65 := alphaNum_lt hsi
  obtain ⟨hfl, hfall⟩ := fixedc_ok e he3
  have hcodes : ∀ v ∈ plain.map Char.toNat, v < 256 := by
    intro v hv'
    simp only [List.mem_map] at hv'
    obtain ⟨c, hc, rfl⟩ := hv'
    exact hv c hc
  have hbody := encBody_lt (plain.map Char.toNat) si 0
  refine ⟨junMagic ++ [sc] ++ fixedc e ++ (encBody si 0 (plain.map Char.toNat)).map numAlpha, ?_, ?_, ?_⟩
  · simp [encrypt, hsc, he, hsi]
  · -- well-formed
    have hlen : 4 ≤ 1 + e + (encBody si 0 (plain.map Char.toNat)).length := by
      rcases hne with hne | h3
      · match plain, hne, hv with
        | c :: cs, _, hv =>
          have := encBody_length_ge c.toNat (cs.map Char.toNat) si (hv c (by simp))
          simp only [List.map_cons]; omega
      · have := h3 sc hsc
        rw [he] at this
        simp at this
        omega
    unfold valid
    simp only [List.append_assoc, List.take_left', List.drop_left', Bool.and_eq_true, beq_self_eq_true,
      decide_eq_true_eq, List.all_eq_true, true_and]
    refine ⟨by simp [hfl]; omega, ?_⟩
    intro c hc
    simp only [List.mem_append, List.mem_cons, List.mem_map, List.not_mem_nil, or_false] at hc
    rcases hc with rfl | hc | ⟨i, hi, rfl⟩
    · exact hsmem
    · exact List.all_eq_true.mp hfall c hc
    · exact alpha_mem i (hbody i hi)
  · -- decrypts to the plaintext
    have hvalid : valid (junMagic ++ [sc] ++ fixedc e ++ (encBody si 0 (plain.map Char.toNat)).map numAlpha) = true := by
      have hlen : 4 ≤ 1 + e + (encBody si 0 (plain.map Char.toNat)).length := by
        rcases hne with hne | h3
        · match plain, hne, hv with
          | c :: cs, _, hv =>
            have := encBody_length_ge c.toNat (cs.map Char.toNat) si (hv c (by simp))
            simp only [List.map_cons]; omega
        · have := h3 sc hsc
          rw [he] at this
          simp at this
          omega
      unfold valid
      simp only [List.append_assoc, List.take_left', List.drop_left', Bool.and_eq_true, beq_self_eq_true,
        decide_eq_true_eq, List.all_eq_true, true_and]
      refine ⟨by simp [hfl]; omega, ?_⟩
      intro c hc
      simp only [List.mem_append, List.mem_cons, List.mem_map, List.not_mem_nil, or_false] at hc
      rcases hc with rfl | hc | ⟨i, hi, rfl⟩
      · exact hsmem
      · exact List.all_eq_true.mp hfall c hc
      · exact alpha_mem i (hbody i hi)
    unfold decrypt
    have hnonempty : (junMagic ++ [sc] ++ fixedc e ++ (encBody si 0 (plain.map Char.toNat)).map numAlpha).isEmpty = false := by
      simp
    simp only [hnonempty, hvalid, Bool.not_true, Bool.or_self, Bool.false_eq_true, if_false]
    have hdrop : (junMagic ++ [sc] ++ fixedc e ++ (encBody si 0 (plain.map Char.toNat)).map numAlpha).drop junMagic.length
        = sc :: (fixedc e ++ (encBody si 0 (plain.map Char.toNat)).map numAlpha) := by
      simp [List.append_assoc]
    rw [hdrop]
    simp only [he, hsi]
    have hdrop2 : (fixedc e ++ (encBody si 0 (plain.map Char.toNat)).map numAlpha).drop e
        = (encBody si 0 (plain.map Char.toNat)).map numAlpha := by
      exact List.drop_left' hfl
    rw [hdrop2, mapIdx_map _ hbody]
    simp only
    rw [body_roundtrip _ hcodes si 0 _ hsi65 (Nat.lt_succ_self _)]
    simp only [List.map_map]
    congr 1
    have : (Char.ofNat ∘ Char.toNat) = id := by funext c; simp
    rw [this]; simp

/-- The 65 alphabet characters as salt: whatever the number of fillers, a non-empty plaintext
round-trips. -/
theorem roundtrip_alphabet_salt (plain : List Char) (hv : ∀ c ∈ plain, c.toNat < 256) (hne : plain ≠ [])
    (s : Char) : ∃ c, encrypt plain (some [s]) = .ok c ∧ valid c = true ∧ decrypt c = .ok plain :=
  roundtrip plain hv (some [s]) (Or.inl hne)

/-- **Malformed strings are refused with a value error and in no other way**: the decoder never
ends in `KeyError`, `IndexError` or any other failure, whatever the input string. -/
theorem decrypt_total (s : List Char) : (∃ p, decrypt s = .ok p) ∨ decrypt s = .error .valueError := by
  unfold decrypt
  by_cases hv : (s.isEmpty || !valid s) = true
  · right; simp [hv]
  · simp only [hv, Bool.false_eq_true, if_false]
    have hvalid : valid s = true := by
      cases h : valid s <;> simp_all
    unfold valid at hvalid
    simp only [Bool.and_eq_true, decide_eq_true_eq, List.all_eq_true] at hvalid
    obtain ⟨⟨_, hlen⟩, hall⟩ := hvalid
    match hd : s.drop junMagic.length, hlen, hall with
    | first :: rest, _, hall =>
      simp only
      have hfirst : junNumAlpha.contains first = true := hall first (by simp)
      have hex : (extra first).isSome = true := by
        have := alpha_in_extra
        simp only [List.all_eq_true] at this
        apply this
        simpa using hfirst
      obtain ⟨e, he⟩ := Option.isSome_iff_exists.mp hex
      obtain ⟨f, hf⟩ := alphaNum_of_mem hfirst
      obtain ⟨body, hb, _⟩ := mapIdx_some (rest.drop e)
        (fun c hc => hall c (by simp [List.mem_of_mem_drop hc]))
      simp only [he, hf, hb]
      rcases decBody_total (body.length + 1) f 0 body (Nat.lt_succ_self _) with ⟨r, hr⟩ | herr
      · left; rw [hr]; exact ⟨_, rfl⟩
      · right; rw [herr]

/-- the string fails the validity check -> value error -/
theorem invalid_refused (s : List Char) (h : valid s = false) : decrypt s = .error .valueError := by
  simp [decrypt, h]

/-- The excluded corner is real (kernel-evaluated counter-example, replayed on the
implementation as known finding): empty plaintext under salt `i` (no fillers) gives `$9$i`,
which the decoder's validity check refuses. -/
theorem empty_plaintext_short_salt :
    encrypt [] (some ['i']) = .ok ['$', '9', '$', 'i'] ∧ decrypt ['$', '9', '$', 'i'] = .error .valueError := by
  decide +kernel

/-- non-vacuity: a concrete round trip evaluated by the kernel -/
example : (encrypt ['a', 'b'] (some ['Q'])).toOption.bind (fun c => (decrypt c).toOption) = some ['a', 'b'] := by
  decide +kernel

end Netconan.Props.C18
