import Netconan.Proofs.SrcTieWords
import Netconan.Props.C10
/-!
# C10 on the *translated source* of `SensitiveWordAnonymizer.anonymize`
-/
namespace Netconan.Props.SrcWords
open Netconan Netconan.Generated Netconan.Words Netconan.NoSurvival

/-- the per-line word stage of the source is the model's -/
theorem source_words_anonymize (e : WEnv) (t : T) (line : List Char) :
    Src.words_anonymize e t line = Words.anonymize e t line := SrcTie.words_anonymize_tie e t line

/-- **No listed word survives, for `SensitiveWordAnonymizer.anonymize` as written in the source**: under the hypotheses on the word
of `C10.no_listed_word_survives_in_line` (computed per word on every run), every output token either is a conflicting reserved token
kept as written or contains no occurrence of the word, in any letter case, at any offset. -/
theorem source_no_listed_word_survives_in_line (e : WEnv) (sens : List (List Char)) (salt : List Char) (res : List (List Char))
    (hW : (mk e sens salt res).words ≠ []) (hne : ∀ w ∈ (mk e sens salt res).words, w ≠ [])
    (line out : List Char) (h : Src.words_anonymize e (mk e sens salt res) line = .ok out)
    (w : List Char) (hw : w ∈ (mk e sens salt res).words) (hok : WordOK Generated.wordLen (setsOf e w))
    (hsp : ∀ c, e.isSpace c = true → Unmatchable (setsOf e w) c) (hblank : e.isSpace ' ' = true) :
    (out = line ∧ NoOcc (setsOf e w) out) ∨
    ∃ outs : List (List Char),
      out = (Secrets.splitLine e.isSpace line).1 ++ Secrets.joinSp outs ++ (Secrets.splitLine e.isSpace line).2.2 ∧
      All2 (fun tok o =>
          (o = tok ∧ (mk e sens salt res).conflicting.contains (lowerStr e tok) = true) ∨ NoOcc (setsOf e w) o)
        (Secrets.splitLine e.isSpace line).2.1 outs ∧
      ((∀ tok ∈ (Secrets.splitLine e.isSpace line).2.1, (mk e sens salt res).conflicting.contains (lowerStr e tok) = false) →
        NoOcc (setsOf e w) out) := by
  rw [source_words_anonymize] at h
  exact C10.no_listed_word_survives_in_line e sens salt res hW hne line out h w hw hok hsp hblank

end Netconan.Props.SrcWords
