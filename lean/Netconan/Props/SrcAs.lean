import Netconan.Proofs.SrcTieAs
import Netconan.Props.C11
/-!
# C11 on the *translated source* of `_generate_as_number_replacement`
-/
namespace Netconan.Props.SrcAs
open Netconan Netconan.Generated Netconan.AsNum Netconan.Props.C11

/-- **Block preservation for the source as translated**: for every salt and every listed number `n ≤ 4294967295`
(written as a digit string) the function returns the decimal spelling of a value in the block of `n`; it never falls
off the loop (`None`) and never raises. -/
theorem source_replacement_in_same_block (salt num : List Char) (n : Nat) (hd : decVal? num = some n) (hn : n < 4294967296) :
    ∃ v, Src.generate_as_number_replacement salt num = .ok (some (toString v).toList) ∧ blockOf v = blockOf n := by
  obtain ⟨v, hv, hb⟩ := C11.replacement_spec salt num n hd hn
  exact ⟨v, SrcTie.as_replacement_model salt num _ hv, hb⟩

/-- numbers above 4294967295 and strings that are not digit strings are refused with a `ValueError` -/
theorem source_out_of_range_refused (salt num : List Char) (n : Nat) (hd : decVal? num = some n) (hn : 4294967295 < n) :
    Src.generate_as_number_replacement salt num = .error .valueError := by
  rw [SrcTie.as_replacement_tie, hd]
  have : n > 4294967295 := hn
  simp [this]

end Netconan.Props.SrcAs
