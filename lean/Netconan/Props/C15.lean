import Netconan.Proofs.Lines
/-!
# C15 – Enabling several features equals applying them one after another
-/
namespace Netconan.Props.C15
open Netconan Netconan.Lines Netconan.Secrets

/-- restriction of a pipeline to one feature -/
def onlySecrets (p : Pipeline) : Pipeline := { p with ip6 := none, ip4 := none, words := none, asn := none }
def onlyIp (p : Pipeline) : Pipeline := { p with secrets := none, words := none, asn := none }
def onlyWords (p : Pipeline) : Pipeline := { p with secrets := none, ip6 := none, ip4 := none, asn := none }
def onlyAs (p : Pipeline) : Pipeline := { p with secrets := none, ip6 := none, ip4 := none, words := none }

theorem pure_only_secrets (p : Pipeline) (l : List Char) : pureStages (onlySecrets p) l = .ok l := rfl

theorem pure_only_ip (p : Pipeline) (l : List Char) : pureStages (onlyIp p) l = ip6Stage p l >>= ip4Stage p := by
  show ((ip6Stage p l >>= ip4Stage p) >>= wordStage (onlyIp p)) >>= asStage (onlyIp p) = _
  cases (ip6Stage p l >>= ip4Stage p) <;> rfl

theorem pure_only_words (p : Pipeline) (l : List Char) : pureStages (onlyWords p) l = wordStage p l := by
  show ((Except.ok l >>= ip4Stage (onlyWords p)) >>= wordStage p) >>= asStage (onlyWords p) = _
  show (wordStage p l) >>= asStage (onlyWords p) = _
  cases wordStage p l <;> rfl

theorem pure_only_as (p : Pipeline) (l : List Char) : pureStages (onlyAs p) l = asStage p l := rfl

/-- **One line**: the multi-feature step is the single-feature steps one after another in the fixed
order secrets, IPv6, IPv4, sensitive words, AS numbers – each stage applied to what the previous one
returned, each determined by its own options and the salt, for every subset of features (an absent
feature is the identity) and for undo in place of anonymize. -/
theorem line_is_composition (p : Pipeline) (lk : Lookup) (line : List Char) :
    lineStep p lk line =
      (match lineStep (onlySecrets p) lk line with
       | .error e => .error e
       | .ok (l1, lk1, logs) =>
         match (pureStages (onlyIp p) l1 >>= pureStages (onlyWords p) >>= pureStages (onlyAs p)) with
         | .error e => .error e
         | .ok l5 => .ok (l5, lk1, logs)) := by
  have hsec : secretStage (onlySecrets p) lk line = secretStage p lk line := rfl
  unfold lineStep
  rw [hsec]
  cases hs : secretStage p lk line with
  | error e => rfl
  | ok r =>
    obtain ⟨l1, lk1, logs⟩ := r
    simp only [pure_only_secrets]
    have : pureStages p l1 = (pureStages (onlyIp p) l1 >>= pureStages (onlyWords p) >>= pureStages (onlyAs p)) := by
      have e1 : pureStages (onlyWords p) = wordStage p := funext (pure_only_words p)
      have e2 : pureStages (onlyAs p) = asStage p := funext (pure_only_as p)
      rw [pure_only_ip, e1, e2]
      rfl
    rw [this]
    rfl

/-- the secret stage of the multi-feature pipeline is the secret stage of the secrets-only one: turning
another feature on or off never changes how secrets are treated (same for the other stages, by
definition of `onlyIp`, `onlyWords`, `onlyAs`) -/
theorem secret_stage_independent (p : Pipeline) (lk : Lookup) (line : List Char) :
    secretStage (onlySecrets p) lk line = secretStage p lk line := rfl

end Netconan.Props.C15
