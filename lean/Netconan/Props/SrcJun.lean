import Netconan.Proofs.SrcTieJun
import Netconan.Props.C18
/-!
# C18 on the *translated source* of the arithmetic of the `$9$` codec

`_gap_encode` (the two loops that turn a code point into alphabet steps), `_gap` (a step back) and `_fixedc` (the fixed filler) are
translated from the source text on every run, on alphabet *indices* (a character of the alphabet stands for its position; the
alphabet and weight tables are regenerated data).  They are the model's `emit ∘ gapsOf`, `gapBack` and `fixedc`, on which the
round-trip theorem of C18 rests.
-/
namespace Netconan.Props.SrcJun
open Netconan Netconan.Generated Netconan.Juniper

/-- the encoder step of the source is the model's -/
theorem source_gap_encode (pc prev : Nat) (enc : List Nat) : Src.gap_encode pc prev enc = emit prev (gapsOf pc enc) :=
  SrcTie.gap_encode_tie pc prev enc

/-- the decoder step of the source is the model's -/
theorem source_gap (c1 c2 : Nat) : Src.gap c1 c2 = gapBack c1 c2 := SrcTie.gap_tie c1 c2

/-- the filler of the source is the table the generator extracted -/
theorem source_fixedc (n : Nat) : Src.fixedc n = Juniper.fixedc n := SrcTie.fixedc_tie n

/-- the source's encoder step emits exactly one alphabet index per weight of the row, each below the alphabet size -/
theorem source_gap_encode_length (pc prev : Nat) (enc : List Nat) : (Src.gap_encode pc prev enc).length = enc.length := by
  rw [source_gap_encode]
  have h1 : ∀ (gs : List Nat) (p : Nat), (emit p gs).length = gs.length := by
    intro gs
    induction gs with
    | nil => intro p; rfl
    | cons g gs ih => intro p; simp [emit, ih]
  have h2 : ∀ (l : List Nat) (acc : List Nat × Nat),
      (l.foldl (fun (acc : List Nat × Nat) m => ((acc.2 / m) :: acc.1, acc.2 % m)) acc).1.length = acc.1.length + l.length := by
    intro l
    induction l with
    | nil => intro acc; simp
    | cons m l ih => intro acc; simp only [List.foldl, ih, List.length_cons]; omega
  rw [h1]
  unfold gapsOf
  rw [h2]
  simp

end Netconan.Props.SrcJun
