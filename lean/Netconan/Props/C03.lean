import Netconan.Proofs.IpInt
/-!
# C03 – The address mapping is a pure function of salt and options, not of history
-/
namespace Netconan.Props.C03
open Netconan Netconan.Spec Netconan.IpCore

variable (h : Bits → Bool) (pins : List Bits) (L B : Nat)

/-- **Main refinement theorem.**  For every finite sequence of anonymize/undo requests on one
anonymizer – every interleaving, every repetition – each answer equals the cache-free reference
value `answer` (which mentions only `h`, `pins`, `L`, `B` and the request itself); no request
raises. -/
theorem history_independent (hL : 0 < L) (ops : List Op) (hops : ∀ op ∈ ops, op.arg < 2 ^ L) :
    ∃ c0 c', seed pins = .ok c0 ∧ run h L B c0 ops = .ok (ops.map (answer h pins L B), c') := by
  obtain ⟨c0, hs, hI⟩ := seed_spec h pins L B
  obtain ⟨c', hr, _, _⟩ := run_spec h pins L B hL ops hops c0 hI
  exact ⟨c0, c', hs, hr⟩

/-- The same from any reachable memo: what was asked before does not matter. -/
theorem after_any_history (hL : 0 < L) (pre ops : List Op)
    (hpre : ∀ op ∈ pre, op.arg < 2 ^ L) (hops : ∀ op ∈ ops, op.arg < 2 ^ L) :
    ∃ c0 rs c1 c2, seed pins = .ok c0 ∧ run h L B c0 pre = .ok (rs, c1) ∧
      run h L B c1 ops = .ok (ops.map (answer h pins L B), c2) := by
  obtain ⟨c0, hs, hI⟩ := seed_spec h pins L B
  obtain ⟨c1, hr1, hI1, _⟩ := run_spec h pins L B hL pre hpre c0 hI
  obtain ⟨c2, hr2, _, _⟩ := run_spec h pins L B hL ops hops c1 hI1
  exact ⟨c0, _, c1, c2, hs, hr1, hr2⟩

/-- Corollary: splitting a set of requests across runs (files anonymized together, separately,
in any order) gives every request the same answer as one run over all of them. -/
theorem split_runs (hL : 0 < L) (ops₁ ops₂ : List Op)
    (h1 : ∀ op ∈ ops₁, op.arg < 2 ^ L) (h2 : ∀ op ∈ ops₂, op.arg < 2 ^ L) :
    ∃ c0 ca cb cc, seed pins = .ok c0 ∧
      run h L B c0 (ops₁ ++ ops₂) = .ok ((ops₁ ++ ops₂).map (answer h pins L B), ca) ∧
      run h L B c0 ops₁ = .ok (ops₁.map (answer h pins L B), cb) ∧
      run h L B c0 ops₂ = .ok (ops₂.map (answer h pins L B), cc) := by
  obtain ⟨c0, hs, hI⟩ := seed_spec h pins L B
  obtain ⟨ca, ha, _, _⟩ := run_spec h pins L B hL (ops₁ ++ ops₂)
    (fun o ho => by rcases List.mem_append.mp ho with h | h; exact h1 o h; exact h2 o h) c0 hI
  obtain ⟨cb, hb, _, _⟩ := run_spec h pins L B hL ops₁ h1 c0 hI
  obtain ⟨cc, hc, _, _⟩ := run_spec h pins L B hL ops₂ h2 c0 hI
  exact ⟨c0, ca, cb, cc, hs, ha, hb, hc⟩

/-- Non-vacuity: a history with repetition and anonymize/undo interleaving, run by the kernel. -/
def hEx : Bits → Bool := fun p => p.length % 2 == 0
example : Except.toOption (do
    let c0 ← seed [[true, false]]
    let (rs, _) ← run hEx 4 1 c0 [.anon 6, .deanon 14, .anon 6, .deanon 6, .anon 11]
    pure rs : Except Err (List Nat)) = some [4, 12, 4, 4, 9] := by decide

end Netconan.Props.C03
