import Netconan.Proofs.NetPins
import Netconan.Proofs.MaskShape
import Netconan.Model.IpText
import Netconan.Proofs.IpInt
/-!
# C05 – Netmasks and preserved addresses stay untouched and nothing collides with them
-/
namespace Netconan.Props.C05
open Netconan Netconan.Spec Netconan.IpCore Netconan.Mask

/-- **Every netmask and wildcard value is recognised** by `_is_mask`: ones then zeros
(`2^32 - 2^j`) and zeros then ones (`2^j - 1`), for every `j` in `0..32` – all 66 values (64
distinct from `0.0.0.0` and `255.255.255.255`). -/
theorem masks_recognised :
    ∀ j, j ≤ 32 → isMask (2^32 - 2^j) = true ∧ isMask (2^j - 1) = true := by decide

/-- `_is_mask` is exactly "the adjacent-bit difference word has at most one bit set" (the bit
trick is correct for every input, including the unbounded `+ 1`). -/
theorem isMask_iff_transitions (x : Nat) :
    isMask x = true ↔ (diffOf x = 0 ∨ ∃ k, diffOf x = 2^k) := isMask_iff x

/-- **`_is_mask` accepts exactly the netmask- and wildcard-shaped values**: for every 32-bit value,
`_is_mask x` iff `x` is ones then zeros (`2^32 - 2^j`) or zeros then ones (`2^j - 1`).  In particular
every one-bit perturbation of a mask that is not itself a mask is treated as an ordinary address. -/
theorem isMask_exactly_masks (x : Nat) (hx : x < 2 ^ 32) :
    isMask x = true ↔ ∃ j, j ≤ 32 ∧ (x = 2 ^ 32 - 2 ^ j ∨ x = 2 ^ j - 1) := isMask_iff_shape x hx

/-- **Text layer**: a dotted quad whose value is a mask or lies in a preserved network is returned
exactly as written (leading zeros and all) – `_anonymize_match` returns the matched text itself. -/
theorem mask_or_preserved_text_verbatim (c : IpText.IpCfg) (h4 : c.fam6 = false) (undo : Bool) (txt : List Char) (n : Nat)
    (hp : IpText.parseV4 txt = .ok n) (hs : shouldAnonymize c.nets n = false) :
    IpText.anonMatch c undo txt = txt := by
  simp [IpText.anonMatch, h4, hp, hs]

/-- A value that is a mask, or lies in a preserved network, is never sent to the anonymizer:
`should_anonymize` is false, so the matched text is returned as written (text layer:
`IpText.anonMatch`, see C06). -/
theorem untouched_of_mask_or_preserved (nets : List Net) (x : Nat)
    (hx : isMask x = true ∨ ∃ n ∈ nets, n.contains x = true) : shouldAnonymize nets x = false := by
  unfold shouldAnonymize
  rcases hx with h | ⟨n, hn, hc⟩
  · simp [h]
  · have : nets.any (·.contains x) = true := List.any_eq_true.mpr ⟨n, hn, hc⟩
    simp [this]

variable (h : Bits → Bool) (pins : List Bits) (L B : Nat)

/-- **No collision with a preserved network.**  The constructor registers every preserved
network as a preserved prefix (`pins` contains its bit string `p`); then an address outside the
network is never mapped into it, and no address inside is the image of one outside. -/
theorem outside_stays_outside (p : Bits) (hp : p ∈ pins) (a : Bits) (ha : ¬ p <+: a) :
    ¬ p <+: Ffull h pins L B a := fun hc => ha ((Ffull_prefix_iff h pins L B p hp a).mp hc)

theorem inverse_outside_stays_outside (p : Bits) (hp : p ∈ pins) (y : Bits) (hy : ¬ p <+: y) :
    ¬ p <+: Gfull h pins L B y := fun hc => hy ((Gfull_prefix_iff h pins L B p hp y).mp hc)

/-- non-vacuity and sharpness: one-bit perturbations of masks that are not masks -/
example : isMask 0xFFFFFF00 = true ∧ isMask 0xFFFFFF01 = false ∧ isMask 0x000000FF = true
    ∧ isMask 0x010000FF = false ∧ isMask 0 = true ∧ isMask 0xFFFFFFFF = true := by decide
example : shouldAnonymize [⟨0x0A000000, 8⟩] 0x0A010203 = false
    ∧ shouldAnonymize [⟨0x0A000000, 8⟩] 0x0B010203 = true := by decide

open NoSurvival IpText in
/-- **Text level**: a dotted quad that is netmask-shaped or inside a preserved network is written back as it
stands; every other one is replaced by the spelling of an address outside every preserved network (networks
registered as preserved prefixes, as the constructor does). -/
theorem text_level_untouched_and_no_collision (c : IpCfg) (hf : c.fam6 = false) (hnp : NetsPinned c.nets c.pins)
    (t : List Char) (ht : Lang core4 t) :
    ∃ n, parseV4 t = .ok n ∧ n < 2 ^ 32 ∧
      ((Mask.isMask n = true ∨ c.nets.any (·.contains n) = true) → anonMatch c false t = t) ∧
      (Mask.isMask n = false → c.nets.any (·.contains n) = false →
        ∃ m, anonMatch c false t = showV4 m ∧ parseV4 (showV4 m) = .ok m ∧ c.nets.any (·.contains m) = false) :=
  replaced_token_outside_nets c hf hnp t ht

end Netconan.Props.C05
