import Netconan.Proofs.IpInt
/-!
# C02 – IP anonymization is exactly reversible with the same salt and options

Address level: proved in full here (fresh memo, and every reachable memo).
File level (`--undo` on anonymized text): the composition of this theorem with the text
layer; the text-layer part is validated, see `Props/C06.lean` and DESIGN.md.
-/
namespace Netconan.Props.C02
open Netconan Netconan.Spec Netconan.IpCore

variable (h : Bits → Bool) (pins : List Bits) (L B : Nat)

theorem undo_anon (a : Bits) : Gfull h pins L B (Ffull h pins L B a) = a := Gfull_Ffull h pins L B a
theorem anon_undo (y : Bits) : Ffull h pins L B (Gfull h pins L B y) = y := Ffull_Gfull h pins L B y

/-- **A fresh anonymizer (new process, empty memo) undoes exactly.**  `deanonymize` on a newly
constructed anonymizer with the same salt and options returns the original of every image, and
`anonymize` of what it returned gives the image back. -/
theorem fresh_undo (hL : 0 < L) (n : Nat) (hn : n < 2 ^ L) :
    ∃ c0 c1 c2, seed pins = .ok c0 ∧
      step h L B c0 (.deanon (FN h pins L B n)) = .ok (n, c1) ∧
      step h L B c1 (.anon n) = .ok (FN h pins L B n, c2) := by
  obtain ⟨c0, hs, hI⟩ := seed_spec h pins L B
  obtain ⟨c1, h1, hI1, _⟩ := step_spec h pins L B hL (.deanon (FN h pins L B n))
    (FN_lt h pins L B hL hn) c0 hI
  obtain ⟨c2, h2, _, _⟩ := step_spec h pins L B hL (.anon n) hn c1 hI1
  refine ⟨c0, c1, c2, hs, ?_, ?_⟩
  · rw [h1]; simp [answer, GN_FN h pins L B hL hn]
  · rw [h2]; simp [answer]

/-- **A memo filled by any earlier mix of requests undoes exactly as well.** -/
theorem warm_undo (hL : 0 < L) (ops : List Op) (hops : ∀ op ∈ ops, op.arg < 2 ^ L)
    (n : Nat) (hn : n < 2 ^ L) :
    ∃ c0 rs c1 c2, seed pins = .ok c0 ∧ run h L B c0 ops = .ok (rs, c1) ∧
      step h L B c1 (.deanon (FN h pins L B n)) = .ok (n, c2) := by
  obtain ⟨c0, hs, hI⟩ := seed_spec h pins L B
  obtain ⟨c1, hr, hI1, _⟩ := run_spec h pins L B hL ops hops c0 hI
  obtain ⟨c2, h2, _, _⟩ := step_spec h pins L B hL (.deanon (FN h pins L B n))
    (FN_lt h pins L B hL hn) c1 hI1
  refine ⟨c0, _, c1, c2, hs, hr, ?_⟩
  rw [h2]; simp [answer, GN_FN h pins L B hL hn]

/-- a concrete instance: the model machine itself, run by the kernel (width 4, B = 1): an
address is anonymized by one anonymizer and recovered by a freshly constructed one -/
def hEx : Bits → Bool := fun p => p.length % 2 == 0
example : Except.toOption (do
    let c0 ← seed [[true, false]]
    let (y, _) ← step hEx 4 1 c0 (.anon 6)
    let c0' ← seed [[true, false]]
    let (x, _) ← step hEx 4 1 c0' (.deanon y)
    pure (y, x) : Except Err (Nat × Nat)) = some (4, 6) := by decide

end Netconan.Props.C02
