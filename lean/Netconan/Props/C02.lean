import Netconan.Proofs.IpInt
import Netconan.Proofs.UndoLine
import Netconan.Proofs.NetPins
/-!
# C02 – IP anonymization is exactly reversible with the same salt and options

Address level: proved in full here (fresh memo, and every reachable memo).
File level (`--undo` on anonymized text), IPv4: proved here too (`undo_restores_line`,
`undo_restores_token`): undoing an anonymized line replaces exactly the tokens that were written,
each by `undo (anonymize token)`, which is the token's canonical spelling unless the token or its
image is netmask-shaped / preserved (then the token is written back as it stands, resp. the
property's proviso applies); every other character of the line is the original's.  Built on the
scanner theorem of C06 (`Proofs/UndoScan.lean`: the scan of the output has the same kept characters;
the scan of a text is unique).  IPv6 and the passage through files are validated, see DESIGN.md.
-/
namespace Netconan.Props.C02
open Netconan Netconan.Spec Netconan.IpCore

variable (h : Bits → Bool) (pins : List Bits) (L B : Nat)

theorem undo_anon (a : Bits) : Gfull h pins L B (Ffull h pins L B a) = a := Gfull_Ffull h pins L B a
theorem anon_undo (y : Bits) : Ffull h pins L B (Gfull h pins L B y) = y := Ffull_Gfull h pins L B y

/-- **A fresh anonymizer (new process, empty memo) undoes exactly.**  `deanonymize` on a newly
constructed anonymizer with the same salt and options returns the original of every image, and
`anonymize` of what it returned gives the image back. -/
theorem fresh_undo (hL : 0 < L) (n : Nat) (hn : n < 2 ^ L) :
    ∃ c0 c1 c2, seed pins = .ok c0 ∧
      step h L B c0 (.deanon (FN h pins L B n)) = .ok (n, c1) ∧
      step h L B c1 (.anon n) = .ok (FN h pins L B n, c2) := by
  obtain ⟨c0, hs, hI⟩ := seed_spec h pins L B
  obtain ⟨c1, h1, hI1, _⟩ := step_spec h pins L B hL (.deanon (FN h pins L B n))
    (FN_lt h pins L B hL hn) c0 hI
  obtain ⟨c2, h2, _, _⟩ := step_spec h pins L B hL (.anon n) hn c1 hI1
  refine ⟨c0, c1, c2, hs, ?_, ?_⟩
  · rw [h1]; simp [answer, GN_FN h pins L B hL hn]
  · rw [h2]; simp [answer]

/-- **A memo filled by any earlier mix of requests undoes exactly as well.** -/
theorem warm_undo (hL : 0 < L) (ops : List Op) (hops : ∀ op ∈ ops, op.arg < 2 ^ L)
    (n : Nat) (hn : n < 2 ^ L) :
    ∃ c0 rs c1 c2, seed pins = .ok c0 ∧ run h L B c0 ops = .ok (rs, c1) ∧
      step h L B c1 (.deanon (FN h pins L B n)) = .ok (n, c2) := by
  obtain ⟨c0, hs, hI⟩ := seed_spec h pins L B
  obtain ⟨c1, hr, hI1, _⟩ := run_spec h pins L B hL ops hops c0 hI
  obtain ⟨c2, h2, _, _⟩ := step_spec h pins L B hL (.deanon (FN h pins L B n))
    (FN_lt h pins L B hL hn) c1 hI1
  refine ⟨c0, _, c1, c2, hs, hr, ?_⟩
  rw [h2]; simp [answer, GN_FN h pins L B hL hn]

/-- a concrete instance: the model machine itself, run by the kernel (width 4, B = 1): an
address is anonymized by one anonymizer and recovered by a freshly constructed one -/
def hEx : Bits → Bool := fun p => p.length % 2 == 0
example : Except.toOption (do
    let c0 ← seed [[true, false]]
    let (y, _) ← step hEx 4 1 c0 (.anon 6)
    let c0' ← seed [[true, false]]
    let (x, _) ← step hEx 4 1 c0' (.deanon y)
    pure (y, x) : Except Err (Nat × Nat)) = some (4, 6) := by decide

open NoSurvival IpText Regex in
/-- **`--undo` on an anonymized line (IPv4 stage)**: for every line, salt and option set, with `out` the
anonymized line and `back` what undoing `out` gives (any anonymizer with the same salt and options – the
replacement is a pure function of the token): `back` consists of the same kept characters as the line, at the
same places, and every replaced token `t` reads `undo (anonymize t)`. -/
theorem undo_restores_line (c : IpCfg) (hf : c.fam6 = false)
    (hp : c.pattern = Pinned.Patterns.ipv4 ∨ c.pattern = Generated.Patterns.ipv4)
    (line out back : List Char) (h1 : anonIpLine c false line = .ok out) (h2 : anonIpLine c true out = .ok back) :
    ∃ segs : List Seg, line = srcs segs ∧ out = dsts segs ∧ ScanG S4 En4 (anonMatch c false) [] segs ∧
      back = dsts (mapSegs (anonMatch c true) segs) :=
  undo_of_anonymized_line c hf showV4_eq hp line out back h1 h2

open NoSurvival IpText in
/-- **…and what `undo (anonymize t)` is**, for a dotted quad `t` of value `n`: the token itself when `n` is
netmask-shaped or in a preserved network (both directions leave it alone); otherwise – provided the image of
`n` is not itself netmask-shaped or preserved, the property's proviso – the canonical spelling of `n`. -/
theorem undo_restores_token (c : IpCfg) (hf : c.fam6 = false) (t : List Char) (ht : Lang core4 t) :
    ∃ n, parseV4 t = .ok n ∧ n < 2 ^ 32 ∧
      (Mask.shouldAnonymize c.nets n = false → anonMatch c false t = t ∧ anonMatch c true t = t) ∧
      (Mask.shouldAnonymize c.nets n = true → Mask.shouldAnonymize c.nets (FN c.h c.pins 32 c.B n) = true →
        anonMatch c true (anonMatch c false t) = showV4 n) :=
  undo_anon_token c hf showV4_eq t ht

open NoSurvival IpText in
/-- the canonical spelling parses back to the same number (so undoing twice, or anonymizing the restored line
again, starts from the same addresses) -/
theorem canonical_spelling_parses (n : Nat) (h : n < 2 ^ 32) : parseV4 (showV4 n) = .ok n := by
  rw [showV4_eq]; exact showQuad_parse n h

open NoSurvival IpText in
/-- …with the preserved networks registered as preserved prefixes (what `IpAnonymizer.__init__` does) the
proviso is only the property's own: the image is not netmask-shaped. -/
theorem undo_restores_token_pinned (c : IpCfg) (hf : c.fam6 = false) (hnp : NetsPinned c.nets c.pins)
    (t : List Char) (ht : Lang core4 t) :
    ∃ n, parseV4 t = .ok n ∧ n < 2 ^ 32 ∧
      (Mask.shouldAnonymize c.nets n = true → Mask.isMask (FN c.h c.pins 32 c.B n) = false →
        anonMatch c true (anonMatch c false t) = showV4 n) := by
  obtain ⟨n, hp, hn, _, h2⟩ := undo_anon_token c hf showV4_eq t ht
  refine ⟨n, hp, hn, ?_⟩
  intro hs hm
  apply h2 hs
  rw [should_image c hnp n hn hs, hm]; rfl

end Netconan.Props.C02
