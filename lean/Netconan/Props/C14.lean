import Netconan.Proofs.Total
import Netconan.Proofs.Classify
/-!
# C14 – Anonymization is total: no line content or salt can make it fail
-/
namespace Netconan.Props.C14
open Netconan Netconan.Lines Netconan.Secrets Netconan.Regex

/-- **Processing a line returns a line.**  For every line, every lookup state, every salt string
and every feature subset the per-line function of the model ends in `ok`; the only other outcome
the model can exhibit is running out of its own fuel, which is not a Python outcome (and is
reported as a model failure by the correspondence if it ever happens).  In particular none of
the raise sites of the modelled code is reachable: `re.error` (replacement inserted literally),
passlib's salt-size `ValueError` (length clamped), `KeyError`/`IndexError` of the Juniper encoder
(salt fallback), the decoder's non-`ValueError` failures (C18 `decrypt_total`), `RecursionError`
(iteration), `AddressValueError` (unparsable matches are left alone). -/
theorem line_total (p : Pipeline) (lk : Lookup) (line : List Char)
    (hcls : ∀ sc, p.secrets = some sc → ClassifiesJuniper sc.formats) :
    (∃ r, lineStep p lk line = .ok r) ∨ lineStep p lk line = .error .outOfFuel :=
  lineStep_fine p lk line hcls

/-- the hypothesis of `line_total` is discharged for the format patterns of record: a value with a non-empty
`$9$` plaintext is classified as `$9$` by the six pinned patterns (symbolic evaluation of the engine; the
greedy repeat consumes the whole run by induction) -/
theorem classifies_juniper : ClassifiesJuniper Pinned.Patterns.formatRes := classifiesJuniper_pinned

/-- **Totality without hypotheses** for every pipeline that uses the pinned format patterns (the model of
record), whatever its pattern groups, salt, options and feature subset. -/
theorem line_total_pinned (p : Pipeline) (lk : Lookup) (line : List Char)
    (hfmt : ∀ sc, p.secrets = some sc → sc.formats = Pinned.Patterns.formatRes) :
    (∃ r, lineStep p lk line = .ok r) ∨ lineStep p lk line = .error .outOfFuel :=
  lineStep_fine p lk line (fun sc hsc => by rw [hfmt sc hsc]; exact classifiesJuniper_pinned)

/-- `_anonymize_value` never raises: every `$9$` re-encoding succeeds whatever the salt (empty,
outside the Juniper alphabet, any first character), and the re-decryption of the replacement
succeeds by the round-trip theorem. -/
theorem anonymize_value_total (x : Ext) (fs : List Re) (salt raw : List Char) (lk : Lookup)
    (hcls : ClassifiesJuniper fs) : ∃ r, anonymizeValue x fs salt raw lk = .ok r :=
  anonymizeValue_total x fs salt raw lk hcls

/-- the Juniper encoder accepts every salt string -/
theorem juniper_encrypt_total (plain salt : List Char) : ∃ c, Juniper.encrypt plain (some salt) = .ok c :=
  encrypt_ok plain salt

/-- an address-like match that does not parse is returned unchanged -/
theorem unparsable_match_left_alone (c : IpText.IpCfg) (undo : Bool) (txt : List Char)
    (h : (if c.fam6 then IpText.parseV6 txt else IpText.parseV4 txt) = .error .addressValue) :
    IpText.anonMatch c undo txt = txt := by
  simp [IpText.anonMatch, h]

/-- kernel-evaluated witness (a test): `fe80:%x`-like text does not parse and is left alone -/
example : IpText.parseV6 "fe80:".toList = .error .addressValue := by decide +kernel

end Netconan.Props.C14
