import Netconan.Proofs.Secrets
import Netconan.Proofs.Pseudonym
import Netconan.Proofs.Numeric
/-!
# C08 – Secret pseudonyms are consistent and collision-free within a run

Theorems about `anonCore` (the body of `_anonymize_value` after the enclosing text has been split
off) for every lookup table, value, salt, reserved-word set and pattern set.
-/
namespace Netconan.Props.C08
open Netconan Netconan.Secrets Netconan.Regex

variable (x : Ext) (fs : List Re) (salt : List Char)

/-- A value already in the table gets the stored replacement, and the table does not change:
equal secrets receive equal replacements however many other secrets were seen in between. -/
theorem hit_returns_stored (val a : List Char) (lk : Lookup) (h : lk.get val = some a) :
    anonCore x fs salt val lk = .ok (a, lk) := by
  simp [anonCore, h]

/-- Enclosing text never influences the key: the replacement of the bare value is computed from
the stripped value only, and the stripped pieces concatenate to the raw value. -/
theorem enclosing_irrelevant (raw : List Char) (lk : Lookup) :
    let e := extractEnclosing (raw.length + 1) raw [] []
    e.1 ++ e.2.1 ++ e.2.2 = raw ∧
    (anonymizeValue x fs salt raw lk = .ok (raw, lk) ∨
     (∃ a lk', anonCore x fs salt e.2.1 lk = .ok (a, lk') ∧
       anonymizeValue x fs salt raw lk = .ok (e.1 ++ a ++ e.2.2, lk')) ∨
     (∃ err, anonymizeValue x fs salt raw lk = .error err)) := by
  refine ⟨by simpa using extractEnclosing_concat (raw.length + 1) raw [] [], ?_⟩
  unfold anonymizeValue
  generalize extractEnclosing (raw.length + 1) raw [] [] = e
  obtain ⟨h, v, t⟩ := e
  simp only
  by_cases hr : x.isReserved v = true
  · left; simp [hr]
  · by_cases he : v.isEmpty = true
    · left; simp [hr, he]
    · cases hc : anonCore x fs salt v lk with
      | error e => right; right; exact ⟨e, by simp [hr, he, hc]⟩
      | ok r => right; left; exact ⟨r.1, r.2, rfl, by simp [hr, he, hc]⟩

/-- **A new secret allocates exactly one fresh numbered pseudonym**: on a miss (value not a
`$9$` string) the table grows by the single entry `(value, replacement)` at its end, and the
replacement is the rendering of `netconanRemoved<N>` with `N` the table size – so indices are
`0, 1, 2, …` in order of first appearance and earlier entries are never touched. -/
theorem miss_allocates_fresh (val : List Char) (lk : Lookup)
    (hmiss : lk.get val = none) (hplain : decryptedOf val = none) :
    ∃ a, renderAs x salt (classify fs val) (md5SaltLen val) (pseudonym lk.length) = .ok a ∧
      anonCore x fs salt val lk = .ok (a, lk ++ [(val, a)]) := by
  obtain ⟨a, ha⟩ := renderAs_ok x salt (classify fs val) (md5SaltLen val) (pseudonym lk.length)
  refine ⟨a, ha, ?_⟩
  simp [anonCore, hmiss, hplain, ha, Lookup.set_of_absent lk val a hmiss]

/-- Asking again for the same value returns the same replacement and leaves the table alone. -/
theorem repeat_consistent (val : List Char) (lk : Lookup) (hplain : decryptedOf val = none)
    (a : List Char) (lk' : Lookup) (h1 : anonCore x fs salt val lk = .ok (a, lk')) :
    anonCore x fs salt val lk' = .ok (a, lk') := by
  cases hg : lk.get val with
  | some b =>
    rw [hit_returns_stored x fs salt val b lk hg] at h1
    simp at h1
    obtain ⟨rfl, rfl⟩ := h1
    exact hit_returns_stored x fs salt val b lk hg
  | none =>
    obtain ⟨a', _, h2⟩ := miss_allocates_fresh x fs salt val lk hg hplain
    rw [h2] at h1
    simp at h1
    obtain ⟨rfl, rfl⟩ := h1
    apply hit_returns_stored
    rw [← Lookup.set_of_absent lk val a' hg]
    exact Lookup.get_set_self lk val a'

/-- **`$9$` strings are keyed by their plaintext.**  Once a `$9$` value with plaintext `d` has
stored pseudonym `p` under `d`, every other value that decrypts to `d` – any of the 65 salt
characters – is answered with the same pseudonym `p` (re-encrypted), and the table is unchanged. -/
theorem juniper_shares_plaintext_key (val2 d p : List Char) (lk : Lookup)
    (hd : decryptedOf val2 = some d) (hmiss : lk.get val2 = none) (hkey : lk.get d = some p) :
    ∃ c, Juniper.encrypt p (some salt) = .ok c ∧ anonCore x fs salt val2 lk = .ok (c, lk) := by
  obtain ⟨c, hc⟩ := encrypt_ok p salt
  exact ⟨c, hc, by simp [anonCore, hmiss, hd, hkey, hc]⟩

/-- the clear text equal to that plaintext is answered with the very same pseudonym -/
theorem cleartext_shares_plaintext_key (d p : List Char) (lk : Lookup) (hkey : lk.get d = some p) :
    anonCore x fs salt d lk = .ok (p, lk) := hit_returns_stored x fs salt d p lk hkey

/-- **Collision-free numbering**: `netconanRemoved<N>` is injective in `N` (the decimal rendering can be read
back), so secrets allocated at different table sizes get different base pseudonyms – for every `N`. -/
theorem distinct_sizes_distinct_pseudonyms (a b : Nat) (h : pseudonym a = pseudonym b) : a = b := pseudonym_inj h

theorem pseudonym_ascii (n : Nat) : ∀ c ∈ pseudonym n, c.toNat < 128 := by
  intro c hc
  simp only [pseudonym, List.mem_append] at hc
  rcases hc with hc | hc
  · revert c; unfold pseudonymPrefix; decide
  · have := decDigitsAux_digits (n + 1) n [] (by simp) c hc
    simp only [isDigit, Bool.and_eq_true, decide_eq_true_eq] at this
    have h9 : c ≤ '9' := this.2
    have : c.toNat ≤ ('9' : Char).toNat := h9
    have e : ('9' : Char).toNat = 57 := by decide
    omega

theorem pseudonym_head (n : Nat) : ∀ c, (pseudonym n).head? = some c → c.toNat ≠ 0 := by
  intro c hc
  simp [pseudonym, pseudonymPrefix] at hc
  subst hc; decide

/-- **The replacement actually written is collision-free too**, in every format the model renders
itself (Cisco type 7, numeric, hex, plain text): secrets allocated at different table sizes get
different replacements, because each of these re-encodings can be decoded back to the pseudonym. -/
theorem distinct_sizes_distinct_replacements (fmt : Fmt) (hf : fmt = .type7 ∨ fmt = .numeric ∨ fmt = .hex ∨ fmt = .text)
    (a b n m : Nat) (h : renderAs x salt fmt n (pseudonym a) = renderAs x salt fmt m (pseudonym b)) : a = b := by
  have ha := pseudonym_ascii a
  have hb := pseudonym_ascii b
  have ha' : ∀ c ∈ pseudonym a, c.toNat < 256 := fun c hc => by have := ha c hc; omega
  have hb' : ∀ c ∈ pseudonym b, c.toNat < 256 := fun c hc => by have := hb c hc; omega
  apply pseudonym_inj
  rcases hf with rfl | rfl | rfl | rfl <;> simp only [renderAs, Except.ok.injEq] at h
  · exact type7_injective _ _ ha hb h
  · exact numericOf_injective _ _ ha' hb' (pseudonym_head a) (pseudonym_head b) h
  · exact hexOf_injective _ _ ha' hb' h
  · exact h

/-- kernel-evaluated (a test): distinct table sizes give distinct base pseudonyms for the first sizes -/
example : (List.range 40).all (fun i => (List.range 40).all (fun j => i == j || pseudonym i != pseudonym j)) = true := by
  decide +kernel

end Netconan.Props.C08
