import Netconan.Proofs.SrcTieLines
import Netconan.Proofs.SrcTieSecrets
import Netconan.Props.C12
import Netconan.Props.C15
/-!
# C12–C15 on the *translated source* of the per-line loop of `FileAnonymizer.anonymize_io`
-/
namespace Netconan.Props.SrcLines
open Netconan Netconan.Generated Netconan.Lines

/-- **Composition, for the loop body as written in the source**: the multi-feature step is the single-feature steps one
after another in the order secrets, IPv6, IPv4, sensitive words, AS numbers – for every subset of features, for undo in
place of anonymize, every lookup state and every line. -/
theorem source_line_is_composition (p : Pipeline) (lk : Secrets.Lookup) (line : List Char) :
    Src.line_step p lk line =
      (match Src.line_step (C15.onlySecrets p) lk line with
       | .error e => .error e
       | .ok (l1, lk1, logs) =>
         match (pureStages (C15.onlyIp p) l1 >>= pureStages (C15.onlyWords p) >>= pureStages (C15.onlyAs p)) with
         | .error e => .error e
         | .ok l5 => .ok (l5, lk1, logs)) := by
  rw [SrcTie.line_step_tie, SrcTie.line_step_tie]
  exact C15.line_is_composition p lk line

/-- without secret anonymization the source's loop body is a function of the line alone (no state is read or written) -/
theorem source_stateless_without_secrets (p : Pipeline) (hs : p.secrets = none) (lk : Secrets.Lookup) (line : List Char) :
    Src.line_step p lk line = (pureStages p line).map (fun o => (o, lk, [])) := by
  rw [SrcTie.line_step_tie]; exact lineStep_stateless p hs lk line

/-- **C12 on the source**: `replace_matching_item` as written changes a line only inside spans matched by one of its patterns, and
re-attaches the leading / trailing white space and the enclosing characters of the line verbatim -/
theorem source_secret_stage_changes_only_matched_spans (x : Secrets.Ext) (fs : List Regex.Re)
    (groups : List (List ((Regex.Re × Option Nat × Option Nat) × String))) (salt input : List Char) (lk : Secrets.Lookup)
    (out : List Char) (logs : List Secrets.LogRec) (lk' : Secrets.Lookup)
    (h : Src.replace_matching_item x fs groups input salt lk = .ok ((out, logs), lk')) :
    ∃ leading body trailing body',
      leading ++ body ++ trailing =
        (Secrets.splitLine x.isSpace input).1 ++ Secrets.joinSp (Secrets.splitLine x.isSpace input).2.1 ++
          (Secrets.splitLine x.isSpace input).2.2 ∧
      out = leading ++ body' ++ trailing ∧
      Secrets.Rew (groups.flatten.map (·.1.1)) body body' := by
  rw [SrcTie.replace_matching_item_tie] at h
  cases hm : Secrets.replaceMatchingItem x fs groups salt input lk with
  | error e => simp [hm] at h
  | ok r =>
    obtain ⟨o, l, g⟩ := r
    simp only [hm, Except.ok.injEq, Prod.mk.injEq] at h
    obtain ⟨⟨rfl, rfl⟩, rfl⟩ := h
    exact C12.secret_stage_changes_only_matched_spans x fs groups salt input lk _ _ _ hm

end Netconan.Props.SrcLines
