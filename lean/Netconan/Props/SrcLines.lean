import Netconan.Proofs.SrcTieLines
import Netconan.Props.C15
/-!
# C12–C15 on the *translated source* of the per-line loop of `FileAnonymizer.anonymize_io`
-/
namespace Netconan.Props.SrcLines
open Netconan Netconan.Generated Netconan.Lines

/-- **Composition, for the loop body as written in the source**: the multi-feature step is the single-feature steps one
after another in the order secrets, IPv6, IPv4, sensitive words, AS numbers – for every subset of features, for undo in
place of anonymize, every lookup state and every line. -/
theorem source_line_is_composition (p : Pipeline) (lk : Secrets.Lookup) (line : List Char) :
    Src.line_step p lk line =
      (match Src.line_step (C15.onlySecrets p) lk line with
       | .error e => .error e
       | .ok (l1, lk1, logs) =>
         match (pureStages (C15.onlyIp p) l1 >>= pureStages (C15.onlyWords p) >>= pureStages (C15.onlyAs p)) with
         | .error e => .error e
         | .ok l5 => .ok (l5, lk1, logs)) := by
  rw [SrcTie.line_step_tie, SrcTie.line_step_tie]
  exact C15.line_is_composition p lk line

/-- without secret anonymization the source's loop body is a function of the line alone (no state is read or written) -/
theorem source_stateless_without_secrets (p : Pipeline) (hs : p.secrets = none) (lk : Secrets.Lookup) (line : List Char) :
    Src.line_step p lk line = (pureStages p line).map (fun o => (o, lk, [])) := by
  rw [SrcTie.line_step_tie]; exact lineStep_stateless p hs lk line

end Netconan.Props.SrcLines
