import Netconan.Generated.Tables
/-!
# The `$9$` tables of the code are the published ones (Crypt::Juniper)

Kernel-decided equalities between the tables regenerated from /repo and the tables as published:
a `$9$` string written by a real device is decoded by netconan as the device meant it only if
these agree (character families, hence the number of filler characters per salt character, and
the weight rows).
-/
namespace Netconan.Props.C18Data
open Netconan.Generated

def specFamily : List String := ["QzF3n6/9CAtpu0O", "B1IREhcSyrleKvMW8LXx", "7N-dVbwsY2g4oaJZGUDj", "iHkq.mPf5T"]
def specEncoding : List (List Nat) := [[1, 4, 32], [1, 16, 32], [1, 8, 32], [1, 64], [1, 32], [1, 4, 16, 128], [1, 32, 64]]

theorem family_is_published : junFamily.map String.ofList = specFamily := by decide +kernel
theorem encoding_is_published : junEncoding = specEncoding := by decide
theorem alphabet_is_concatenation : junNumAlpha = junFamily.flatten := by decide +kernel
/-- `EXTRA[c] = 3 - family index of c`, for every character of the alphabet -/
theorem extra_is_three_minus_family :
    junExtra.all (fun p => (List.range 4).any (fun i => (junFamily.getD i []).contains p.1 && p.2 + i == 3)) = true
    ∧ junExtra.length = junNumAlpha.length := by decide +kernel
theorem magic_is_dollar9 : junMagic = ['$', '9', '$'] := by decide

end Netconan.Props.C18Data
