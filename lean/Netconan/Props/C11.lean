import Netconan.Model.Words
import Netconan.Proofs.RegexAlpha
import Netconan.Proofs.AsNumScan
/-!
# C11 – AS numbers: block-preserving, whole-number-only, keyed replacement
-/
namespace Netconan.Props.C11
open Netconan Netconan.AsNum Netconan.Regex

/-- the block table of the code is the documented one (kernel-decided on regenerated data) -/
theorem boundaries_documented : Generated.asBoundaries = [0, 64512, 65536, 4200000000, 4294967296] := by decide

/-- the block a number lies in: 16-bit public, 16-bit private, 32-bit public, 32-bit private -/
def blockOf (n : Nat) : Nat :=
  if n < 64512 then 0 else if n < 65536 then 1 else if n < 4200000000 then 2 else 3

theorem b0 (v : Nat) (h : v < 64512) : blockOf v = 0 := by unfold blockOf; simp [h]
theorem b1 (v : Nat) (h1 : 64512 ≤ v) (h2 : v < 65536) : blockOf v = 1 := by
  unfold blockOf; have : ¬ v < 64512 := by omega
  simp [this, h2]
theorem b2 (v : Nat) (h1 : 65536 ≤ v) (h2 : v < 4200000000) : blockOf v = 2 := by
  unfold blockOf; have a : ¬ v < 64512 := by omega
  have b : ¬ v < 65536 := by omega
  simp [a, b, h2]
theorem b3 (v : Nat) (h1 : 4200000000 ≤ v) : blockOf v = 3 := by
  unfold blockOf; have a : ¬ v < 64512 := by omega
  have b : ¬ v < 65536 := by omega
  have c : ¬ v < 4200000000 := by omega
  simp [a, b, c]

/-- **Block preservation for every hash value and every number.**  Whatever the keyed hash `H`
(any salt), the replacement of `n ≤ 4294967295` exists and lies in the block of `n` – including
the two ends of the replacement range, which a single salt never reaches. -/
theorem replacement_in_same_block (H n : Nat) (hn : n < 4294967296) :
    ∃ v, blockMap Generated.asBoundaries H n = some v ∧ blockOf v = blockOf n ∧ v < 4294967296 := by
  rw [boundaries_documented]
  unfold blockMap blockMap.go blockMap.go blockMap.go blockMap.go blockMap.go
  have h0 : ¬ n < 0 := by omega
  simp only [h0, if_false]
  by_cases h1 : n < 64512
  · have hm := Nat.mod_lt H (show 0 < 64512 - 0 by decide)
    refine ⟨H % (64512 - 0) + 0, by simp only [h1, if_true], ?_, by omega⟩
    rw [b0 n h1, b0 _ (by omega)]
  · by_cases h2 : n < 65536
    · have hm := Nat.mod_lt H (show 0 < 65536 - 64512 by decide)
      refine ⟨H % (65536 - 64512) + 64512, by simp only [h1, h2, if_true, if_false], ?_, by omega⟩
      rw [b1 n (by omega) h2, b1 _ (by omega) (by omega)]
    · by_cases h3 : n < 4200000000
      · have hm := Nat.mod_lt H (show 0 < 4200000000 - 65536 by decide)
        refine ⟨H % (4200000000 - 65536) + 65536, by simp only [h1, h2, h3, if_true, if_false], ?_, by omega⟩
        rw [b2 n (by omega) h3, b2 _ (by omega) (by omega)]
      · have hm := Nat.mod_lt H (show 0 < 4294967296 - 4200000000 by decide)
        refine ⟨H % (4294967296 - 4200000000) + 4200000000, by simp only [h1, h2, h3, hn, if_true, if_false], ?_, by omega⟩
        rw [b3 n (by omega), b3 _ (by omega)]

/-- numbers outside 0..4294967295 are refused with a value error -/
theorem out_of_range_refused (salt num : List Char) (n : Nat) (hd : decVal? num = some n) (hn : 4294967295 < n) :
    replacement salt num = .error .valueError := by
  have : n > 4294967295 := hn
  simp only [replacement, hd, this, if_true]

/-- the replacement is a function of salt and spelling only (it is computed once, before any line
is read), and it is in the block of the number -/
theorem replacement_spec (salt num : List Char) (n : Nat) (hd : decVal? num = some n) (hn : n < 4294967296) :
    ∃ v, replacement salt num = .ok (toString v).toList ∧ blockOf v = blockOf n := by
  obtain ⟨v, hv, hb, _⟩ := replacement_in_same_block (Md5.digestNat (String.ofList (salt ++ num)).toUTF8) n hn
  refine ⟨v, ?_, hb⟩
  have : ¬ n > 4294967295 := by omega
  simp only [replacement, hd, this, if_false, hv]

/-! ### text level: only matched spans change, and a matched span is made of characters of listed numbers -/

theorem litRe_alpha (w : List Char) (c : Char) (h : inRanges (litRe w).alpha c = true) : c ∈ w := by
  induction w with
  | nil => simp [litRe, Re.alpha, inRanges] at h
  | cons x xs ih =>
    simp only [litRe, List.foldr_cons, Re.alpha, inRanges_append, Bool.or_eq_true] at h
    rcases h with h | h
    · simp only [inRanges, List.any_cons, List.any_nil, Bool.or_false, Bool.and_eq_true, decide_eq_true_eq] at h
      have : c.toNat = x.toNat := by omega
      have : c = x := Char.toNat_inj.mp this
      simp [this]
    · exact List.mem_cons_of_mem _ (ih h)

theorem altOf_alpha (rs : List Re) (c : Char) (h : inRanges (Words.altOf rs).alpha c = true) :
    ∃ r ∈ rs, inRanges r.alpha c = true := by
  induction rs with
  | nil => simp [Words.altOf, Re.alpha, inRanges] at h
  | cons r rest ih =>
    cases rest with
    | nil => exact ⟨r, by simp, by simpa [Words.altOf] using h⟩
    | cons r2 rest2 =>
      simp only [Words.altOf, Re.alpha, inRanges_append, Bool.or_eq_true] at h
      rcases h with h | h
      · exact ⟨r, by simp, h⟩
      · obtain ⟨q, hq, hc⟩ := ih h
        exact ⟨q, List.mem_cons_of_mem _ hq, hc⟩

/-- **Only matched spans change; every matched span consists of characters of the listed numbers**
(in particular no letter, punctuation or white space is ever consumed), and it is replaced by its entry
in the precomputed map. -/
theorem only_listed_number_spans_change (nd : List (Nat × Nat)) (nums : List (List Char)) (m)
    (line out : List Char) (h : AsNum.anonymize { re := pattern nd nums, map := m } line = .ok out) :
    ∃ segs : List Seg, line = (segs.map Seg.src).flatten ∧ out = (segs.map Seg.dst).flatten ∧
      ∀ sg ∈ segs, ∀ t rp, sg = .rep t rp → ∀ ch ∈ t, ∃ n ∈ nums, ch ∈ n := by
  obtain ⟨segs, h1, h2, h3⟩ := sub_frame _ _ line out h
  refine ⟨segs, h1, h2, ?_⟩
  intro sg hsg t rp hst ch hch
  obtain ⟨z0, z1, cs, hm, ht, _⟩ := h3 sg hsg t rp hst
  have hal := match_text_in_alpha _ _ z0 z1 cs hm ch (by rw [← ht]; exact hch)
  have hal' : inRanges (Words.altOf (nums.map litRe)).alpha ch = true := by
    have e : (pattern nd nums).alpha = (Words.altOf (nums.map litRe)).alpha := by
      simp [pattern, Re.alpha]
    rw [e] at hal; exact hal
  obtain ⟨r, hr, hc⟩ := altOf_alpha _ ch hal'
  simp only [List.mem_map] at hr
  obtain ⟨n, hn, rfl⟩ := hr
  exact ⟨n, hn, litRe_alpha n ch hc⟩

open NoSurvival in
/-- **Whole-number-only, keyed replacement – the text-level statement in full.**  For every list of AS
numbers (non-empty entries), salt and line: `anonymize_as_numbers` cuts the line into kept characters
and replaced spans such that, reading left to right,

* a span is replaced only if it *is* a listed number that stands alone – the character before it is a
  non-digit (`\D`, Unicode-aware) or there is none, the character after it is a non-digit, the end of
  the line, or the final newline – and it is replaced by `replacement salt <that number>` (block-
  preserving by `replacement_spec`);
* a character is kept only if **no** listed number stands alone at its position: every standalone
  occurrence is replaced (also when listed numbers are prefixes of each other – the ordered
  alternation backtracks through the look-ahead), and digits inside a longer number never are.

Proved by computing the continuation-passing matcher exactly on this pattern shape
(`Proofs/RegexRef.lean`, `AsPattern.lean`: literals, ordered alternation, group, look-behind
alternatives, look-ahead – up to the model's own out-of-fuel answer, which `h` excludes). -/
theorem listed_numbers_replaced_exactly_where_they_stand_alone (nd : List (Nat × Nat)) (nums : List (List Char))
    (salt : List Char) (t : AsNum.T) (hmk : AsNum.mk nd nums salt = .ok t) (hW : nums ≠ []) (hne : ∀ n ∈ nums, n ≠ [])
    (line out : List Char) (h : AsNum.anonymize t line = .ok out) :
    ∃ segs : List Seg, line = srcs segs ∧ out = dsts segs ∧
      ScanN nd nums (fun n rp => replacement salt n = .ok rp) [] segs :=
  anonymize_scan nd nums salt t hmk hW hne line out h

open NoSurvival in
/-- what `ScanN` says at a kept character and at a replaced span, spelled out -/
theorem scan_reading (nd : List (Nat × Nat)) (nums : List (List Char)) (R : List Char → List Char → Prop)
    (left : List Char) (segs : List Seg) :
    (∀ c, ScanN nd nums R left (.keep c :: segs) →
      ¬ (prevOK nd left = true ∧ ∃ n ∈ nums, ∃ rest, c :: srcs segs = n ++ rest ∧ nextOK nd rest = true)) ∧
    (∀ t rp, ScanN nd nums R left (.rep t rp :: segs) →
      t ∈ nums ∧ prevOK nd left = true ∧ nextOK nd (srcs segs) = true ∧ R t rp) :=
  ⟨fun _ h => h.1, fun _ _ h => h.1⟩

open NoSurvival in
/-- non-vacuity / reading aid (kernel-evaluated): with `\D` = everything but ASCII digits, `65001`
stands alone in `as 65001,` but not in `x650010` -/
example : let nd : List (Nat × Nat) := [(0, 47), (58, 1114111)]
    (prevOK nd [' ', 's', 'a'] && nextOK nd [','] && !nextOK nd ['0'] && prevOK nd [] && !prevOK nd ['9']) = true := by
  decide +kernel

/-- block end points and their neighbours, kernel-evaluated through the whole function (tests) -/
example : blockOf 64511 = 0 ∧ blockOf 64512 = 1 ∧ blockOf 65535 = 1 ∧ blockOf 65536 = 2
    ∧ blockOf 4199999999 = 2 ∧ blockOf 4200000000 = 3 ∧ blockOf 4294967295 = 3 := by decide
example : blockMap Generated.asBoundaries 1023 65535 = some 65535 ∧ blockMap Generated.asBoundaries 1024 65535 = some 64512 := by decide

end Netconan.Props.C11
