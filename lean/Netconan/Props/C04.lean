import Netconan.Proofs.NetPins
import Netconan.Proofs.IpInt
/-!
# C04 – Preserved prefixes and preserved host bits survive anonymization
(the statements about the *default* list and the CLI default are kernel-decided on
regenerated data in `Netconan/Props/C04Data.lean`)
-/
namespace Netconan.Props.C04
open Netconan Netconan.Spec Netconan.IpCore

variable (h : Bits → Bool) (pins : List Bits) (L B : Nat)

/-- Inside a preserved prefix stays inside; outside stays outside.  Holds for nested and
overlapping lists and for prefixes longer than the anonymized part `L - B`. -/
theorem inside_iff (p : Bits) (hp : p ∈ pins) (a : Bits) :
    p <+: Ffull h pins L B a ↔ p <+: a := Ffull_prefix_iff h pins L B p hp a

/-- The trailing `B` host bits are unchanged. -/
theorem host_bits_kept (a : Bits) : (Ffull h pins L B a).drop (L - B) = a.drop (L - B) :=
  drop_Ffull h pins L B a

/-- The leading bits of the image do not depend on the host bits. -/
theorem leading_independent_of_host (a b : Bits) (hab : a.take (L - B) = b.take (L - B)) :
    (Ffull h pins L B a).take (L - B) = (Ffull h pins L B b).take (L - B) := by
  rw [take_Ffull, take_Ffull, hab]

/-- The implementation's algorithm (constructor + any history) returns exactly `Ffull`; see
`C03.history_independent`.  Restated for one request on a fresh anonymizer. -/
theorem model_inside_iff (hL : 0 < L) (p : Bits) (hp : p ∈ pins) (n : Nat) (hn : n < 2 ^ L) :
    ∃ c0 c1 r, seed pins = .ok c0 ∧ step h L B c0 (.anon n) = .ok (r, c1) ∧
      (p <+: fmt L r ↔ p <+: fmt L n) := by
  obtain ⟨c0, hs, hI⟩ := seed_spec h pins L B
  obtain ⟨c1, h1, _, _⟩ := step_spec h pins L B hL (.anon n) hn c0 hI
  refine ⟨c0, c1, _, hs, h1, ?_⟩
  simp only [answer, FN]
  rw [fmt_ofBits hL _ (by rw [Ffull_length, fmt_length hL hn])]
  exact Ffull_prefix_iff h pins L B p hp _

/-- non-vacuity: prefix 10/2 preserved at width 4 -/
example : ([true, false] <+: Ffull (fun p => p.length % 2 == 0) [[true, false]] 4 1 [true, false, true, true]) := by decide
example : ¬ ([true, false] <+: Ffull (fun p => p.length % 2 == 0) [[true, false]] 4 1 [false, true, true, false]) := by decide

open NoSurvival IpText in
/-- **Text level**: the address written for an anonymized dotted quad lies inside a preserved prefix exactly when
the token's address does, and keeps the token's trailing `B` host bits. -/
theorem text_level_prefixes_and_host_bits (c : IpCfg) (hf : c.fam6 = false) (t : List Char) (ht : Lang core4 t) :
    ∃ n, parseV4 t = .ok n ∧ n < 2 ^ 32 ∧
      (Mask.shouldAnonymize c.nets n = true →
        ∃ m, m < 2 ^ 32 ∧ anonMatch c false t = showV4 m ∧
          (∀ p ∈ c.pins, p <+: toBitsW 32 m ↔ p <+: toBitsW 32 n) ∧
          (toBitsW 32 m).drop (32 - c.B) = (toBitsW 32 n).drop (32 - c.B)) :=
  replaced_token_keeps_prefixes c hf t ht

end Netconan.Props.C04
