import Netconan.Model.Files
import Netconan.Proofs.Lines
/-!
# C16 – Files map one-to-one; failures isolated; entry points agree  (partial by nature)

The operating system (tree walk order, Unicode names, permissions, pre-existing directories) is
runtime behaviour exercised by the correspondence on generated trees; the theorems are about the
pairing and about the sharing of the anonymizer between files.
-/
namespace Netconan.Props.C16
open Netconan Netconan.Files Netconan.Lines Netconan.Secrets

/-- every planned output sits at the relative path of its input, one per non-hidden file, in order -/
theorem one_output_per_planned_file (p : Pipeline) (lk : Lookup) (fs : List Ent) :
    (runFiles p lk fs).map (·.1) = fs.map relPath := by
  induction fs generalizing lk with
  | nil => rfl
  | cons e es ih => simp [runFiles, ih]

theorem planned_no_hidden (fs : List Ent) : ∀ e ∈ planned fs, hidden e = false := by
  intro e he
  simp [planned] at he
  exact he.2

/-- **Failure isolation.**  A file that cannot be read/decoded yields no output and leaves the shared
anonymizer untouched, so the outputs of all other files are exactly those of the run without it. -/
theorem failed_file_changes_nothing (p : Pipeline) (lk : Lookup) (a b : List Ent) (bad : Ent) (hbad : bad.text = none) :
    runFiles p lk (a ++ bad :: b) =
      runFiles p lk a ++ (relPath bad, none) ::
        (runFiles p lk (a ++ b)).drop a.length := by
  induction a generalizing lk with
  | nil => simp [runFiles, processFile, hbad]
  | cons e es ih =>
    simp only [List.cons_append, runFiles, List.length_cons, List.drop_succ_cons]
    rw [ih]

/-- corollary: the successful outputs of a run with failing files are the outputs of the run without them -/
theorem outputs_of_others_unchanged (p : Pipeline) (lk : Lookup) (a b : List Ent) (bad : Ent) (hbad : bad.text = none) :
    (runFiles p lk (a ++ bad :: b)).filter (fun r => r.2.isSome) = (runFiles p lk (a ++ b)).filter (fun r => r.2.isSome) := by
  rw [failed_file_changes_nothing p lk a b bad hbad]
  have htake : ∀ lk, (runFiles p lk (a ++ b)).take a.length = runFiles p lk a := by
    induction a with
    | nil => intro lk; simp [runFiles]
    | cons e es ih => intro lk; simp [runFiles, ih]
  conv => rhs; rw [← List.take_append_drop a.length (runFiles p lk (a ++ b)), htake lk]
  simp [List.filter_append]

/-- **Entry points agree**: the stream API (`io.StringIO`, lines end at `\n`) and the file entry points
(`newline=""`, lines end at `\n`, `\r`, `\r\n`) split a text identically when it contains no carriage
return, and both feed the same `anonymize_io`. -/
theorem readlines_agree (t : List Char) (h : '\r' ∉ t) : readlinesUniversal t = readlinesLF t := by
  have : ∀ cur, readlinesUniversal.go t cur false = readlinesLF.go t cur := by
    induction t with
    | nil => intro cur; simp [readlinesUniversal.go, readlinesLF.go]
    | cons c cs ih =>
      intro cur
      have hc : (c == '\r') = false := by
        have : c ≠ '\r' := fun hh => h (by simp [hh])
        simpa using this
      have hcs : '\r' ∉ cs := fun hh => h (by simp [hh])
      rw [readlinesUniversal.go, readlinesLF.go]
      simp only [hc, Bool.false_eq_true, if_false]
      split <;> simp [ih hcs]
  exact this []

end Netconan.Props.C16
