import Netconan.Proofs.IpInt
/-!
# C17 – The dumped IP map is exactly the mapping that was applied
-/
namespace Netconan.Props.C17
open Netconan Netconan.Spec Netconan.IpCore

variable (h : Bits → Bool) (pins : List Bits) (L B : Nat)

/-- After any history on a constructed anonymizer – both the `B = 0` path (the address is
stored by `_anonymize_bits`) and the `B > 0` path (explicit extra entry) – the dump
(the full-length memo entries)
* has a line for every address that was anonymized, showing exactly the image that was returned,
* lists no original twice and no replacement twice,
* and every listed pair agrees with the mapping function for this salt and option set
  (including the identity entries of full-length preserved prefixes and, for `B = 0`, addresses
  reached by undo requests). -/
theorem dump_is_applied_map (hL : 0 < L) (ops : List Op) (hops : ∀ op ∈ ops, op.arg < 2 ^ L) :
    ∃ c0 c', seed pins = .ok c0 ∧ run h L B c0 ops = .ok (ops.map (answer h pins L B), c') ∧
      (∀ n, Op.anon n ∈ ops → (fmt L n, fmt L (FN h pins L B n)) ∈ dump L c') ∧
      (∀ e ∈ dump L c', e.2 = Ffull h pins L B e.1) ∧
      (dump L c').Pairwise (fun e e' => e.1 ≠ e'.1) ∧
      (dump L c').Pairwise (fun e e' => e.2 ≠ e'.2) := by
  obtain ⟨c0, hs, hI⟩ := seed_spec h pins L B
  obtain ⟨c', hr, hI', _⟩ := run_spec h pins L B hL ops hops c0 hI
  obtain ⟨hd1, hd2, hd3⟩ := dump_spec h pins L B hI'
  refine ⟨c0, c', hs, hr, ?_, fun e he => (hd1 e he).2, hd2, hd3⟩
  intro n hn
  have hmem := run_anon_mem h pins L B hL ops hops c0 hI _ _ hr n hn
  have hlt : n < 2 ^ L := hops _ hn
  have : fmt L (FN h pins L B n) = Ffull h pins L B (fmt L n) := by
    unfold FN
    rw [fmt_ofBits hL _ (by rw [Ffull_length, fmt_length hL hlt])]
  rw [this]
  simp [dump, hmem, fmt_length hL hlt]

/-- Non-vacuity, run by the kernel: width 4, one host bit, `10/2` preserved. -/
def hEx : Bits → Bool := fun p => p.length % 2 == 0
example : Except.toOption (do
    let c0 ← seed [[true, false]]
    let (_, c) ← run hEx 4 1 c0 [.anon 6, .anon 11, .anon 6]
    pure ((dump 4 c).map (fun e => (ofBits e.1, ofBits e.2))) : Except Err (List (Nat × Nat)))
    = some [(11, 9), (6, 4)] := by decide

end Netconan.Props.C17
