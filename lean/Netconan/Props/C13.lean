import Netconan.Proofs.Lines
import Netconan.Proofs.WordOrder
/-!
# C13 – Same salt, options and input give byte-identical output, always  (partial)

What the model contributes: every function of the model is a total function of its explicit
arguments – configuration (salt, options, word lists), the lookup table and the text – and takes
nothing from an environment: there is no time, no random stream, no iteration order of a hash set
and no process-global table among the arguments (the reserved words are a field of the pipeline).
The correspondence then shows, in separate interpreter processes with different hash seeds and
after unrelated anonymizers were constructed, that the implementation computes exactly this
function.  Interpreter start-up, `random` and the hash-seed machinery are not modelled.
-/
namespace Netconan.Props.C13
open Netconan Netconan.Lines Netconan.Secrets

/-- the salt in effect: the one supplied, else the one drawn from the environment's random stream -/
def effectiveSalt (given : Option (List Char)) (drawn : List Char) : List Char := given.getD drawn

/-- the WARNING record of the no-salt case carries the generated salt -/
def noSaltWarning (drawn : List Char) : LogRec :=
  ⟨"WARNING", "No salt was provided; using randomly generated \"".toList ++ drawn ++ ['"']⟩

/-- **No salt supplied: re-running with the reported salt reproduces the run.**  The salt in effect
when none is given and `drawn` is drawn equals the salt in effect when `drawn` is supplied, whatever
is drawn the second time; the whole output is a function of the salt in effect. -/
theorem reported_salt_reproduces (drawn drawn' : List Char) :
    effectiveSalt none drawn = effectiveSalt (some drawn) drawn' := rfl

/-- the output of a run is a function of (pipeline configuration, initial table, text): two runs
with equal arguments are equal – stated for the record; it holds because the model has no other
inputs -/
theorem run_deterministic (p : Pipeline) (lk : Lookup) (lines : List (List Char)) :
    ∀ p' lk' lines', p = p' → lk = lk' → lines = lines' →
      anonymizeLines p lk lines = anonymizeLines p' lk' lines' := by
  intro p' lk' lines' h1 h2 h3; subst h1 h2 h3; rfl

/-- **The sensitive-word alternation does not depend on the order or repetition of the word list** (hence not
on the iteration order of the `set` the Python code builds it from, i.e. not on the interpreter's hash seed):
the sorted list of alternatives is a function of the *set* of lower-cased words. -/
theorem word_alternation_order_independent (e : WEnv) (ws1 ws2 : List (List Char)) (salt : List Char) (res : List (List Char))
    (hset : ∀ w, w ∈ ws1.map (lowerStr e) ↔ w ∈ ws2.map (lowerStr e)) :
    (Words.mk e ws1 salt res).words = (Words.mk e ws2 salt res).words :=
  Words.words_determined_by_set e ws1 ws2 salt res hset

/-- the alternation of sensitive words is ordered by (length descending, then code points): a fixed
order, kernel-checked on the list whose hash-seed dependence was the defect (a test) -/
example : (Words.mk { lower := fun c => [c], icase := fun c => [(c.toNat, c.toNat)], isSpace := fun c => c == ' ' }
            ["sea".toList, "seattle".toList] [] []).words = ["seattle".toList, "sea".toList]
        ∧ (Words.mk { lower := fun c => [c], icase := fun c => [(c.toNat, c.toNat)], isSpace := fun c => c == ' ' }
            ["seattle".toList, "sea".toList, "sea".toList] [] []).words = ["seattle".toList, "sea".toList] := by
  decide +kernel

end Netconan.Props.C13
