import Netconan.Model.Words
import Netconan.Proofs.RegexFrame
import Netconan.Proofs.WordsNoSurvival
/-!
# C10 – Listed sensitive words never survive; reserved words always do  (tier T0)

Proved here, for every word list, salt, reserved set and line: tokens that are conflicting
reserved words are returned unchanged; the pseudonym is a function of salt and matched text, has
at most `wordLen` characters and consists of hexadecimal digits only; one output token per input
token, leading/trailing white space kept.

**The no-survival statement itself is proved** (`no_listed_word_survives_in_token`,
`no_listed_word_survives_in_line`): leftmost scanning with a complete alternation leaves no match
start in kept text (`Proofs/WordMatch.lean`), and a six-digit hex pseudonym can neither begin, end
nor contain a listed word under the hypotheses on the list (`Proofs/NoSurvival.lean`): the word is
non-empty, its first and last characters match no hex digit under IGNORECASE, it has no run of six
characters that all match hex digits, and none of its characters matches white space.  The
hypotheses are what the proof forces: a word such as `ab` can reappear inside a pseudonym by chance.
"Occurs in any letter case" is read as the pattern reads it: character by character through the
IGNORECASE character sets (`WEnv.icase`, supplied by CPython and compared on every run).
-/
namespace Netconan.Props.C10
open Netconan Netconan.Words Netconan.Regex

/-- a token that is (case-insensitively) a conflicting reserved word is left exactly as written -/
theorem reserved_token_kept (e : WEnv) (t : T) (w : List Char)
    (h : t.conflicting.contains (lowerStr e w) = true) : anonToken e t w = .ok w := by
  unfold anonToken
  rw [if_pos h]

theorem mapRes_length {α β} (f : α → Res β) (l : List α) (r : List β) (h : mapRes f l = .ok r) :
    r.length = l.length := by
  induction l generalizing r with
  | nil => simp [mapRes] at h; simp [h]
  | cons a as ih =>
    simp only [mapRes] at h
    cases hf : f a with
    | ok b =>
      simp only [hf] at h
      cases hm : mapRes f as with
      | ok bs => simp only [hm] at h; simp at h; rw [← h]; simp [ih bs hm]
      | oof => simp [hm] at h
      | none => simp [hm] at h
    | oof => simp [hf] at h
    | none => simp [hf] at h

/-- a line in which a listed word occurs is rewritten token by token: leading and trailing white
space are kept and there is one output token per input token -/
theorem token_structure_kept (e : WEnv) (t : T) (line out : List Char) (h : anonymize e t line = .ok out) :
    out = line ∨ ∃ ws, ws.length = (Secrets.splitLine e.isSpace line).2.1.length ∧
      out = (Secrets.splitLine e.isSpace line).1 ++ Secrets.joinSp ws ++ (Secrets.splitLine e.isSpace line).2.2 := by
  unfold anonymize at h
  cases hs : search t.re line with
  | oof => simp [hs] at h
  | none => simp [hs] at h
  | ok om =>
    cases om with
    | none => left; simp [hs] at h; exact h.symm
    | some mt =>
      right
      simp only [hs] at h
      cases hm : mapRes (anonToken e t) (Secrets.splitLine e.isSpace line).2.1 with
      | ok ws =>
        simp only [hm] at h
        simp at h
        exact ⟨ws, mapRes_length _ _ _ hm, by rw [← h, List.append_assoc]⟩
      | oof => simp [hm] at h
      | none => simp [hm] at h

/-- **Inside a token only matched spans change, each into the pseudonym of exactly the text it matched**
(so the replacement is determined by the salt and the matched text, and text around a match – also
inside a longer string – is carried over). -/
theorem token_only_matched_spans_change (e : WEnv) (t : T) (w out : List Char) (h : anonToken e t w = .ok out) :
    out = w ∨ ∃ segs : List Seg, w = (segs.map Seg.src).flatten ∧ out = (segs.map Seg.dst).flatten ∧
      ∀ sg ∈ segs, ∀ s rp, sg = .rep s rp → rp = replacement t.salt s := by
  unfold anonToken at h
  split at h
  · left; simp at h; exact h.symm
  · right
    obtain ⟨segs, h1, h2, h3⟩ := sub_frame t.re _ w out h
    refine ⟨segs, h1, h2, ?_⟩
    intro sg hsg s rp hst
    obtain ⟨z0, z1, cs, _, _, hrp⟩ := h3 sg hsg s rp hst
    exact hrp

/-- hexadecimal digit characters -/
def isHexDigit (c : Char) : Bool := ('0' ≤ c && c ≤ '9') || ('a' ≤ c && c ≤ 'f')

theorem hexNib_hex : ∀ n, n < 16 → isHexDigit (hexNib n) = true := by decide

theorem hexOfBytes_hex (b : ByteArray) : ∀ c ∈ hexOfBytes b, isHexDigit c = true := by
  intro c hc
  simp only [hexOfBytes, List.mem_flatten, List.mem_map] at hc
  obtain ⟨l, ⟨x, _, rfl⟩, hcl⟩ := hc
  simp only [List.mem_cons, List.not_mem_nil, or_false] at hcl
  rcases hcl with rfl | rfl
  · exact hexNib_hex _ (Nat.mod_lt _ (by decide))
  · exact hexNib_hex _ (Nat.mod_lt _ (by decide))

/-- **The pseudonym consists of at most `wordLen` (= 6) hexadecimal digits** – so under the
property's hypotheses (listed words start and end with a letter outside a–f and contain no run of
six hex digits) a pseudonym can neither spell a listed word nor complete one – **and is a function
of the salt and the matched text only** (it is `replacement salt matched` by definition). -/
theorem pseudonym_alphabet (salt matched : List Char) :
    (∀ c ∈ replacement salt matched, isHexDigit c = true) ∧ (replacement salt matched).length ≤ Generated.wordLen := by
  constructor
  · intro c hc
    exact hexOfBytes_hex _ c (List.mem_of_mem_take hc)
  · simp [replacement, List.length_take]; omega

theorem wordLen_is_six : Generated.wordLen = 6 := by decide

open NoSurvival in
/-- **No listed word survives in a token** that is not itself a conflicting reserved word: after
`_anonymize_sensitive_words`' substitution no listed word (satisfying `WordOK`) matches the output
token at any offset, in any letter case – for every word list, salt, reserved list and token, whenever
the model's substitution ends (it always does within its fuel; out-of-fuel is reported by the
correspondence). -/
theorem no_listed_word_survives_in_token (e : WEnv) (sens : List (List Char)) (salt : List Char) (res : List (List Char))
    (hW : (mk e sens salt res).words ≠ []) (hne : ∀ w ∈ (mk e sens salt res).words, w ≠ [])
    (tok out : List Char) (hnc : (mk e sens salt res).conflicting.contains (lowerStr e tok) = false)
    (h : anonToken e (mk e sens salt res) tok = .ok out) :
    ∀ w ∈ (mk e sens salt res).words, WordOK Generated.wordLen (setsOf e w) → ∀ k, pre (setsOf e w) (out.drop k) = false :=
  token_no_survivor e sens salt res hW hne tok out hnc h

open NoSurvival in
/-- **No listed word survives in a line**, except inside tokens that are exactly a conflicting reserved
word: the output is `leading ++ tokens joined by single spaces ++ trailing`; every output token either
is such a reserved token, kept as written, or contains no occurrence of the word; and when the line
has no such token the whole output line contains no occurrence.  (`out = line` is the case in which the
pattern matches nowhere in the line: then the line has no occurrence to begin with.) -/
theorem no_listed_word_survives_in_line (e : WEnv) (sens : List (List Char)) (salt : List Char) (res : List (List Char))
    (hW : (mk e sens salt res).words ≠ []) (hne : ∀ w ∈ (mk e sens salt res).words, w ≠ [])
    (line out : List Char) (h : anonymize e (mk e sens salt res) line = .ok out)
    (w : List Char) (hw : w ∈ (mk e sens salt res).words) (hok : WordOK Generated.wordLen (setsOf e w))
    (hsp : ∀ c, e.isSpace c = true → Unmatchable (setsOf e w) c) (hblank : e.isSpace ' ' = true) :
    (out = line ∧ NoOcc (setsOf e w) out) ∨
    ∃ outs : List (List Char),
      out = (Secrets.splitLine e.isSpace line).1 ++ Secrets.joinSp outs ++ (Secrets.splitLine e.isSpace line).2.2 ∧
      All2 (fun tok o =>
          (o = tok ∧ (mk e sens salt res).conflicting.contains (lowerStr e tok) = true) ∨ NoOcc (setsOf e w) o)
        (Secrets.splitLine e.isSpace line).2.1 outs ∧
      ((∀ tok ∈ (Secrets.splitLine e.isSpace line).2.1, (mk e sens salt res).conflicting.contains (lowerStr e tok) = false) →
        NoOcc (setsOf e w) out) :=
  line_no_survivor e sens salt res hW hne line out h w hw hok hsp hblank

/-! non-vacuity: an ASCII environment and the word `secret` meet the hypotheses -/
def asciiEnv : WEnv where
  lower c := [c.toLower]
  icase c := if c.isAlpha then [(c.toLower.toNat, c.toLower.toNat), (c.toUpper.toNat, c.toUpper.toNat)] else [(c.toNat, c.toNat)]
  isSpace c := c == ' ' || c == '\t'

open NoSurvival in
example : WordOK Generated.wordLen (setsOf asciiEnv ['s', 'e', 'c', 'r', 'e', 't']) := wordOK_of_b _ _ (by decide +kernel)
open NoSurvival in
/-- …and a word made of hex letters does not (`deadbeef`: the hypotheses are not vacuous either way) -/
example : wordOKb Generated.wordLen (setsOf asciiEnv ['d', 'e', 'a', 'd', 'b', 'e', 'e', 'f']) = false := by decide +kernel

end Netconan.Props.C10
