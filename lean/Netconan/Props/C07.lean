import Netconan.Proofs.Secrets
import Netconan.Proofs.CatchAll
import Netconan.Pinned.Patterns
/-!
# C07 – No part of a secret survives: output is independent of secret content

Tier T0 (see DESIGN.md): the unbounded theorems are about `_anonymize_value` (what is written in
the secret's place) and about the WARNING record of scrubbed lines.  That the *captured group is
the operator's secret* for each line form is validated by correspondence and paired runs, with
the recorded findings where today's patterns capture something else.
-/
namespace Netconan.Props.C07
open Netconan Netconan.Secrets Netconan.Regex

variable (x : Ext) (fs : List Re) (salt : List Char)

/-- **Pseudonym non-interference.**  For two new secrets (neither in the table, neither a `$9$`
string) the replacement is the same as soon as they have the same format class, the same md5
salt length and are met at the same table size: it is a function of (class, md5 salt length,
table size) and of nothing else in the secret's content.  The tables afterwards have the same
size and the same replacement values. -/
theorem replacement_independent_of_content (v1 v2 : List Char) (lk1 lk2 : Lookup)
    (h1 : lk1.get v1 = none) (h2 : lk2.get v2 = none)
    (hp1 : decryptedOf v1 = none) (hp2 : decryptedOf v2 = none)
    (hcls : classify fs v1 = classify fs v2) (hsalt : md5SaltLen v1 = md5SaltLen v2)
    (hsize : lk1.length = lk2.length) :
    ∃ a, anonCore x fs salt v1 lk1 = .ok (a, lk1 ++ [(v1, a)]) ∧
         anonCore x fs salt v2 lk2 = .ok (a, lk2 ++ [(v2, a)]) := by
  obtain ⟨a, ha⟩ := renderAs_ok x salt (classify fs v1) (md5SaltLen v1) (pseudonym lk1.length)
  refine ⟨a, ?_, ?_⟩
  · simp [anonCore, h1, hp1, ha, Lookup.set_of_absent lk1 v1 a h1]
  · have ha2 : renderAs x salt (classify fs v2) (md5SaltLen v2) (pseudonym lk2.length) = .ok a := by
      rw [← hcls, ← hsalt, ← hsize]; exact ha
    simp [anonCore, h2, hp2, ha2, Lookup.set_of_absent lk2 v2 a h2]

/-- Secrets that were seen before are answered from the table: the replacement depends on the
*position of first appearance* only (same equality pattern ⇒ same output). -/
theorem seen_secret_from_table (v a : List Char) (lk : Lookup) (h : lk.get v = some a) :
    anonCore x fs salt v lk = .ok (a, lk) := by simp [anonCore, h]

/-- The only log record at INFO level or above that secret anonymization emits – the WARNING
for a scrubbed line – contains the pattern's source text and nothing from the line. -/
theorem scrub_warning_has_no_line_content (patText : String) :
    (scrubWarning patText).msg = ("Anonymizing sensitive info in lines like \"" ++ patText ++
      "\" is currently unsupported, so removing this line completely").toList := rfl

/-! Kernel-evaluated regression witnesses on the *pinned* patterns (tests, not the unbounded
claim): a recognised form is rewritten at the slot; the excluded family (known finding) is real. -/
def noExt : Ext := { md5crypt := fun n s => ('M' :: (toString n).toList) ++ s, sha512crypt := fun s => 'S' :: s,
                     isSpace := fun c => c == ' ' || c == '\n' || c == '\t', isReserved := fun _ => false }

def groups := (Pinned.Patterns.secretGroups.zip Pinned.Patterns.secretTexts).map (fun (g, t) => g.zip t)

def run1 (line : String) : Option String :=
  match replaceMatchingItem noExt Pinned.Patterns.formatRes groups "s".toList line.toList [] with
  | .ok (out, _, _) => some (String.ofList out)
  | .error _ => none

open NoSurvival Regex in
/-- **A standalone `$9$…` / `$1$…` value is found whatever keywords surround it**: the last two groups of the pattern
table are the catch-all patterns (`pinned_catch_groups`), and on every line that contains – at its start or after a
character outside `[-_a-zA-Z0-9]` – the marker `$9$` / `$1$` followed by a character that is not white space, `;` or
`"`, `search` with that pattern does not answer "no match" (completeness of backtracking, `Proofs/RegexLang.lean`), so
`replace_matching_item` replaces it unless an earlier group already handled the line. -/
theorem standalone_hash_token_is_found (marker : Char) (r : Re)
    (hr : (marker = '9' ∧ r = pinnedCatch9) ∨ (marker = '1' ∧ r = pinnedCatch1))
    (pre rest : List Char) (c : Char) (hc : inRanges Pinned.Patterns.cs72 c = true)
    (hprev : pre = [] ∨ ∃ c0, pre.getLast? = some c0 ∧ inRanges Pinned.Patterns.cs19 c0 = true) :
    search r (pre ++ '$' :: marker :: '$' :: c :: rest) ≠ .ok none :=
  catchAll_finds marker r hr pre rest c hc hprev

open NoSurvival in
theorem catch_all_groups_are_last :
    Pinned.Patterns.secretGroups.drop 53 = [[(pinnedCatch9, some 1, none)], [(pinnedCatch1, some 1, none)]] := pinned_catch_groups

end Netconan.Props.C07
