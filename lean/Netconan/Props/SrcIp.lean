import Netconan.Proofs.SrcTieIp
import Netconan.Proofs.SrcTieText
import Netconan.Props.C03
import Netconan.Props.C05
import Netconan.Props.C17
/-!
# C01–C05, C17 on the *translated source* of the address core

`Generated/SrcIp.lean` is what `harness/py2lean.py` makes of the text of `_BaseIpAnonymizer._anonymize_bits`,
`anonymize`, `_deanonymize_bits`, `deanonymize`, of the seeding loop of `IpAnonymizer.__init__` and of
`IpAnonymizer._is_mask` on this run.  The theorems below restate the main results for those definitions; with
`Proofs/SrcTieIp.lean` they follow from the theorems about the hand-written model.
-/
namespace Netconan.Props.SrcIp
open Netconan Netconan.Spec Netconan.IpCore Netconan.Generated

variable (h : Bits → Bool) (pins : List Bits) (L B : Nat)

/-- **History independence of the source as translated**: the constructor's memo (`bidict({"": ""})` followed by the
seeding loop as written in the source) exists, and every finite sequence of `anonymize` / `deanonymize` calls as written
in the source – every interleaving, every repetition – returns, call by call, the cache-free reference value; nothing
raises (no bidict duplication error, no `IndexError`, and the fuel of the translated recursion suffices). -/
theorem source_history_independent (hL : 0 < L) (ops : List Op) (hops : ∀ op ∈ ops, op.arg < 2 ^ L) :
    ∃ c0 c', Src.seed_loop pins [([], [])] = .ok ((), c0) ∧
      SrcTie.srcRun h L B c0 ops = .ok (ops.map (answer h pins L B), c') := by
  obtain ⟨c0, c', hs, hr⟩ := C03.history_independent h pins L B hL ops hops
  refine ⟨c0, c', ?_, ?_⟩
  · rw [SrcTie.seed_tie, hs]
  · rw [SrcTie.srcRun_tie, hr]

/-- one `anonymize` call of the source on the constructor's memo returns the pure map's value -/
theorem source_anonymize_fresh (hL : 0 < L) (n : Nat) (hn : n < 2 ^ L) :
    ∃ c0 c', Src.seed_loop pins [([], [])] = .ok ((), c0) ∧
      Src.anonymize h L B n c0 = .ok (answer h pins L B (.anon n), c') := by
  obtain ⟨c0, c', hs, hr⟩ := source_history_independent h pins L B hL [.anon n]
    (by intro op hop; simp only [List.mem_singleton] at hop; subst hop; exact hn)
  refine ⟨c0, ?_, hs, ?_⟩
  · exact c'
  · simp only [SrcTie.srcRun, SrcTie.srcStep, List.map] at hr
    cases hx : Src.anonymize h L B n c0 with
    | error e => simp [hx] at hr
    | ok p =>
      obtain ⟨r, c1⟩ := p
      simp only [hx, Except.ok.injEq, Prod.mk.injEq, List.cons.injEq, and_true] at hr
      rw [hr.1, hr.2]

/-- **`_is_mask` of the source accepts exactly the netmask- and wildcard-shaped 32-bit values** -/
theorem source_is_mask_exactly_masks (x : Nat) (hx : x < 2 ^ 32) :
    Src.is_mask x = true ↔ ∃ j, j ≤ 32 ∧ (x = 2 ^ 32 - 2 ^ j ∨ x = 2 ^ j - 1) := by
  rw [SrcTie.is_mask_tie]; exact C05.isMask_exactly_masks x hx

/-- **The stateful replacement of the source is the pure one.**  `_anonymize_match` as written (parse, `should_anonymize`,
memoising `anonymize` / `deanonymize`, print) returns – on the constructor's memo and on every memo reached from it by
any history of calls – exactly `IpText.anonMatch`, the cache-free function that the text-level theorems of C01, C02,
C04, C05 and C06 are about; it never raises, keeps the invariant and only adds memo entries.  IPv4: no side condition. -/
theorem source_replacement_is_pure_v4 (cfg : IpText.IpCfg) (h4 : cfg.fam6 = false) (undo : Bool) (txt : List Char)
    (c : Cache) (hI : Inv cfg.h cfg.pins cfg.L cfg.B c) :
    ∃ c', Src.anonymize_match cfg.h cfg.fam6 cfg.nets cfg.L cfg.B txt undo c = .ok (IpText.anonMatch cfg undo txt, c') ∧
      Inv cfg.h cfg.pins cfg.L cfg.B c' ∧ (∀ e ∈ c, e ∈ c') :=
  SrcTie.anonymize_match_spec_v4 cfg h4 undo txt c hI

/-- **the same for both families, without side condition** (`Proofs/Ipv6Bound.parseV6_lt`: every text the model's IPv6 parser
accepts is a 128-bit value) -/
theorem source_replacement_is_pure (cfg : IpText.IpCfg) (undo : Bool) (txt : List Char)
    (c : Cache) (hI : Inv cfg.h cfg.pins cfg.L cfg.B c) :
    ∃ c', Src.anonymize_match cfg.h cfg.fam6 cfg.nets cfg.L cfg.B txt undo c = .ok (IpText.anonMatch cfg undo txt, c') ∧
      Inv cfg.h cfg.pins cfg.L cfg.B c' ∧ (∀ e ∈ c, e ∈ c') :=
  SrcTie.anonymize_match_spec_all cfg undo txt c hI

/-- **Whole lines**: `anonymize_ip_addr` as written in the source – `pattern.sub` with the memoising `_anonymize_match` as callback,
called once per match from left to right – returns the pure `IpText.anonIpLine` on every reachable memo and keeps the invariant.
`IpText.anonIpLine` is the function the text-level theorems are about (C06 `ipv4_stage_is_the_token_scanner`, C01/C04/C05 text
level, C02 `undo_restores_line`): they hold for the stateful code as written, whatever was anonymized before. -/
theorem source_line_is_pure (cfg : IpText.IpCfg) (undo : Bool) (line : List Char) (c : Cache)
    (hI : Inv cfg.h cfg.pins cfg.L cfg.B c) :
    ∃ c', Src.anonymize_ip_addr cfg.h cfg.fam6 cfg.nets cfg.L cfg.B cfg.pattern line undo c = .ok (IpText.anonIpLine cfg undo line, c') ∧
      Inv cfg.h cfg.pins cfg.L cfg.B c' :=
  SrcTie.anonymize_ip_addr_spec cfg undo line c hI

/-- a whole text: every line of a file, one after the other on the same memo, gets the pure function's answer -/
def srcLines (cfg : IpText.IpCfg) (undo : Bool) : List (List Char) → Cache → Except Err (List (Regex.Res (List Char)) × Cache)
  | [], c => .ok ([], c)
  | l :: ls, c =>
    match Src.anonymize_ip_addr cfg.h cfg.fam6 cfg.nets cfg.L cfg.B cfg.pattern l undo c with
    | .error e => .error e
    | .ok (o, c1) => match srcLines cfg undo ls c1 with
      | .error e => .error e
      | .ok (os, c2) => .ok (o :: os, c2)

theorem source_text_is_pure (cfg : IpText.IpCfg) (undo : Bool) (lines : List (List Char)) (c : Cache)
    (hI : Inv cfg.h cfg.pins cfg.L cfg.B c) :
    ∃ c', srcLines cfg undo lines c = .ok (lines.map (IpText.anonIpLine cfg undo), c') ∧ Inv cfg.h cfg.pins cfg.L cfg.B c' := by
  induction lines generalizing c with
  | nil => exact ⟨c, rfl, hI⟩
  | cons l ls ih =>
    obtain ⟨c1, h1, hI1⟩ := source_line_is_pure cfg undo l c hI
    obtain ⟨c2, h2, hI2⟩ := ih c1 hI1
    exact ⟨c2, by simp only [srcLines, h1, h2, List.map], hI2⟩

/-- the constructor's memo (source seeding loop) satisfies the invariant, so the two theorems above apply from the start -/
theorem source_constructor_memo_invariant :
    ∃ c0, Src.seed_loop pins [([], [])] = .ok ((), c0) ∧ Inv h pins L B c0 := by
  obtain ⟨c0, hs, hI⟩ := seed_spec h pins L B
  exact ⟨c0, by rw [SrcTie.seed_tie, hs], hI⟩

/-- **C17 on the source**: after any history of `anonymize` / `deanonymize` calls as written in the source, on the memo built by the
source's seeding loop, `dump_to_file` as written lists every anonymized address with the image that was returned (as integers), and
what it lists is the full-length part of the memo, on which `C17.dump_is_applied_map` holds. -/
theorem source_dump_is_applied_map (hL : 0 < L) (ops : List Op) (hops : ∀ op ∈ ops, op.arg < 2 ^ L) :
    ∃ c0 c', Src.seed_loop pins [([], [])] = .ok ((), c0) ∧
      SrcTie.srcRun h L B c0 ops = .ok (ops.map (answer h pins L B), c') ∧
      Src.dump_to_file L c' = (dump L c').map (fun e => (ofBits e.1, ofBits e.2)) ∧
      (∀ n, Op.anon n ∈ ops → (ofBits (fmt L n), ofBits (fmt L (FN h pins L B n))) ∈ Src.dump_to_file L c') ∧
      (∀ e ∈ dump L c', e.2 = Ffull h pins L B e.1) := by
  obtain ⟨c0, c', hs, hr, hm, hf, _, _⟩ := C17.dump_is_applied_map h pins L B hL ops hops
  refine ⟨c0, c', ?_, ?_, SrcTie.dump_to_file_tie L c', ?_, hf⟩
  · rw [SrcTie.seed_tie, hs]
  · rw [SrcTie.srcRun_tie, hr]
  · intro n hn
    rw [SrcTie.dump_to_file_tie]
    exact List.mem_map.mpr ⟨_, hm n hn, rfl⟩

/-- Non-vacuity: the translated functions run (kernel evaluation) – preserved prefix `10`, one host bit. -/
example : Except.toOption (do
    let (_, c0) ← Src.seed_loop [[true, false]] [([], [])]
    let (rs, _) ← SrcTie.srcRun C03.hEx 4 1 c0 [.anon 6, .deanon 14, .anon 6, .deanon 6, .anon 11]
    pure rs : Except Err (List Nat)) = some [4, 12, 4, 4, 9] := by decide

end Netconan.Props.SrcIp
