import Netconan.Proofs.SrcTieFull
import Netconan.Proofs.Lines
/-!
# C12–C15 (and C03, C08 through them) on the loop of `anonymize_io` as written, with all of its state

The loop body of `FileAnonymizer.anonymize_io` is translated from the source with its *stateful* stages – the translated
`replace_matching_item` on the lookup table, the translated memoising `anonymize_ip_addr` on the IPv6 and IPv4 memos (`Generated/SrcFull`).
`Proofs/SrcTieFull.line_step_full_spec` shows that on every reachable state it computes the pure step `Lines.lineStep`; here the same for a
whole text, line after line on the same state.  Every theorem about `Lines.anonymizeLines` (one output line per input line, split
invariance, composition of the features, statelessness without secrets, …) is thereby a theorem about the stateful code as written.
-/
namespace Netconan.Props.SrcFull
open Netconan Netconan.Generated Netconan.Lines Netconan.Py Netconan.SrcTie

/-- all lines of a text through the translated loop body, on one state -/
def srcText (p : Pipeline) : List (List Char) → FaState → Except Err ((List (List Char) × List Secrets.LogRec) × FaState)
  | [], s => .ok (([], []), s)
  | l :: ls, s =>
    match Src.line_step_full p l s with
    | .error e => .error e
    | .ok ((o, lg1), s1) =>
      match srcText p ls s1 with
      | .error e => .error e
      | .ok ((os, lg2), s2) => .ok ((o :: os, lg1 ++ lg2), s2)

/-- **One line**: the loop body as written, with the lookup table and both memos as state, is the pure pipeline step. -/
theorem source_loop_body_is_pure_step (p : Pipeline) (line : List Char) (s : FaState) (hg : Good p s) :
    ∃ s', Good p s' ∧
      (match lineStep p s.lk line with
       | .error e => Src.line_step_full p line s = .error e
       | .ok (o, lk', logs) => Src.line_step_full p line s = .ok ((o, logs), s') ∧ s'.lk = lk') :=
  line_step_full_spec p line s hg

/-- **A whole text**: `anonymize_io`'s loop as written gives exactly `Lines.anonymizeLines` – same output lines in the same order, same
WARNING records, same lookup table afterwards, same failure if the model fails – from every state whose memos satisfy the invariant;
the memos keep satisfying it. -/
theorem source_text_is_pure_pipeline (p : Pipeline) (lines : List (List Char)) (s : FaState) (hg : Good p s) :
    ∃ s', Good p s' ∧
      (match anonymizeLines p s.lk lines with
       | .error e => srcText p lines s = .error e
       | .ok (outs, lk', logs) => srcText p lines s = .ok ((outs, logs), s') ∧ s'.lk = lk') := by
  induction lines generalizing s with
  | nil => exact ⟨s, hg, rfl, rfl⟩
  | cons l ls ih =>
    obtain ⟨s1, hg1, h1⟩ := line_step_full_spec p l s hg
    unfold anonymizeLines srcText
    cases hl : lineStep p s.lk l with
    | error e => simp only [hl] at h1; exact ⟨s, hg, by simp only [h1]⟩
    | ok r =>
      obtain ⟨o, lk1, lg1⟩ := r
      simp only [hl] at h1
      obtain ⟨he, hlk⟩ := h1
      obtain ⟨s2, hg2, h2⟩ := ih s1 hg1
      rw [hlk] at h2
      simp only [he]
      cases ha : anonymizeLines p lk1 ls with
      | error e => simp only [ha] at h2; exact ⟨s, hg, by simp only [h2]⟩
      | ok r2 =>
        obtain ⟨os, lk2, lg2⟩ := r2
        simp only [ha] at h2
        exact ⟨s2, hg2, by simp only [h2.1], h2.2⟩

/-- C12 on the code as written: one output line per input line, in order -/
theorem source_one_line_per_line (p : Pipeline) (lines : List (List Char)) (s : FaState) (hg : Good p s)
    (outs : List (List Char)) (logs : List Secrets.LogRec) (s' : FaState) (h : srcText p lines s = .ok ((outs, logs), s')) :
    outs.length = lines.length := by
  obtain ⟨s2, _, h2⟩ := source_text_is_pure_pipeline p lines s hg
  cases ha : anonymizeLines p s.lk lines with
  | error e => simp only [ha] at h2; rw [h2] at h; cases h
  | ok r =>
    obtain ⟨os, lk2, lg2⟩ := r
    simp only [ha] at h2
    rw [h2.1] at h
    simp only [Except.ok.injEq, Prod.mk.injEq] at h
    obtain ⟨⟨rfl, _⟩, _⟩ := h
    exact anonymizeLines_length p lines s.lk _ _ _ ha

end Netconan.Props.SrcFull
