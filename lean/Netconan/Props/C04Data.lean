import Netconan.Generated.Tables
/-!
# C04 – documented defaults, decided by the kernel on data regenerated from /repo

The default preserved list is exactly the IPv4 class prefixes A–D(E) followed by the three
RFC 1918 blocks; the command line's default string denotes the same list; the command line's
default number of preserved host bits is 8.
-/
namespace Netconan.Props.C04Data
open Netconan.Generated

def b (s : String) : List Bool := s.toList.map (· == '1')

/-- 0.0.0.0/1, 128.0.0.0/2, 192.0.0.0/3, 224.0.0.0/4 -/
def specClasses : List (List Bool) := [b "0", b "10", b "110", b "1110"]
/-- 10.0.0.0/8, 172.16.0.0/12, 192.168.0.0/16 -/
def specRfc1918 : List (List Bool) := [b "00001010", b "101011000001", b "1100000010101000"]

theorem default_list_is_documented : ipDefaultPrefixes = specClasses ++ specRfc1918 := by decide
theorem classes_documented : ipClasses = specClasses := by decide
theorem rfc1918_documented : ipRfc1918 = specRfc1918 := by decide
theorem cli_default_is_the_same_list : cliDefaultPrefixes = specClasses ++ specRfc1918 := by decide
theorem cli_default_host_bits : cliDefaultHostBits = 8 := by decide

end Netconan.Props.C04Data
