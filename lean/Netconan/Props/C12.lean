import Netconan.Proofs.Lines
import Netconan.Proofs.SecretFrame
import Netconan.Props.C06
import Netconan.Props.C11
/-!
# C12 – Non-sensitive text and line structure are conserved
-/
namespace Netconan.Props.C12
open Netconan Netconan.Lines Netconan.Secrets

/-- splitting a text into lines loses nothing: the lines, terminators included, concatenate to the text -/
theorem readlines_lossless (s : List Char) : (readlinesLF s).flatten = s := readlinesLF_flatten s

/-- **Exactly one output line per input line, in order**, for every pipeline (feature subset),
lookup state and text. -/
theorem one_line_per_line (p : Pipeline) (lk : Lookup) (lines : List (List Char)) (outs lk' logs)
    (h : anonymizeLines p lk lines = .ok (outs, lk', logs)) : outs.length = lines.length :=
  anonymizeLines_length p lines lk outs lk' logs h

/-- **Each output line depends only on its own input line and on the secrets seen before it**:
processing a text in two parts, with the lookup table carried over, gives the same lines as
processing it in one go (hence any split of the line sequence across calls is harmless). -/
theorem split_invariance (p : Pipeline) (a b : List (List Char)) (lk : Lookup) :
    anonymizeLines p lk (a ++ b) =
      (match anonymizeLines p lk a with
       | .error e => .error e
       | .ok (o1, lk1, g1) =>
         match anonymizeLines p lk1 b with
         | .error e => .error e
         | .ok (o2, lk2, g2) => .ok (o1 ++ o2, lk2, g1 ++ g2)) := anonymizeLines_append p a b lk

/-- Without secret anonymization a line's output is a function of that line alone. -/
theorem stateless_without_secrets (p : Pipeline) (hs : p.secrets = none) (lk : Lookup) (line : List Char) :
    lineStep p lk line = (pureStages p line).map (fun o => (o, lk, [])) := lineStep_stateless p hs lk line

/-- The secret stage re-attaches leading and trailing white space (and enclosing characters of the
whole line) verbatim around the rewritten body. -/
theorem secret_stage_keeps_line_frame (x : Ext) (fs groups) (salt input : List Char) (lk : Lookup) (out lk' logs)
    (h : replaceMatchingItem x fs groups salt input lk = .ok (out, lk', logs)) :
    ∃ leading body trailing body',
      leading ++ body ++ trailing =
        (splitLine x.isSpace input).1 ++ joinSp (splitLine x.isSpace input).2.1 ++ (splitLine x.isSpace input).2.2 ∧
      out = leading ++ body' ++ trailing := by
  unfold replaceMatchingItem at h
  simp only at h
  have hc := extractEnclosing_concat ((joinSp (splitLine x.isSpace input).2.1).length + 1)
    (joinSp (splitLine x.isSpace input).2.1) (splitLine x.isSpace input).1 (splitLine x.isSpace input).2.2
  revert hc h
  generalize extractEnclosing _ _ _ _ = e
  obtain ⟨ld, body, tr⟩ := e
  intro h hc
  simp only at h hc
  cases hg : applyGroups x fs salt groups body lk [] with
  | error e => simp [hg] at h
  | ok p =>
    simp [hg] at h
    exact ⟨ld, body, tr, p.1, hc, by rw [← h.1, List.append_assoc]⟩

/-- **The secret stage changes a line only inside spans matched by one of its patterns.**  The body of the
line (between the re-attached frame) is rewritten in finitely many rounds; each round cuts the current text
into kept characters and spans matched by one pattern of the configured groups, and replaces only the spans
(`Secrets.Rew`, `Secrets.FrameStep`).  For every group list, salt, lookup state and line. -/
theorem secret_stage_changes_only_matched_spans (x : Ext) (fs groups) (salt input : List Char) (lk : Lookup)
    (out lk' logs) (h : replaceMatchingItem x fs groups salt input lk = .ok (out, lk', logs)) :
    ∃ leading body trailing body',
      leading ++ body ++ trailing =
        (splitLine x.isSpace input).1 ++ joinSp (splitLine x.isSpace input).2.1 ++ (splitLine x.isSpace input).2.2 ∧
      out = leading ++ body' ++ trailing ∧
      Rew (groups.flatten.map (·.1.1)) body body' := by
  unfold replaceMatchingItem at h
  simp only at h
  have hc := extractEnclosing_concat ((joinSp (splitLine x.isSpace input).2.1).length + 1)
    (joinSp (splitLine x.isSpace input).2.1) (splitLine x.isSpace input).1 (splitLine x.isSpace input).2.2
  revert hc h
  generalize extractEnclosing _ _ _ _ = e
  obtain ⟨ld, body, tr⟩ := e
  intro h hc
  simp only at h hc
  cases hg : applyGroups x fs salt groups body lk [] with
  | error e => simp [hg] at h
  | ok p =>
    obtain ⟨o, l, g⟩ := p
    simp [hg] at h
    exact ⟨ld, body, tr, o, hc, by rw [← h.1, List.append_assoc], applyGroups_rew x fs salt groups body lk [] o l g hg⟩

/-- a line no pattern of the groups matches anywhere is returned verbatim (the rewriting has no round to make):
if every round's span list is empty the text is unchanged -/
theorem frameStep_no_span (r : Regex.Re) (a b : List Char) (h : FrameStep r a b)
    (hn : ∀ z0 z1 cs fuel, Regex.matchAt r fuel z0 ≠ .ok (z1, cs)) : a = b := by
  obtain ⟨segs, h1, h2, h3⟩ := h
  rw [h1, h2]
  congr 1
  apply List.map_congr_left
  intro sg hsg
  cases sg with
  | keep c => rfl
  | rep t rp =>
    obtain ⟨z0, z1, cs, fuel, hm, _⟩ := h3 _ hsg t rp rfl
    exact absurd hm (hn z0 z1 cs fuel)

open Netconan.Regex in
theorem disjointFrom_spec (a b : List (Nat × Nat)) (h : C06.disjointFrom a b = true) (c : Char)
    (ha : inRanges a c = true) : inRanges b c = false := by
  simp only [inRanges, List.any_eq_true, Bool.and_eq_true, decide_eq_true_eq] at ha
  obtain ⟨r, hr, h1, h2⟩ := ha
  simp only [C06.disjointFrom, List.all_eq_true, Bool.or_eq_true, decide_eq_true_eq] at h
  cases hb : inRanges b c with
  | false => rfl
  | true =>
    simp only [inRanges, List.any_eq_true, Bool.and_eq_true, decide_eq_true_eq] at hb
    obtain ⟨s, hs, h3, h4⟩ := hb
    rcases h r hr s hs with h5 | h5 <;> omega

open Netconan.Regex Netconan.IpText in
/-- **The IP stages cannot touch white space or line terminators**: everything they change lies inside
spans free of white-space characters (so leading/trailing white space and the terminator of a line
pass through them verbatim).  For the patterns regenerated from /repo in this run. -/
theorem ip_stage_changes_no_space (c : IpCfg)
    (hp : c.pattern = Generated.Patterns.ipv4 ∨ c.pattern = Generated.Patterns.ipv6) (undo : Bool)
    (line out : List Char) (h : anonIpLine c undo line = .ok out) :
    ∃ segs : List Seg, line = (segs.map Seg.src).flatten ∧ out = (segs.map Seg.dst).flatten ∧
      ∀ sg ∈ segs, ∀ t rp, sg = .rep t rp → ∀ ch ∈ t, inRanges Generated.Patterns.spaceSet ch = false := by
  obtain ⟨segs, h1, h2, h3⟩ := C06.only_matched_spans_change c undo line out h
  refine ⟨segs, h1, h2, ?_⟩
  intro sg hsg t rp hst ch hch
  have hal := (h3 sg hsg t rp hst).2 ch hch
  rcases hp with hp | hp
  · rw [hp] at hal; exact disjointFrom_spec _ _ C06.no_space_in_spans_regenerated.1 ch hal
  · rw [hp] at hal; exact disjointFrom_spec _ _ C06.no_space_in_spans_regenerated.2 ch hal

end Netconan.Props.C12
