import Netconan.Proofs.Lines
/-!
# C12 – Non-sensitive text and line structure are conserved
-/
namespace Netconan.Props.C12
open Netconan Netconan.Lines Netconan.Secrets

/-- splitting a text into lines loses nothing: the lines, terminators included, concatenate to the text -/
theorem readlines_lossless (s : List Char) : (readlinesLF s).flatten = s := readlinesLF_flatten s

/-- **Exactly one output line per input line, in order**, for every pipeline (feature subset),
lookup state and text. -/
theorem one_line_per_line (p : Pipeline) (lk : Lookup) (lines : List (List Char)) (outs lk' logs)
    (h : anonymizeLines p lk lines = .ok (outs, lk', logs)) : outs.length = lines.length :=
  anonymizeLines_length p lines lk outs lk' logs h

/-- **Each output line depends only on its own input line and on the secrets seen before it**:
processing a text in two parts, with the lookup table carried over, gives the same lines as
processing it in one go (hence any split of the line sequence across calls is harmless). -/
theorem split_invariance (p : Pipeline) (a b : List (List Char)) (lk : Lookup) :
    anonymizeLines p lk (a ++ b) =
      (match anonymizeLines p lk a with
       | .error e => .error e
       | .ok (o1, lk1, g1) =>
         match anonymizeLines p lk1 b with
         | .error e => .error e
         | .ok (o2, lk2, g2) => .ok (o1 ++ o2, lk2, g1 ++ g2)) := anonymizeLines_append p a b lk

/-- Without secret anonymization a line's output is a function of that line alone. -/
theorem stateless_without_secrets (p : Pipeline) (hs : p.secrets = none) (lk : Lookup) (line : List Char) :
    lineStep p lk line = (pureStages p line).map (fun o => (o, lk, [])) := lineStep_stateless p hs lk line

/-- The secret stage re-attaches leading and trailing white space (and enclosing characters of the
whole line) verbatim around the rewritten body. -/
theorem secret_stage_keeps_line_frame (x : Ext) (fs groups) (salt input : List Char) (lk : Lookup) (out lk' logs)
    (h : replaceMatchingItem x fs groups salt input lk = .ok (out, lk', logs)) :
    ∃ leading body trailing body',
      leading ++ body ++ trailing =
        (splitLine x.isSpace input).1 ++ joinSp (splitLine x.isSpace input).2.1 ++ (splitLine x.isSpace input).2.2 ∧
      out = leading ++ body' ++ trailing := by
  unfold replaceMatchingItem at h
  simp only at h
  have hc := extractEnclosing_concat ((joinSp (splitLine x.isSpace input).2.1).length + 1)
    (joinSp (splitLine x.isSpace input).2.1) (splitLine x.isSpace input).1 (splitLine x.isSpace input).2.2
  revert hc h
  generalize extractEnclosing _ _ _ _ = e
  obtain ⟨ld, body, tr⟩ := e
  intro h hc
  simp only at h hc
  cases hg : applyGroups x fs salt groups body lk [] with
  | error e => simp [hg] at h
  | ok p =>
    simp [hg] at h
    exact ⟨ld, body, tr, p.1, hc, by rw [← h.1, List.append_assoc]⟩

end Netconan.Props.C12
