import Netconan.Proofs.SrcTieCli
import Netconan.Props.C19
/-!
# C19 on the *translated source* of `netconan.netconan.main`

`Generated/SrcCli.lean` is `main` after `_parse_args` (the checks in their order, the list splitting, the merge of
`--preserve-private-addresses`, the no-feature case and the call of `anonymize_files`), translated from the source
text on this run.  `Proofs/SrcTieCli.main_tie` proves that it decides exactly as `Cli.decideArgs`; the theorems
below restate the contract for the translated function.
-/
namespace Netconan.Props.SrcCli
open Netconan Netconan.Cli Netconan.Generated

/-- **Whatever `main` as written in the source hands to `anonymize_files` passed every check** (no contradictory or
unusable combination, host bits within 0..32 and equal for both families, at least one feature on). -/
theorem source_call_implies_valid (a : Args) (inp outp : String) (hb : Nat)
    (h1 : resolveOpt a.input = some inp) (h2 : resolveOpt a.output = some outp)
    (h3 : parseHostBits (resolve a.hostBits "8") = some hb) (p : Params)
    (h : Src.main (parsedOf a inp outp hb) = .ok (.call p)) :
    p.input.isEmpty = false ∧ p.output.isEmpty = false ∧ ¬ (p.undo = true ∧ p.anonIp = true) ∧ (p.undo = true → p.salt.isSome = true)
    ∧ (p.dump.isSome = true → p.anonIp = true) ∧ p.suffixV4 ≤ 32 ∧ p.suffixV4 = p.suffixV6
    ∧ (p.asNumbers.isSome = true ∨ p.words.isSome = true ∨ p.anonPwd = true ∨ p.anonIp = true ∨ p.undo = true) := by
  rw [SrcTie.main_tie a inp outp hb h1 h2 h3] at h
  apply C19.call_implies_valid a p
  cases hd : decideArgs a with
  | reject r => simp [hd, SrcTie.outcomeOf] at h
  | noop => simp [hd, SrcTie.outcomeOf] at h
  | call q => simp only [hd, SrcTie.outcomeOf, Except.ok.injEq, Outcome.call.injEq] at h; rw [h]

/-- **a rejection by `main` happens before anything is called**: the translated function returns either a rejection,
the no-feature outcome or exactly one call – and it rejects exactly when the model's checks do -/
theorem source_rejects_iff (a : Args) (inp outp : String) (hb : Nat)
    (h1 : resolveOpt a.input = some inp) (h2 : resolveOpt a.output = some outp)
    (h3 : parseHostBits (resolve a.hostBits "8") = some hb) (r : Reject) :
    Src.main (parsedOf a inp outp hb) = .error r ↔ decideArgs a = .reject r := by
  rw [SrcTie.main_tie a inp outp hb h1 h2 h3]
  cases hd : decideArgs a <;> simp [SrcTie.outcomeOf]

/-- with no anonymization option the translated `main` calls nothing -/
theorem source_no_feature_noop (a : Args) (inp outp : String) (hb : Nat)
    (hi : resolveOpt a.input = some inp) (ho : resolveOpt a.output = some outp)
    (hh : parseHostBits (resolve a.hostBits "8") = some hb)
    (hc : checks inp outp (resolve a.undo false) (resolve a.anonymizeIps false) (resolveOpt a.salt) (resolveOpt a.dump) = none)
    (h1 : resolveOpt a.asNumbers = none) (h2 : resolveOpt a.words = none)
    (h3 : resolve a.anonymizePasswords false = false) (h4 : resolve a.anonymizeIps false = false)
    (h5 : resolve a.undo false = false) : Src.main (parsedOf a inp outp hb) = .ok .noop := by
  rw [SrcTie.main_tie a inp outp hb hi ho hh, C19.no_feature_noop a inp outp hb hi ho hh hc h1 h2 h3 h4 h5]
  rfl

/-- Non-vacuity (kernel evaluation of the translated function): undo without salt is refused; a plain `-a` run calls. -/
example : Src.main (parsedOf { input := ⟨some "i", none⟩, output := ⟨none, some "o"⟩, undo := ⟨some true, none⟩ } "i" "o" 8)
    = .error .undoWithoutSalt := by decide +kernel
example : (match Src.main (parsedOf { input := ⟨some "i", none⟩, output := ⟨some "o", none⟩, anonymizeIps := ⟨none, some true⟩ } "i" "o" 8) with
    | .ok (.call p) => p.anonIp && p.suffixV4 == 8 | _ => false) = true := by decide +kernel

end Netconan.Props.SrcCli
