import Netconan.Model.Cli
/-!
# C19 – Command-line contract: validation, precedence and option equivalences

The theorems are close to the model's definition; the assurance for this property comes mainly
from the tie (every option in {absent, command line, config file, both}, exhaustively for the
validation-relevant options, against `netconan.netconan.main` with `anonymize_files` recorded).
-/
namespace Netconan.Props.C19
open Netconan.Cli

/-- command line wins over config file, config file over default -/
theorem precedence {α} (c f d : α) :
    resolve ⟨some c, some f⟩ d = c ∧ resolve ⟨some c, none⟩ d = c ∧
    resolve ⟨none, some f⟩ d = f ∧ resolve (⟨none, none⟩ : Src α) d = d := ⟨rfl, rfl, rfl, rfl⟩

/-- an option behaves the same wherever it is given -/
theorem source_irrelevant {α} (v d : α) : resolve ⟨some v, none⟩ d = resolve ⟨none, some v⟩ d := rfl

theorem checks_none (inp outp : String) (undo ips : Bool) (salt dump : Option String)
    (h : checks inp outp undo ips salt dump = none) :
    inp.isEmpty = false ∧ outp.isEmpty = false ∧ ¬ (undo = true ∧ ips = true) ∧ (undo = true → salt.isSome = true)
    ∧ (dump.isSome = true → ips = true) := by
  unfold checks at h
  cases hi : inp.isEmpty <;> cases ho : outp.isEmpty <;> cases undo <;> cases ips <;> cases salt <;> cases dump <;> simp_all

theorem parseHostBits_le (s : String) (hb : Nat) (h : parseHostBits s = some hb) : hb ≤ 32 := by
  unfold parseHostBits at h
  split at h
  · simp at h
  · simp only at h
    split at h
    · simp at h; omega
    · simp at h

/-- **Whatever reaches the library passed every check**: the contradictory or unusable combinations
(undo together with anonymize, undo without salt, map dump without IP anonymization, host bits outside
0–32, missing or empty input/output) are rejected before `anonymize_files` is called, so before anything
is written; both families get the same number of host bits. -/
theorem call_implies_valid (a : Args) (p : Params) (h : decideArgs a = .call p) :
    p.input.isEmpty = false ∧ p.output.isEmpty = false ∧ ¬ (p.undo = true ∧ p.anonIp = true) ∧ (p.undo = true → p.salt.isSome = true)
    ∧ (p.dump.isSome = true → p.anonIp = true) ∧ p.suffixV4 ≤ 32 ∧ p.suffixV4 = p.suffixV6
    ∧ (p.asNumbers.isSome = true ∨ p.words.isSome = true ∨ p.anonPwd = true ∨ p.anonIp = true ∨ p.undo = true) := by
  unfold decideArgs at h
  split at h
  · next inp outp hb hi ho hhb =>
    simp only at h
    split at h
    · simp at h
    · next hc =>
      obtain ⟨c1, c2, c3, c4, c5⟩ := checks_none _ _ _ _ _ _ hc
      split at h
      · simp at h
      · next hany =>
        simp only [Outcome.call.injEq] at h
        subst h
        refine ⟨c1, c2, c3, c4, c5, parseHostBits_le _ _ hhb, rfl, ?_⟩
        simp only [Bool.not_eq_true', Bool.not_eq_false] at hany
        simp only [Bool.or_eq_true] at hany
        simp only
        rcases hany with (((h1 | h2) | h3) | h4) | h5
        · exact Or.inl h1
        · exact Or.inr (Or.inl h2)
        · exact Or.inr (Or.inr (Or.inl h3))
        · exact Or.inr (Or.inr (Or.inr (Or.inl h4)))
        · exact Or.inr (Or.inr (Or.inr (Or.inr h5)))
  · simp at h

/-- with no anonymization option nothing is called (hence nothing written) -/
theorem no_feature_noop (a : Args) (inp outp : String) (hb : Nat)
    (hi : resolveOpt a.input = some inp) (ho : resolveOpt a.output = some outp)
    (hh : parseHostBits (resolve a.hostBits "8") = some hb)
    (hc : checks inp outp (resolve a.undo false) (resolve a.anonymizeIps false) (resolveOpt a.salt) (resolveOpt a.dump) = none)
    (h1 : resolveOpt a.asNumbers = none) (h2 : resolveOpt a.words = none)
    (h3 : resolve a.anonymizePasswords false = false) (h4 : resolve a.anonymizeIps false = false)
    (h5 : resolve a.undo false = false) : decideArgs a = .noop := by
  unfold decideArgs
  simp only [hi, ho, hh]
  rw [h4, h5] at hc
  simp [hc, h1, h2, h3, h4, h5]

/-- the documented defaults: 8 host bits for both families; class and private prefixes -/
theorem default_host_bits : parseHostBits (resolve (⟨none, none⟩ : Src String) "8") = some 8 := by decide +kernel
theorem default_prefixes : splitComma (resolve (⟨none, none⟩ : Src String) defaultPrefixes) =
    ["0.0.0.0/1", "128.0.0.0/2", "192.0.0.0/3", "224.0.0.0/4", "10.0.0.0/8", "172.16.0.0/12", "192.168.0.0/16"] := by decide +kernel

/-- `--preserve-private-addresses` equals listing the three RFC 1918 networks as preserved addresses
(after whatever was listed explicitly) -/
theorem private_equals_listing (addrs : Option (List String)) :
    mergePrivate true addrs = some ((addrs.getD []) ++ ["10.0.0.0/8", "172.16.0.0/12", "192.168.0.0/16"]) := by
  cases addrs <;> simp [mergePrivate, rfc1918]

example : decideArgs { input := ⟨some "i", none⟩, output := ⟨none, some "o"⟩, undo := ⟨some true, none⟩ } = .reject .undoWithoutSalt := by decide +kernel
example : decideArgs { input := ⟨some "i", none⟩, output := ⟨some "o", none⟩, hostBits := ⟨some "33", some "8"⟩, anonymizeIps := ⟨some true, none⟩ } = .reject .argparse := by decide +kernel
example : decideArgs { input := ⟨some "i", none⟩, output := ⟨some "o", none⟩ } = .noop := by decide +kernel

end Netconan.Props.C19
