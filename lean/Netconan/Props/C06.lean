import Netconan.Model.IpText
import Netconan.Pinned.Patterns
import Netconan.Generated.Patterns
import Netconan.Proofs.RegexAlpha
/-!
# C06 – Address substitution in text  (tier T0 + alphabet analysis)

Proved for every line: `anonymize_ip_addr` changes nothing but spans that the address pattern matched
(frame theorem of the engine), every such span is replaced by `anonMatch` of it – either the span
itself (mask, preserved address, unparsable) or the canonical text of the image – and, by the
verified alphabet analysis evaluated by the kernel on the pinned *and* on the regenerated pattern
trees, an IPv4 span consists of decimal digits and dots only and no span of either family contains
white space.  Not yet proved (validated exhaustively on short strings and on structured tokens
against an independent scanner, see DESIGN.md): that the spans are exactly the valid standalone
address tokens.
-/
namespace Netconan.Props.C06
open Netconan Netconan.IpText Netconan.Regex

/-- **Only matched spans change, each into the replacement of that span.** -/
theorem only_matched_spans_change (c : IpCfg) (undo : Bool) (line out : List Char)
    (h : anonIpLine c undo line = .ok out) :
    ∃ segs : List Seg, line = (segs.map Seg.src).flatten ∧ out = (segs.map Seg.dst).flatten ∧
      ∀ sg ∈ segs, ∀ t rp, sg = .rep t rp →
        rp = anonMatch c undo t ∧ (∀ ch ∈ t, inRanges c.pattern.alpha ch = true) := by
  obtain ⟨segs, h1, h2, h3⟩ := sub_frame c.pattern _ line out h
  refine ⟨segs, h1, h2, ?_⟩
  intro sg hsg t rp hst
  obtain ⟨z0, z1, cs, hm, ht, hrp⟩ := h3 sg hsg t rp hst
  refine ⟨hrp, ?_⟩
  rw [ht]
  exact match_text_in_alpha c.pattern _ z0 z1 cs hm

/-- what a span is replaced by: itself, or the canonical text of an address -/
theorem replacement_is_span_or_canonical (c : IpCfg) (undo : Bool) (t : List Char) :
    anonMatch c undo t = t ∨ ∃ v, anonMatch c undo t = (if c.fam6 then showV6 v else showV4 v) := by
  unfold anonMatch
  split
  · left; rfl
  · split
    · left; rfl
    · right; exact ⟨_, rfl⟩

def digitsAndDot (rs : List (Nat × Nat)) : Bool := rs.all (fun r => (r.1 == 46 && r.2 == 46) || (48 ≤ r.1 && r.2 ≤ 57))
def disjointFrom (a b : List (Nat × Nat)) : Bool := a.all (fun r => b.all (fun s => r.2 < s.1 || s.2 < r.1))

/-- the IPv4 pattern consumes decimal digits and dots only; neither address pattern consumes white
space (kernel-evaluated verified analysis; on the pinned trees and on the trees regenerated from
/repo in this run) -/
theorem ipv4_alphabet_pinned : digitsAndDot Pinned.Patterns.ipv4.alpha = true := by decide +kernel
theorem ipv4_alphabet_regenerated : digitsAndDot Generated.Patterns.ipv4.alpha = true := by decide +kernel
theorem no_space_in_spans_pinned :
    disjointFrom Pinned.Patterns.ipv4.alpha Pinned.Patterns.spaceSet = true ∧
    disjointFrom Pinned.Patterns.ipv6.alpha Pinned.Patterns.spaceSet = true := by decide +kernel
theorem no_space_in_spans_regenerated :
    disjointFrom Generated.Patterns.ipv4.alpha Generated.Patterns.spaceSet = true ∧
    disjointFrom Generated.Patterns.ipv6.alpha Generated.Patterns.spaceSet = true := by decide +kernel

/-- meaning of the evaluated predicate: every consumed character is `.` (code point 46) or a decimal digit (48–57) -/
theorem digitsAndDot_spec (rs : List (Nat × Nat)) (h : digitsAndDot rs = true) (c : Char) (hc : inRanges rs c = true) :
    c.toNat = 46 ∨ (48 ≤ c.toNat ∧ c.toNat ≤ 57) := by
  simp only [inRanges, List.any_eq_true, Bool.and_eq_true, decide_eq_true_eq] at hc
  obtain ⟨r, hr, h1, h2⟩ := hc
  simp only [digitsAndDot, List.all_eq_true, Bool.or_eq_true, Bool.and_eq_true, beq_iff_eq, decide_eq_true_eq] at h
  rcases h r hr with ⟨a, b⟩ | ⟨a, b⟩
  · left; omega
  · right; omega

/-- hence: a span replaced by the IPv4 stage consists of digits and dots (regenerated pattern) -/
theorem ipv4_spans_are_digits_and_dots (c : IpCfg) (hp : c.pattern = Generated.Patterns.ipv4) (undo : Bool)
    (line out : List Char) (h : anonIpLine c undo line = .ok out) :
    ∃ segs : List Seg, line = (segs.map Seg.src).flatten ∧ out = (segs.map Seg.dst).flatten ∧
      ∀ sg ∈ segs, ∀ t rp, sg = .rep t rp → ∀ ch ∈ t, ch.toNat = 46 ∨ (48 ≤ ch.toNat ∧ ch.toNat ≤ 57) := by
  obtain ⟨segs, h1, h2, h3⟩ := only_matched_spans_change c undo line out h
  refine ⟨segs, h1, h2, ?_⟩
  intro sg hsg t rp hst ch hch
  have := (h3 sg hsg t rp hst).2 ch hch
  rw [hp] at this
  exact digitsAndDot_spec _ ipv4_alphabet_regenerated ch this

/-- leading zeros are dropped, not read as octal; printing is canonical (kernel-evaluated tests) -/
example : parseV4 "1.2.3.040".toList = .ok 0x01020328 := by decide +kernel
example : parseV4 "1.2.3.256".toList = .error .addressValue := by decide +kernel
example : showV6 1 = "::1".toList := by decide +kernel
example : parseV6 "2001:DB8::1".toList = .ok 0x20010db8000000000000000000000001 := by decide +kernel
example : parseV6 "fe80:".toList = .error .addressValue := by decide +kernel
example : showV6 0x20010db8000000000000000000000001 = "2001:db8::1".toList := by decide +kernel

end Netconan.Props.C06
