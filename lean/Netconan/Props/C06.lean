import Netconan.Model.IpText
import Netconan.Pinned.Patterns
import Netconan.Generated.Patterns
import Netconan.Proofs.RegexAlpha
import Netconan.Proofs.Ipv4Pinned
import Netconan.Proofs.Ipv4Parse
/-!
# C06 – Address substitution in text  (tier T0 + alphabet analysis)

Proved for every line: `anonymize_ip_addr` changes nothing but spans that the address pattern matched
(frame theorem of the engine), every such span is replaced by `anonMatch` of it – either the span
itself (mask, preserved address, unparsable) or the canonical text of the image – and, by the
verified alphabet analysis evaluated by the kernel on the pinned *and* on the regenerated pattern
trees, an IPv4 span consists of decimal digits and dots only and no span of either family contains
white space.

**Completeness and exactness** (`ipv4_stage_is_the_token_scanner`, `ipv6_stage_is_the_pattern_scanner`):
the stage is a left-to-right scan in which a span is replaced *iff* a word of the pattern's core
language stands alone at that position (previous character outside `[a-zA-Z0-9.]` resp. `[a-zA-Z0-9:]`
or none; next character outside it, end of line or final newline).  For IPv4 the core language is
characterised arithmetically (`lang_core4_iff`): four parts separated by dots, each a non-empty string
of decimal digits of value ≤ 255 with any number of leading zeros – so octets above 255, wrong
numbers of parts and tokens glued to letters, digits or dots are left alone, and every valid standalone
token is replaced *as a whole* (`ipv4_replaced_span_is_the_whole_token`).  Proved from two general
theorems about the engine (`Proofs/RegexLang.lean`): soundness and **completeness of backtracking**
with respect to the declarative reading `Lang` of a look-around-free pattern.  For IPv6 the core
language is the declarative reading of the pattern itself; which of several standalone words the
engine picks when one is a prefix of another (`::ffff:1` in `::ffff:1.2.3.4`) is the recorded finding.
-/
namespace Netconan.Props.C06
open Netconan Netconan.IpText Netconan.Regex

/-- **Only matched spans change, each into the replacement of that span.** -/
theorem only_matched_spans_change (c : IpCfg) (undo : Bool) (line out : List Char)
    (h : anonIpLine c undo line = .ok out) :
    ∃ segs : List Seg, line = (segs.map Seg.src).flatten ∧ out = (segs.map Seg.dst).flatten ∧
      ∀ sg ∈ segs, ∀ t rp, sg = .rep t rp →
        rp = anonMatch c undo t ∧ (∀ ch ∈ t, inRanges c.pattern.alpha ch = true) := by
  obtain ⟨segs, h1, h2, h3⟩ := sub_frame c.pattern _ line out h
  refine ⟨segs, h1, h2, ?_⟩
  intro sg hsg t rp hst
  obtain ⟨z0, z1, cs, hm, ht, hrp⟩ := h3 sg hsg t rp hst
  refine ⟨hrp, ?_⟩
  rw [ht]
  exact match_text_in_alpha c.pattern _ z0 z1 cs hm

/-- what a span is replaced by: itself, or the canonical text of an address -/
theorem replacement_is_span_or_canonical (c : IpCfg) (undo : Bool) (t : List Char) :
    anonMatch c undo t = t ∨ ∃ v, anonMatch c undo t = (if c.fam6 then showV6 v else showV4 v) := by
  unfold anonMatch
  split
  · left; rfl
  · split
    · left; rfl
    · right; exact ⟨_, rfl⟩

def digitsAndDot (rs : List (Nat × Nat)) : Bool := rs.all (fun r => (r.1 == 46 && r.2 == 46) || (48 ≤ r.1 && r.2 ≤ 57))
def disjointFrom (a b : List (Nat × Nat)) : Bool := a.all (fun r => b.all (fun s => r.2 < s.1 || s.2 < r.1))

/-- the IPv4 pattern consumes decimal digits and dots only; neither address pattern consumes white
space (kernel-evaluated verified analysis; on the pinned trees and on the trees regenerated from
/repo in this run) -/
theorem ipv4_alphabet_pinned : digitsAndDot Pinned.Patterns.ipv4.alpha = true := by decide +kernel
theorem ipv4_alphabet_regenerated : digitsAndDot Generated.Patterns.ipv4.alpha = true := by decide +kernel
theorem no_space_in_spans_pinned :
    disjointFrom Pinned.Patterns.ipv4.alpha Pinned.Patterns.spaceSet = true ∧
    disjointFrom Pinned.Patterns.ipv6.alpha Pinned.Patterns.spaceSet = true := by decide +kernel
theorem no_space_in_spans_regenerated :
    disjointFrom Generated.Patterns.ipv4.alpha Generated.Patterns.spaceSet = true ∧
    disjointFrom Generated.Patterns.ipv6.alpha Generated.Patterns.spaceSet = true := by decide +kernel

/-- meaning of the evaluated predicate: every consumed character is `.` (code point 46) or a decimal digit (48–57) -/
theorem digitsAndDot_spec (rs : List (Nat × Nat)) (h : digitsAndDot rs = true) (c : Char) (hc : inRanges rs c = true) :
    c.toNat = 46 ∨ (48 ≤ c.toNat ∧ c.toNat ≤ 57) := by
  simp only [inRanges, List.any_eq_true, Bool.and_eq_true, decide_eq_true_eq] at hc
  obtain ⟨r, hr, h1, h2⟩ := hc
  simp only [digitsAndDot, List.all_eq_true, Bool.or_eq_true, Bool.and_eq_true, beq_iff_eq, decide_eq_true_eq] at h
  rcases h r hr with ⟨a, b⟩ | ⟨a, b⟩
  · left; omega
  · right; omega

/-- hence: a span replaced by the IPv4 stage consists of digits and dots (regenerated pattern) -/
theorem ipv4_spans_are_digits_and_dots (c : IpCfg) (hp : c.pattern = Generated.Patterns.ipv4) (undo : Bool)
    (line out : List Char) (h : anonIpLine c undo line = .ok out) :
    ∃ segs : List Seg, line = (segs.map Seg.src).flatten ∧ out = (segs.map Seg.dst).flatten ∧
      ∀ sg ∈ segs, ∀ t rp, sg = .rep t rp → ∀ ch ∈ t, ch.toNat = 46 ∨ (48 ≤ ch.toNat ∧ ch.toNat ≤ 57) := by
  obtain ⟨segs, h1, h2, h3⟩ := only_matched_spans_change c undo line out h
  refine ⟨segs, h1, h2, ?_⟩
  intro sg hsg t rp hst ch hch
  have := (h3 sg hsg t rp hst).2 ch hch
  rw [hp] at this
  exact digitsAndDot_spec _ ipv4_alphabet_regenerated ch this

open NoSurvival in
/-- **The IPv4 stage is the token scanner** (pinned and regenerated pattern): reading the line left to
right, a span is replaced only if it is a dotted quad of parts ≤ 255 (`lang_core4_iff`) standing alone,
by `anonMatch` of it; a character is kept only if no such token stands alone at its position. -/
theorem ipv4_stage_is_the_token_scanner (c : IpCfg) (undo : Bool)
    (hp : c.pattern = Pinned.Patterns.ipv4 ∨ c.pattern = Generated.Patterns.ipv4)
    (line out : List Char) (h : anonIpLine c undo line = .ok out) :
    ∃ (enc : List (Nat × Nat)) (segs : List Seg), enc = Pinned.Patterns.cs0 ∧ line = srcs segs ∧ out = dsts segs ∧
      ScanG (Stands enc core4) (fun left w rest => prevOK enc left = true ∧ Lang core4 w ∧ nextOK enc rest = true)
        (anonMatch c undo) [] segs := by
  rcases hp with hp | hp
  · obtain ⟨segs, h1, h2, h3⟩ := ip_scan c undo _ core4 _ (hp.trans pinned_ipv4_shape) core4_plain core4_min
      (tail_opt _ _) line out h
    exact ⟨_, segs, rfl, h1, h2, h3⟩
  · obtain ⟨segs, h1, h2, h3⟩ := ip_scan c undo _ core4 _ (hp.trans generated_ipv4_shape) core4_plain core4_min
      (tail_opt _ _) line out h
    exact ⟨_, segs, rfl, h1, h2, h3⟩

open NoSurvival in
/-- what stands alone for IPv4, spelled out: no letter, digit or dot before; four decimal parts of
value ≤ 255 (leading zeros allowed) separated by dots; no letter, digit or dot after -/
theorem ipv4_stands_iff (left right : List Char) :
    Stands Pinned.Patterns.cs0 core4 left right ↔
      prevOK Pinned.Patterns.cs0 left = true ∧ ∃ p1 p2 p3 p4 rest, Part p1 ∧ Part p2 ∧ Part p3 ∧ Part p4 ∧
        right = (p1 ++ '.' :: (p2 ++ '.' :: (p3 ++ '.' :: p4))) ++ rest ∧ nextOK Pinned.Patterns.cs0 rest = true := by
  unfold Stands
  constructor
  · rintro ⟨hp, w, rest, hl, hr, hn⟩
    obtain ⟨p1, p2, p3, p4, h1, h2, h3, h4, rfl⟩ := (lang_core4_iff w).mp hl
    exact ⟨hp, p1, p2, p3, p4, rest, h1, h2, h3, h4, hr, hn⟩
  · rintro ⟨hp, p1, p2, p3, p4, rest, h1, h2, h3, h4, hr, hn⟩
    exact ⟨hp, _, rest, (lang_core4_iff _).mpr ⟨p1, p2, p3, p4, h1, h2, h3, h4, rfl⟩, hr, hn⟩

open NoSurvival in
theorem not_delim_of_digit_or_dot (c : Char) (h : isDig c = true ∨ c = '.') (rest : List Char) :
    nextOK Pinned.Patterns.cs0 (c :: rest) = false := by
  have h10 : ('\n' : Char).toNat = 10 := by decide
  have h46 : ('.' : Char).toNat = 46 := by decide
  have hc : c.toNat = 46 ∨ (48 ≤ c.toNat ∧ c.toNat ≤ 57) := by
    rcases h with h | rfl
    · right; simpa [isDig] using h
    · left; exact h46
  have hne : (c == '\n') = false := by
    cases hcn : (c == '\n') with
    | false => rfl
    | true => have : c = '\n' := by simpa using hcn
              rw [this, h10] at hc; omega
  have hin : inRanges Pinned.Patterns.cs0 c = false := by
    cases hi : inRanges Pinned.Patterns.cs0 c with
    | false => rfl
    | true =>
      simp [inRanges, Pinned.Patterns.cs0] at hi
      omega
  simp [nextOK, hne, hin]

open NoSurvival in
/-- **A valid standalone IPv4 token is replaced as a whole**: two words of the core language that both
stand alone at the same position are equal – a replaced span cannot be a proper part of the token,
nor reach beyond it. -/
theorem ipv4_replaced_span_is_the_whole_token (t w rest1 rest2 : List Char)
    (ht : Lang core4 t) (hw : Lang core4 w) (he : t ++ rest1 = w ++ rest2)
    (h1 : nextOK Pinned.Patterns.cs0 rest1 = true) (h2 : nextOK Pinned.Patterns.cs0 rest2 = true) : t = w := by
  have key : ∀ (a b ra rb : List Char), Lang core4 b → a ++ ra = b ++ rb → nextOK Pinned.Patterns.cs0 ra = true →
      a.length < b.length → False := by
    intro a b ra rb hb he hn hlt
    -- the character after `a` is a character of `b`
    have hra : ra = (b.drop a.length) ++ rb := by
      have := congrArg (List.drop a.length) he
      rw [List.drop_left' rfl, List.drop_append_of_le_length (by omega)] at this
      exact this
    cases hd : b.drop a.length with
    | nil =>
      have : (b.drop a.length).length = b.length - a.length := by simp
      rw [hd] at this; simp at this; omega
    | cons c rest =>
      have hmem : c ∈ b := List.mem_of_mem_drop (by rw [hd]; simp)
      have := not_delim_of_digit_or_dot c (core4_chars b hb c hmem) (rest ++ rb)
      rw [hra, hd] at hn
      simp only [List.cons_append] at hn
      rw [this] at hn
      exact absurd hn (by simp)
  have hlen : t.length = w.length := by
    rcases Nat.lt_trichotomy t.length w.length with h | h | h
    · exact absurd (key t w rest1 rest2 hw he h1 h) id
    · exact h
    · exact absurd (key w t rest2 rest1 ht he.symm h2 h) id
  have := congrArg (List.take t.length) he
  rw [List.take_left' rfl, hlen, List.take_left' rfl] at this
  exact this

open NoSurvival in
/-- **What a replaced IPv4 token becomes**: every dotted quad of the core language parses (`IPv4Address` after the
leading zeros are dropped) to the number `n` its parts spell; the token is written back unchanged exactly when
`n` is netmask-shaped or a member of a preserved network, and otherwise replaced by the canonical dotted quad of
the image of `n` under the address map (`Ffull`, `Gfull` when undoing) – it is never "left alone as unparsable". -/
theorem replaced_ipv4_token_is_canonical_image (c : IpCfg) (hf : c.fam6 = false) (undo : Bool) (w : List Char) (h : Lang core4 w) :
    ∃ n, parseV4 w = .ok n ∧ n < 2 ^ 32 ∧
      anonMatch c undo w =
        if Mask.shouldAnonymize c.nets n then
          showV4 (IpCore.ofBits (if undo then Spec.Gfull c.h c.pins c.L c.B (IpCore.fmt c.L n)
                                  else Spec.Ffull c.h c.pins c.L c.B (IpCore.fmt c.L n)))
        else w :=
  anonMatch_of_lang c hf undo w h

open NoSurvival in
/-- **The IPv6 stage is the pattern scanner**: the same statement with the declarative reading
`Lang` of the IPv6 core pattern itself (pinned and regenerated). -/
theorem ipv6_stage_is_the_pattern_scanner (c : IpCfg) (undo : Bool)
    (hp : c.pattern = Pinned.Patterns.ipv6 ∨ c.pattern = Generated.Patterns.ipv6)
    (line out : List Char) (h : anonIpLine c undo line = .ok out) :
    ∃ (enc : List (Nat × Nat)) (core : Re) (segs : List Seg), enc = encOf Pinned.Patterns.ipv6 ∧
      core = coreOf c.pattern ∧ line = srcs segs ∧ out = dsts segs ∧
      ScanG (Stands enc core) (fun left w rest => prevOK enc left = true ∧ Lang core w ∧ nextOK enc rest = true)
        (anonMatch c undo) [] segs := by
  rcases hp with hp | hp
  · obtain ⟨segs, h1, h2, h3⟩ := ip_scan c undo _ _ _ (hp.trans pinned_ipv6_shape) pinned_core6_plain pinned_core6_min
      (tail_la _) line out h
    exact ⟨_, _, segs, rfl, by rw [hp], h1, h2, h3⟩
  · obtain ⟨segs, h1, h2, h3⟩ := ip_scan c undo _ _ _ (hp.trans generated_ipv6_shape) generated_core6_plain generated_core6_min
      (tail_la _) line out h
    exact ⟨_, _, segs, rfl, by rw [hp], h1, h2, h3⟩

open NoSurvival in
/-- non-vacuity (kernel-evaluated): `010.1.2.255` is a word of the IPv4 core language, `1.2.3.256` is not a part -/
example : Part ['0', '1', '0'] ∧ Part ['2', '5', '5'] ∧ ¬ Part ['2', '5', '6'] := by
  refine ⟨⟨by simp, by decide, by decide⟩, ⟨by simp, by decide, by decide⟩, ?_⟩
  rintro ⟨_, _, h⟩
  exact absurd h (by decide)

/-- leading zeros are dropped, not read as octal; printing is canonical (kernel-evaluated tests) -/
example : parseV4 "1.2.3.040".toList = .ok 0x01020328 := by decide +kernel
example : parseV4 "1.2.3.256".toList = .error .addressValue := by decide +kernel
example : showV6 1 = "::1".toList := by decide +kernel
example : parseV6 "2001:DB8::1".toList = .ok 0x20010db8000000000000000000000001 := by decide +kernel
example : parseV6 "fe80:".toList = .error .addressValue := by decide +kernel
example : showV6 0x20010db8000000000000000000000001 = "2001:db8::1".toList := by decide +kernel

end Netconan.Props.C06
