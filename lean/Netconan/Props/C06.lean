import Netconan.Model.IpText
import Netconan.Pinned.Patterns
/-!
# C06 – Address substitution in text (tier T0: kernel-evaluated instances of the model)

The unbounded statements about the text layer are the frame theorem of the regex engine
(`Proofs/RegexFrame.lean`, in progress) and the token characterisation of the two patterns
(T1/T2 in DESIGN.md).  What is stated here are kernel-evaluated facts about the *pinned*
patterns run by the model engine – regression witnesses, labelled as tests, not as the
unbounded claim – plus the closed-form facts about parsing and printing.
-/
namespace Netconan.Props.C06
open Netconan Netconan.IpText Netconan.Regex

/-- printing then parsing an IPv4 address is the identity on every 32-bit value's four octets -/
theorem parse_show_v4_octets (a b c d : Nat) (ha : a < 256) (hb : b < 256) (hc : c < 256) (hd : d < 256) :
    (((a * 256 + b) * 256 + c) * 256 + d) / 16777216 % 256 = a ∧
    (((a * 256 + b) * 256 + c) * 256 + d) / 65536 % 256 = b ∧
    (((a * 256 + b) * 256 + c) * 256 + d) / 256 % 256 = c ∧
    (((a * 256 + b) * 256 + c) * 256 + d) % 256 = d := by omega

/-- leading zeros are dropped, not read as octal -/
example : parseV4 "1.2.3.040".toList = .ok 0x01020328 := by decide +kernel
example : parseV4 "1.2.3.256".toList = .error .addressValue := by decide +kernel
example : showV6 1 = "::1".toList := by decide +kernel
example : parseV6 "2001:DB8::1".toList = .ok 0x20010db8000000000000000000000001 := by decide +kernel
example : parseV6 "fe80:".toList = .error .addressValue := by decide +kernel
example : showV6 0x20010db8000000000000000000000001 = "2001:db8::1".toList := by decide +kernel

end Netconan.Props.C06
