import Netconan.Proofs.SrcTieSecrets
import Netconan.Props.C07
import Netconan.Props.C08
/-!
# C07–C09 on the *translated source* of `_check_sensitive_item_format`

The six `re.match` tests, their order and the class each one selects are read from the source text on every run
(`Generated/SrcSecrets.lean`; the pattern literals themselves go through the regex translator into
`Generated/Patterns.formatRes`).  The replacement written for a secret is a function of its class
(`C07.replacement_independent_of_content`, `C09` well-formedness theorems), so the class decision is part of the
trusted chain of those theorems; here it is tied to the source.
-/
namespace Netconan.Props.SrcSecrets
open Netconan Netconan.Generated

/-- **The class decision of the source as translated is the model's `classify`**, for every pattern list and value:
later tests override earlier ones (numeric over type 7 over hex over md5 over sha512 over `$9$` over text). -/
theorem source_classify (fs : List Regex.Re) (val : List Char) :
    Src.check_sensitive_item_format fs val = Secrets.classify fs val := SrcTie.check_format_tie fs val

theorem chain_text (b0 b1 b2 b3 b4 b5 : Bool) :
    ((if b5 = true then Secrets.Fmt.numeric else if b4 = true then .type7 else if b3 = true then .hex
      else if b2 = true then .md5 else if b1 = true then .sha512 else if b0 = true then .jun9 else .text) = .text) ↔
    (b0 = false ∧ b1 = false ∧ b2 = false ∧ b3 = false ∧ b4 = false ∧ b5 = false) := by
  revert b0 b1 b2 b3 b4 b5
  decide

/-- the source decides `text` exactly when none of the six tests matches -/
theorem source_text_iff_no_test_matches (fs : List Regex.Re) (val : List Char) :
    Src.check_sensitive_item_format fs val = .text ↔
      (Secrets.reMatch (fs.getD 0 .fail) val = false ∧ Secrets.reMatch (fs.getD 1 .fail) val = false ∧
       Secrets.reMatch (fs.getD 2 .fail) val = false ∧ Secrets.reMatch (fs.getD 3 .fail) val = false ∧
       Secrets.reMatch (fs.getD 4 .fail) val = false ∧ Secrets.reMatch (fs.getD 5 .fail) val = false) := by
  rw [source_classify]
  exact chain_text _ _ _ _ _ _

/-- a value that passes the all-digits test is classed numeric whatever the other tests say (the last test wins) -/
theorem source_numeric_wins (fs : List Regex.Re) (val : List Char) (h : Secrets.reMatch (fs.getD 5 .fail) val = true) :
    Src.check_sensitive_item_format fs val = .numeric := by
  rw [source_classify]; unfold Secrets.classify; simp only [h, ↓reduceIte]

/-! ## `_extract_enclosing_text` as written in the source -/
open Secrets

/-- **the source's `_extract_enclosing_text` (a `while True` around two `for` loops over the regenerated tables) is the model's**,
and what it splits off concatenates back to the value (C09: the enclosing text is restored around the replacement) -/
theorem source_extract_enclosing (fuel : Nat) (v h t : List Char) :
    Src.extract_enclosing_text fuel v h t = extractEnclosing fuel v h t := SrcTie.extract_tie fuel v h t

theorem source_enclosing_text_concat (v : List Char) :
    (Src.extract_enclosing_text (v.length + 1) v [] []).1 ++ (Src.extract_enclosing_text (v.length + 1) v [] []).2.1 ++
      (Src.extract_enclosing_text (v.length + 1) v [] []).2.2 = v := by
  rw [source_extract_enclosing]
  simpa using extractEnclosing_concat (v.length + 1) v [] []

/-! ## `_anonymize_value` as written in the source -/

variable (x : Ext) (fs : List Regex.Re) (salt : List Char)

/-- **`_anonymize_value` of the source is the model's `anonymizeValue`**: same replacement, same lookup table afterwards, for every
raw value, salt and table – the decision structure (reserved value, empty value, `$9$` decryption inside `try`, hit by value, hit by
plaintext, numbering by the table size, the six re-encodings, which key is stored) is read from the source text on every run. -/
theorem source_anonymize_value (raw : List Char) (lk : Lookup) :
    Src.anonymize_value x fs raw salt lk = anonymizeValue x fs salt raw lk := SrcTie.anonymize_value_tie x fs salt raw lk

/-- **C08 on the source**: a value that is in the table (and is neither reserved nor empty after stripping) is answered from the
table and the table is unchanged – equal secrets receive equal replacements, whatever was seen in between. -/
theorem source_hit_returns_stored (raw a : List Char) (lk : Lookup)
    (hres : x.isReserved (extractEnclosing (raw.length + 1) raw [] []).2.1 = false)
    (hne : (extractEnclosing (raw.length + 1) raw [] []).2.1.isEmpty = false)
    (h : lk.get (extractEnclosing (raw.length + 1) raw [] []).2.1 = some a) :
    Src.anonymize_value x fs raw salt lk =
      .ok ((extractEnclosing (raw.length + 1) raw [] []).1 ++ a ++ (extractEnclosing (raw.length + 1) raw [] []).2.2, lk) := by
  rw [source_anonymize_value]
  unfold anonymizeValue
  generalize extractEnclosing (raw.length + 1) raw [] [] = e at *
  obtain ⟨hd, val, tl⟩ := e
  simp only [] at hres hne h ⊢
  simp [hres, hne, C08.hit_returns_stored x fs salt val a lk h]

/-- **C07 on the source**: for two new secrets (neither in the table, neither a `$9$` string, neither reserved nor empty, no enclosing
text) of the same class, md5 salt length and met at the same table size, the source writes the same replacement. -/
theorem source_replacement_independent_of_content (v1 v2 : List Char) (lk1 lk2 : Lookup)
    (e1 : extractEnclosing (v1.length + 1) v1 [] [] = ([], v1, [])) (e2 : extractEnclosing (v2.length + 1) v2 [] [] = ([], v2, []))
    (r1 : x.isReserved v1 = false) (r2 : x.isReserved v2 = false) (n1 : v1.isEmpty = false) (n2 : v2.isEmpty = false)
    (h1 : lk1.get v1 = none) (h2 : lk2.get v2 = none)
    (hp1 : decryptedOf v1 = none) (hp2 : decryptedOf v2 = none)
    (hcls : classify fs v1 = classify fs v2) (hsalt : md5SaltLen v1 = md5SaltLen v2)
    (hsize : lk1.length = lk2.length) :
    ∃ a, Src.anonymize_value x fs v1 salt lk1 = .ok (a, lk1 ++ [(v1, a)]) ∧
         Src.anonymize_value x fs v2 salt lk2 = .ok (a, lk2 ++ [(v2, a)]) := by
  obtain ⟨a, ha1, ha2⟩ := C07.replacement_independent_of_content x fs salt v1 v2 lk1 lk2 h1 h2 hp1 hp2 hcls hsalt hsize
  refine ⟨a, ?_, ?_⟩
  · rw [source_anonymize_value]; simp [anonymizeValue, e1, r1, n1, ha1]
  · rw [source_anonymize_value]; simp [anonymizeValue, e2, r2, n2, ha2]

/-! ## `replace_matching_item` as written in the source -/

/-- **`replace_matching_item` of the source is the model's `replaceMatchingItem`** (same output line, same lookup table, same
WARNING records) for every table of pattern groups, salt, line and lookup table: the line is split and re-joined, its enclosing
text set aside, the groups are tried in order, the first group with a match wins, every pattern of that group is applied to what the
previous one wrote, a `None` index scrubs and ends the group, otherwise `prefix + _anonymize_value(group n)` replaces every match. -/
theorem source_replace_matching_item (groups : List (List ((Regex.Re × Option Nat × Option Nat) × String))) (input : List Char)
    (lk : Lookup) :
    Src.replace_matching_item x fs groups input salt lk =
      (match replaceMatchingItem x fs groups salt input lk with
       | .error e => .error e
       | .ok (out, lk', logs) => .ok ((out, logs), lk')) := by
  rw [SrcTie.replace_matching_item_tie]
  cases replaceMatchingItem x fs groups salt input lk with
  | error e => rfl
  | ok r => obtain ⟨a, b, c⟩ := r; rfl

/-- **C07 on the source**: a line that no pattern of any group matches leaves the lookup table as it was and emits no record (the
secret stage has no other way to learn or to log anything) -/
theorem source_no_match_no_state_change (groups : List (List ((Regex.Re × Option Nat × Option Nat) × String))) (input : List Char)
    (lk : Lookup) (out : List Char) (logs : List LogRec) (lk' : Lookup)
    (h : Src.replace_matching_item x fs groups input salt lk = .ok ((out, logs), lk'))
    (hm : replaceMatchingItem x fs groups salt input lk = .ok (out, lk, [])) : lk' = lk ∧ logs = [] := by
  rw [source_replace_matching_item, hm] at h
  simp only [Except.ok.injEq, Prod.mk.injEq] at h
  exact ⟨h.2.symm, h.1.2.symm⟩

end Netconan.Props.SrcSecrets
