import Netconan.Proofs.SrcTieSecrets
/-!
# C07–C09 on the *translated source* of `_check_sensitive_item_format`

The six `re.match` tests, their order and the class each one selects are read from the source text on every run
(`Generated/SrcSecrets.lean`; the pattern literals themselves go through the regex translator into
`Generated/Patterns.formatRes`).  The replacement written for a secret is a function of its class
(`C07.replacement_independent_of_content`, `C09` well-formedness theorems), so the class decision is part of the
trusted chain of those theorems; here it is tied to the source.
-/
namespace Netconan.Props.SrcSecrets
open Netconan Netconan.Generated

/-- **The class decision of the source as translated is the model's `classify`**, for every pattern list and value:
later tests override earlier ones (numeric over type 7 over hex over md5 over sha512 over `$9$` over text). -/
theorem source_classify (fs : List Regex.Re) (val : List Char) :
    Src.check_sensitive_item_format fs val = Secrets.classify fs val := SrcTie.check_format_tie fs val

theorem chain_text (b0 b1 b2 b3 b4 b5 : Bool) :
    ((if b5 = true then Secrets.Fmt.numeric else if b4 = true then .type7 else if b3 = true then .hex
      else if b2 = true then .md5 else if b1 = true then .sha512 else if b0 = true then .jun9 else .text) = .text) ↔
    (b0 = false ∧ b1 = false ∧ b2 = false ∧ b3 = false ∧ b4 = false ∧ b5 = false) := by
  revert b0 b1 b2 b3 b4 b5
  decide

/-- the source decides `text` exactly when none of the six tests matches -/
theorem source_text_iff_no_test_matches (fs : List Regex.Re) (val : List Char) :
    Src.check_sensitive_item_format fs val = .text ↔
      (Secrets.reMatch (fs.getD 0 .fail) val = false ∧ Secrets.reMatch (fs.getD 1 .fail) val = false ∧
       Secrets.reMatch (fs.getD 2 .fail) val = false ∧ Secrets.reMatch (fs.getD 3 .fail) val = false ∧
       Secrets.reMatch (fs.getD 4 .fail) val = false ∧ Secrets.reMatch (fs.getD 5 .fail) val = false) := by
  rw [source_classify]
  exact chain_text _ _ _ _ _ _

/-- a value that passes the all-digits test is classed numeric whatever the other tests say (the last test wins) -/
theorem source_numeric_wins (fs : List Regex.Re) (val : List Char) (h : Secrets.reMatch (fs.getD 5 .fail) val = true) :
    Src.check_sensitive_item_format fs val = .numeric := by
  rw [source_classify]; unfold Secrets.classify; simp only [h, ↓reduceIte]

end Netconan.Props.SrcSecrets
