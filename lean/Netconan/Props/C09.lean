import Netconan.Proofs.Secrets
import Netconan.Proofs.Numeric
/-!
# C09 – Secret replacements are format-compliant and keep their context
-/
namespace Netconan.Props.C09
open Netconan Netconan.Secrets Netconan.Regex

variable (x : Ext) (fs : List Re) (salt : List Char)

/-- **Context is kept.**  Whatever `_anonymize_value` returns is either the raw value itself
(reserved word / nothing left after stripping) or `head ++ replacement ++ tail`, where
`head ++ value ++ tail` is exactly the raw value: quotes, brackets and terminators around the
secret stay in place, in their original order. -/
theorem enclosing_text_restored (raw : List Char) (lk : Lookup) (r : List Char) (lk' : Lookup)
    (h : anonymizeValue x fs salt raw lk = .ok (r, lk')) :
    r = raw ∨ ∃ hd v tl a, hd ++ v ++ tl = raw ∧ r = hd ++ a ++ tl ∧ anonCore x fs salt v lk = .ok (a, lk') := by
  have hc := extractEnclosing_concat (raw.length + 1) raw [] []
  unfold anonymizeValue at h
  revert hc h
  generalize extractEnclosing (raw.length + 1) raw [] [] = e
  obtain ⟨hd, v, tl⟩ := e
  intro h hc
  simp only at h hc
  by_cases hr : x.isReserved v = true
  · left; simp [hr] at h; exact h.1.symm
  · by_cases he : v.isEmpty = true
    · left; simp [hr, he] at h; exact h.1.symm
    · right
      cases hcore : anonCore x fs salt v lk with
      | error e => simp [hr, he, hcore] at h
      | ok p =>
        simp [hr, he, hcore] at h
        exact ⟨hd, v, tl, p.1, by simpa using hc, by rw [← h.1, List.append_assoc], by rw [← h.2]; exact hcore⟩

/-- the line-level wrapper keeps leading and trailing white space and enclosing characters of
the whole line in place: `replace_matching_item` returns `leading ++ rewritten body ++ trailing`
with `leading ++ body ++ trailing` = the white-space-normalised input line -/
theorem line_frame (groups) (input : List Char) (lk : Lookup) (out : List Char) (lk' : Lookup) (logs : List LogRec)
    (h : replaceMatchingItem x fs groups salt input lk = .ok (out, lk', logs)) :
    ∃ leading body trailing body',
      leading ++ body ++ trailing =
        (splitLine x.isSpace input).1 ++ joinSp (splitLine x.isSpace input).2.1 ++ (splitLine x.isSpace input).2.2 ∧
      out = leading ++ body' ++ trailing := by
  unfold replaceMatchingItem at h
  simp only at h
  have hc := extractEnclosing_concat ((joinSp (splitLine x.isSpace input).2.1).length + 1)
    (joinSp (splitLine x.isSpace input).2.1) (splitLine x.isSpace input).1 (splitLine x.isSpace input).2.2
  revert hc h
  generalize extractEnclosing _ _ _ _ = e
  obtain ⟨ld, body, tr⟩ := e
  intro h hc
  simp only at h hc
  cases hg : applyGroups x fs salt groups body lk [] with
  | error e => simp [hg] at h
  | ok p =>
    simp [hg] at h
    exact ⟨ld, body, tr, p.1, hc, by rw [← h.1, List.append_assoc]⟩

/-! the re-encodings are format compliant: digits stay digits, hex stays hex, type 7 stays decodable -/

theorem hexOf_length (txt : List Char) : (hexOf txt).length = 2 * txt.length := by
  induction txt with
  | nil => rfl
  | cons c cs ih => simp [hexOf, List.flatten] at ih ⊢; omega

/-- the type-7 replacement starts with the two digits of the static salt 9 -/
theorem type7_prefix (txt : List Char) : (type7 9 txt).take 2 = ['0', '9'] := by
  simp [type7]

/-- **type 7 is well formed for every text**: `09` then two upper-case hex digits per character
(what `cisco_type7` and the format pattern `^[0-9]{2}([0-9A-F]{2})+$`... accept) -/
theorem type7_wellformed (txt : List Char) :
    (type7 9 txt).length = 2 + 2 * txt.length ∧ ∀ c ∈ type7 9 txt, isUpperHex c = true := type7_format txt

/-- **and decodes back to what was encoded** (passlib's decoder, modelled: XOR with the same key
stream), for every ASCII text – a device reading the replacement sees the pseudonym -/
theorem type7_decodes (txt : List Char) (h : ∀ c ∈ txt, c.toNat < 128) : type7Decode (type7 9 txt) = txt :=
  type7_roundtrip txt h

/-- **hex replacements are lower-case hex digits only** and `unhexlify` gives the pseudonym back -/
theorem hex_wellformed (txt : List Char) (h : ∀ c ∈ txt, c.toNat < 256) :
    (∀ c ∈ hexOf txt, isLowerHex c = true) ∧ unhex (hexOf txt) = txt := ⟨hexOf_format txt, unhex_hexOf txt h⟩

/-- **numeric replacements are non-empty strings of decimal digits** for every text -/
theorem numeric_wellformed (txt : List Char) : numericOf txt ≠ [] ∧ ∀ c ∈ numericOf txt, isDigit c = true :=
  numericOf_format txt

/-- kernel-evaluated (a test): the first pseudonyms in each re-encoding -/
example : type7 9 (pseudonym 0) = "09424B1D1A0A1913053E012724322D3765".toList := by decide +kernel
example : hexOf (pseudonym 1) = "6e6574636f6e616e52656d6f76656431".toList := by decide +kernel
example : (numericOf (pseudonym 0)).all (fun c => '0' ≤ c && c ≤ '9') = true := by decide +kernel

end Netconan.Props.C09
