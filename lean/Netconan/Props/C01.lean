import Netconan.Proofs.NetPins
import Netconan.Proofs.IpInt
/-!
# C01 – IP anonymization preserves common-prefix length (IPv4 and IPv6)

Property theorems only.  `h` (the keyed hash bit, i.e. the salt), `pins` (the bit strings of
all preserved prefixes and preserved networks), the width `L` and the number `B` of preserved
host bits are universally quantified: 32-bit, 128-bit and every other width at once.
-/
namespace Netconan.Props.C01
open Netconan Netconan.Spec Netconan.IpCore

variable (h : Bits → Bool) (pins : List Bits) (L B : Nat)

/-- Two addresses that share exactly `k` leading bits have images that share exactly `k`. -/
theorem cpl_preserved (a b : Bits) :
    cpl (Ffull h pins L B a) (Ffull h pins L B b) = cpl a b := cpl_Ffull h pins L B a b

/-- Distinct addresses never receive the same image. -/
theorem injective (a b : Bits) (hab : Ffull h pins L B a = Ffull h pins L B b) : a = b :=
  Ffull_inj h pins L B hab

/-- The mapping is a permutation of the width-`L` address space: it keeps the width and has a
two-sided inverse. -/
theorem permutation :
    (∀ a : Bits, (Ffull h pins L B a).length = a.length) ∧
    (∀ a : Bits, Gfull h pins L B (Ffull h pins L B a) = a) ∧
    (∀ y : Bits, Ffull h pins L B (Gfull h pins L B y) = y) :=
  ⟨Ffull_length h pins L B, Gfull_Ffull h pins L B, Ffull_Gfull h pins L B⟩

/-- The same on the integer interface (`anonymize(ip_int)`), as a permutation of `[0, 2^L)`. -/
theorem permutation_int (hL : 0 < L) (n : Nat) (hn : n < 2 ^ L) :
    FN h pins L B n < 2 ^ L ∧ GN h pins L B (FN h pins L B n) = n ∧ FN h pins L B (GN h pins L B n) = n :=
  ⟨FN_lt h pins L B hL hn, GN_FN h pins L B hL hn, FN_GN h pins L B hL hn⟩

/-- **The implementation's algorithm computes this mapping.**  An anonymizer built by the
constructor (memo seeded from any list of preserved prefixes – nested, overlapping, `/0`,
full length, in any order) answers every `anonymize` request of every history with the pure
image, so every pair of answers preserves the common-prefix length. -/
theorem model_computes_spec (hL : 0 < L) (ops : List Op) (hops : ∀ op ∈ ops, op.arg < 2 ^ L) :
    ∃ c0 c', seed pins = .ok c0 ∧ run h L B c0 ops = .ok (ops.map (answer h pins L B), c') := by
  obtain ⟨c0, hs, hI⟩ := seed_spec h pins L B
  obtain ⟨c', hr, _, _⟩ := run_spec h pins L B hL ops hops c0 hI
  exact ⟨c0, c', hs, hr⟩

/-- integer-level statement of the property for the bits of the answers -/
theorem cpl_preserved_int (hL : 0 < L) (m n : Nat) (hm : m < 2 ^ L) (hn : n < 2 ^ L) :
    cpl (fmt L (FN h pins L B m)) (fmt L (FN h pins L B n)) = cpl (fmt L m) (fmt L n) := by
  unfold FN
  rw [fmt_ofBits hL _ (by rw [Ffull_length, fmt_length hL hm]),
      fmt_ofBits hL _ (by rw [Ffull_length, fmt_length hL hn]), cpl_Ffull]

/-! Non-vacuity: a concrete configuration (width 4, one host bit, prefix `10/2` preserved, a
hash bit that is not constant) on which the map is not the identity and the theorems bite. -/
def hEx : Bits → Bool := fun p => p.length % 2 == 0
example : Ffull hEx [[true, false]] 4 1 [false, true, true, false] = [false, true, false, false] := by decide
example : Ffull hEx [[true, false]] 4 1 [true, false, true, true] = [true, false, false, true] := by decide
example : cpl (Ffull hEx [[true, false]] 4 1 [false, true, true, false])
              (Ffull hEx [[true, false]] 4 1 [false, true, false, false]) = 2 := by decide

open NoSurvival IpText in
/-- **Text level**: two dotted quads that the IPv4 stage anonymizes are written as addresses sharing exactly as
many leading bits as the originals (the scanner theorem of C06 says which tokens these are). -/
theorem text_level_common_prefix (c : IpCfg) (hf : c.fam6 = false) (t1 t2 : List Char)
    (h1 : Lang core4 t1) (h2 : Lang core4 t2) :
    ∃ n1 n2, parseV4 t1 = .ok n1 ∧ parseV4 t2 = .ok n2 ∧
      (Mask.shouldAnonymize c.nets n1 = true → Mask.shouldAnonymize c.nets n2 = true →
        ∃ m1 m2, anonMatch c false t1 = showV4 m1 ∧ anonMatch c false t2 = showV4 m2 ∧
          Spec.cpl (toBitsW 32 m1) (toBitsW 32 m2) = Spec.cpl (toBitsW 32 n1) (toBitsW 32 n2)) :=
  replaced_tokens_keep_common_prefix c hf t1 t2 h1 h2

end Netconan.Props.C01
