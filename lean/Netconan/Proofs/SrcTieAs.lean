import Netconan.Generated.SrcAs
/-!
# The translated source is the hand-written model (AS numbers)

`Generated/SrcAs.lean` is produced on every run from the text of netconan's functions by `harness/py2lean.py`.
Each theorem here states that a translated function computes what the corresponding function of `Model/*.lean`
computes - for every argument and every cache state - so that the theorems of `Props/` (which are about the
model) are theorems about the source as it reads now.  When the source changes, these are the obligations that
have to be re-proved.
-/
namespace Netconan.SrcTie
open Netconan Netconan.Generated

/-! ## `_generate_as_number_replacement` -/
theorem as_loop (hash n : Nat) (xs : List Nat) (b : Nat) :
    Py.forLoop (m := Except Err) xs b (fun next_block_begin block_begin => do
        if decide (n < next_block_begin) then do
          pure (Sum.inl (some (Py.strNat ((hash % (next_block_begin - block_begin)) + block_begin))))
        else do
          let block_begin := next_block_begin
          pure (Sum.inr block_begin))
      (fun _ => do pure none)
    = .ok ((AsNum.blockMap.go hash n xs b).map Py.strNat) := by
  induction xs generalizing b with
  | nil => rfl
  | cons x xs ih =>
    simp only [Py.forLoop, AsNum.blockMap.go]
    by_cases hx : n < x
    · simp [hx, bind, Except.bind, pure, Except.pure]
    · simp only [hx, decide_false, Bool.false_eq_true, ↓reduceIte, bind, Except.bind, pure, Except.pure]
      exact ih x

/-- **the translated `_generate_as_number_replacement`**: digit strings only; out of range is a `ValueError`; otherwise
the walk over the block boundaries (`None` when the number is beyond the last boundary, as in Python) -/
theorem as_replacement_tie (salt num : List Char) :
    Src.generate_as_number_replacement salt num =
      (match AsNum.decVal? num with
       | none => .error .valueError
       | some n =>
         if n > 4294967295 then .error .valueError
         else .ok ((AsNum.blockMap Generated.asBoundaries (Md5.digestNat (String.ofList (salt ++ num)).toUTF8) n).map Py.strNat)) := by
  unfold Src.generate_as_number_replacement AsNum.decVal? Py.intOfDigits
  by_cases hd : (num.isEmpty || !num.all (fun c => '0' ≤ c && c ≤ '9')) = true
  · simp [hd, bind, Except.bind]
  · simp only [hd, Bool.false_eq_true, ↓reduceIte, bind, Except.bind]
    by_cases hr : (num.foldl (fun acc c => acc * 10 + (c.toNat - 48)) 0) > 4294967295
    · simp [hr, throw, throwThe, MonadExceptOf.throw]
    · simp only [Nat.not_lt_zero, decide_false, Bool.false_or, hr, Bool.false_eq_true, ↓reduceIte]
      exact as_loop _ _ _ _

/-- on the model's domain the translated function is `AsNum.replacement` -/
theorem as_replacement_model (salt num : List Char) (v : List Char) (h : AsNum.replacement salt num = .ok v) :
    Src.generate_as_number_replacement salt num = .ok (some v) := by
  rw [as_replacement_tie]
  unfold AsNum.replacement at h
  cases hd : AsNum.decVal? num with
  | none => simp [hd] at h
  | some n =>
    simp only [hd] at h ⊢
    by_cases hr : n > 4294967295
    · simp [hr] at h
    · simp only [hr, ↓reduceIte] at h ⊢
      cases hb : AsNum.blockMap Generated.asBoundaries (Md5.digestNat (String.ofList (salt ++ num)).toUTF8) n with
      | none => rw [hb] at h; simp at h
      | some w =>
        rw [hb] at h
        simp only [Except.ok.injEq] at h
        simp only [Option.map_some, Py.strNat, h]

end Netconan.SrcTie
