import Netconan.Proofs.RegexLang
/-!
# Reading `Lang` off a pattern tree: inversion lemmas
-/
namespace Netconan
namespace NoSurvival
open Regex

theorem lang_chr_iff (rs : CharSet) (w : List Char) : Lang (.chr rs) w ↔ ∃ c, w = [c] ∧ inRanges rs c = true := by
  constructor
  · intro h; cases h with | chr hin => exact ⟨_, rfl, hin⟩
  · rintro ⟨c, rfl, hin⟩; exact .chr hin

theorem lang_eps_iff (w : List Char) : Lang .eps w ↔ w = [] := by
  constructor
  · intro h; cases h; rfl
  · rintro rfl; exact .eps

theorem lang_seq_iff (a b : Re) (w : List Char) : Lang (.seq a b) w ↔ ∃ w1 w2, w = w1 ++ w2 ∧ Lang a w1 ∧ Lang b w2 := by
  constructor
  · intro h; cases h with | seq h1 h2 => exact ⟨_, _, rfl, h1, h2⟩
  · rintro ⟨w1, w2, rfl, h1, h2⟩; exact .seq h1 h2

theorem lang_alt_iff (a b : Re) (w : List Char) : Lang (.alt a b) w ↔ Lang a w ∨ Lang b w := by
  constructor
  · intro h; cases h with
    | altL h => exact Or.inl h
    | altR h => exact Or.inr h
  · rintro (h | h)
    · exact .altL h
    · exact .altR h

theorem lang_grp_iff (i : Nat) (r : Re) (w : List Char) : Lang (.grp i r) w ↔ Lang r w := by
  constructor
  · intro h; cases h with | grp h => exact h
  · intro h; exact .grp h

theorem lang_rep_zero_max (g : Bool) (r : Re) (w : List Char) : Lang (.rep 0 (some 0) g r) w ↔ w = [] := by
  constructor
  · intro h
    cases h with
    | repStop => rfl
    | repMore hmx _ _ _ => exact absurd rfl hmx
  · rintro rfl; exact .repStop

/-- `r?` -/
theorem lang_opt_iff (g : Bool) (r : Re) (w : List Char) : Lang (.rep 0 (some 1) g r) w ↔ w = [] ∨ (Lang r w ∧ w ≠ []) := by
  constructor
  · intro h
    cases h with
    | repStop => exact Or.inl rfl
    | @repMore _ _ _ _ w1 w2 _ h1 hne h2 =>
      have : w2 = [] := (lang_rep_zero_max g r w2).mp h2
      subst this
      right
      simp only [List.append_nil]
      exact ⟨h1, hne rfl⟩
  · rintro (rfl | ⟨h, hne⟩)
    · exact .repStop
    · have := Lang.repMore (mn := 0) (mx := some 1) (g := g) (by simp) h (fun _ => hne)
        ((lang_rep_zero_max g r []).mpr rfl)
      simpa using this

/-- `[set]*` -/
theorem lang_star_chr (g : Bool) (rs : CharSet) (w : List Char) :
    Lang (.rep 0 none g (.chr rs)) w ↔ w.all (inRanges rs) = true := by
  constructor
  · intro h
    generalize hr : Re.rep 0 none g (.chr rs) = r at h
    induction h with
    | chr _ => cases hr
    | eps => cases hr
    | seq _ _ _ _ => cases hr
    | altL _ _ => cases hr
    | altR _ _ => cases hr
    | grp _ _ => cases hr
    | repStop => simp
    | @repMore mn mx g' r' w1 w2 _ h1 _ _ _ ih2 =>
      cases hr
      obtain ⟨c, rfl, hin⟩ := (lang_chr_iff rs w1).mp h1
      simp only [List.cons_append, List.nil_append, List.all_cons, hin, Bool.true_and]
      exact ih2 rfl
  · intro h
    induction w with
    | nil => exact .repStop
    | cons c w ih =>
      simp only [List.all_cons, Bool.and_eq_true] at h
      have := Lang.repMore (mn := 0) (mx := none) (g := g) (r := .chr rs) (by simp) (.chr h.1) (fun _ => by simp) (ih h.2)
      simpa using this

/-- `r{n}` with `n` mandatory iterations left and none optional -/
theorem lang_rep_exact_succ (n : Nat) (g : Bool) (r : Re) (w : List Char) :
    Lang (.rep (n + 1) (some (n + 1)) g r) w ↔ ∃ w1 w2, w = w1 ++ w2 ∧ Lang r w1 ∧ Lang (.rep n (some n) g r) w2 := by
  constructor
  · intro h
    cases h with
    | repMore _ h1 _ h2 => exact ⟨_, _, rfl, h1, by simpa using h2⟩
  · rintro ⟨w1, w2, rfl, h1, h2⟩
    exact .repMore (by simp) h1 (by simp) (by simpa using h2)

end NoSurvival
end Netconan
