import Netconan.Proofs.Lines
/-! Totality of the per-line function: the only failure the model can exhibit is running out of
its own fuel (`outOfFuel`, never a Python outcome). -/
namespace Netconan
namespace Lines
open Regex Secrets

/-- "ok or out of fuel" -/
def Fine {α} (r : Except Err α) : Prop := (∃ a, r = .ok a) ∨ r = .error .outOfFuel

/-- The hypothesis the proof needs about the six format patterns: a value that decrypts to a
non-empty `$9$` plaintext is classified as `$9$`.  (The `$9$` pattern `^\$9\$[\S]+$` accepts every
well-formed `$9$` string and none of the patterns tried after it can match a string that starts
with `$`; validated on every `$9$` value of every run, not yet derived from the pattern trees.) -/
def ClassifiesJuniper (fs : List Re) : Prop :=
  ∀ v d, decryptedOf v = some d → d ≠ [] → classify fs v = .jun9

theorem anonCore_total (x : Ext) (fs : List Re) (salt val : List Char) (lk : Lookup)
    (hcls : ClassifiesJuniper fs) : ∃ r, anonCore x fs salt val lk = .ok r := by
  unfold anonCore
  simp only
  cases hg : lk.get val with
  | some a => exact ⟨_, rfl⟩
  | none =>
    simp only
    cases hb : (decryptedOf val).bind (fun d => lk.get d) with
    | some a =>
      obtain ⟨c, hc⟩ := encrypt_ok a salt
      simp only [hc]; exact ⟨_, rfl⟩
    | none =>
      simp only
      obtain ⟨anon, ha⟩ := renderAs_ok x salt (classify fs val) (md5SaltLen val) (pseudonym lk.length)
      simp only [ha]
      cases hd : decryptedOf val with
      | none => exact ⟨_, rfl⟩
      | some d =>
        simp only
        by_cases he : d.isEmpty = true
        · simp only [he, if_true]; exact ⟨_, rfl⟩
        · simp only [he]
          have hne : d ≠ [] := by intro h; simp [h] at he
          have hj := hcls val d hd hne
          rw [hj] at ha
          simp only [renderAs] at ha
          obtain ⟨s, hs1, _, hs3⟩ := Props.C18.roundtrip (pseudonym lk.length) (pseudonym_lt _) (some salt)
            (Or.inl (pseudonym_ne_nil _))
          rw [hs1] at ha
          have : s = anon := by simpa using ha
          subst this
          simp only [hs3]
          exact ⟨_, rfl⟩

theorem anonymizeValue_total (x : Ext) (fs : List Re) (salt raw : List Char) (lk : Lookup)
    (hcls : ClassifiesJuniper fs) : ∃ r, anonymizeValue x fs salt raw lk = .ok r := by
  unfold anonymizeValue
  generalize extractEnclosing (raw.length + 1) raw [] [] = e
  obtain ⟨h, v, t⟩ := e
  simp only
  by_cases hr : x.isReserved v = true
  · exact ⟨(raw, lk), by simp [hr]⟩
  · by_cases he : v.isEmpty = true
    · exact ⟨(raw, lk), by simp [hr, he]⟩
    · obtain ⟨r, hcore⟩ := anonCore_total x fs salt v lk hcls
      exact ⟨(h ++ r.1 ++ t, r.2), by simp [hr, he, hcore]⟩

theorem applyOne_fine (x : Ext) (fs : List Re) (salt : List Char) (hcls : ClassifiesJuniper fs)
    (e : (Re × Option Nat × Option Nat) × String) (line : List Char) (lk : Lookup) :
    Fine (applyOne x fs salt e line lk) := by
  unfold applyOne
  cases search e.1.1 line with
  | oof => right; rfl
  | none => right; rfl
  | ok om =>
    cases om with
    | none => left; exact ⟨_, rfl⟩
    | some mt =>
      simp only
      cases e.1.2.1 with
      | none =>
        simp only
        cases sub e.1.1 (fun _ => Generated.scrubbedMessage) line with
        | ok out => left; exact ⟨_, rfl⟩
        | none => right; rfl
        | oof => right; rfl
      | some n =>
        simp only
        obtain ⟨r, hr⟩ := anonymizeValue_total x fs salt ((mt.group n).getD []) lk hcls
        simp only [hr]
        cases sub e.1.1 _ line with
        | ok out => left; exact ⟨_, rfl⟩
        | none => right; rfl
        | oof => right; rfl

theorem applyGroup_fine (x : Ext) (fs : List Re) (salt : List Char) (hcls : ClassifiesJuniper fs) :
    ∀ (g : List ((Re × Option Nat × Option Nat) × String)) (line : List Char) (lk : Lookup) (found : Bool)
      (logs : List LogRec), Fine (applyGroup x fs salt g line lk found logs)
  | [], line, lk, found, logs => Or.inl ⟨(line, lk, found, logs), by simp only [applyGroup]⟩
  | e :: es, line, lk, found, logs => by
    have ih := applyGroup_fine x fs salt hcls es
    simp only [applyGroup]
    rcases applyOne_fine x fs salt hcls e line lk with ⟨r, hr⟩ | he
    · simp only [hr]
      cases r with
      | noMatch => exact ih _ _ _ _
      | scrubbed out w => left; exact ⟨_, rfl⟩
      | replaced out lk' => exact ih _ _ _ _
    · simp only [he]; right; rfl

theorem applyGroups_fine (x : Ext) (fs : List Re) (salt : List Char) (hcls : ClassifiesJuniper fs) :
    ∀ (gs : List (List ((Re × Option Nat × Option Nat) × String))) (line : List Char) (lk : Lookup)
      (logs : List LogRec), Fine (applyGroups x fs salt gs line lk logs)
  | [], line, lk, logs => Or.inl ⟨(line, lk, logs), by simp only [applyGroups]⟩
  | g :: gs, line, lk, logs => by
    have ih := applyGroups_fine x fs salt hcls gs
    simp only [applyGroups]
    rcases applyGroup_fine x fs salt hcls g line lk false logs with ⟨r, hr⟩ | he
    · obtain ⟨l', lk', found, logs'⟩ := r
      simp only [hr]
      split
      · left; exact ⟨_, rfl⟩
      · exact ih _ _ _
    · simp only [he]; right; rfl

theorem replaceMatchingItem_fine (x : Ext) (fs : List Re) (groups) (salt input : List Char) (lk : Lookup)
    (hcls : ClassifiesJuniper fs) : Fine (replaceMatchingItem x fs groups salt input lk) := by
  unfold replaceMatchingItem
  simp only
  generalize extractEnclosing _ _ _ _ = e
  obtain ⟨ld, body, tr⟩ := e
  simp only
  rcases applyGroups_fine x fs salt hcls groups body lk [] with ⟨r, hr⟩ | he
  · obtain ⟨o, l, g⟩ := r; simp only [hr]; left; exact ⟨_, rfl⟩
  · simp only [he]; right; rfl

theorem optStage_fine {α} (f : α → List Char → Res (List Char)) (o : Option α) (l : List Char) :
    Fine (optStage (fun a l => liftRes (f a l)) o l) := by
  cases o with
  | none => left; exact ⟨_, rfl⟩
  | some a =>
    simp only [optStage]
    cases f a l <;> simp [liftRes, Fine]

theorem bind_fine {α β} (r : Except Err α) (f : α → Except Err β) (hr : Fine r) (hf : ∀ a, Fine (f a)) :
    Fine (r >>= f) := by
  rcases hr with ⟨a, rfl⟩ | rfl
  · exact hf a
  · right; rfl

theorem pureStages_fine (p : Pipeline) (l : List Char) : Fine (pureStages p l) := by
  unfold pureStages
  apply bind_fine
  · apply bind_fine
    · apply bind_fine
      · exact optStage_fine _ _ _
      · intro a; exact optStage_fine _ _ _
    · intro a; exact optStage_fine _ _ _
  · intro a; exact optStage_fine _ _ _

/-- **Processing a line returns a line**: for every line, lookup table, salt and feature subset
the per-line function yields `ok`; the only other outcome the model has is its own `outOfFuel`. -/
theorem lineStep_fine (p : Pipeline) (lk : Lookup) (line : List Char)
    (hcls : ∀ sc, p.secrets = some sc → ClassifiesJuniper sc.formats) : Fine (lineStep p lk line) := by
  unfold lineStep secretStage
  cases hs : p.secrets with
  | none =>
    simp only
    rcases pureStages_fine p line with ⟨a, ha⟩ | he
    · simp only [ha]; left; exact ⟨_, rfl⟩
    · simp only [he]; right; rfl
  | some sc =>
    simp only
    rcases replaceMatchingItem_fine p.ext sc.formats sc.groups p.salt line lk (hcls sc hs) with ⟨r, hr⟩ | he
    · obtain ⟨l1, lk1, logs⟩ := r
      simp only [hr]
      rcases pureStages_fine p l1 with ⟨a, ha⟩ | he
      · simp only [ha]; left; exact ⟨_, rfl⟩
      · simp only [he]; right; rfl
    · simp only [he]; right; rfl

end Lines
end Netconan
