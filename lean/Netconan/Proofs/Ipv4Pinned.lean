import Netconan.Proofs.Ipv4Lang
import Netconan.Proofs.IpScan
import Netconan.Pinned.Patterns
import Netconan.Generated.Patterns
/-!
# The pinned and the regenerated IPv4 / IPv6 patterns have the shape the scanner theorem needs
-/
namespace Netconan
namespace NoSurvival
open Regex

/-- the pieces of a pattern `(?:(?<=^)|(?<=E))(core)tail` (defaults when the shape is different) -/
def encOf : Re → CharSet
  | .seq (.alt _ (.look _ _ _ (.chr e))) _ => e
  | _ => []
def coreOf : Re → Re
  | .seq _ (.seq (.grp _ c) _) => c
  | _ => .fail
def tailOf : Re → Re
  | .seq _ (.seq _ t) => t
  | _ => .fail
def tailXOf : Re → Re
  | .seq _ (.seq _ (.seq (.rep _ _ _ (.look _ _ _ x)) _)) => x
  | _ => .fail

def tail4 (enc : CharSet) (x : Re) : Re := .seq (.rep 0 (some 1) true (.look true false 0 x)) (laRe enc)

theorem pinned_ipv4_shape :
    Pinned.Patterns.ipv4 = ipRe Pinned.Patterns.cs0 core4 (tail4 Pinned.Patterns.cs0 (tailXOf Pinned.Patterns.ipv4)) := rfl

theorem generated_ipv4_shape :
    Generated.Patterns.ipv4 = ipRe Generated.Patterns.cs0 core4 (tail4 Generated.Patterns.cs0 (tailXOf Generated.Patterns.ipv4)) := rfl

theorem pinned_ipv6_shape :
    Pinned.Patterns.ipv6 = ipRe (encOf Pinned.Patterns.ipv6) (coreOf Pinned.Patterns.ipv6) (laRe (encOf Pinned.Patterns.ipv6)) := rfl

theorem generated_ipv6_shape :
    Generated.Patterns.ipv6 = ipRe (encOf Generated.Patterns.ipv6) (coreOf Generated.Patterns.ipv6) (laRe (encOf Generated.Patterns.ipv6)) := rfl

theorem core4_plain : Plain core4 = true := by decide
theorem core4_min : 0 < minLen core4 := by decide
theorem pinned_core6_plain : Plain (coreOf Pinned.Patterns.ipv6) = true := by decide +kernel
theorem pinned_core6_min : 0 < minLen (coreOf Pinned.Patterns.ipv6) := by decide +kernel
theorem generated_core6_plain : Plain (coreOf Generated.Patterns.ipv6) = true := by decide +kernel
theorem generated_core6_min : 0 < minLen (coreOf Generated.Patterns.ipv6) := by decide +kernel

end NoSurvival
end Netconan
