import Netconan.Proofs.PatShape
import Netconan.Pinned.Patterns
import Netconan.Generated.Patterns
/-!
# The pinned and the regenerated IPv4 / IPv6 patterns have the shape the scanner theorem needs
-/
namespace Netconan
namespace NoSurvival
open Regex

theorem pinned_ipv4_shape :
    Pinned.Patterns.ipv4 = ipRe Pinned.Patterns.cs0 core4 (tail4 Pinned.Patterns.cs0 (tailXOf Pinned.Patterns.ipv4)) := rfl

theorem generated_ipv4_shape :
    Generated.Patterns.ipv4 = ipRe Generated.Patterns.cs0 core4 (tail4 Generated.Patterns.cs0 (tailXOf Generated.Patterns.ipv4)) := rfl

theorem pinned_ipv6_shape :
    Pinned.Patterns.ipv6 = ipRe (encOf Pinned.Patterns.ipv6) (coreOf Pinned.Patterns.ipv6) (laRe (encOf Pinned.Patterns.ipv6)) := rfl

theorem generated_ipv6_shape :
    Generated.Patterns.ipv6 = ipRe (encOf Generated.Patterns.ipv6) (coreOf Generated.Patterns.ipv6) (laRe (encOf Generated.Patterns.ipv6)) := rfl

theorem core4_plain : Plain core4 = true := by decide
theorem core4_min : 0 < minLen core4 := by decide
theorem pinned_core6_plain : Plain (coreOf Pinned.Patterns.ipv6) = true := by decide +kernel
theorem pinned_core6_min : 0 < minLen (coreOf Pinned.Patterns.ipv6) := by decide +kernel
theorem generated_core6_plain : Plain (coreOf Generated.Patterns.ipv6) = true := by decide +kernel
theorem generated_core6_min : 0 < minLen (coreOf Generated.Patterns.ipv6) := by decide +kernel

end NoSurvival
end Netconan
