import Netconan.Generated.SrcCli
/-!
# The translated `main` is the model's decision function

`Generated/SrcCli.lean` is `netconan.netconan.main` after `_parse_args`, translated statement by statement from the
source text.  For every argument vector that argparse accepts (required options present, host bits in range) the
translated `main` on the parsed namespace gives exactly the outcome of `Cli.decideArgs`: the same rejection, the
no-feature case, or the call of `anonymize_files` with the same parameters.
-/
namespace Netconan.SrcTie
open Netconan Netconan.Cli Netconan.Generated

theorem splitChars_ne_nil (sep : Char) (cs cur : List Char) : splitChars sep cs cur ≠ [] := by
  induction cs generalizing cur with
  | nil => simp [splitChars]
  | cons c cs ih =>
    unfold splitChars
    split
    · simp
    · exact ih _

theorem splitComma_truthy (s : String) : Py.truthy (splitComma s) = true := by
  have := splitChars_ne_nil ',' s.toList []
  unfold splitComma
  cases h : splitChars ',' s.toList [] with
  | nil => exact absurd h this
  | cons a as => rfl

theorem splitComma_isEmpty (s : String) : (splitComma s).isEmpty = false := by
  have := splitComma_truthy s
  simpa [Py.truthy, Py.Truthy.truthy] using this

/-- the outcome of the model as a Python outcome: a rejection is the raised `ValueError` -/
def outcomeOf : Outcome → Except Reject Outcome
  | .reject r => .error r
  | o => .ok o

/-- **`main` as written in the source decides as the model**, for every accepted argument vector -/
theorem main_tie (a : Args) (inp outp : String) (hb : Nat)
    (h1 : resolveOpt a.input = some inp) (h2 : resolveOpt a.output = some outp)
    (h3 : parseHostBits (resolve a.hostBits "8") = some hb) :
    Src.main (parsedOf a inp outp hb) = outcomeOf (decideArgs a) := by
  unfold Src.main decideArgs parsedOf checks mergePrivate
  simp only [h1, h2, h3]
  cases hi : inp.isEmpty <;> cases ho : outp.isEmpty <;>
    simp [Py.truthy, Py.Truthy.truthy, hi, ho, outcomeOf, bind, Except.bind, pure, Except.pure, throw, throwThe, MonadExceptOf.throw]
  generalize resolve a.undo false = u
  generalize resolve a.anonymizeIps false = ips
  generalize resolveOpt a.salt = salt
  generalize resolveOpt a.dump = dump
  generalize resolveOpt a.asNumbers = asn
  generalize resolveOpt a.words = words
  generalize resolveOpt a.reserved = reserved
  generalize resolveOpt a.preserveAddresses = pa
  generalize resolve a.preservePrivate false = priv
  generalize resolve a.anonymizePasswords false = pwd
  cases u <;> cases ips <;> cases salt <;> cases dump <;> simp
  all_goals
    cases asn <;> cases words <;> cases reserved <;> cases pa <;> cases priv <;> cases pwd <;>
      simp [splitComma_isEmpty]
end Netconan.SrcTie
