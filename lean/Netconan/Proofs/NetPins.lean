import Netconan.Proofs.UndoLine
/-!
# Preserved networks that are registered as preserved prefixes: membership is invariant under the map

so the proviso of `undo_anon_token` ("the image is not netmask-shaped or preserved") is only about the mask shape.
-/
namespace Netconan
namespace NoSurvival
open Regex IpText IpCore Mask

theorem take_toBitsW : ∀ (w k n : Nat), k ≤ w → (toBitsW w n).take k = toBitsW k (n / 2 ^ (w - k)) := by
  intro w
  induction w with
  | zero => intro k n hk; have : k = 0 := by omega
            subst this; simp [toBitsW]
  | succ w ih =>
    intro k n hk
    by_cases hkw : k = w + 1
    · subst hkw
      simp [List.take_of_length_le, toBitsW_length]
    · have hk' : k ≤ w := by omega
      have hlen : (toBitsW w (n / 2)).length = w := toBitsW_length w (n / 2)
      simp only [toBitsW]
      rw [List.take_append_of_le_length (by omega), ih k (n / 2) hk']
      congr 1
      have : w + 1 - k = (w - k) + 1 := by omega
      rw [this, Nat.pow_succ, Nat.div_div_eq_div_mul, Nat.mul_comm]

theorem toBitsW_inj_of_lt (k x y : Nat) (hx : x < 2 ^ k) (hy : y < 2 ^ k) (h : toBitsW k x = toBitsW k y) : x = y := by
  have hx' := ofBits_toBitsW k x
  have hy' := ofBits_toBitsW k y
  rw [h] at hx'
  rw [hx', Nat.mod_eq_of_lt hx] at hy'
  rw [Nat.mod_eq_of_lt hy] at hy'
  exact hy'

theorem div_lt_pow (n k : Nat) (hk : k ≤ 32) (hn : n < 2 ^ 32) : n / 2 ^ (32 - k) < 2 ^ k := by
  rw [Nat.div_lt_iff_lt_mul (Nat.pow_pos (by decide))]
  rw [← Nat.pow_add]
  have : k + (32 - k) = 32 := by omega
  rw [this]; exact hn

/-- membership in a network = the network's leading bits are a prefix of the address' 32 bits -/
theorem contains_iff_prefix (net : Net) (hk : net.plen ≤ 32) (ha : net.addr < 2 ^ 32) (n : Nat) (hn : n < 2 ^ 32) :
    net.contains n = true ↔ (toBitsW 32 net.addr).take net.plen <+: toBitsW 32 n := by
  unfold Net.contains
  simp only [beq_iff_eq, Nat.shiftRight_eq_div_pow]
  constructor
  · intro h
    have e : (toBitsW 32 net.addr).take net.plen = (toBitsW 32 n).take net.plen := by
      rw [take_toBitsW 32 _ _ hk, take_toBitsW 32 _ _ hk, h]
    rw [e]; exact List.take_prefix _ _
  · intro h
    have hl : ((toBitsW 32 net.addr).take net.plen).length = net.plen := by
      rw [List.length_take, toBitsW_length]; omega
    have e : (toBitsW 32 n).take net.plen = (toBitsW 32 net.addr).take net.plen := by
      obtain ⟨t, ht⟩ := h
      rw [← ht, List.take_left' hl]
    rw [take_toBitsW 32 _ _ hk, take_toBitsW 32 _ _ hk] at e
    exact toBitsW_inj_of_lt _ _ _ (div_lt_pow n _ hk hn) (div_lt_pow _ _ hk ha) e

/-- every preserved network is registered as a preserved prefix (what `IpAnonymizer.__init__` does) -/
def NetsPinned (nets : List Net) (pins : List Bits) : Prop :=
  ∀ net ∈ nets, net.plen ≤ 32 ∧ net.addr < 2 ^ 32 ∧ (toBitsW 32 net.addr).take net.plen ∈ pins

theorem contains_image (h : Bits → Bool) (pins : List Bits) (B : Nat) (net : Net) (hk : net.plen ≤ 32) (ha : net.addr < 2 ^ 32)
    (hp : (toBitsW 32 net.addr).take net.plen ∈ pins) (n : Nat) (hn : n < 2 ^ 32) :
    net.contains (FN h pins 32 B n) = net.contains n := by
  have hm : FN h pins 32 B n < 2 ^ 32 := FN_lt h pins 32 B (by decide) hn
  have e1 := contains_iff_prefix net hk ha (FN h pins 32 B n) hm
  have e2 := contains_iff_prefix net hk ha n hn
  have hf : toBitsW 32 (FN h pins 32 B n) = Spec.Ffull h pins 32 B (toBitsW 32 n) := by
    unfold FN
    have hl : (Spec.Ffull h pins 32 B (fmt 32 n)).length = 32 := by
      rw [Spec.Ffull_length, fmt_length (by decide) hn]
    have := toBitsW_ofBits (Spec.Ffull h pins 32 B (fmt 32 n))
    rw [hl] at this
    rw [this, fmt_of_lt (by decide) hn]
  have key : (toBitsW 32 net.addr).take net.plen <+: toBitsW 32 (FN h pins 32 B n) ↔
      (toBitsW 32 net.addr).take net.plen <+: toBitsW 32 n := by
    rw [hf]; exact Spec.Ffull_prefix_iff h pins 32 B _ hp _
  cases h1 : net.contains (FN h pins 32 B n) <;> cases h2 : net.contains n <;> simp_all

/-- **The proviso is only about the mask shape**: when the preserved networks are registered as preserved
prefixes, an address that is anonymized has an image outside every preserved network. -/
theorem should_image (c : IpCfg) (hnp : NetsPinned c.nets c.pins) (n : Nat) (hn : n < 2 ^ 32)
    (hs : shouldAnonymize c.nets n = true) :
    shouldAnonymize c.nets (FN c.h c.pins 32 c.B n) = !isMask (FN c.h c.pins 32 c.B n) := by
  unfold shouldAnonymize at hs ⊢
  have hany : c.nets.any (·.contains n) = false := by
    cases ha : c.nets.any (·.contains n) with
    | false => rfl
    | true => simp [ha] at hs
  have : c.nets.any (·.contains (FN c.h c.pins 32 c.B n)) = false := by
    rw [List.any_eq_false] at hany ⊢
    intro net hnet
    obtain ⟨hk, ha, hp⟩ := hnp net hnet
    rw [contains_image c.h c.pins c.B net hk ha hp n hn]
    exact hany net hnet
  rw [this]; simp

end NoSurvival
end Netconan

namespace Netconan
namespace NoSurvival
open Regex IpText IpCore Mask

/-- **Text level of C05**: what the IPv4 stage writes for a token that it anonymizes is the spelling of an address
outside every preserved network (and the token itself was outside); tokens inside a preserved network or
netmask-shaped are written back as they stand. -/
theorem replaced_token_outside_nets (c : IpCfg) (hf : c.fam6 = false) (hnp : NetsPinned c.nets c.pins)
    (t : List Char) (ht : Lang core4 t) :
    ∃ n, parseV4 t = .ok n ∧ n < 2 ^ 32 ∧
      ((isMask n = true ∨ c.nets.any (·.contains n) = true) → anonMatch c false t = t) ∧
      (isMask n = false → c.nets.any (·.contains n) = false →
        ∃ m, anonMatch c false t = showV4 m ∧ parseV4 (showV4 m) = .ok m ∧ c.nets.any (·.contains m) = false) := by
  obtain ⟨n, hp, hn, hF⟩ := anonMatch_of_lang c hf false t ht
  refine ⟨n, hp, hn, ?_, ?_⟩
  · intro h
    have : shouldAnonymize c.nets n = false := by
      unfold shouldAnonymize
      rcases h with h | h <;> simp [h]
    rw [hF, this]; simp
  · intro hm hc
    have hs : shouldAnonymize c.nets n = true := by unfold shouldAnonymize; simp [hm, hc]
    simp only [hs, if_true, Bool.false_eq_true, if_false, cfgL4 c hf] at hF
    have hlt : FN c.h c.pins 32 c.B n < 2 ^ 32 := FN_lt c.h c.pins 32 c.B (by decide) hn
    refine ⟨FN c.h c.pins 32 c.B n, hF, by rw [showV4_eq]; exact showQuad_parse _ hlt, ?_⟩
    rw [List.any_eq_false] at hc ⊢
    intro net hnet
    obtain ⟨hk, ha, hpin⟩ := hnp net hnet
    rw [contains_image c.h c.pins c.B net hk ha hpin n hn]
    exact hc net hnet

end NoSurvival
end Netconan

namespace Netconan
namespace NoSurvival
open Regex IpText IpCore Mask

theorem bits_FN (h : Bits → Bool) (pins : List Bits) (B n : Nat) (hn : n < 2 ^ 32) :
    toBitsW 32 (FN h pins 32 B n) = Spec.Ffull h pins 32 B (toBitsW 32 n) := by
  unfold FN
  have hl : (Spec.Ffull h pins 32 B (fmt 32 n)).length = 32 := by
    rw [Spec.Ffull_length, fmt_length (by decide) hn]
  have := toBitsW_ofBits (Spec.Ffull h pins 32 B (fmt 32 n))
  rw [hl] at this
  rw [this, fmt_of_lt (by decide) hn]

/-- **Text level of C04**: for every preserved prefix `p`, the address written for an anonymized token lies inside
`p` exactly when the token's address does, and its trailing `B` host bits are the token's. -/
theorem replaced_token_keeps_prefixes (c : IpCfg) (hf : c.fam6 = false) (t : List Char) (ht : Lang core4 t) :
    ∃ n, parseV4 t = .ok n ∧ n < 2 ^ 32 ∧
      (shouldAnonymize c.nets n = true →
        ∃ m, m < 2 ^ 32 ∧ anonMatch c false t = showV4 m ∧
          (∀ p ∈ c.pins, p <+: toBitsW 32 m ↔ p <+: toBitsW 32 n) ∧
          (toBitsW 32 m).drop (32 - c.B) = (toBitsW 32 n).drop (32 - c.B)) := by
  obtain ⟨n, hp, hn, hF⟩ := anonMatch_of_lang c hf false t ht
  refine ⟨n, hp, hn, ?_⟩
  intro hs
  simp only [hs, if_true, Bool.false_eq_true, if_false, cfgL4 c hf] at hF
  refine ⟨FN c.h c.pins 32 c.B n, FN_lt c.h c.pins 32 c.B (by decide) hn, hF, ?_, ?_⟩
  · intro p hpin
    rw [bits_FN c.h c.pins c.B n hn]
    exact Spec.Ffull_prefix_iff c.h c.pins 32 c.B p hpin _
  · rw [bits_FN c.h c.pins c.B n hn]
    unfold Spec.Ffull
    have hl : (Spec.F c.h c.pins ((toBitsW 32 n).take (32 - c.B))).length = 32 - c.B := by
      rw [Spec.F_length, List.length_take, toBitsW_length]; omega
    rw [List.drop_left' hl]

end NoSurvival
end Netconan

namespace Netconan
namespace NoSurvival
open Regex IpText IpCore Mask

/-- **Text level of C01**: two tokens that the IPv4 stage anonymizes are written as addresses that share exactly as
many leading bits as the tokens' addresses do. -/
theorem replaced_tokens_keep_common_prefix (c : IpCfg) (hf : c.fam6 = false) (t1 t2 : List Char)
    (h1 : Lang core4 t1) (h2 : Lang core4 t2) :
    ∃ n1 n2, parseV4 t1 = .ok n1 ∧ parseV4 t2 = .ok n2 ∧
      (shouldAnonymize c.nets n1 = true → shouldAnonymize c.nets n2 = true →
        ∃ m1 m2, anonMatch c false t1 = showV4 m1 ∧ anonMatch c false t2 = showV4 m2 ∧
          Spec.cpl (toBitsW 32 m1) (toBitsW 32 m2) = Spec.cpl (toBitsW 32 n1) (toBitsW 32 n2)) := by
  obtain ⟨n1, hp1, hn1, hF1⟩ := anonMatch_of_lang c hf false t1 h1
  obtain ⟨n2, hp2, hn2, hF2⟩ := anonMatch_of_lang c hf false t2 h2
  refine ⟨n1, n2, hp1, hp2, ?_⟩
  intro hs1 hs2
  simp only [hs1, hs2, if_true, Bool.false_eq_true, if_false, cfgL4 c hf] at hF1 hF2
  refine ⟨FN c.h c.pins 32 c.B n1, FN c.h c.pins 32 c.B n2, hF1, hF2, ?_⟩
  rw [bits_FN c.h c.pins c.B n1 hn1, bits_FN c.h c.pins c.B n2 hn2]
  exact Spec.cpl_Ffull c.h c.pins 32 c.B _ _

end NoSurvival
end Netconan
