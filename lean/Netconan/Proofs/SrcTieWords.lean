import Netconan.Generated.SrcWords
/-!
# The translated `SensitiveWordAnonymizer.anonymize` is the model's `Words.anonymize`
-/
namespace Netconan.SrcTie
open Netconan Netconan.Generated Netconan.Regex Netconan.Words

theorem listMapR_eq {α β} (f : α → Res β) (l : List α) : Py.listMapR f l = mapRes f l := by
  induction l with
  | nil => rfl
  | cons a as ih =>
    simp only [Py.listMapR, mapRes, ih]
    cases f a with
    | ok b => simp only [Py.rbind_ok]; cases mapRes f as <;> rfl
    | none => rfl
    | oof => rfl

/-- **`SensitiveWordAnonymizer.anonymize` as written in the source is `Words.anonymize`**: the line is touched only when the pattern
matches somewhere; then it is split at white space, every token that is not a conflicting reserved word (compared in lower case) has
all matches replaced, and the tokens are joined by single blanks between the original leading and trailing white space. -/
theorem words_anonymize_tie (e : WEnv) (t : T) (line : List Char) :
    Src.words_anonymize e t line = Words.anonymize e t line := by
  unfold Src.words_anonymize Words.anonymize
  cases hs : search t.re line with
  | oof => rfl
  | none => rfl
  | ok m =>
    cases m with
    | none => rfl
    | some mt =>
      simp only [Py.rbind_ok, Option.isSome_some, ↓reduceIte, listMapR_eq]
      have : (fun w => if t.conflicting.contains (lowerStr e w) = true then Res.ok w
                else sub t.re (fun mt => replacement t.salt mt.text) w) = anonToken e t := by
        funext w; rfl
      rw [this]
      cases mapRes (anonToken e t) (Secrets.splitLine e.isSpace line).2.1 with
      | ok ws => rfl
      | none => rfl
      | oof => rfl

end Netconan.SrcTie
