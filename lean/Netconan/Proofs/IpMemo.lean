import Netconan.Proofs.IpSpec
import Netconan.Model.IpCore
/-!
# The memo machine of `_BaseIpAnonymizer` refines the pure map

`Inv` is the invariant of every reachable memo: every entry lies on the graph of the pure
map `Ffull` (which is `F` on keys no longer than the anonymized part), and every pinned
node is present as an identity entry.  Under `Inv` every request returns the pure value,
never raises (neither bidict's duplicate error nor the `IndexError` of `bits[-1]` on the
empty string is reachable), and re-establishes `Inv`.
-/
namespace Netconan
namespace IpCore
open Spec

variable (h : Bits → Bool) (pins : List Bits) (L B : Nat)

/-- the pure value of a memo key -/
abbrev Fb (k : Bits) : Bits := Ffull h pins L B k

/-- every entry lies on the graph of the pure map, and no key occurs twice -/
structure Graph (c : Cache) : Prop where
  onGraph : ∀ e ∈ c, e.2 = Fb h pins L B e.1
  nodup : (c.map (·.1)).Nodup

structure Inv (c : Cache) : Prop where
  graph : Graph h pins L B c
  pinsIn : ∀ k, pinned pins k = true → (k, k) ∈ c

/-! ### list-map lemmas -/

theorem get_some_mem {c : Cache} {k v : Bits} (hg : get c k = some v) : (k, v) ∈ c := by
  unfold get at hg
  cases hf : c.find? (fun e => e.1 == k) with
  | none => simp [hf] at hg
  | some e =>
    simp [hf] at hg
    have h1 := List.find?_some hf
    have h2 := List.mem_of_find?_eq_some hf
    simp at h1
    cases e; simp_all

theorem getInv_some_mem {c : Cache} {k v : Bits} (hg : getInv c v = some k) : (k, v) ∈ c := by
  unfold getInv at hg
  cases hf : c.find? (fun e => e.2 == v) with
  | none => simp [hf] at hg
  | some e =>
    simp [hf] at hg
    have h1 := List.find?_some hf
    have h2 := List.mem_of_find?_eq_some hf
    simp at h1
    cases e; simp_all

theorem get_none_not_mem {c : Cache} {k : Bits} (hg : get c k = none) (v : Bits) : (k, v) ∉ c := by
  unfold get at hg
  intro hm
  cases hf : c.find? (fun e => e.1 == k) with
  | none => have := List.find?_eq_none.mp hf _ hm; simp at this
  | some e => simp [hf] at hg

theorem getInv_none_not_mem {c : Cache} {v : Bits} (hg : getInv c v = none) (k : Bits) : (k, v) ∉ c := by
  unfold getInv at hg
  intro hm
  cases hf : c.find? (fun e => e.2 == v) with
  | none => have := List.find?_eq_none.mp hf _ hm; simp at this
  | some e => simp [hf] at hg

theorem Fb_length (k : Bits) : (Fb h pins L B k).length = k.length := Ffull_length h pins L B k

theorem Fb_inj {a b : Bits} (hab : Fb h pins L B a = Fb h pins L B b) : a = b :=
  Ffull_inj h pins L B hab

theorem Fb_short (k : Bits) (hk : k.length ≤ L - B) : Fb h pins L B k = F h pins k := by
  simp [Fb, Ffull, List.take_of_length_le hk, List.drop_of_length_le hk]

theorem pinned_take (k : Bits) (hk : pinned pins k = true) (n : Nat) : pinned pins (k.take n) = true := by
  induction k using snocInd with
  | nil => simpa using pinned_nil pins
  | snoc b x ih =>
    by_cases hn : n ≤ b.length
    · rw [List.take_append_of_le_length hn]; exact ih (pinned_par pins b x hk)
    · rw [List.take_of_length_le (by simp; omega)]; exact hk

theorem Fb_pinned (k : Bits) (hk : pinned pins k = true) : Fb h pins L B k = k := by
  simp only [Fb, Ffull]
  rw [F_pinned h pins _ (pinned_take pins k hk _), List.take_append_drop]

/-- a key present in an invariant memo is looked up with its pure value -/
theorem get_of_mem {c : Cache} (hI : Inv h pins L B c) {k v : Bits} (hm : (k, v) ∈ c) :
    get c k = some v := by
  unfold get
  cases hf : c.find? (fun e => e.1 == k) with
  | none => have := List.find?_eq_none.mp hf _ hm; simp at this
  | some e =>
    have h1 := List.find?_some hf
    have h2 := List.mem_of_find?_eq_some hf
    have h3 := hI.graph.onGraph e h2
    have h4 := hI.graph.onGraph _ hm
    simp at h1 h4
    simp [h3, h1, h4]

theorem getInv_of_mem {c : Cache} (hI : Inv h pins L B c) {k v : Bits} (hm : (k, v) ∈ c) :
    getInv c v = some k := by
  unfold getInv
  cases hf : c.find? (fun e => e.2 == v) with
  | none => have := List.find?_eq_none.mp hf _ hm; simp at this
  | some e =>
    have h1 := List.find?_some hf
    have h2 := List.mem_of_find?_eq_some hf
    have h3 := hI.graph.onGraph e h2
    have h4 := hI.graph.onGraph _ hm
    simp at h1 h4
    have : e.1 = k := Fb_inj h pins L B (by rw [← h3, h1, h4])
    simp [this]

/-- `cache[k] = Fb k` always succeeds on a memo whose entries lie on the graph. -/
theorem put_graph {c : Cache} (hG : Graph h pins L B c) (k : Bits) :
    ∃ c', put c k (Fb h pins L B k) = .ok c' ∧ Graph h pins L B c' ∧ (k, Fb h pins L B k) ∈ c'
      ∧ (∀ e ∈ c, e ∈ c') := by
  unfold put
  cases hgi : getInv c (Fb h pins L B k) with
  | some k' =>
    have hm := getInv_some_mem hgi
    have := hG.onGraph _ hm
    simp at this
    have hk : k' = k := (Fb_inj h pins L B this).symm
    subst hk
    exact ⟨c, by simp, hG, hm, fun e he => he⟩
  | none =>
    have hnone : ∀ v, (k, v) ∉ c := by
      intro v hv
      have h1 := hG.onGraph _ hv
      simp at h1
      subst h1
      exact getInv_none_not_mem hgi k hv
    have hfil : c.filter (fun e => !(e.1 == k)) = c := by
      apply List.filter_eq_self.mpr
      intro e he
      simp
      intro hek
      apply hnone e.2
      rw [← hek]; exact he
    refine ⟨_, rfl, ⟨?_, ?_⟩, by simp, ?_⟩
    · intro e he
      rw [hfil] at he
      simp at he
      rcases he with rfl | he
      · rfl
      · exact hG.onGraph e he
    · rw [hfil]
      simp only [List.map_cons, List.nodup_cons]
      refine ⟨?_, hG.nodup⟩
      intro hk
      simp at hk
      obtain ⟨v, hv⟩ := hk
      exact hnone v hv
    · intro e he; rw [hfil]; exact List.mem_cons_of_mem _ he

/-- `cache[k] = Fb k` always succeeds on an invariant memo and keeps the invariant. -/
theorem put_spec {c : Cache} (hI : Inv h pins L B c) (k : Bits) :
    ∃ c', put c k (Fb h pins L B k) = .ok c' ∧ Inv h pins L B c' ∧ (k, Fb h pins L B k) ∈ c'
      ∧ (∀ e ∈ c, e ∈ c') := by
  obtain ⟨c', h1, hG, hin, hsub⟩ := put_graph h pins L B hI.graph k
  exact ⟨c', h1, ⟨hG, fun k2 hk2 => hsub _ (hI.pinsIn k2 hk2)⟩, hin, hsub⟩

/-- `cache.inv[Fb k] = k` always succeeds on an invariant memo and keeps the invariant. -/
theorem putInv_spec {c : Cache} (hI : Inv h pins L B c) (k : Bits) :
    ∃ c', putInv c (Fb h pins L B k) k = .ok c' ∧ Inv h pins L B c' ∧ (k, Fb h pins L B k) ∈ c'
      ∧ (∀ e ∈ c, e ∈ c') := by
  unfold putInv
  cases hg : get c k with
  | some v' =>
    have hm := get_some_mem hg
    have := hI.graph.onGraph _ hm
    simp at this
    subst this
    exact ⟨c, by simp, hI, hm, fun e he => he⟩
  | none =>
    have hnone : ∀ k', (k', Fb h pins L B k) ∉ c := by
      intro k' hv
      have h1 := hI.graph.onGraph _ hv
      simp at h1
      have := Fb_inj h pins L B h1
      subst this
      exact get_none_not_mem hg _ hv
    have hfil : c.filter (fun e => !(e.2 == Fb h pins L B k)) = c := by
      apply List.filter_eq_self.mpr
      intro e he
      simp
      intro hek
      apply hnone e.1
      rw [← hek]; exact he
    refine ⟨_, rfl, ⟨⟨?_, ?_⟩, ?_⟩, by simp, ?_⟩
    · intro e he
      rw [hfil] at he
      simp at he
      rcases he with rfl | he
      · rfl
      · exact hI.graph.onGraph e he
    · rw [hfil]
      simp only [List.map_cons, List.nodup_cons]
      refine ⟨?_, hI.graph.nodup⟩
      intro hk
      simp at hk
      obtain ⟨v, hv⟩ := hk
      exact get_none_not_mem hg v hv
    · intro k2 hk2
      rw [hfil]
      exact List.mem_cons_of_mem _ (hI.pinsIn k2 hk2)
    · intro e he; rw [hfil]; exact List.mem_cons_of_mem _ he

/-! ### `_anonymize_bits` -/

theorem anonRevM_spec (rb : List Bool) (hlen : rb.length ≤ L - B) :
    ∀ c, Inv h pins L B c →
      ∃ c', anonRevM h rb c = .ok (F h pins rb.reverse, c') ∧ Inv h pins L B c' ∧ (∀ e ∈ c, e ∈ c')
        ∧ (rb.reverse, F h pins rb.reverse) ∈ c' := by
  induction rb with
  | nil =>
    intro c hI
    have hm := hI.pinsIn [] (pinned_nil pins)
    have hg := get_of_mem h pins L B hI hm
    simp only [anonRevM, hg]
    exact ⟨c, by simp [F_nil], hI, fun e he => he, by simpa [F_nil] using hm⟩
  | cons x rh ih =>
    intro c hI
    have hlen' : rh.length ≤ L - B := by simp at hlen; omega
    have hshort : (rh.reverse ++ [x]).length ≤ L - B := by simpa using hlen
    simp only [anonRevM, List.reverse_cons]
    cases hg : get c (rh.reverse ++ [x]) with
    | some r =>
      have := hI.graph.onGraph _ (get_some_mem hg)
      simp at this
      rw [Fb_short h pins L B _ hshort] at this
      refine ⟨c, by simp [this], hI, fun e he => he, ?_⟩
      have hm := get_some_mem hg
      rw [this] at hm
      simpa using hm
    | none =>
      have hnp : pinned pins (rh.reverse ++ [x]) = false := by
        cases hpb : pinned pins (rh.reverse ++ [x]) with
        | false => rfl
        | true =>
          have := get_of_mem h pins L B hI (hI.pinsIn _ hpb)
          simp [hg] at this
      have hflip : Spec.flip h pins rh.reverse = h rh.reverse := by
        unfold Spec.flip
        cases x with
        | false => simp [hnp]
        | true =>
          cases hpf : pinned pins (rh.reverse ++ [false]) with
          | false => simp
          | true => have := pinned_sib pins rh.reverse false hpf; simp [hnp] at this
      obtain ⟨c1, h1, hI1, hsub1, _⟩ := ih hlen' c hI
      obtain ⟨c2, h2, hI2, hin2, hsub2⟩ := put_spec h pins L B hI1 (rh.reverse ++ [x])
      rw [Fb_short h pins L B _ hshort] at hin2
      rw [Fb_short h pins L B _ hshort, F_snoc, hflip, Bool.xor_comm x (h rh.reverse)] at h2
      simp only [h1, h2]
      refine ⟨c2, ?_, hI2, fun e he => hsub2 e (hsub1 e he), by simpa using hin2⟩
      simp [F_snoc, hflip, Bool.xor_comm]

/-! ### `_deanonymize_bits` -/

theorem deanonRevM_spec (rb : List Bool) (hlen : rb.length ≤ L - B) :
    ∀ c, Inv h pins L B c →
      ∃ c', deanonRevM h rb c = .ok (G h pins rb.reverse, c') ∧ Inv h pins L B c' ∧ (∀ e ∈ c, e ∈ c')
        ∧ (G h pins rb.reverse, rb.reverse) ∈ c' := by
  induction rb with
  | nil =>
    intro c hI
    have hm := hI.pinsIn [] (pinned_nil pins)
    have hg := getInv_of_mem h pins L B hI hm
    simp only [deanonRevM, hg]
    exact ⟨c, by simp [G_nil], hI, fun e he => he, by simpa [G_nil] using hm⟩
  | cons y rh ih =>
    intro c hI
    have hlen' : rh.length ≤ L - B := by simp at hlen; omega
    have hshort : (rh.reverse ++ [y]).length ≤ L - B := by simpa using hlen
    simp only [deanonRevM, List.reverse_cons]
    cases hg : getInv c (rh.reverse ++ [y]) with
    | some r =>
      have hm := getInv_some_mem hg
      have := hI.graph.onGraph _ hm
      simp at this
      have hrl : r.length ≤ L - B := by
        have := congrArg List.length this
        rw [Fb_length] at this
        omega
      rw [Fb_short h pins L B _ hrl] at this
      have hr : r = G h pins (rh.reverse ++ [y]) := by rw [this, G_F]
      refine ⟨c, by simp [hr], hI, fun e he => he, ?_⟩
      rw [hr] at hm
      simpa using hm
    | none =>
      obtain ⟨c1, h1, hI1, hsub1, _⟩ := ih hlen' c hI
      -- the parent of the recovered original is not above a pinned node
      have hflip : Spec.flip h pins (G h pins rh.reverse) = h (G h pins rh.reverse) := by
        unfold Spec.flip
        cases hpf : pinned pins (G h pins rh.reverse ++ [false]) with
        | false => simp
        | true =>
          exfalso
          have hpy : pinned pins (G h pins rh.reverse ++ [y]) = true := by
            cases y with
            | false => exact hpf
            | true => simpa using pinned_sib pins _ false hpf
          have hfix := F_pinned h pins _ hpy
          rw [F_snoc, F_G] at hfix
          have hflipf : Spec.flip h pins (G h pins rh.reverse) = false := by simp [Spec.flip, hpf]
          rw [hflipf] at hfix
          simp at hfix
          rw [← hfix] at hpy
          have := getInv_of_mem h pins L B hI (hI.pinsIn _ hpy)
          simp [hg] at this
      have hret : G h pins (rh.reverse ++ [y]) = G h pins rh.reverse ++ [h (G h pins rh.reverse) ^^ y] := by
        rw [G_snoc, hflip, Bool.xor_comm]
      have hretl : (G h pins (rh.reverse ++ [y])).length ≤ L - B := by rw [G_length]; exact hshort
      obtain ⟨c2, h2, hI2, hin2, hsub2⟩ := putInv_spec h pins L B hI1 (G h pins (rh.reverse ++ [y]))
      rw [Fb_short h pins L B _ hretl, F_G] at hin2
      rw [Fb_short h pins L B _ hretl, F_G, hret] at h2
      simp only [h1, h2]
      refine ⟨c2, ?_, hI2, fun e he => hsub2 e (hsub1 e he), by simpa using hin2⟩
      simp [hret]

/-! ### requests on whole addresses -/

theorem anonymizeM_spec (bits : Bits) (hb : bits.length = L) :
    ∀ c, Inv h pins L B c →
      ∃ c', anonymizeM h B bits c = .ok (Ffull h pins L B bits, c') ∧ Inv h pins L B c'
        ∧ (∀ e ∈ c, e ∈ c') ∧ (bits, Ffull h pins L B bits) ∈ c' := by
  intro c hI
  unfold anonymizeM
  by_cases hB : B = 0
  · subst hB
    have hl : bits.reverse.length ≤ L - 0 := by simp [hb]
    obtain ⟨c', h1, hI', hsub, hin⟩ := anonRevM_spec h pins L 0 bits.reverse hl c hI
    simp only [List.reverse_reverse] at h1 hin
    have hF : Ffull h pins L 0 bits = F h pins bits := by
      simp [Ffull, ← hb]
    refine ⟨c', by simp [anonBitsM, h1, hF], hI', hsub, by rw [hF]; exact hin⟩
  · have hne : (B == 0) = false := by simpa using hB
    simp only [hne, Bool.false_eq_true, if_false]
    have hl : (bits.take (bits.length - B)).reverse.length ≤ L - B := by
      simp [List.length_take]; omega
    obtain ⟨c1, h1, hI1, hsub1, _⟩ := anonRevM_spec h pins L B _ hl c hI
    simp only [List.reverse_reverse] at h1
    obtain ⟨c2, h2, hI2, hin2, hsub2⟩ := put_spec h pins L B hI1 bits
    have hF : Fb h pins L B bits
        = F h pins (bits.take (bits.length - B)) ++ bits.drop (bits.length - B) := by
      simp [Fb, Ffull, hb]
    rw [hF] at h2
    simp only [anonBitsM, h1, h2]
    refine ⟨c2, by simp [Ffull, hb], hI2, fun e he => hsub2 e (hsub1 e he), hin2⟩

theorem deanonymizeM_spec (bits : Bits) (hb : bits.length = L) :
    ∀ c, Inv h pins L B c →
      ∃ c', deanonymizeM h B bits c = .ok (Gfull h pins L B bits, c') ∧ Inv h pins L B c'
        ∧ (∀ e ∈ c, e ∈ c') := by
  intro c hI
  unfold deanonymizeM
  by_cases hB : B = 0
  · subst hB
    have hl : bits.reverse.length ≤ L - 0 := by simp [hb]
    obtain ⟨c', h1, hI', hsub, _⟩ := deanonRevM_spec h pins L 0 bits.reverse hl c hI
    simp only [List.reverse_reverse] at h1
    have hG : Gfull h pins L 0 bits = G h pins bits := by
      simp [Gfull, ← hb]
    exact ⟨c', by simp [deanonBitsM, h1, hG], hI', hsub⟩
  · have hne : (B == 0) = false := by simpa using hB
    simp only [hne, Bool.false_eq_true, if_false]
    have hl : (bits.take (bits.length - B)).reverse.length ≤ L - B := by
      simp [List.length_take]; omega
    obtain ⟨c1, h1, hI1, hsub1, _⟩ := deanonRevM_spec h pins L B _ hl c hI
    simp only [List.reverse_reverse] at h1
    simp only [deanonBitsM, h1]
    exact ⟨c1, by simp [Gfull, hb], hI1, hsub1⟩

/-! ### the constructor -/

theorem pinned_of_take (p : Bits) (hp : p ∈ pins) (i : Nat) (hi : i < p.length) (x : Bool) :
    pinned pins (p.take i ++ [x]) = true := by
  rw [pinned_snoc_iff]
  refine ⟨p, hp, by simp [List.length_take]; omega, ?_⟩
  simp [List.length_take, Nat.min_eq_left (Nat.le_of_lt hi)]

theorem seedLoop_spec (p : Bits) (hp : p ∈ pins) (is : List Nat) (his : ∀ i ∈ is, i < p.length) :
    ∀ c, Graph h pins L B c →
      ∃ c', is.foldlM (fun c i => do
              let c ← put c (p.take i ++ [false]) (p.take i ++ [false])
              put c (p.take i ++ [true]) (p.take i ++ [true])) c = Except.ok c'
        ∧ Graph h pins L B c' ∧ (∀ e ∈ c, e ∈ c')
        ∧ ∀ i ∈ is, ∀ x, (p.take i ++ [x], p.take i ++ [x]) ∈ c' := by
  induction is with
  | nil => intro c hG; exact ⟨c, rfl, hG, fun e he => he, by simp⟩
  | cons i is ih =>
    intro c hG
    have hi : i < p.length := his i (by simp)
    have hf0 := Fb_pinned h pins L B _ (pinned_of_take pins p hp i hi false)
    have hf1 := Fb_pinned h pins L B _ (pinned_of_take pins p hp i hi true)
    obtain ⟨c1, h1, hG1, hin1, hsub1⟩ := put_graph h pins L B hG (p.take i ++ [false])
    obtain ⟨c2, h2, hG2, hin2, hsub2⟩ := put_graph h pins L B hG1 (p.take i ++ [true])
    rw [hf0] at h1 hin1
    rw [hf1] at h2 hin2
    obtain ⟨c3, h3, hG3, hsub3, hin3⟩ := ih (fun j hj => his j (by simp [hj])) c2 hG2
    refine ⟨c3, ?_, hG3, fun e he => hsub3 e (hsub2 e (hsub1 e he)), ?_⟩
    · simp only [List.foldlM_cons, bind, Except.bind, h1, h2]
      exact h3
    · intro j hj x
      simp at hj
      rcases hj with rfl | hj
      · cases x with
        | false => exact hsub3 _ (hsub2 _ hin1)
        | true => exact hsub3 _ hin2
      · exact hin3 j hj x

theorem seedPrefix_spec (p : Bits) (hp : p ∈ pins) :
    ∀ c, Graph h pins L B c →
      ∃ c', seedPrefix c p = .ok c' ∧ Graph h pins L B c' ∧ (∀ e ∈ c, e ∈ c')
        ∧ ∀ i < p.length, ∀ x, (p.take i ++ [x], p.take i ++ [x]) ∈ c' := by
  intro c hG
  obtain ⟨c', h1, hG', hsub, hin⟩ :=
    seedLoop_spec h pins L B p hp (List.range p.length) (by simp) c hG
  exact ⟨c', h1, hG', hsub, fun i hi x => hin i (by simpa using hi) x⟩

theorem seedAll_spec (ps : List Bits) (hps : ∀ p ∈ ps, p ∈ pins) :
    ∀ c, Graph h pins L B c →
      ∃ c', ps.foldlM seedPrefix c = .ok c' ∧ Graph h pins L B c' ∧ (∀ e ∈ c, e ∈ c')
        ∧ ∀ p ∈ ps, ∀ i < p.length, ∀ x, (p.take i ++ [x], p.take i ++ [x]) ∈ c' := by
  induction ps with
  | nil => intro c hG; exact ⟨c, rfl, hG, fun e he => he, by simp⟩
  | cons p ps ih =>
    intro c hG
    obtain ⟨c1, h1, hG1, hsub1, hin1⟩ := seedPrefix_spec h pins L B p (hps p (by simp)) c hG
    obtain ⟨c2, h2, hG2, hsub2, hin2⟩ := ih (fun q hq => hps q (by simp [hq])) c1 hG1
    refine ⟨c2, ?_, hG2, fun e he => hsub2 e (hsub1 e he), ?_⟩
    · simp only [List.foldlM_cons, bind, Except.bind, h1]
      exact h2
    · intro q hq i hi x
      simp at hq
      rcases hq with rfl | hq
      · exact hsub2 _ (hin1 i hi x)
      · exact hin2 q hq i hi x

/-- The constructor establishes the invariant, for every list of preserved prefixes. -/
theorem seed_spec : ∃ c, seed pins = .ok c ∧ Inv h pins L B c := by
  have hG0 : Graph h pins L B [([], [])] := by
    refine ⟨?_, by simp⟩
    intro e he
    simp at he
    subst he
    simp [Fb, Ffull, F_nil]
  obtain ⟨c, h1, hG, hsub, hin⟩ := seedAll_spec h pins L B pins (fun p hp => hp) _ hG0
  refine ⟨c, h1, ⟨hG, ?_⟩⟩
  intro k hk
  induction k using snocInd with
  | nil => exact hsub _ (by simp)
  | snoc b x _ =>
    rw [pinned_snoc_iff] at hk
    obtain ⟨p, hp, hl, he⟩ := hk
    have := hin p hp b.length hl x
    rw [← he] at this
    exact this

end IpCore
end Netconan
