import Netconan.Model.IpText
/-!
# Every text that `parseV6` accepts is a 128-bit value

`hextetsVal` of k groups is below 65536^k; with the `::` gap the high groups are shifted above the low ones.
-/
namespace Netconan.IpText
theorem hexVal_lt (c : Char) (v : Nat) (h : hexVal? c = some v) : v < 16 := by
  unfold hexVal? at h
  split at h
  · next hc => simp only [Option.some.injEq] at h; simp only [Bool.and_eq_true, decide_eq_true_eq] at hc
               have := hc.2; have h2 : c.toNat ≤ 57 := this; omega
  · split at h
    · next hc => simp only [Option.some.injEq] at h; simp only [Bool.and_eq_true, decide_eq_true_eq] at hc
                 have h1 : 97 ≤ c.toNat := hc.1; have h2 : c.toNat ≤ 102 := hc.2; omega
    · split at h
      · next hc => simp only [Option.some.injEq] at h; simp only [Bool.and_eq_true, decide_eq_true_eq] at hc
                   have h1 : 65 ≤ c.toNat := hc.1; have h2 : c.toNat ≤ 70 := hc.2; omega
      · simp at h

theorem hexFold_lt (p : List Char) (a v : Nat)
    (h : p.foldl (fun acc c => match acc, hexVal? c with
      | some a, some v => some (a * 16 + v)
      | _, _ => none) (some a) = some v) : v < (a + 1) * 16 ^ p.length := by
  induction p generalizing a with
  | nil => simp at h; subst h; simp
  | cons c cs ih =>
    simp only [List.foldl] at h
    cases hc : hexVal? c with
    | none =>
      simp only [hc] at h
      exfalso
      clear ih
      induction cs with
      | nil => simp at h
      | cons d ds ihd => simp only [List.foldl] at h; exact ihd h
    | some w =>
      simp only [hc] at h
      have := ih (a * 16 + w) h
      have hw := hexVal_lt c w hc
      simp only [List.length_cons, Nat.pow_succ]
      calc v < (a * 16 + w + 1) * 16 ^ cs.length := this
        _ ≤ ((a + 1) * 16) * 16 ^ cs.length := Nat.mul_le_mul_right _ (by omega)
        _ = (a + 1) * (16 ^ cs.length * 16) := by rw [Nat.mul_assoc, Nat.mul_comm 16]

theorem parseHextet_lt (p : List Char) (v : Nat) (h : parseHextet p = some v) : v < 65536 := by
  unfold parseHextet at h
  split at h
  · simp at h
  · next hc =>
    have hl : p.length ≤ 4 := by
      simp only [Bool.or_eq_true, decide_eq_true_eq, not_or, Nat.not_lt] at hc; exact hc.2
    have := hexFold_lt p 0 v h
    have h16 : 16 ^ p.length ≤ 16 ^ 4 := Nat.pow_le_pow_right (by decide) hl
    simp at this
    omega

theorem none_fold (ps : List (List Char)) :
    ps.foldl (fun acc p => match acc, parseHextet p with
      | some a, some v => some (a * 65536 + v)
      | _, _ => none) none = none := by
  induction ps with
  | nil => rfl
  | cons p ps ih => simp only [List.foldl]; exact ih

theorem hextetsFold_lt (ps : List (List Char)) (a v : Nat)
    (h : ps.foldl (fun acc p => match acc, parseHextet p with
      | some a, some v => some (a * 65536 + v)
      | _, _ => none) (some a) = some v) : v < (a + 1) * 65536 ^ ps.length := by
  induction ps generalizing a with
  | nil => simp at h; subst h; simp
  | cons p ps ih =>
    simp only [List.foldl] at h
    cases hp : parseHextet p with
    | none => simp only [hp] at h; rw [none_fold] at h; simp at h
    | some w =>
      simp only [hp] at h
      have := ih (a * 65536 + w) h
      have hw := parseHextet_lt p w hp
      simp only [List.length_cons, Nat.pow_succ]
      calc v < (a * 65536 + w + 1) * 65536 ^ ps.length := this
        _ ≤ ((a + 1) * 65536) * 65536 ^ ps.length := Nat.mul_le_mul_right _ (by omega)
        _ = (a + 1) * (65536 ^ ps.length * 65536) := by rw [Nat.mul_assoc, Nat.mul_comm 65536]

theorem hextetsVal_lt (ps : List (List Char)) (v : Nat) (h : hextetsVal ps = some v) : v < 65536 ^ ps.length := by
  have := hextetsFold_lt ps 0 v h
  simpa using this

theorem combine_lt (parts : List (List Char)) (hi lo a v : Nat) (h1 : hextetsVal (parts.take hi) = some a)
    (h2 : hextetsVal (parts.drop (parts.length - lo)) = some v) (hs : hi + lo ≤ 7) :
    a * 65536 ^ (8 - hi) + v < 2 ^ 128 := by
  have ha := hextetsVal_lt _ a h1
  have hv := hextetsVal_lt _ v h2
  have hl1 : (parts.take hi).length ≤ hi := by simp [List.length_take]; omega
  have hl2 : (parts.drop (parts.length - lo)).length ≤ lo := by simp [List.length_drop]; omega
  have hA : a + 1 ≤ 65536 ^ hi := Nat.lt_of_lt_of_le ha (Nat.pow_le_pow_right (by decide) hl1)
  have hV : v < 65536 ^ (8 - hi) :=
    Nat.lt_of_lt_of_le hv (Nat.pow_le_pow_right (by decide) (by omega))
  have hAB : 65536 ^ hi * 65536 ^ (8 - hi) = 2 ^ 128 := by
    rw [← Nat.pow_add, show hi + (8 - hi) = 8 by omega]
  have := Nat.mul_le_mul_right (65536 ^ (8 - hi)) hA
  rw [hAB, Nat.add_mul, Nat.one_mul] at this
  omega

theorem parseV6_lt (s : List Char) (n : Nat) (h : parseV6 s = .ok n) : n < 2 ^ 128 := by
  unfold parseV6 at h
  simp only [] at h
  repeat' (split at h)
  all_goals (try (simp at h; done))
  all_goals simp only [Except.ok.injEq] at h
  all_goals subst h
  all_goals first
    | (apply combine_lt <;> first | assumption | omega)
    | (rename_i hlen x v hv
       have hlt := hextetsVal_lt _ _ hv
       simp only [bne_iff_ne, ne_eq, Decidable.not_not] at hlen
       rw [hlen] at hlt
       exact hlt)

end Netconan.IpText
