import Netconan.Model.Juniper
/-!
# `$9$` round trip

Side conditions on the *generated* tables are decided by the kernel (`decide +kernel`, a few
thousand cases); everything else is lifted by lemmas and induction over the plaintext.
-/
namespace Netconan
namespace Juniper
open Generated

def recompose (gaps enc : List Nat) : Nat := ((gaps.zip enc).map (fun p => p.1 * p.2)).sum

/-- one row of `ENCODING` is good: for every character code the greedy decomposition has the
row's length, all gaps fit the alphabet (≤ A - 2) and the weighted sum gives the code back -/
def rowOK (enc : List Nat) : Bool :=
  (List.range 256).all fun v =>
    let g := gapsOf v enc
    g.length == enc.length && g.all (· ≤ 63) && recompose g enc % 256 == v

theorem rows_ok : junEncoding.all rowOK = true := by decide +kernel
theorem A_eq : A = 65 := by decide
theorem rows_len : junEncoding.length = 7 := by decide
theorem rows_nonempty : junEncoding.all (fun r => r.length != 0) = true := by decide
theorem row0_len : 3 ≤ (row 0).length := by decide

theorem gap_roundtrip (prev gap : Nat) (_hp : prev < 65) (hg : gap ≤ 63) :
    gapBack prev ((gap + prev + 1) % A) = gap := by
  unfold gapBack; rw [A_eq]; omega

theorem emit_length (prev : Nat) (gs : List Nat) : (emit prev gs).length = gs.length := by
  induction gs generalizing prev with
  | nil => rfl
  | cons g gs ih => simp [emit, ih]

theorem emit_lt (prev : Nat) (gs : List Nat) : ∀ c ∈ emit prev gs, c < 65 := by
  induction gs generalizing prev with
  | nil => simp [emit]
  | cons g gs ih =>
    intro c hc
    simp only [emit, List.mem_cons] at hc
    rcases hc with rfl | hc
    · rw [A_eq]; exact Nat.mod_lt _ (by decide)
    · exact ih _ c hc

theorem gapsBack_emit (prev : Nat) (gs : List Nat) (hp : prev < 65) (hg : ∀ g ∈ gs, g ≤ 63) :
    gapsBack prev (emit prev gs) = gs.map Int.ofNat := by
  induction gs generalizing prev with
  | nil => rfl
  | cons g gs ih =>
    have hg0 : g ≤ 63 := hg g (by simp)
    have hlt : (g + prev + 1) % A < 65 := by rw [A_eq]; exact Nat.mod_lt _ (by decide)
    simp only [emit, gapsBack, List.map_cons]
    rw [ih _ hlt (fun x hx => hg x (by simp [hx]))]
    congr 1
    exact gap_roundtrip prev g hp hg0

theorem decodeNum_ofNat (gs enc : List Nat) :
    decodeNum (gs.map Int.ofNat) enc = (recompose gs enc : Nat) := by
  induction gs generalizing enc with
  | nil => simp [decodeNum, recompose]
  | cons g gs ih =>
    cases enc with
    | nil => simp [decodeNum, recompose]
    | cons e es =>
      have := ih es
      simp only [decodeNum, recompose, List.map_cons, List.zip_cons_cons, List.sum_cons] at *
      rw [this]; simp

theorem row_mem (r : Nat) (hr : r < 7) : row r ∈ junEncoding := by
  unfold row; rw [rows_len, Nat.mod_eq_of_lt hr]
  have : r < junEncoding.length := by rw [rows_len]; exact hr
  simp [List.getD_eq_getElem?_getD, List.getElem?_eq_getElem this]

theorem row_fact (r v : Nat) (hr : r < 7) (hv : v < 256) :
    (gapsOf v (row r)).length = (row r).length ∧ (∀ x ∈ gapsOf v (row r), x ≤ 63)
      ∧ recompose (gapsOf v (row r)) (row r) % 256 = v := by
  have h := rows_ok
  simp only [List.all_eq_true] at h
  have h1 := h _ (row_mem r hr)
  unfold rowOK at h1
  simp only [List.all_eq_true, List.mem_range] at h1
  have h2 := h1 v hv
  simp only [Bool.and_eq_true, beq_iff_eq, List.all_eq_true, decide_eq_true_eq] at h2
  exact ⟨h2.1.1, h2.1.2, h2.2⟩

theorem char_roundtrip (r v prev : Nat) (hr : r < 7) (hv : v < 256) (hp : prev < 65) :
    (emit prev (gapsOf v (row r))).length = (row r).length ∧
    (decodeNum (gapsBack prev (emit prev (gapsOf v (row r)))) (row r) % 256).toNat = v := by
  obtain ⟨hl, hg, hrec⟩ := row_fact r v hr hv
  refine ⟨by simp [emit_length, hl], ?_⟩
  rw [gapsBack_emit prev _ hp hg, decodeNum_ofNat]
  omega

theorem row_pos (r : Nat) (hr : r < 7) : 0 < (row r).length := by
  have h := rows_nonempty
  simp only [List.all_eq_true] at h
  have := h _ (row_mem r hr)
  simp only [bne_iff_ne, ne_eq] at this
  exact Nat.pos_of_ne_zero this

theorem row_mod (pos : Nat) : row pos = row (pos % 7) := by simp [row, rows_len]

theorem lastOr_cons_default (d d' x : Nat) (xs : List Nat) : lastOr d (x :: xs) = lastOr d' (x :: xs) := by
  induction xs generalizing x with
  | nil => rfl
  | cons y ys ih => simpa [lastOr] using ih y

theorem lastOr_emit_lt (prev : Nat) (gs : List Nat) (hp : prev < 65) : lastOr prev (emit prev gs) < 65 := by
  induction gs generalizing prev with
  | nil => simpa [emit, lastOr]
  | cons g gs ih =>
    have hlt : (g + prev + 1) % A < 65 := by rw [A_eq]; exact Nat.mod_lt _ (by decide)
    cases gs with
    | nil => simpa [emit, lastOr] using hlt
    | cons g2 gs2 =>
      have := ih ((g + prev + 1) % A) hlt
      simp only [emit, lastOr] at this ⊢
      rw [lastOr_cons_default prev ((g + prev + 1) % A)]
      exact this

theorem encBody_lt (plain : List Nat) : ∀ prev pos, ∀ c ∈ encBody prev pos plain, c < 65 := by
  induction plain with
  | nil => intro _ _ c hc; simp [encBody] at hc
  | cons p ps ih =>
    intro prev pos c hc
    simp only [encBody, List.mem_append] at hc
    rcases hc with hc | hc
    · exact emit_lt _ _ c hc
    · exact ih _ _ c hc

/-- the body loop of the decoder inverts the body loop of the encoder -/
theorem body_roundtrip (plain : List Nat) (hv : ∀ v ∈ plain, v < 256) :
    ∀ (prev pos fuel : Nat), prev < 65 → (encBody prev pos plain).length < fuel →
      decBody fuel prev pos (encBody prev pos plain) = .ok plain := by
  induction plain with
  | nil => intro prev pos fuel _ hf; cases fuel <;> simp [encBody, decBody]
  | cons p ps ih =>
    intro prev pos fuel hp hf
    have hr : pos % 7 < 7 := Nat.mod_lt _ (by decide)
    have hpv : p < 256 := hv p (by simp)
    obtain ⟨hlen, hdec⟩ := char_roundtrip (pos % 7) p prev hr hpv hp
    rw [← row_mod] at hlen hdec
    have hpos := row_pos (pos % 7) hr
    rw [← row_mod] at hpos
    cases fuel with
    | zero => simp at hf
    | succ fuel =>
      simp only [encBody] at hf ⊢
      generalize hcs : emit prev (gapsOf p (row pos)) = cs at *
      have hne : cs ≠ [] := by intro h; simp [h] at hlen; omega
      cases hcs' : cs ++ encBody (lastOr prev cs) (pos + 1) ps with
      | nil => simp [hne] at hcs'
      | cons c rest =>
        simp only [decBody]
        rw [← hcs']
        have htake : (cs ++ encBody (lastOr prev cs) (pos + 1) ps).take (row pos).length = cs := by
          rw [← hlen]; simp
        have hdrop : (cs ++ encBody (lastOr prev cs) (pos + 1) ps).drop (row pos).length
            = encBody (lastOr prev cs) (pos + 1) ps := by
          rw [← hlen]; simp
        rw [htake, hdrop]
        have hlast : lastOr prev cs < 65 := by rw [← hcs]; exact lastOr_emit_lt prev _ hp
        have hf' : (encBody (lastOr prev cs) (pos + 1) ps).length < fuel := by
          simp at hf; omega
        rw [ih (fun v hv' => hv v (by simp [hv'])) _ _ _ hlast hf']
        simp [hlen, hdec]

theorem encBody_length_ge (p : Nat) (ps : List Nat) (prev : Nat) (hp : p < 256) :
    3 ≤ (encBody prev 0 (p :: ps)).length := by
  have := row_fact 0 p (by decide) hp
  have h0 := row0_len
  simp only [encBody, List.length_append, emit_length]
  omega

/-! ### alphabet facts (kernel-decided on the generated tables) -/

theorem alpha_idx : ∀ i, i < 65 → alphaNum (numAlpha i) = some i := by decide +kernel
theorem alpha_mem : ∀ i, i < 65 → junNumAlpha.contains (numAlpha i) = true := by decide +kernel
theorem extra_ok : junExtra.all (fun p => (alphaNum p.1).isSome && decide (p.2 ≤ 3)
    && junNumAlpha.contains p.1) = true := by decide +kernel
theorem fixedc_ok : ∀ e, e ≤ 3 → (fixedc e).length = e ∧ (fixedc e).all (fun c => junNumAlpha.contains c) = true := by
  decide +kernel
theorem magic_len : junMagic.length = 3 := by decide
theorem fixedc1 : fixedc 1 = ['n'] ∧ extra 'n' = some 3 := by decide +kernel

theorem alphaNum_lt {c : Char} {i : Nat} (h : alphaNum c = some i) : i < 65 := by
  unfold alphaNum at h
  simp only at h
  split at h
  · next hlt =>
    have : junNumAlpha.length = 65 := A_eq
    simp at h; omega
  · simp at h

theorem extra_spec {c : Char} {e : Nat} (h : extra c = some e) :
    e ≤ 3 ∧ (∃ i, alphaNum c = some i) ∧ junNumAlpha.contains c = true := by
  unfold extra at h
  cases hf : junExtra.find? (·.1 == c) with
  | none => simp [hf] at h
  | some p =>
    simp [hf] at h
    have hm := List.mem_of_find?_eq_some hf
    have hp := List.find?_some hf
    have hall := extra_ok
    simp only [List.all_eq_true] at hall
    have := hall p hm
    simp only [Bool.and_eq_true, decide_eq_true_eq] at this
    simp at hp
    subst hp
    subst h
    obtain ⟨⟨h1, h2⟩, h3⟩ := this
    exact ⟨h2, Option.isSome_iff_exists.mp h1, h3⟩

theorem mapIdx_map (l : List Nat) (hl : ∀ i ∈ l, i < 65) : mapIdx (l.map numAlpha) = some l := by
  induction l with
  | nil => rfl
  | cons i is ih =>
    simp only [List.map_cons, mapIdx, alpha_idx i (hl i (by simp)), ih (fun j hj => hl j (by simp [hj]))]

theorem alpha_in_extra : junNumAlpha.all (fun c => (extra c).isSome) = true := by decide +kernel

theorem alphaNum_of_mem {c : Char} (h : junNumAlpha.contains c = true) : ∃ i, alphaNum c = some i := by
  have : junNumAlpha.findIdx (· == c) < junNumAlpha.length := by
    apply List.findIdx_lt_length_of_exists
    rw [List.contains_iff_exists_mem_beq] at h
    obtain ⟨a, ha, hac⟩ := h
    refine ⟨a, ha, ?_⟩
    have : c = a := by simpa using hac
    subst this; simp
  refine ⟨junNumAlpha.findIdx (· == c), ?_⟩
  show (if junNumAlpha.findIdx (· == c) < junNumAlpha.length then some (junNumAlpha.findIdx (· == c)) else none) = _
  rw [if_pos this]

theorem mapIdx_some (l : List Char) (hl : ∀ c ∈ l, junNumAlpha.contains c = true) :
    ∃ is, mapIdx l = some is ∧ is.length = l.length := by
  induction l with
  | nil => exact ⟨[], rfl, rfl⟩
  | cons c cs ih =>
    obtain ⟨i, hi⟩ := alphaNum_of_mem (hl c (by simp))
    obtain ⟨is, his, hlen⟩ := ih (fun d hd => hl d (by simp [hd]))
    exact ⟨i :: is, by simp [mapIdx, hi, his], by simp [hlen]⟩

/-- the decoder's body loop ends in a result or in the value error of `_gap_decode`; with one
unit of fuel per remaining character it never runs out of fuel -/
theorem decBody_total (fuel : Nat) : ∀ prev pos chars, chars.length < fuel →
    (∃ r, decBody fuel prev pos chars = .ok r) ∨ decBody fuel prev pos chars = .error .valueError := by
  induction fuel with
  | zero => intro _ _ chars h; simp at h
  | succ fuel ih =>
    intro prev pos chars hlen
    cases chars with
    | nil => left; exact ⟨[], by simp [decBody]⟩
    | cons c cs =>
      simp only [decBody]
      by_cases hn : ((c :: cs).take (row pos).length).length ≠ (row pos).length
      · right; rw [if_pos hn]
      · rw [if_neg hn]
        have hpos : 0 < (row pos).length := by rw [row_mod]; exact row_pos _ (Nat.mod_lt _ (by decide))
        have hl2 : ((c :: cs).drop (row pos).length).length < fuel := by
          simp only [List.length_drop, List.length_cons] at hlen ⊢; omega
        rcases ih (lastOr prev ((c :: cs).take (row pos).length)) (pos + 1) _ hl2 with ⟨r, hr⟩ | he
        · left; rw [hr]; exact ⟨_, rfl⟩
        · right; rw [he]

theorem saltChar_spec (salt : Option (List Char)) : ∃ sc e, saltChar salt = .ok sc ∧ extra sc = some e := by
  have hf := fixedc1
  have hfb : fallbackSalt = .ok 'n' := by simp [fallbackSalt, hf.1]
  unfold saltChar
  match salt with
  | none => exact ⟨'n', 3, by simp [hfb], hf.2⟩
  | some [] => exact ⟨'n', 3, by simp [hfb], hf.2⟩
  | some (c :: cs) =>
    cases he : extra c with
    | none => exact ⟨'n', 3, by simp [he, hfb], hf.2⟩
    | some e => exact ⟨c, e, by simp [he], he⟩

end Juniper
end Netconan
