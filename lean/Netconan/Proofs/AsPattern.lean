import Netconan.Proofs.RegexRef
/-!
# The AS-number pattern `(?:(?<=\D)|(?<=^))(n1|n2|...)(?=\D|$)` – exact behaviour

`asMatch_ref`: up to fuel, `matchAt` on this pattern is the plain function `asSpec`: the character
before is a non-digit (or there is none), one of the listed numbers is a prefix of the rest – the
first in list order for which also the character after is a non-digit / the end (of the line, or
before a final newline).
-/
namespace Netconan
namespace NoSurvival
open Regex

def prevOK (nd : CharSet) : List Char → Bool
  | [] => true
  | p :: _ => inRanges nd p

def nextOK (nd : CharSet) : List Char → Bool
  | [] => true
  | c :: rest => inRanges nd c || (c == '\n' && rest.isEmpty)

def laRe (nd : CharSet) : Re := .look true false 0 (.alt (.chr nd) .eol)
def lbRe (nd : CharSet) : Re := .alt (.look false false 1 (.chr nd)) (.look false false 0 .bol)

def LA (nd : CharSet) (g : K) : K := fun z cs => if nextOK nd z.right then g z cs else .none
def LB (nd : CharSet) (g : K) : K := fun z cs => if prevOK nd z.left then g z cs else .none

theorem orElse_none {α} (x : Res α) : (x.orElse fun _ => .none) = x := by cases x <;> rfl

theorem la_ref (nd : CharSet) (k g : K) (hk : KRef k g) (fuel : Nat) (z : Z) (cs : Caps) :
    Ref (m fuel (laRe nd) k z cs) (LA nd g z cs) := by
  match fuel with
  | 0 => exact Ref.oof _
  | 1 => exact Ref.oof _
  | 2 => left; simp [laRe, m, Res.orElse]
  | f + 3 =>
    unfold laRe LA
    cases hz : z.right with
    | nil =>
      have : m (f + 3) (.look true false 0 (.alt (.chr nd) .eol)) k z cs = k z cs := by
        simp [m, hz, Res.orElse]
      rw [this]; simp only [nextOK, if_true]; exact hk z cs
    | cons c rest =>
      by_cases hin : inRanges nd c = true
      · have : m (f + 3) (.look true false 0 (.alt (.chr nd) .eol)) k z cs = k z cs := by
          simp [m, hz, hin, Res.orElse]
        rw [this]; simp only [nextOK, hin, Bool.true_or, if_true]; exact hk z cs
      · by_cases hnl : (c == '\n' && rest.isEmpty) = true
        · have hr : (c :: rest) = ['\n'] := by
            simp only [Bool.and_eq_true, beq_iff_eq, List.isEmpty_iff] at hnl
            rw [hnl.1, hnl.2]
          have : m (f + 3) (.look true false 0 (.alt (.chr nd) .eol)) k z cs = k z cs := by
            simp [m, hz, hin, Res.orElse, hr]
            rw [hr] at hz
            have hc : c = '\n' := by simp at hr; exact hr.1
            subst hc
            simp [hin]
          rw [this]; simp only [nextOK, hin, hnl, Bool.or_true, if_true]; exact hk z cs
        · have hne : ((c :: rest) == ['\n']) = false := by
            cases h : ((c :: rest) == ['\n']) with
            | false => rfl
            | true =>
              have : c :: rest = ['\n'] := by simpa using h
              simp at this
              simp [this.1, this.2] at hnl
          have : m (f + 3) (.look true false 0 (.alt (.chr nd) .eol)) k z cs = .none := by
            simp [m, hz, hin, Res.orElse, hne]
          rw [this]
          have hin' : inRanges nd c = false := by simpa using hin
          have hnl' : (c == '\n' && rest.isEmpty) = false := by simpa using hnl
          simp only [nextOK, hin', hnl', Bool.or_false]
          exact Ref.rfl' _

theorem lb_ref (nd : CharSet) (k g : K) (hk : KRef k g) (fuel : Nat) (z : Z) (cs : Caps) :
    Ref (m fuel (lbRe nd) k z cs) (LB nd g z cs) := by
  match fuel with
  | 0 => exact Ref.oof _
  | 1 => left; simp [lbRe, m, Res.orElse]
  | 2 =>
    left
    cases hl : z.left with
    | nil => simp [lbRe, m, Res.orElse, stepBack, hl]
    | cons p l => simp [lbRe, m, Res.orElse, stepBack, hl]
  | f + 3 =>
    unfold lbRe LB
    cases hl : z.left with
    | nil =>
      have : m (f + 3) (.alt (.look false false 1 (.chr nd)) (.look false false 0 .bol)) k z cs = k z cs := by
        simp [m, hl, Res.orElse, stepBack]
      rw [this]; simp only [prevOK, if_true]; exact hk z cs
    | cons p l =>
      by_cases hin : inRanges nd p = true
      · have : m (f + 3) (.alt (.look false false 1 (.chr nd)) (.look false false 0 .bol)) k z cs
            = (k z cs).orElse fun _ => .none := by
          simp [m, hl, Res.orElse, stepBack, hin]
        rw [this, orElse_none]; simp only [prevOK, hin, if_true]; exact hk z cs
      · have : m (f + 3) (.alt (.look false false 1 (.chr nd)) (.look false false 0 .bol)) k z cs = .none := by
          simp [m, hl, Res.orElse, stepBack, hin]
        rw [this]
        have hin' : inRanges nd p = false := by simpa using hin
        simp only [prevOK, hin']
        exact Ref.rfl' _


/-! ### the whole pattern -/

def asRe (nd : CharSet) (W : List (List CharSet)) : Re :=
  .seq (lbRe nd) (.seq (.grp 1 (Words.altOf (W.map litSets))) (laRe nd))

def grpSpec (W : List (List CharSet)) (g : K) : K :=
  fun z cs => firstOf W (fun z' cs' => g z' ((1, spanOf z z') :: cs')) z cs

def asSpec (nd : CharSet) (W : List (List CharSet)) (g : K) : K := LB nd (grpSpec W (LA nd g))

theorem as_ref (nd : CharSet) (W : List (List CharSet)) (k g : K) (hk : KRef k g) (fuel : Nat) (z : Z) (cs : Caps) :
    Ref (m fuel (asRe nd W) k z cs) (asSpec nd W g z cs) := by
  unfold asRe asSpec
  refine seq_ref (lbRe nd) _ (LB nd) (fun g => grpSpec W (LA nd g)) (fun k g hk f z cs => lb_ref nd k g hk f z cs) ?_ k g hk fuel z cs
  intro k g hk fuel z cs
  refine seq_ref _ (laRe nd) (grpSpec W) (LA nd) ?_ (fun k g hk f z cs => la_ref nd k g hk f z cs) k g hk fuel z cs
  intro k g hk fuel z cs
  exact grp_ref 1 _ (firstOf W) (fun k g hk f z cs => alt_ref k g hk W f z cs) k g hk fuel z cs

def finK : K := fun z' cs' => .ok (z', cs')

theorem matchAt_as_ref (nd : CharSet) (W : List (List CharSet)) (fuel : Nat) (z : Z) :
    Ref (matchAt (asRe nd W) fuel z) (asSpec nd W finK z []) :=
  as_ref nd W finK finK (fun _ _ => Ref.rfl' _) fuel z []

theorem firstOf_none (g : K) (z : Z) (cs : Caps) : ∀ (W : List (List CharSet)), firstOf W g z cs = .none →
    ∀ w ∈ W, pre w z.right = true → g (skip z w.length) cs = .none := by
  intro W
  induction W with
  | nil => intro _ w hw; simp at hw
  | cons w W ih =>
    intro h x hx hp
    cases W with
    | nil =>
      simp at hx; subst hx
      simpa [firstOf, litSpec, hp] using h
    | cons w2 W =>
      have hstep : firstOf (w :: w2 :: W) g z cs = (litSpec w g z cs).orElse fun _ => firstOf (w2 :: W) g z cs := rfl
      rw [hstep] at h
      cases h1 : litSpec w g z cs with
      | ok r => rw [h1] at h; simp [Res.orElse] at h
      | oof => rw [h1] at h; simp [Res.orElse] at h
      | none =>
        rw [h1] at h
        simp only [Res.orElse] at h
        simp only [List.mem_cons] at hx
        rcases hx with rfl | hx
        · simpa [litSpec, hp] using h1
        · exact ih h x (by simpa using hx) hp

theorem firstOf_ok (g : K) (z : Z) (cs : Caps) (r : Z × Caps) : ∀ (W : List (List CharSet)), W ≠ [] →
    firstOf W g z cs = .ok r → ∃ w ∈ W, pre w z.right = true ∧ g (skip z w.length) cs = .ok r := by
  intro W
  induction W with
  | nil => intro h; exact absurd rfl h
  | cons w W ih =>
    intro _ h
    cases W with
    | nil =>
      simp only [firstOf, litSpec] at h
      by_cases hp : pre w z.right = true
      · simp only [hp, if_true] at h; exact ⟨w, by simp, hp, h⟩
      · simp [hp] at h
    | cons w2 W =>
      have hstep : firstOf (w :: w2 :: W) g z cs = (litSpec w g z cs).orElse fun _ => firstOf (w2 :: W) g z cs := rfl
      rw [hstep] at h
      rcases orElse_ok h with h1 | ⟨_, h2⟩
      · simp only [litSpec] at h1
        by_cases hp : pre w z.right = true
        · simp only [hp, if_true] at h1; exact ⟨w, by simp, hp, h1⟩
        · simp [hp] at h1
      · obtain ⟨x, hx, hp, hg⟩ := ih (by simp) h2
        exact ⟨x, by simp [hx], hp, hg⟩

/-- a listed number stands alone at this position: not preceded and not followed by a digit -/
def StartsHere (nd : CharSet) (W : List (List CharSet)) (left right : List Char) : Prop :=
  prevOK nd left = true ∧ ∃ w ∈ W, pre w right = true ∧ nextOK nd (right.drop w.length) = true

theorem asSpec_none (nd : CharSet) (W : List (List CharSet)) (z : Z) (h : asSpec nd W finK z [] = .none) :
    ¬ StartsHere nd W z.left z.right := by
  rintro ⟨hp, w, hw, hpre, hn⟩
  simp only [asSpec, LB, hp, if_true, grpSpec] at h
  have := firstOf_none _ z [] W h w hw hpre
  simp [LA, skip, hn, finK] at this

theorem asSpec_ok (nd : CharSet) (W : List (List CharSet)) (hW : W ≠ []) (z z' : Z) (cs : Caps)
    (h : asSpec nd W finK z [] = .ok (z', cs)) :
    prevOK nd z.left = true ∧ ∃ w ∈ W, pre w z.right = true ∧ nextOK nd (z.right.drop w.length) = true ∧ z' = skip z w.length := by
  simp only [asSpec, LB] at h
  by_cases hp : prevOK nd z.left = true
  · simp only [hp, if_true, grpSpec] at h
    obtain ⟨w, hw, hpre, hg⟩ := firstOf_ok _ z [] (z', cs) W hW h
    simp only [LA] at hg
    by_cases hn : nextOK nd (skip z w.length).right = true
    · simp only [hn, if_true, finK] at hg
      simp at hg
      exact ⟨hp, w, hw, hpre, by simpa [skip] using hn, hg.1.symm⟩
    · simp [hn] at hg
  · simp [hp] at h

end NoSurvival
end Netconan
