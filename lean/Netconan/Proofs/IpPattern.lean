import Netconan.Proofs.RegexLang
import Netconan.Proofs.AsPattern
/-!
# Patterns of the shape `(?:(?<=^)|(?<=E))(core)tail` with a zero-width tail that tests `(?=E|$)`

`ipMatch_none` / `ipMatch_ok`: `matchAt` answers "no match" only where no word of `Lang core` stands
alone (previous character in `E` or none; next character in `E`, or end / final newline), and every
match is such a word.  `subLoop_scanG`: the substitution loop turns this into a left-to-right scan.
-/
namespace Netconan
namespace NoSurvival
open Regex

/-- `(?:(?<=^)|(?<=E))` -/
def lbRe' (enc : CharSet) : Re := .alt (.look false false 0 .bol) (.look false false 1 (.chr enc))

theorem lb'_ref (enc : CharSet) (k g : K) (hk : KRef k g) (fuel : Nat) (z : Z) (cs : Caps) :
    Ref (m fuel (lbRe' enc) k z cs) (LB enc g z cs) := by
  match fuel with
  | 0 => exact Ref.oof _
  | 1 => left; simp [lbRe', m, Res.orElse]
  | 2 => left; simp [lbRe', m, Res.orElse, stepBack]
  | f + 3 =>
    unfold lbRe' LB
    cases hl : z.left with
    | nil =>
      have : m (f + 3) (.alt (.look false false 0 .bol) (.look false false 1 (.chr enc))) k z cs
          = (k z cs).orElse fun _ => .none := by
        simp [m, hl, Res.orElse, stepBack]
      rw [this, orElse_none]; simp only [prevOK, if_true]; exact hk z cs
    | cons p l =>
      by_cases hin : inRanges enc p = true
      · have : m (f + 3) (.alt (.look false false 0 .bol) (.look false false 1 (.chr enc))) k z cs = k z cs := by
          simp [m, hl, Res.orElse, stepBack, hin]
        rw [this]; simp only [prevOK, hin, if_true]; exact hk z cs
      · have : m (f + 3) (.alt (.look false false 0 .bol) (.look false false 1 (.chr enc))) k z cs = .none := by
          simp [m, hl, Res.orElse, stepBack, hin]
        rw [this]
        have hin' : inRanges enc p = false := by simpa using hin
        simp only [prevOK, hin']
        exact Ref.rfl' _

/-- what the proofs need to know about the zero-width tail of the pattern -/
structure TailOK (enc : CharSet) (tail : Re) : Prop where
  ok : ∀ fuel z cs res, m fuel tail finK z cs = .ok res → res.1 = z ∧ nextOK enc z.right = true
  complete : ∀ fuel z cs, nextOK enc z.right = true → m fuel tail finK z cs ≠ .none

theorem tail_la (enc : CharSet) : TailOK enc (laRe enc) := by
  constructor
  · intro fuel z cs res h
    rcases la_ref enc finK finK (fun _ _ => Ref.rfl' _) fuel z cs with ho | he
    · rw [ho] at h; simp at h
    · rw [he] at h
      simp only [LA, finK] at h
      by_cases hn : nextOK enc z.right = true
      · simp only [hn, if_true] at h
        simp at h
        exact ⟨by rw [← h], hn⟩
      · simp [hn] at h
  · intro fuel z cs hn
    rcases la_ref enc finK finK (fun _ _ => Ref.rfl' _) fuel z cs with ho | he
    · rw [ho]; simp
    · rw [he]; simp [LA, hn, finK]

/-- a success of a look-ahead is a success of its continuation at the same position -/
theorem look_ahead_cont (f : Nat) (r : Re) (K' : K) (z : Z) (cs : Caps) (res : Z × Caps)
    (h : m f (.look true false 0 r) K' z cs = .ok res) : ∃ cs', K' z cs' = .ok res := by
  cases f with
  | zero => simp [m] at h
  | succ f =>
    simp only [m, if_true] at h
    cases hm : m f r (fun z' cs' => if true || z'.left.length == z.left.length then Res.ok (z', cs') else Res.none) z cs with
    | ok p => obtain ⟨a, cs'⟩ := p; rw [hm] at h; exact ⟨cs', h⟩
    | none => rw [hm] at h; simp at h
    | oof => rw [hm] at h; simp at h

/-- `(?=/(\d{1,3}))?(?=E|$)`: the optional look-ahead is zero-width -/
theorem tail_opt (enc : CharSet) (x : Re) : TailOK enc (.seq (.rep 0 (some 1) true (.look true false 0 x)) (laRe enc)) := by
  have key : ∀ fuel z cs, m (fuel + 2) (.seq (.rep 0 (some 1) true (.look true false 0 x)) (laRe enc)) finK z cs = .oof ∨
      m (fuel + 2) (.seq (.rep 0 (some 1) true (.look true false 0 x)) (laRe enc)) finK z cs = m (fuel + 1) (laRe enc) finK z cs := by
    intro fuel z cs
    have hstep : m (fuel + 2) (.seq (.rep 0 (some 1) true (.look true false 0 x)) (laRe enc)) finK z cs
        = (m fuel (.look true false 0 x) (fun z' cs' =>
              if (0 == 0 && z'.right.length == z.right.length) then Res.none
              else m fuel (.rep (0 - 1) ((some 1).map (· - 1)) true (.look true false 0 x)) (m (fuel + 1) (laRe enc) finK) z' cs') z cs).orElse
            (fun _ => m (fuel + 1) (laRe enc) finK z cs) := by
      simp [m]
    rw [hstep]
    cases hm : m fuel (.look true false 0 x) (fun z' cs' =>
              if (0 == 0 && z'.right.length == z.right.length) then Res.none
              else m fuel (.rep (0 - 1) ((some 1).map (· - 1)) true (.look true false 0 x)) (m (fuel + 1) (laRe enc) finK) z' cs') z cs with
    | oof => left; rfl
    | none => right; rfl
    | ok res =>
      exfalso
      obtain ⟨cs', hk⟩ := look_ahead_cont fuel x _ z cs res hm
      simp at hk
  constructor
  · intro fuel z cs res h
    match fuel with
    | 0 => simp [m] at h
    | 1 => simp [m] at h
    | f + 2 =>
      rcases key f z cs with ho | he
      · rw [ho] at h; simp at h
      · rw [he] at h; exact (tail_la enc).ok _ z cs res h
  · intro fuel z cs hn
    match fuel with
    | 0 => simp [m]
    | 1 => simp [m]
    | f + 2 =>
      rcases key f z cs with ho | he
      · rw [ho]; simp
      · rw [he]; exact (tail_la enc).complete _ z cs hn

/-! ### the whole pattern -/

def ipRe (enc : CharSet) (core tail : Re) : Re := .seq (lbRe' enc) (.seq (.grp 1 core) tail)

/-- a word of the core language stands alone here -/
def Stands (enc : CharSet) (core : Re) (left right : List Char) : Prop :=
  prevOK enc left = true ∧ ∃ w rest, Lang core w ∧ right = w ++ rest ∧ nextOK enc rest = true

theorem ipMatch_unfold (enc : CharSet) (core tail : Re) (f : Nat) (z : Z) :
    Ref (matchAt (ipRe enc core tail) (f + 3) z)
      (if prevOK enc z.left then
        m f core (fun z' cs' => m (f + 1) tail finK z' ((1, spanOf z z') :: cs')) z []
       else .none) := by
  have h1 : matchAt (ipRe enc core tail) (f + 3) z
      = m (f + 2) (lbRe' enc) (m (f + 2) (.seq (.grp 1 core) tail) finK) z [] := rfl
  rw [h1]
  have h2 := lb'_ref enc (m (f + 2) (.seq (.grp 1 core) tail) finK) (m (f + 2) (.seq (.grp 1 core) tail) finK)
    (fun _ _ => Ref.rfl' _) (f + 2) z []
  have h3 : m (f + 2) (.seq (.grp 1 core) tail) finK z []
      = m f core (fun z' cs' => m (f + 1) tail finK z' ((1, spanOf z z') :: cs')) z [] := rfl
  simp only [LB] at h2
  rw [h3] at h2
  exact h2

theorem ipMatch_small (enc : CharSet) (core tail : Re) (fuel : Nat) (hf : fuel < 3) (z : Z) :
    matchAt (ipRe enc core tail) fuel z = .oof := by
  match fuel with
  | 0 => rfl
  | 1 => rfl
  | 2 => simp [matchAt, ipRe, lbRe', m, Res.orElse]

theorem ipMatch_none (enc : CharSet) (core tail : Re) (ht : TailOK enc tail) (fuel : Nat) (z : Z)
    (h : matchAt (ipRe enc core tail) fuel z = .none) : ¬ Stands enc core z.left z.right := by
  rintro ⟨hp, w, rest, hl, hr, hn⟩
  by_cases hf : fuel < 3
  · rw [ipMatch_small enc core tail fuel hf z] at h; simp at h
  · obtain ⟨f, rfl⟩ : ∃ f, fuel = f + 3 := ⟨fuel - 3, by omega⟩
    rcases ipMatch_unfold enc core tail f z with ho | he
    · rw [ho] at h; simp at h
    · rw [he, hp] at h
      simp only [if_true] at h
      refine m_complete hl f _ z [] rest hr ?_ h
      intro cs'
      exact ht.complete _ _ _ hn

theorem ipMatch_ok (enc : CharSet) (core tail : Re) (hpl : Plain core = true) (ht : TailOK enc tail) (fuel : Nat) (z z' : Z) (cs : Caps)
    (h : matchAt (ipRe enc core tail) fuel z = .ok (z', cs)) :
    prevOK enc z.left = true ∧ ∃ w, Lang core w ∧ z.right = w ++ z'.right ∧ z'.left = w.reverse ++ z.left ∧
      nextOK enc z'.right = true := by
  by_cases hf : fuel < 3
  · rw [ipMatch_small enc core tail fuel hf z] at h; simp at h
  · obtain ⟨f, rfl⟩ : ∃ f, fuel = f + 3 := ⟨fuel - 3, by omega⟩
    rcases ipMatch_unfold enc core tail f z with ho | he
    · rw [ho] at h; simp at h
    · rw [he] at h
      by_cases hp : prevOK enc z.left = true
      · simp only [hp, if_true] at h
        obtain ⟨w, rest, cs', hl, hr, hk⟩ := m_sound f core _ z [] (z', cs) hpl h
        obtain ⟨hz, hn⟩ := ht.ok _ _ _ _ hk
        simp only at hz
        refine ⟨hp, w, hl, ?_, ?_, ?_⟩
        · rw [hz]; exact hr
        · rw [hz]; rfl
        · rw [hz]; exact hn
      · simp [hp] at h

end NoSurvival
end Netconan
