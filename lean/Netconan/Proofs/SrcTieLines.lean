import Netconan.Generated.SrcLines
/-!
# The translated loop body of `FileAnonymizer.anonymize_io` is the model's `lineStep`

The order of the stages (secrets, IPv6, IPv4, sensitive words, AS numbers), the condition under which each runs and
what each is applied to are read from the source text on every run.
-/
namespace Netconan.SrcTie
open Netconan Netconan.Generated Netconan.Lines

/-- **one iteration of the `for line in in_io.readlines()` loop, as written in the source, is `Lines.lineStep`** -/
theorem line_step_tie (p : Pipeline) (lk : Secrets.Lookup) (line : List Char) :
    Src.line_step p lk line = lineStep p lk line := by
  unfold Src.line_step lineStep pureStages ip6Stage ip4Stage wordStage asStage
  cases h6 : p.ip6 <;> cases h4 : p.ip4 <;> cases hw : p.words <;> cases ha : p.asn <;>
    simp only [optStage, ite_self, bind_pure, pure_bind, bind_assoc, bind_pure_comp, Functor.map_map, id_map'] <;>
    (cases hs : secretStage p lk line with
     | error e => rfl
     | ok r => obtain ⟨l1, lk1, logs⟩ := r; simp [bind, Except.bind, pure, Except.pure, Functor.map, Except.map] <;>
               (repeat' split) <;> simp_all [optStage])

end Netconan.SrcTie
