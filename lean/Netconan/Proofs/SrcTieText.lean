import Netconan.Proofs.SrcTieIp
import Netconan.Proofs.IpInt
import Netconan.Proofs.Ipv6Bound
/-!
# The stateful replacement function of the source computes the pure text-level replacement

`_anonymize_match` as written in the source (translated in `Generated/SrcIp.lean`) parses the matched text, asks
`should_anonymize`, calls the memoising `anonymize` / `deanonymize` and prints the result.  The text-level theorems
(C01, C02, C04, C05, C06) are about the *pure* function `IpText.anonMatch` (defined with the cache-free map).  Here:
on every memo that satisfies the invariant of the refinement proof – hence on every memo reachable from the
constructor by any history of calls – the translated function returns exactly `IpText.anonMatch`, leaves the
invariant intact and only adds entries.
-/
namespace Netconan.SrcTie
open Netconan Netconan.Generated Netconan.IpText Netconan.IpCore

theorem cfg_L_pos (cfg : IpCfg) : 0 < cfg.L := by unfold IpCfg.L; split <;> decide

theorem should_dispatch (fam6 : Bool) (nets : List Mask.Net) (n : Nat) :
    (if fam6 = true then Src.should_anonymize6 n else Src.should_anonymize nets n) = (fam6 || Mask.shouldAnonymize nets n) := by
  cases fam6 <;> rfl

/-- **`_anonymize_match` of the source = the pure `anonMatch`, on every reachable memo.** -/
theorem anonymize_match_spec (cfg : IpCfg) (undo : Bool) (txt : List Char)
    (hbound : ∀ n, (if cfg.fam6 then parseV6 txt else parseV4 txt) = .ok n → n < 2 ^ cfg.L)
    (c : Cache) (hI : Inv cfg.h cfg.pins cfg.L cfg.B c) :
    ∃ c', Src.anonymize_match cfg.h cfg.fam6 cfg.nets cfg.L cfg.B txt undo c = .ok (anonMatch cfg undo txt, c') ∧
      Inv cfg.h cfg.pins cfg.L cfg.B c' ∧ (∀ e ∈ c, e ∈ c') := by
  unfold Src.anonymize_match anonMatch
  simp only [should_dispatch]
  cases hp : (if cfg.fam6 then parseV6 txt else parseV4 txt) with
  | error e => exact ⟨c, by simp, hI, fun e he => he⟩
  | ok n =>
    have hn := hbound n hp
    simp only []
    by_cases hs : (!(cfg.fam6 || Mask.shouldAnonymize cfg.nets n)) = true
    · refine ⟨c, ?_, hI, fun e he => he⟩
      have : (!cfg.fam6 && !Mask.shouldAnonymize cfg.nets n) = true := by
        cases hf : cfg.fam6 <;> cases hm : Mask.shouldAnonymize cfg.nets n <;> simp_all
      simp [hs, this]
    · have : (!cfg.fam6 && !Mask.shouldAnonymize cfg.nets n) = false := by
        cases hf : cfg.fam6 <;> cases hm : Mask.shouldAnonymize cfg.nets n <;> simp_all
      simp only [hs, this, Bool.false_eq_true, ↓reduceIte, Py.bind_apply]
      cases undo with
      | true =>
        obtain ⟨c', h1, hI', hsub⟩ := step_spec cfg.h cfg.pins cfg.L cfg.B (cfg_L_pos cfg) (.deanon n) hn c hI
        refine ⟨c', ?_, hI', hsub⟩
        simp only [↓reduceIte, Py.bind_apply, deanonymize_tie, h1, Py.pure_apply, answer, GN]
      | false =>
        obtain ⟨c', h1, hI', hsub⟩ := step_spec cfg.h cfg.pins cfg.L cfg.B (cfg_L_pos cfg) (.anon n) hn c hI
        refine ⟨c', ?_, hI', hsub⟩
        simp only [Bool.false_eq_true, ↓reduceIte, Py.bind_apply, anonymize_tie, h1, Py.pure_apply, answer, FN]

end Netconan.SrcTie

namespace Netconan.SrcTie
open Netconan Netconan.Generated Netconan.IpText Netconan.IpCore

theorem parseOctet_le (p : List Char) (v : Nat) (h : parseOctet p = some v) : v ≤ 255 := by
  unfold parseOctet at h
  simp only [] at h
  repeat' split at h
  all_goals first
    | (simp at h; done)
    | (simp only [Option.some.injEq] at h; omega)
    | (simp at h; obtain ⟨h1, h2⟩ := h; omega)

theorem parseV4_lt (s : List Char) (n : Nat) (h : parseV4 s = .ok n) : n < 2 ^ 32 := by
  unfold parseV4 at h
  split at h
  · next a b c d heq =>
    have hl : ∀ x ∈ (splitOn '.' s).map parseOctet, ∀ v, x = some v → v ≤ 255 := by
      intro x hx v hv
      obtain ⟨p, _, hp⟩ := List.mem_map.mp hx
      exact parseOctet_le p v (hp.trans hv)
    rw [heq] at hl
    have ha := hl (some a) (by simp) a rfl
    have hb := hl (some b) (by simp) b rfl
    have hc := hl (some c) (by simp) c rfl
    have hd := hl (some d) (by simp) d rfl
    simp only [Except.ok.injEq] at h
    omega
  · simp at h

/-- IPv4: no side condition – every text that parses gives a 32-bit value -/
theorem anonymize_match_spec_v4 (cfg : IpCfg) (h4 : cfg.fam6 = false) (undo : Bool) (txt : List Char)
    (c : Cache) (hI : Inv cfg.h cfg.pins cfg.L cfg.B c) :
    ∃ c', Src.anonymize_match cfg.h cfg.fam6 cfg.nets cfg.L cfg.B txt undo c = .ok (anonMatch cfg undo txt, c') ∧
      Inv cfg.h cfg.pins cfg.L cfg.B c' ∧ (∀ e ∈ c, e ∈ c') := by
  apply anonymize_match_spec cfg undo txt _ c hI
  intro n hn
  simp only [h4, Bool.false_eq_true, ↓reduceIte] at hn
  have : cfg.L = 32 := by simp [IpCfg.L, h4]
  rw [this]
  exact parseV4_lt txt n hn

/-- both families, no side condition: every text that parses gives a value of the family's width -/
theorem anonymize_match_spec_all (cfg : IpCfg) (undo : Bool) (txt : List Char)
    (c : Cache) (hI : Inv cfg.h cfg.pins cfg.L cfg.B c) :
    ∃ c', Src.anonymize_match cfg.h cfg.fam6 cfg.nets cfg.L cfg.B txt undo c = .ok (anonMatch cfg undo txt, c') ∧
      Inv cfg.h cfg.pins cfg.L cfg.B c' ∧ (∀ e ∈ c, e ∈ c') := by
  apply anonymize_match_spec cfg undo txt _ c hI
  intro n hn
  cases h6 : cfg.fam6 with
  | false =>
    simp only [h6, Bool.false_eq_true, ↓reduceIte] at hn
    have : cfg.L = 32 := by simp [IpCfg.L, h6]
    rw [this]; exact parseV4_lt txt n hn
  | true =>
    simp only [h6, ↓reduceIte] at hn
    have : cfg.L = 128 := by simp [IpCfg.L, h6]
    rw [this]; exact parseV6_lt txt n hn

/-! ## `anonymize_ip_addr`: the whole line -/
open Regex in
/-- **`pattern.sub` with a memoising callback is `pattern.sub` with the pure function the callback computes**: if on every state
that satisfies an invariant `P` the callback returns `g match`, never raises and keeps `P`, then the stateful substitution returns
the pure substitution's result and keeps `P`. -/
theorem subLoopM_spec (P : Cache → Prop) (r : Re) (fuel : Nat) (f : Match → Py.M (List Char)) (g : Match → List Char)
    (hf : ∀ mt c, P c → ∃ c', f mt c = .ok (g mt, c') ∧ P c') :
    ∀ n z acc c, P c → ∃ c', Py.subLoopM r fuel f n z acc c = .ok (subLoop r fuel g n z acc, c') ∧ P c' := by
  intro n
  induction n with
  | zero => intro z acc c hc; exact ⟨c, rfl, hc⟩
  | succ n ih =>
    intro z acc c hc
    unfold Py.subLoopM subLoop
    cases hm : matchAt r fuel z with
    | oof => exact ⟨c, rfl, hc⟩
    | none =>
      simp only []
      cases hr : z.right with
      | nil => exact ⟨c, rfl, hc⟩
      | cons ch rest => exact ih _ _ c hc
    | ok p =>
      obtain ⟨z', cs⟩ := p
      simp only [Py.mbind_apply]
      obtain ⟨c1, h1, hc1⟩ := hf ⟨z.left.length, (z'.left.take (z'.left.length - z.left.length)).reverse, cs⟩ c hc
      simp only [h1]
      by_cases he : ((z'.left.take (z'.left.length - z.left.length)).reverse).isEmpty = true
      · simp only [he, ↓reduceIte]
        cases hr : z.right with
        | nil => exact ⟨c1, rfl, hc1⟩
        | cons ch rest => exact ih _ _ c1 hc1
      · simp only [he, Bool.false_eq_true, ↓reduceIte]
        exact ih _ _ c1 hc1

/-- **`anonymize_ip_addr` as written in the source (pattern substitution with the memoising `_anonymize_match` as callback) returns
the pure `IpText.anonIpLine`** – for every line, in both directions, for both families, on every memo that satisfies the invariant
(every memo reachable from the constructor); it never raises and keeps the invariant. -/
theorem anonymize_ip_addr_spec (cfg : IpCfg) (undo : Bool) (line : List Char) (c : Cache)
    (hI : Inv cfg.h cfg.pins cfg.L cfg.B c) :
    ∃ c', Src.anonymize_ip_addr cfg.h cfg.fam6 cfg.nets cfg.L cfg.B cfg.pattern line undo c = .ok (anonIpLine cfg undo line, c') ∧
      Inv cfg.h cfg.pins cfg.L cfg.B c' := by
  unfold Src.anonymize_ip_addr anonIpLine Regex.sub Py.subM
  obtain ⟨c', h1, hI'⟩ := subLoopM_spec (Inv cfg.h cfg.pins cfg.L cfg.B) cfg.pattern (Regex.fuelFor cfg.pattern line.length)
    (fun mt => Src.anonymize_match cfg.h cfg.fam6 cfg.nets cfg.L cfg.B mt.text undo) (fun mt => anonMatch cfg undo mt.text)
    (by
      intro mt c0 h0
      obtain ⟨c1, e1, i1, _⟩ := anonymize_match_spec_all cfg undo mt.text c0 h0
      exact ⟨c1, e1, i1⟩)
    (line.length + 2) ⟨[], line⟩ [] c hI
  exact ⟨c', h1, hI'⟩

end Netconan.SrcTie
