import Netconan.Proofs.UndoScan
import Netconan.Proofs.IpInt
/-!
# `--undo` applied to an anonymized line restores every address in canonical spelling and changes nothing else
-/
namespace Netconan
namespace NoSurvival
open Regex IpText IpCore

theorem showV4_eq (n : Nat) : showV4 n = showQuad n := rfl

theorem cfgL4 (c : IpCfg) (hf : c.fam6 = false) : c.L = 32 := by simp [IpCfg.L, hf]

/-- **One token, there and back.**  For a dotted quad `t` of the core language with value `n`: if `n` is
netmask-shaped or in a preserved network, both directions leave `t` as written; otherwise, provided the image of
`n` is itself neither (the property's proviso; for preserved networks this is C05 `outside_stays_outside`), undoing
the replacement gives the canonical spelling of `n`. -/
theorem undo_anon_token (c : IpCfg) (hf : c.fam6 = false) (hshow : ∀ n, showV4 n = showQuad n) (t : List Char) (ht : Lang core4 t) :
    ∃ n, parseV4 t = .ok n ∧ n < 2 ^ 32 ∧
      (Mask.shouldAnonymize c.nets n = false → anonMatch c false t = t ∧ anonMatch c true t = t) ∧
      (Mask.shouldAnonymize c.nets n = true → Mask.shouldAnonymize c.nets (FN c.h c.pins 32 c.B n) = true →
        anonMatch c true (anonMatch c false t) = showV4 n) := by
  obtain ⟨n, hp, hn, hF⟩ := anonMatch_of_lang c hf false t ht
  obtain ⟨n', hp', _, hG⟩ := anonMatch_of_lang c hf true t ht
  have hnn : n' = n := by rw [hp] at hp'; exact (Except.ok.inj hp').symm
  subst hnn
  refine ⟨n', hp, hn, ?_, ?_⟩
  · intro hs
    simp only [hs, Bool.false_eq_true, if_false] at hF hG
    exact ⟨hF, hG⟩
  · intro hs hs2
    simp only [hs, if_true, Bool.false_eq_true, if_false, cfgL4 c hf] at hF
    have hm : FN c.h c.pins 32 c.B n' < 2 ^ 32 := FN_lt c.h c.pins 32 c.B (by decide) hn
    have hF' : anonMatch c false t = showQuad (FN c.h c.pins 32 c.B n') := by rw [hF, hshow]; rfl
    rw [hF']
    obtain ⟨k, hpk, _, hGk⟩ := anonMatch_of_lang c hf true _ (showQuad_lang (FN c.h c.pins 32 c.B n'))
    rw [showQuad_parse _ hm] at hpk
    have hk : k = FN c.h c.pins 32 c.B n' := (Except.ok.inj hpk).symm
    subst hk
    simp only [hs2, if_true, cfgL4 c hf] at hGk
    rw [hGk]
    congr 1
    exact GN_FN c.h c.pins 32 c.B (by decide) hn

theorem anonMatch_keeps_lang (c : IpCfg) (hf : c.fam6 = false) (hshow : ∀ n, showV4 n = showQuad n) (undo : Bool)
    (t : List Char) (ht : Lang core4 t) : Lang core4 (anonMatch c undo t) := by
  obtain ⟨n, _, _, h⟩ := anonMatch_of_lang c hf undo t ht
  rw [h]
  split
  · rw [hshow]; exact showQuad_lang _
  · exact ht

/-- **Line level**: if `out` is the anonymized line and `back` the result of undoing `out` (any anonymizer with
the same salt and options: `anonMatch` is a pure function), then `back` is the line with every replaced token `t`
replaced by `undo (anonymize t)` – same kept characters, same positions. -/
theorem undo_of_anonymized_line (c : IpCfg) (hf : c.fam6 = false) (hshow : ∀ n, showV4 n = showQuad n)
    (hp : c.pattern = Pinned.Patterns.ipv4 ∨ c.pattern = Generated.Patterns.ipv4)
    (line out back : List Char) (h1 : anonIpLine c false line = .ok out) (h2 : anonIpLine c true out = .ok back) :
    ∃ segs : List Seg, line = srcs segs ∧ out = dsts segs ∧ ScanG S4 En4 (anonMatch c false) [] segs ∧
      back = dsts (mapSegs (anonMatch c true) segs) := by
  have shape : c.pattern = ipRe E4 core4 (tail4 E4 (tailXOf c.pattern)) := by
    rcases hp with hp | hp
    · rw [hp]; exact pinned_ipv4_shape
    · rw [hp]; exact generated_ipv4_shape
  obtain ⟨segs, e1, e2, sc1⟩ := ip_scan c false E4 core4 _ shape core4_plain core4_min (tail_opt _ _) line out h1
  obtain ⟨segs2, f1, f2, sc2⟩ := ip_scan c true E4 core4 _ shape core4_plain core4_min (tail_opt _ _) out back h2
  have cand := scan_of_output (anonMatch c false) (anonMatch c true) (fun t ht => anonMatch_keeps_lang c hf hshow false t ht)
    segs [] [] sc1 (Or.inl ⟨rfl, rfl⟩)
  have hs : srcs (mapSegs (anonMatch c true) segs) = srcs segs2 := by rw [srcs_mapSegs, ← e2, f1]
  have := scan_unique (anonMatch c true) _ _ [] cand sc2 hs
  exact ⟨segs, e1, e2, sc1, by rw [this]; exact f2⟩

end NoSurvival
end Netconan
