import Netconan.Model.Secrets
/-! `netconanRemoved<N>` is injective in `N`: the decimal rendering can be read back. -/
namespace Netconan
namespace Secrets

def digitsVal (l : List Char) : Nat := l.foldl (fun a c => a * 10 + (c.toNat - 48)) 0

theorem digitsVal_foldl (l : List Char) (a : Nat) :
    l.foldl (fun a c => a * 10 + (c.toNat - 48)) a = a * 10 ^ l.length + digitsVal l := by
  induction l generalizing a with
  | nil => simp [digitsVal]
  | cons c cs ih =>
    simp only [List.foldl_cons, List.length_cons, digitsVal]
    rw [ih, ih (0 * 10 + (c.toNat - 48))]
    rw [Nat.pow_succ]
    simp only [Nat.zero_mul, Nat.zero_add]
    rw [Nat.add_mul, Nat.mul_assoc, Nat.add_assoc, Nat.mul_comm (10 ^ cs.length) 10]

theorem digitsVal_cons (c : Char) (l : List Char) : digitsVal (c :: l) = (c.toNat - 48) * 10 ^ l.length + digitsVal l := by
  show List.foldl (fun a c => a * 10 + (c.toNat - 48)) (0 * 10 + (c.toNat - 48)) l = _
  rw [digitsVal_foldl]
  simp

theorem digit_val : ∀ d, d < 10 → (Char.ofNat (48 + d)).toNat - 48 = d := by decide

theorem decDigitsAux_val (f : Nat) : ∀ n acc, n < 10 ^ f →
    digitsVal (decDigitsAux f n acc) = n * 10 ^ acc.length + digitsVal acc := by
  induction f with
  | zero => intro n acc h; simp at h; subst h; simp [decDigitsAux]
  | succ f ih =>
    intro n acc h
    simp only [decDigitsAux]
    have hd := digit_val (n % 10) (Nat.mod_lt _ (by decide))
    split
    · next hlt =>
      rw [digitsVal_cons, hd, Nat.mod_eq_of_lt hlt]
    · next hge =>
      have hlt : n / 10 < 10 ^ f := by
        rw [Nat.pow_succ] at h
        exact Nat.div_lt_of_lt_mul (by rw [Nat.mul_comm]; exact h)
      rw [ih (n / 10) _ hlt, digitsVal_cons, hd]
      simp only [List.length_cons, Nat.pow_succ]
      have := Nat.div_add_mod n 10
      calc n / 10 * (10 ^ acc.length * 10) + (n % 10 * 10 ^ acc.length + digitsVal acc)
          = (10 * (n / 10) + n % 10) * 10 ^ acc.length + digitsVal acc := by
            rw [Nat.add_mul, Nat.mul_comm (10 ^ acc.length) 10, ← Nat.mul_assoc, Nat.mul_comm (n / 10) 10, Nat.add_assoc]
        _ = n * 10 ^ acc.length + digitsVal acc := by rw [this]

theorem lt_ten_pow (n : Nat) : n < 10 ^ (n + 1) := by
  induction n with
  | zero => decide
  | succ n ih => rw [Nat.pow_succ]; omega

/-- reading the decimal rendering back gives the number -/
theorem digitsVal_decDigits (n : Nat) : digitsVal (decDigits n) = n := by
  unfold decDigits
  rw [decDigitsAux_val (n + 1) n [] (lt_ten_pow n)]
  simp [digitsVal]

theorem decDigits_inj {a b : Nat} (h : decDigits a = decDigits b) : a = b := by
  have := congrArg digitsVal h
  rwa [digitsVal_decDigits, digitsVal_decDigits] at this

/-- **Different table sizes give different pseudonyms** -/
theorem pseudonym_inj {a b : Nat} (h : pseudonym a = pseudonym b) : a = b := by
  unfold pseudonym at h
  exact decDigits_inj (List.append_cancel_left h)

end Secrets
end Netconan
