import Netconan.Proofs.Mask
/-!
# "At most one bit transition" is "ones then zeros, or zeros then ones"

For every width `n ≥ 1` and every `x < 2^n`: the adjacent-bit difference word
`D n x = (x ^^^ (x >>> 1)) % 2^(n-1)` has at most one bit set iff `x = 2^n - 2^j` (ones then zeros)
or `x = 2^j - 1` (zeros then ones) for some `j ≤ n`.  By induction on the width, peeling the low bit.
-/
namespace Netconan
namespace Mask

def D (n x : Nat) : Nat := (x ^^^ (x >>> 1)) % 2 ^ (n - 1)
def OneBit (d : Nat) : Prop := d = 0 ∨ ∃ k, d = 2 ^ k
def MaskShape (n x : Nat) : Prop := ∃ j, j ≤ n ∧ (x = 2 ^ n - 2 ^ j ∨ x = 2 ^ j - 1)

theorem xor_mod_two (a b : Nat) : (a ^^^ b) % 2 = (a + b) % 2 := by
  have h := @Nat.xor_mod_two_eq_one a b
  have hx := Nat.mod_two_eq_zero_or_one (a ^^^ b)
  rcases Nat.mod_two_eq_zero_or_one a with ha | ha <;> rcases Nat.mod_two_eq_zero_or_one b with hb | hb
  · have : ¬ ((a ^^^ b) % 2 = 1) := by rw [h]; simp [ha, hb]
    omega
  · have : (a ^^^ b) % 2 = 1 := by rw [h]; simp [ha, hb]
    omega
  · have : (a ^^^ b) % 2 = 1 := by rw [h]; simp [ha, hb]
    omega
  · have : ¬ ((a ^^^ b) % 2 = 1) := by rw [h]; simp [ha, hb]
    omega

/-- peeling the low bit: `D (n+1) (2e+b) = 2 * D n e + (b + e) % 2` for `n ≥ 1` -/
theorem D_step (n e b : Nat) (hn : 1 ≤ n) (hb : b < 2) : D (n + 1) (2 * e + b) = 2 * D n e + (b + e) % 2 := by
  unfold D
  have hs : (2 * e + b) >>> 1 = e := by rw [Nat.shiftRight_eq_div_pow]; omega
  rw [hs]
  have hdiv : ((2 * e + b) ^^^ e) / 2 = e ^^^ (e >>> 1) := by
    rw [Nat.xor_div_two]
    have : (2 * e + b) / 2 = e := by omega
    rw [this, Nat.shiftRight_eq_div_pow]
  have hmod : ((2 * e + b) ^^^ e) % 2 = (b + e) % 2 := by rw [xor_mod_two]; omega
  have hpow : 2 ^ (n + 1 - 1) = 2 * 2 ^ (n - 1) := by
    have : n + 1 - 1 = (n - 1) + 1 := by omega
    rw [this, Nat.pow_succ]; omega
  rw [hpow, Nat.mod_mul, hdiv, hmod]
  omega

theorem oneBit_step (d c : Nat) (hc : c < 2) : OneBit (2 * d + c) ↔ (c = 0 ∧ OneBit d) ∨ (c = 1 ∧ d = 0) := by
  constructor
  · rintro (h | ⟨k, hk⟩)
    · left; exact ⟨by omega, Or.inl (by omega)⟩
    · cases k with
      | zero => right; simp at hk; omega
      | succ k =>
        rw [Nat.pow_succ] at hk
        left; exact ⟨by omega, Or.inr ⟨k, by omega⟩⟩
  · rintro (⟨rfl, h | ⟨k, hk⟩⟩ | ⟨rfl, rfl⟩)
    · left; omega
    · right; exact ⟨k + 1, by rw [Nat.pow_succ]; omega⟩
    · right; exact ⟨0, by simp⟩

theorem two_pow_pos' (n : Nat) : 1 ≤ 2 ^ n := Nat.one_le_two_pow
theorem pow_le_of_le {j n : Nat} (h : j ≤ n) : 2 ^ j ≤ 2 ^ n := Nat.pow_le_pow_right (by decide) h

/-- `D n e = 0` iff all `n` bits of `e` are equal -/
theorem D_zero (n : Nat) (hn : 1 ≤ n) : ∀ e, e < 2 ^ n → (D n e = 0 ↔ e = 0 ∨ e = 2 ^ n - 1) := by
  induction n with
  | zero => omega
  | succ n ih =>
    intro x hx
    by_cases h1 : n = 0
    · subst h1
      simp at hx
      have : D 1 x = 0 := by simp [D, Nat.mod_one]
      simp [this]; omega
    · have hn1 : 1 ≤ n := by omega
      obtain ⟨e, b, hb, rfl⟩ : ∃ e b, b < 2 ∧ x = 2 * e + b := ⟨x / 2, x % 2, Nat.mod_lt _ (by decide), by omega⟩
      have he : e < 2 ^ n := by rw [Nat.pow_succ] at hx; omega
      rw [D_step n e b hn1 hb]
      have ihe := ih hn1 e he
      have hp := two_pow_pos' n
      have hpe : 2 ^ n % 2 = 0 := by
        obtain ⟨m, rfl⟩ : ∃ m, n = m + 1 := ⟨n - 1, by omega⟩
        rw [Nat.pow_succ]; omega
      rw [Nat.pow_succ]
      constructor
      · intro h
        have hd : D n e = 0 := by omega
        have hc : (b + e) % 2 = 0 := by omega
        rcases ihe.mp hd with rfl | rfl
        · left; omega
        · right; omega
      · rintro (h | h)
        · have : e = 0 := by omega
          subst this
          have : b = 0 := by omega
          subst this
          have := ihe.mpr (Or.inl rfl)
          omega
        · have he' : e = 2 ^ n - 1 := by omega
          have hb' : b = 1 := by omega
          subst hb'
          have := ihe.mpr (Or.inr he')
          rw [this]; omega

theorem shape_step (n e b : Nat) (hn : 1 ≤ n) (hb : b < 2) (he : e < 2 ^ n) :
    MaskShape (n + 1) (2 * e + b) ↔
      (b = e % 2 ∧ MaskShape n e) ∨ (b ≠ e % 2 ∧ (e = 0 ∨ e = 2 ^ n - 1)) := by
  have hp := two_pow_pos' n
  have hpe : 2 ^ n % 2 = 0 := by
    obtain ⟨m, rfl⟩ : ∃ m, n = m + 1 := ⟨n - 1, by omega⟩
    rw [Nat.pow_succ]; omega
  have hP : 2 ^ (n + 1) = 2 * 2 ^ n := by rw [Nat.pow_succ]; omega
  constructor
  · rintro ⟨j, hj, h | h⟩
    · -- ones then zeros
      rw [hP] at h
      cases j with
      | zero =>
        simp at h
        left; exact ⟨by omega, 0, by omega, Or.inl (by simp; omega)⟩
      | succ j =>
        have hjn : j ≤ n := by omega
        have hQ : 2 ^ (j + 1) = 2 * 2 ^ j := by rw [Nat.pow_succ]; omega
        have hle := pow_le_of_le hjn
        have hq := two_pow_pos' j
        rw [hQ] at h
        cases j with
        | zero =>
          simp at h
          right; exact ⟨by omega, Or.inr (by omega)⟩
        | succ i =>
          have hQ2 : 2 ^ (i + 1) % 2 = 0 := by rw [Nat.pow_succ]; omega
          left; exact ⟨by omega, i + 1, hjn, Or.inl (by omega)⟩
    · -- zeros then ones
      cases j with
      | zero => simp at h; left; exact ⟨by omega, 0, by omega, Or.inr (by simp; omega)⟩
      | succ j =>
        have hjn : j ≤ n := by omega
        have hQ : 2 ^ (j + 1) = 2 * 2 ^ j := by rw [Nat.pow_succ]; omega
        have hq := two_pow_pos' j
        rw [hQ] at h
        cases j with
        | zero => simp at h; right; exact ⟨by omega, Or.inl (by omega)⟩
        | succ i =>
          have hQ2 : 2 ^ (i + 1) % 2 = 0 := by rw [Nat.pow_succ]; omega
          left; exact ⟨by omega, i + 1, hjn, Or.inr (by omega)⟩
  · rintro (⟨hbe, j, hj, h | h⟩ | ⟨hbe, h | h⟩)
    · cases j with
      | zero =>
        simp at h
        exact ⟨0, by omega, Or.inl (by rw [hP]; simp; omega)⟩
      | succ i =>
        have hQ : 2 ^ (i + 1 + 1) = 2 * 2 ^ (i + 1) := by rw [Nat.pow_succ]; omega
        have hQ2 : 2 ^ (i + 1) % 2 = 0 := by rw [Nat.pow_succ]; omega
        have hle := pow_le_of_le hj
        exact ⟨i + 2, by omega, Or.inl (by rw [hP, hQ]; omega)⟩
    · cases j with
      | zero => simp at h; exact ⟨0, by omega, Or.inr (by simp; omega)⟩
      | succ i =>
        have hQ : 2 ^ (i + 1 + 1) = 2 * 2 ^ (i + 1) := by rw [Nat.pow_succ]; omega
        have hQ2 : 2 ^ (i + 1) % 2 = 0 := by rw [Nat.pow_succ]; omega
        have hq := two_pow_pos' (i + 1)
        exact ⟨i + 2, by omega, Or.inr (by rw [hQ]; omega)⟩
    · subst h
      exact ⟨1, by omega, Or.inr (by simp; omega)⟩
    · exact ⟨1, by omega, Or.inl (by rw [hP]; simp; omega)⟩

/-- **The characterisation**, for every width `n ≥ 1` -/
theorem oneBit_iff_shape (n : Nat) (hn : 1 ≤ n) : ∀ x, x < 2 ^ n → (OneBit (D n x) ↔ MaskShape n x) := by
  induction n with
  | zero => omega
  | succ n ih =>
    intro x hx
    by_cases h1 : n = 0
    · subst h1
      simp at hx
      have hD : D 1 x = 0 := by simp [D, Nat.mod_one]
      rw [hD]
      constructor
      · intro _
        rcases (show x = 0 ∨ x = 1 by omega) with rfl | rfl
        · exact ⟨0, by omega, Or.inr (by simp)⟩
        · exact ⟨1, by omega, Or.inr (by simp)⟩
      · intro _; left; rfl
    · have hn1 : 1 ≤ n := by omega
      obtain ⟨e, b, hb, rfl⟩ : ∃ e b, b < 2 ∧ x = 2 * e + b := ⟨x / 2, x % 2, Nat.mod_lt _ (by decide), by omega⟩
      have he : e < 2 ^ n := by rw [Nat.pow_succ] at hx; omega
      rw [D_step n e b hn1 hb, oneBit_step _ _ (Nat.mod_lt _ (by decide)), shape_step n e b hn1 hb he,
        ih hn1 e he, D_zero n hn1 e he]
      constructor
      · rintro (⟨h1, h2⟩ | ⟨h1, h2⟩)
        · left; exact ⟨by omega, h2⟩
        · right; exact ⟨by omega, h2⟩
      · rintro (⟨h1, h2⟩ | ⟨h1, h2⟩)
        · left; exact ⟨by omega, h2⟩
        · right; exact ⟨by omega, h2⟩

theorem diffOf_eq_D (x : Nat) : diffOf x = D 32 x := by
  unfold diffOf D
  have : (0x7FFFFFFF : Nat) = 2 ^ 31 - 1 := by decide
  rw [this, Nat.and_two_pow_sub_one_eq_mod]

/-- **`_is_mask` is exactly "ones then zeros, or zeros then ones"** for every 32-bit value. -/
theorem isMask_iff_shape (x : Nat) (hx : x < 2 ^ 32) :
    isMask x = true ↔ ∃ j, j ≤ 32 ∧ (x = 2 ^ 32 - 2 ^ j ∨ x = 2 ^ j - 1) := by
  rw [isMask_iff, diffOf_eq_D]
  exact oneBit_iff_shape 32 (by decide) x hx

end Mask
end Netconan
