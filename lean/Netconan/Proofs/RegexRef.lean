import Netconan.Proofs.WordMatch
/-!
# Exact behaviour of the engine on the shapes netconan's generated patterns use

`Ref r s` ("`r` is `s` unless the engine ran out of fuel").  For literals, ordered alternations of
literals, groups, sequences and the two look-arounds of the AS-number pattern the result of the
continuation-passing matcher is given as a plain function of the input (`litSpec`, `firstOf`, …),
for every continuation that is itself described up to fuel (`k ≈ g`).
-/
namespace Netconan
namespace NoSurvival
open Regex

/-- `r` equals `s` unless it is the out-of-fuel answer -/
def Ref {α} (r s : Res α) : Prop := r = .oof ∨ r = s

theorem Ref.rfl' {α} (r : Res α) : Ref r r := Or.inr rfl
theorem Ref.oof {α} (s : Res α) : Ref (.oof : Res α) s := Or.inl rfl

theorem Ref.trans {α} {a b c : Res α} (h1 : Ref a b) (h2 : Ref b c) : Ref a c := by
  rcases h1 with h | h
  · exact Or.inl h
  · rw [h]; exact h2

theorem Ref.orElse {α} {r s : Res α} {f g : Unit → Res α} (h : Ref r s) (hf : Ref (f ()) (g ())) :
    Ref (r.orElse f) (s.orElse g) := by
  rcases h with h | h
  · left; rw [h]; rfl
  · rw [h]
    cases s with
    | ok a => right; rfl
    | oof => right; rfl
    | none => exact hf

/-- continuation `k` is described by `g` up to fuel -/
def KRef (k g : K) : Prop := ∀ z cs, Ref (k z cs) (g z cs)

/-- the zipper after consuming `n` characters -/
def skip (z : Z) (n : Nat) : Z := ⟨(z.right.take n).reverse ++ z.left, z.right.drop n⟩

theorem skip_zero (z : Z) : skip z 0 = z := by simp [skip]

theorem skip_cons (z : Z) (c : Char) (rest : List Char) (n : Nat) (h : z.right = c :: rest) :
    skip z (n + 1) = skip ⟨c :: z.left, rest⟩ n := by
  simp [skip, h]

def litSpec (w : List CharSet) (g : K) : K := fun z cs => if pre w z.right then g (skip z w.length) cs else .none

theorem lit_ref (k g : K) (hk : KRef k g) : ∀ (w : List CharSet) (fuel : Nat) (z : Z) (cs : Caps),
    Ref (m fuel (litSets w) k z cs) (litSpec w g z cs) := by
  intro w
  induction w with
  | nil =>
    intro fuel z cs
    cases fuel with
    | zero => exact Ref.oof _
    | succ f =>
      have : m (f + 1) (litSets []) k z cs = k z cs := rfl
      rw [this]
      simp only [litSpec, pre, if_true, List.length_nil, skip_zero]
      exact hk z cs
  | cons a w ih =>
    intro fuel z cs
    cases fuel with
    | zero => exact Ref.oof _
    | succ f =>
      cases f with
      | zero => exact Ref.oof _
      | succ f' =>
        have hstep : m (f' + 1 + 1) (litSets (a :: w)) k z cs = m (f' + 1) (.chr a) (m (f' + 1) (litSets w) k) z cs := rfl
        rw [hstep]
        simp only [m]
        cases hz : z.right with
        | nil => simp only [litSpec, hz, pre]; exact Ref.rfl' _
        | cons c rest =>
          simp only [litSpec, hz, pre]
          by_cases hin : inRanges a c = true
          · simp only [hin, if_true, Bool.true_and]
            have := ih (f' + 1) ⟨c :: z.left, rest⟩ cs
            simp only [litSpec] at this
            rw [List.length_cons, skip_cons z c rest w.length hz]
            exact this
          · simp only [hin, Bool.false_and]
            exact Ref.rfl' _

/-- ordered alternation of literals: the first literal that matches *and* whose continuation succeeds -/
def firstOf : List (List CharSet) → K → K
  | [], g => g
  | [w], g => litSpec w g
  | w :: ws, g => fun z cs => (litSpec w g z cs).orElse fun _ => firstOf ws g z cs

theorem alt_ref (k g : K) (hk : KRef k g) : ∀ (W : List (List CharSet)) (fuel : Nat) (z : Z) (cs : Caps),
    Ref (m fuel (Words.altOf (W.map litSets)) k z cs) (firstOf W g z cs) := by
  intro W
  induction W with
  | nil =>
    intro fuel z cs
    cases fuel with
    | zero => exact Ref.oof _
    | succ f => exact hk z cs
  | cons w W ih =>
    intro fuel z cs
    cases W with
    | nil => exact lit_ref k g hk w fuel z cs
    | cons w2 W =>
      cases fuel with
      | zero => exact Ref.oof _
      | succ f =>
        have hstep : m (f + 1) (Words.altOf ((w :: w2 :: W).map litSets)) k z cs
            = (m f (litSets w) k z cs).orElse fun _ => m f (Words.altOf ((w2 :: W).map litSets)) k z cs := rfl
        rw [hstep]
        exact Ref.orElse (lit_ref k g hk w f z cs) (ih f z cs)

/-- the text between two zipper positions, as `m` records it for a group -/
def spanOf (z z' : Z) : List Char := (z'.left.take (z'.left.length - z.left.length)).reverse

theorem grp_ref (idx : Nat) (r : Re) (R : K → K)
    (hr : ∀ k g, KRef k g → ∀ fuel z cs, Ref (m fuel r k z cs) (R g z cs))
    (k g : K) (hk : KRef k g) (fuel : Nat) (z : Z) (cs : Caps) :
    Ref (m fuel (.grp idx r) k z cs) (R (fun z' cs' => g z' ((idx, spanOf z z') :: cs')) z cs) := by
  cases fuel with
  | zero => exact Ref.oof _
  | succ f =>
    simp only [m]
    exact hr _ _ (fun z' cs' => hk z' _) f z cs

theorem seq_ref (a b : Re) (A B : K → K)
    (ha : ∀ k g, KRef k g → ∀ fuel z cs, Ref (m fuel a k z cs) (A g z cs))
    (hb : ∀ k g, KRef k g → ∀ fuel z cs, Ref (m fuel b k z cs) (B g z cs))
    (k g : K) (hk : KRef k g) (fuel : Nat) (z : Z) (cs : Caps) :
    Ref (m fuel (.seq a b) k z cs) (A (B g) z cs) := by
  cases fuel with
  | zero => exact Ref.oof _
  | succ f =>
    simp only [m]
    exact ha _ _ (fun z' cs' => hb k g hk f z' cs') f z cs

end NoSurvival
end Netconan
